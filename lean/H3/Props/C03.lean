import H3.Lemmas.ReqRecv
import H3.Lemmas.ReqLift
import H3.Lemmas.ReqPoll
import H3.Lemmas.ReqSplit
import H3.Lemmas.FrameRefSpec
import H3.Drv.C03
/-! # C03 — request streams accept exactly the RFC 9114 §4.1 frame sequences

Model: `H3.ReqRecv` (the request layer of `connection.rs`, `server/request.rs`,
`client/stream.rs` written once against the frame-layer interface `Src`).
Specification: `H3.Spec.ReqSeq` (the recogniser of `U* H (U|D)* (H U*)?`).

The theorems quantify over EVERY frame sequence (`List Tok`, any length; a DATA frame comes with
the pieces in which the frame layer hands out its payload, so every way of cutting a payload is
covered), every ending (`fin`, `truncated` = FIN inside a frame, `reset c`, `open_`) and the
documented call pattern (`documented`: head; `recv_data` until it answers something else than
data; `recv_trailers` if that was `None`).  For `reset` the sequence is the part of the stream
the frame layer delivers before it notices the reset (any prefix: the quantifier covers them
all).  `HdrsOk` (positional): the FIRST HEADERS block of the sequence decodes to a well-formed
message head, the SECOND one to a well-formed trailer section (C11/C12 decide that); nothing is
asked of a block in the other position — a real head carries `:method`/`:status`, which no trailer
section may, so no block is acceptable in both — and nothing of a third HEADERS frame, which is
refused undecoded.  (Until the audit the hypothesis was `HdrOk` for every token — both positions at
once — which no block satisfies under a faithful oracle; `hdrsOk_of_hdrOk`: it implies `HdrsOk`, so
every theorem below implies its former self.)  `TokWF`: pieces are non-empty and do not exceed the
declared length. -/
namespace H3.Props.C03
open H3.ReqRecv H3.Frame H3.Gen.Consts
open H3.Spec.ReqSeq hiding Bytes

/-- the number of frame-layer answers bounds every loop of the run -/
def answers (toks : List Tok) (e : Ending) : Nat := (compile toks e).1.length

/-- Server receive side: for every frame sequence, every ending and the documented call pattern
    the observable outcome of the model (results of the calls with the body bytes concatenated,
    the connection error cell, the RESET_STREAM sent) is one the RFC 9114 §4.1 recogniser accepts:
    body = DATA payloads in order, each byte once (a prefix when the stream is reset / still
    open); end of body only at trailers or FIN; trailers iff present; everything outside the
    language = connection error H3_FRAME_UNEXPECTED; FIN before HEADERS = stream refused. -/
theorem C03_server_recv_spec (H : Hdr) (toks : List Tok) (e : Ending) (fuel : Nat)
    (hwf : ∀ tok ∈ toks, TokWF tok) (hH : HdrsOk H toks) (hfuel : answers toks e + 2 ≤ fuel) :
    (spec .server (toks.map kind) (stopOf e)).accepts
      (observe (documentedFrames .server H fuel toks e)) :=
  recv_spec .server H e toks fuel hwf hH hfuel

/-- Client receive side: the same for `recv_response`.  (FIN before HEADERS and PUSH_PROMISE sent
    to a client are not fixed by the property text, R-03: the recogniser lists the alternatives the
    RFC allows — `clientNoResponse`; connection error H3_FRAME_UNEXPECTED or H3_ID_ERROR — and the
    model's answer, H3_FRAME_UNEXPECTED in both cases, is among them.) -/
theorem C03_client_recv_spec (H : Hdr) (toks : List Tok) (e : Ending) (fuel : Nat)
    (hwf : ∀ tok ∈ toks, TokWF tok) (hH : HdrsOk H toks) (hfuel : answers toks e + 2 ≤ fuel) :
    (spec .client (toks.map kind) (stopOf e)).accepts
      (observe (documentedFrames .client H fuel toks e)) :=
  recv_spec .client H e toks fuel hwf hH hfuel

/-! non-vacuity: a message with grease, an empty DATA frame in the middle, a payload handed out in
    two pieces and trailers; the D-03 witness `HEADERS DATA(0) DATA(5)`; sequences outside the
    language; the endings -/
def allOk : Hdr := ⟨fun _ => .ok, fun _ => .ok⟩
def toks₁ : List Tok :=
  [.unknown 0x21 [], .headers [1, 2], .data 0 [], .data 3 [[10], [11, 12]], .unknown 0x40 [9],
   .headers [7], .unknown 0x21 []]

example : observe (documentedFrames .server allOk 20 toks₁ .fin) =
    { calls := [.head [1, 2], .body [10, 11, 12], .bodyEnd, .trailers [7]] } := by decide
example : (spec .server (toks₁.map kind) .fin).accepts (observe (documentedFrames .server allOk 20 toks₁ .fin)) := by
  decide
example : observe (documentedFrames .server allOk 20 [.headers [1], .data 0 [], .data 5 [[1, 2, 3, 4, 5]]] .fin) =
    { calls := [.head [1], .body [1, 2, 3, 4, 5], .bodyEnd, .noTrailers] } := by decide
example : observe (documentedFrames .client allOk 20 [.headers [1], .data 2 [[8, 9]], .headers [3], .data 0 []] .open_) =
    { calls := [.head [1], .body [8, 9], .bodyEnd, .connError 261], connError := some 261 } := by decide
example : observe (documentedFrames .client allOk 20 [.headers [1], .data 4 [[8, 9]]] (.reset 7)) =
    { calls := [.head [1], .body [8, 9], .resetBy 7] } := by decide
example : observe (documentedFrames .server allOk 20 [.headers [1], .data 4 [[8, 9]]] .truncated) =
    { calls := [.head [1], .body [8, 9], .connError 262], connError := some 262 } := by decide
example : observe (documentedFrames .server allOk 20 [.headers [1], .headers [2]] .open_) =
    { calls := [.head [1], .body [], .bodyEnd, .pending] } := by decide
-- R-03 (client side): explicit alternatives, each of them a failure of the call — never "anything"
example : spec .client [.U] .fin = clientNoResponse := by decide
example : observe (documentedFrames .client allOk 20 [.unknown 0x21 []] .fin) =
    { calls := [.streamError 270] } := by decide
example : spec .client [.H [1], .P, .D [5]] .fin =
    .oneOf [{ calls := [.head [1], .body [], .connError 0x105], connError := some 0x105 },
            { calls := [.head [1], .body [], .connError 0x108], connError := some 0x108 }] := by decide
example : ∀ o, (spec .client [.U] .fin).accepts o → ∃ c, o.calls = [.connError c] ∨ o.calls = [.streamError c] := by
  intro o ho
  simp only [spec, expected, atStop, clientNoResponse, Expect.accepts, List.flatMap_cons, List.flatMap_nil,
    List.append_nil, List.cons_append, List.nil_append, List.mem_cons, List.not_mem_nil, or_false] at ho
  rcases ho with rfl | rfl | rfl | rfl | rfl | rfl | rfl <;>
    first | exact ⟨_, Or.inl rfl⟩ | exact ⟨_, Or.inr rfl⟩

/-! non-vacuity with a FAITHFUL header oracle: the correspondence driver's own `hdrFor role`
    (`lean/H3/Drv/C03.lean`: what the real `qpack::decode_stateless` + `Header::try_from` +
    `into_request_parts` / `into_response_parts` / `into_fields` make of the five blocks the generator
    uses).  It accepts the request block only as a server-side head, the response block only as a
    client-side head, the trailer block only as trailers: NO block is acceptable in both positions, so
    the old hypothesis (`HdrOk` for every token) fails for every sequence with a HEADERS frame, while
    the positional one holds for real messages — with trailers. -/
section Faithful
open H3.Drv.C03 (hdrFor blkRequest blkResponse blkTrailer blkBadQpack)

example (role : Role) (b : Bytes) : ¬ HdrOk (hdrFor role) (.headers b) := by
  rintro ⟨h1, h2⟩
  simp only [hdrFor] at h1 h2
  by_cases hq : (b == blkBadQpack) = true
  · simp [hq] at h1
  · simp only [hq, Bool.false_eq_true, if_false] at h1 h2
    have ht : b = blkTrailer := by
      by_cases hb : (b == blkTrailer) = true
      · simpa using hb
      · simp [hb] at h2
    subst ht
    cases role <;> simp [blkTrailer, blkRequest, blkResponse] at h1

/-- a request with grease, an empty DATA frame, a payload in two pieces, trailers, grease -/
def toksReq : List Tok :=
  [.unknown 0x21 [], .headers blkRequest, .data 0 [], .data 3 [[10], [11, 12]], .unknown 0x40 [9],
   .headers blkTrailer, .unknown 0x21 []]
def toksResp : List Tok :=
  [.headers blkResponse, .data 2 [[8, 9]], .headers blkTrailer]

example : ¬ ∀ tok ∈ toksReq, HdrOk (hdrFor .server) tok := fun h => by
  have := (h (.headers blkRequest) (by simp [toksReq])).2
  revert this; decide
example : HdrsOk (hdrFor .server) toksReq ∧ HdrsOk (hdrFor .client) toksResp := by decide
-- the blocks in the wrong position are NOT acceptable: the hypothesis is really positional
example : ¬ HdrsOk (hdrFor .server) [.headers blkTrailer, .headers blkRequest] := by decide
example : ¬ HdrsOk (hdrFor .client) toksReq := by decide

example : observe (documentedFrames .server (hdrFor .server) 20 toksReq .fin) =
    { calls := [.head blkRequest, .body [10, 11, 12], .bodyEnd, .trailers blkTrailer] } := by decide
example : (spec .server (toksReq.map kind) .fin).accepts
    (observe (documentedFrames .server (hdrFor .server) 20 toksReq .fin)) :=
  C03_server_recv_spec (hdrFor .server) toksReq .fin 20 (by simp [toksReq, TokWF]) (by decide) (by decide)
example : (spec .client (toksResp.map kind) (.reset 7)).accepts
    (observe (documentedFrames .client (hdrFor .client) 20 toksResp (.reset 7))) :=
  C03_client_recv_spec (hdrFor .client) toksResp (.reset 7) 20 (by simp [toksResp, TokWF]) (by decide) (by decide)
example : spec .client (toksResp.map kind) (.reset 7) =
    .oneOf [{ calls := [.head blkResponse, .body [8, 9], .bodyEnd, .resetBy 7] }] := by decide
-- a third HEADERS frame is refused undecoded: nothing is asked of its block
example : HdrsOk (hdrFor .client) (toksResp ++ [.headers blkBadQpack]) := by decide
example : (observe (documentedFrames .client (hdrFor .client) 20 (toksResp ++ [.headers blkBadQpack]) .fin)).connError =
    some 261 := by decide
end Faithful

/-! ### the clauses of the property, spelled out -/

def isU : Tok → Bool
  | .unknown _ _ => true
  | _ => false

/-- unknown frame or complete DATA frame -/
def isUD : Tok → Bool
  | .unknown _ _ => true
  | .data n ps => ps.flatten.length == n
  | _ => false

/-- the DATA payloads of a sequence, concatenated in order -/
def payloads : List Tok → Bytes
  | [] => []
  | .data _ ps :: r => ps.flatten ++ payloads r
  | _ :: r => payloads r

private theorem expected_skip_unknown (side : Side) (p : Phase) (ks : List K) (stop : Stop) :
    ∀ pre : List Tok, (∀ t ∈ pre, isU t = true) →
      expected side p (pre.map kind ++ ks) stop = expected side p ks stop := by
  intro pre
  induction pre with
  | nil => intro _; rfl
  | cons t r ih =>
    intro h
    have ht := h t (by simp)
    cases t <;> simp [isU] at ht
    simp only [List.map_cons, List.cons_append, kind]
    cases p <;> simp only [expected] <;> exact ih (fun x hx => h x (by simp [hx]))

private theorem expected_body (side : Side) (h : Bytes) (ks : List K) (stop : Stop) :
    ∀ (mid : List Tok) (acc : Bytes), (∀ t ∈ mid, isUD t = true) →
      expected side (.body h acc) (mid.map kind ++ ks) stop =
        expected side (.body h (acc ++ payloads mid)) ks stop := by
  intro mid
  induction mid with
  | nil => intro acc _; simp [payloads]
  | cons t r ih =>
    intro acc hm
    have ht := hm t (by simp)
    have hr : ∀ x ∈ r, isUD x = true := fun x hx => hm x (by simp [hx])
    cases t with
    | unknown ty p =>
      simp only [List.map_cons, List.cons_append, kind, expected, payloads]
      exact ih acc hr
    | data n ps =>
      have hn : ¬ ps.flatten.length < n := by
        simp only [isUD, beq_iff_eq] at ht
        omega
      rw [List.map_cons, List.cons_append, kind_data_full hn]
      simp only [expected, payloads]
      rw [ih (acc ++ ps.flatten) hr, List.append_assoc]
    | _ => simp [isUD] at ht

private theorem hdrBlocks_append : ∀ a b : List K, hdrBlocks (a ++ b) = hdrBlocks a ++ hdrBlocks b := by
  intro a
  induction a with
  | nil => intro b; rfl
  | cons k r ih => intro b; cases k <;> simp [hdrBlocks, ih]

private theorem hdrBlocks_noH : ∀ l : List Tok, (∀ t ∈ l, ∀ b, t ≠ .headers b) → hdrBlocks (l.map kind) = [] := by
  intro l
  induction l with
  | nil => intro _; rfl
  | cons t r ih =>
    intro h
    have hk := kind_ne_H t (h t (by simp))
    have hr := ih (fun x hx => h x (by simp [hx]))
    rw [List.map_cons]
    cases hkt : kind t with
    | H b => exact absurd hkt (hk b)
    | _ => simpa [hdrBlocks] using hr

/-- for a message of the language the positional hypothesis is: the head block is an acceptable
    head, the trailer block (if any) an acceptable trailer section -/
theorem hdrsOk_valid (H : Hdr) (pre mid post : List Tok) (h : Bytes) (tr : Option Bytes)
    (hpre : ∀ t ∈ pre, isU t = true) (hmid : ∀ t ∈ mid, isUD t = true) (hpost : ∀ t ∈ post, isU t = true)
    (toks : List Tok)
    (htoks : toks = pre ++ .headers h :: (mid ++ (match tr with | none => [] | some t => .headers t :: post)))
    (hh : H.head h = .ok) (hT : ∀ t, tr = some t → H.trailer t = .ok) : HdrsOk H toks := by
  subst htoks
  have hU : ∀ l : List Tok, (∀ t ∈ l, isU t = true) → ∀ t ∈ l, ∀ b, t ≠ .headers b := by
    intro l hl t ht b hb; subst hb; simpa [isU] using hl _ ht
  have hUD : ∀ t ∈ mid, ∀ b, t ≠ .headers b := by
    intro t ht b hb; subst hb; simpa [isUD] using hmid _ ht
  unfold HdrsOk
  rw [hdrsOkK_iff, List.map_append, hdrBlocks_append, hdrBlocks_noH pre (hU pre hpre), List.map_cons,
    List.map_append]
  simp only [kind, hdrBlocks, List.nil_append]
  rw [hdrBlocks_append, hdrBlocks_noH mid hUD, List.nil_append]
  cases tr with
  | none => exact ⟨hh, trivial⟩
  | some t =>
    simp only [List.map_cons, kind, hdrBlocks]
    exact ⟨hh, hT t rfl⟩

/-- A message of the language — unknown frames, HEADERS, then DATA frames of any length
    (zero included) and unknown frames, then optionally HEADERS followed by unknown frames — ended
    by FIN is delivered whole, in either role: the head; as body exactly the concatenation of the
    DATA payloads (every byte once, in order — a zero-length DATA frame in the middle does not end
    it); end of body; the trailers iff present; no connection error, no reset. -/
theorem C03_valid_message_delivered (role : Role) (H : Hdr) (pre mid post : List Tok) (h : Bytes)
    (tr : Option Bytes) (fuel : Nat)
    (hpre : ∀ t ∈ pre, isU t = true) (hmid : ∀ t ∈ mid, isUD t = true) (hpost : ∀ t ∈ post, isU t = true)
    (toks : List Tok)
    (htoks : toks = pre ++ .headers h :: (mid ++ (match tr with | none => [] | some t => .headers t :: post)))
    (hwf : ∀ tok ∈ toks, TokWF tok) (hh : H.head h = .ok) (hT : ∀ t, tr = some t → H.trailer t = .ok)
    (hfuel : answers toks .fin + 2 ≤ fuel) :
    observe (documentedFrames role H fuel toks .fin) =
      { calls := [.head h, .body (payloads mid), .bodyEnd,
                  (match tr with | none => .noTrailers | some t => .trailers t)]
        connError := none, streamReset := none } := by
  have hHs : HdrsOk H toks := hdrsOk_valid H pre mid post h tr hpre hmid hpost toks htoks hh hT
  have hacc := recv_spec role H .fin toks fuel hwf hHs hfuel
  subst htoks
  rw [List.map_append, expected_skip_unknown _ _ _ _ pre hpre, List.map_cons] at hacc
  simp only [kind, expected, List.map_append] at hacc
  rw [expected_body _ _ _ _ mid [] hmid] at hacc
  cases tr with
  | none =>
    simp only [List.map_nil, expected, atStop, stopOf, Expect.accepts, List.mem_singleton,
      List.nil_append] at hacc
    exact hacc
  | some t =>
    simp only [List.map_cons, kind, expected] at hacc
    have := expected_skip_unknown (sideOf role) (.trailers h ([] ++ payloads mid) t) [] (stopOf .fin) post hpost
    rw [List.append_nil] at this
    rw [this] at hacc
    simp only [expected, atStop, stopOf, Expect.accepts, List.mem_singleton, List.nil_append] at hacc
    exact hacc

example : observe (documentedFrames .client allOk 30 toks₁ .fin) =
    { calls := [.head [1, 2], .body (payloads [.data 0 [], .data 3 [[10], [11, 12]], .unknown 0x40 [9]]),
                .bodyEnd, .trailers [7]] } := by decide

-- with the driver's faithful oracle: a request with trailers (the oracle is asked about the request
-- block as a head and about the trailer block as trailers, nothing else)
example : observe (documentedFrames .server (H3.Drv.C03.hdrFor .server) 30 toksReq .fin) =
    { calls := [.head H3.Drv.C03.blkRequest,
                .body (payloads [.data 0 [], .data 3 [[10], [11, 12]], .unknown 0x40 [9]]), .bodyEnd,
                .trailers H3.Drv.C03.blkTrailer]
      connError := none, streamReset := none } :=
  C03_valid_message_delivered .server (H3.Drv.C03.hdrFor .server) [.unknown 0x21 []]
    [.data 0 [], .data 3 [[10], [11, 12]], .unknown 0x40 [9]] [.unknown 0x21 []] H3.Drv.C03.blkRequest
    (some H3.Drv.C03.blkTrailer) 30 (by simp [isU]) (by decide) (by simp [isU]) toksReq rfl
    (by simp [toksReq, TokWF]) (by decide)
    (by intro t ht; simp only [Option.some.injEq] at ht; subst ht; decide) (by decide)

/-- the recogniser meets a frame that can only be answered with H3_FRAME_UNEXPECTED -/
def violates (side : Side) : Phase → List K → Bool
  | _, [] => false
  | p, .U :: r => violates side p r
  | _, .R :: _ => true
  | _, .X :: _ => true
  | _, .M :: _ => false
  | _, .S :: _ => false
  | _, .W :: _ => false
  | _, .Wpart :: _ => false
  | _, .P :: _ => side == .server
  | .start, .H b :: r => violates side (.body b []) r
  | .start, .D _ :: _ => true
  | .start, .Dpart _ :: _ => true
  | .body h acc, .D p :: r => violates side (.body h (acc ++ p)) r
  | .body _ _, .Dpart _ :: _ => false
  | .body h acc, .H t :: r => violates side (.trailers h acc t) r
  | .trailers _ _ _, .D _ :: _ => true
  | .trailers _ _ _, .Dpart _ :: _ => true
  | .trailers _ _ _, .H _ :: _ => true

private theorem violates_expected (side : Side) (stop : Stop) :
    ∀ (ks : List K) (p : Phase), violates side p ks = true →
      ∀ o, (expected side p ks stop).accepts o →
        o.connError = some H3_FRAME_UNEXPECTED ∧ o.streamReset = none ∧
        o.calls.getLast? = some (.connError H3_FRAME_UNEXPECTED) := by
  intro ks
  induction ks with
  | nil => intro p h; simp [violates] at h
  | cons k r ih =>
    intro p h o ho
    cases k <;> cases p <;> cases side <;>
      simp only [violates, expected, Bool.false_eq_true, beq_self_eq_true, reduceCtorEq, beq_iff_eq] at h ho <;>
      first
        | exact ih _ h o ho
        | (simp only [violation, Expect.accepts, List.map_cons, List.map_nil, List.mem_singleton] at ho
           subst ho
           simp [Phase.seen])

/-- A sequence outside the language — a known frame other than HEADERS first, DATA or HEADERS
    after the trailers, CANCEL_PUSH / SETTINGS / GOAWAY / MAX_PUSH_ID, PUSH_PROMISE sent to a
    server, an HTTP/2-reserved type — is a connection error H3_FRAME_UNEXPECTED: the call that
    meets the frame fails with it, it is what the error cell holds, the stream is not reset —
    whatever follows the offending frame and however the stream ends. -/
theorem C03_invalid_sequence_frame_unexpected (role : Role) (H : Hdr) (toks : List Tok) (e : Ending)
    (fuel : Nat) (hwf : ∀ tok ∈ toks, TokWF tok) (hH : HdrsOk H toks) (hfuel : answers toks e + 2 ≤ fuel)
    (hbad : violates (sideOf role) .start (toks.map kind) = true) :
    let o := observe (documentedFrames role H fuel toks e)
    o.connError = some CODE_H3_FRAME_UNEXPECTED ∧ o.streamReset = none ∧
    o.calls.getLast? = some (.connError CODE_H3_FRAME_UNEXPECTED) :=
  violates_expected (sideOf role) (stopOf e) _ _ hbad _ (recv_spec role H e toks fuel hwf hH hfuel)

example : violates .server .start ([Tok.headers [1], .data 1 [[5]], .goaway 0, .headers [2]].map kind) = true := by decide
example : violates .server .start ([Tok.headers [1], .pushPromise 0 []].map kind) = true := by decide
example : violates .client .start ([Tok.data 0 [], .headers [1]].map kind) = true := by decide
example : violates .client .start ([Tok.headers [1], .headers [2], .unknown 0x21 [], .data 0 []].map kind) = true := by
  decide
example : violates .server .start ([Tok.unknown 0x21 [], .bad (.unsupported 6)].map kind) = true := by decide
example : violates .server .start (toks₁.map kind) = false := by decide
example : (observe (documentedFrames .server allOk 20 [.headers [1], .data 1 [[5]], .goaway 0, .headers [2]] .fin)).connError
    = some 261 := by decide

/-- A request the client finishes before sending any HEADERS (only unknown frames, if anything,
    then FIN): the server refuses it as incomplete — `resolve_request` fails with a stream-level
    error H3_REQUEST_INCOMPLETE, the stream is reset with that code, and the connection error
    cell is untouched (no connection error). -/
theorem C03_fin_before_headers (H : Hdr) (toks : List Tok) (fuel : Nat)
    (hU : ∀ t ∈ toks, isU t = true) :
    documentedFrames .server H fuel toks .fin =
      { head := .errStream CODE_H3_REQUEST_INCOMPLETE
        env := { cell := none, rst := some CODE_H3_REQUEST_INCOMPLETE, stop := none } } := by
  have hc : compile toks .fin = ([], .fin) := by
    induction toks with
    | nil => rfl
    | cons t r ih =>
      have ht := hU t (by simp)
      cases t <;> simp [isU] at ht
      simpa [compile] using ih (fun x hx => hU x (by simp [hx]))
  simp [documentedFrames, TS.ofToks, hc, documented, pollHead, pollResolve, tokSrc, Term.next, first]

example : documentedFrames .server allOk 5 [.unknown 0x21 [1, 2], .unknown 0x40 []] .fin =
    { head := .errStream 269, env := { cell := none, rst := some 269, stop := none } } := by decide
-- ... whereas with the stream still open the call waits, and a frame error is a connection error
example : (documentedFrames .server allOk 5 [.unknown 0x21 []] .open_).head = .pending := by decide
example : (documentedFrames .server allOk 5 [.unknown 0x21 []] .truncated).env.cell = some 262 := by decide

private theorem connErr_ne_pending {σ : Type} (st : St σ) (c : Nat) : (connErr st c).1 ≠ .pending := by
  unfold connErr; split <;> simp

private theorem fsErr_ne_pending {σ : Type} (st : St σ) (o : FOut) : (fsErr st o).1 ≠ .pending := by
  cases o <;> simp [fsErr, connErr_ne_pending]

private theorem decodeTrailers_ne_pending {σ : Type} (H : Hdr) (st : St σ) (enc : Bytes) :
    (decodeTrailers H st enc).1 ≠ .pending := by
  unfold decodeTrailers; split <;> simp [connErr_ne_pending]

/-- The `Pending ⇒ save the trailers and try again` branch of `poll_recv_trailers`: when the look
    at the frame after the trailers has to wait, the trailers are remembered, and the next poll
    resumes exactly at that look (nothing is read twice, nothing is lost) — for any frame layer. -/
theorem C03_trailers_retry {σ : Type} (S : Src σ) (H : Hdr) (st : St σ) (enc : Bytes)
    (hp : (trailersCheck S H st enc).1 = .pending) :
    (trailersCheck S H st enc).2.trailers = some enc ∧
    pollRecvTrailers S H (trailersCheck S H st enc).2 =
      trailersTail S H { (trailersCheck S H st enc).2 with trailers := none } enc := by
  have ht : (trailersCheck S H st enc).2.trailers = some enc := by
    unfold trailersCheck at hp ⊢
    generalize S.pollNext st.src = p at hp ⊢
    obtain ⟨o, s'⟩ := p
    cases o with
    | pending => rfl
    | frame f => exact absurd hp (connErr_ne_pending _ _)
    | none => exact absurd hp (decodeTrailers_ne_pending _ _ _)
    | data d => simp at hp
    | errProto e => exact absurd hp (fsErr_ne_pending _ _)
    | errEnd => exact absurd hp (fsErr_ne_pending _ _)
    | errQuic c => exact absurd hp (fsErr_ne_pending _ _)
    | panic => exact absurd hp (fsErr_ne_pending _ _)
  refine ⟨ht, ?_⟩
  rw [pollRecvTrailers, ht]

example : (trailersCheck tokSrc allOk { src := { items := [], term := .open_ } } [7]).1 = .pending := by decide
example : (pollRecvTrailers tokSrc allOk
    { (trailersCheck tokSrc allOk { src := { items := [], term := .open_ } } [7]).2 with
        src := { items := [], term := .fin } }).1 = .trailers [7] := by decide

/-- Composition with the frame layer. Whatever frame layer `S` (in particular `fsSrc`, the
    `FrameStream` model over any transport script — every chunking, `Pending` anywhere) answers
    like the token source on `toks`/`e` — hypothesis `FrameSim`, the facts C02 provides: the frames
    and their payload bytes are a function of the bytes on the wire only, `is_eos` is sound —
    gives the documented call pattern the very same trace, hence an outcome the recogniser
    accepts. -/
theorem C03_lifted_to_chunks {σ : Type} (S : Src σ) (R : σ → TS → Prop) (sim : FrameSim S tokSrc R)
    (role : Role) (H : Hdr) (c : σ) (toks : List Tok) (e : Ending) (fuel : Nat)
    (hR : R c (TS.ofToks toks e))
    (hwf : ∀ tok ∈ toks, TokWF tok) (hH : HdrsOk H toks) (hfuel : answers toks e + 2 ≤ fuel) :
    documented role S H fuel { src := c } = documentedFrames role H fuel toks e ∧
    (spec (sideOf role) (toks.map kind) (stopOf e)).accepts
      (observe (documented role S H fuel { src := c })) := by
  have h : documented role S H fuel { src := c } = documentedFrames role H fuel toks e :=
    same_documented sim tokSrc_hdrNoData role H fuel (x := { src := c }) (y := { src := TS.ofToks toks e })
      ⟨hR, rfl, rfl⟩ rfl
  refine ⟨h, ?_⟩
  rw [h]
  exact recv_spec role H e toks fuel hwf hH hfuel

/-! non-vacuity of the hypothesis: for a concrete transport script (three chunks cutting frame
    headers and a payload, then FIN) the relation "reachable together" between the `FrameStream`
    model and the token source IS a `FrameSim` (checked by kernel evaluation), so the theorem
    applies to the real frame-layer model; and directly: both layers composed give the trace of
    the frame-level model. -/
deriving instance DecidableEq for H3.FS.Out

def script₁ : List H3.FS.Ev :=
  [.chunk [0x01, 0x02, 0xaa, 0xbb, 0x00, 0x00, 0x00], .chunk [0x02, 0xc1], .chunk [0xc2, 0x21, 0x00], .fin]
def toksS : List Tok := [.headers [0xaa, 0xbb], .data 0 [], .data 2 [[0xc1], [0xc2]], .unknown 0x21 []]

/-- pairs of states reached from a pair by one call on both sides -/
def succs (p : FSt × TS) : List (FSt × TS) :=
  [((fsSrc.pollNext p.1).2, (tokSrc.pollNext p.2).2), ((fsSrc.pollData p.1).2, (tokSrc.pollData p.2).2)] ++
  (if fsSrc.isEos p.1 && !tokSrc.hasData p.2 then [(p.1, (tokSrc.pollNext p.2).2)] else [])

def addNew (acc : List (FSt × TS)) : List (FSt × TS) → List (FSt × TS)
  | [] => acc
  | p :: r => if acc.contains p then addNew acc r else addNew (acc ++ [p]) r

def close : Nat → List (FSt × TS) → List (FSt × TS)
  | 0, l => l
  | n+1, l => close n (addNew l (l.flatMap succs))

def pairsOf (script : List H3.FS.Ev) (toks : List Tok) (e : Ending) : List (FSt × TS) :=
  close 8 [(({}, script), TS.ofToks toks e)]

def RpOf (script : List H3.FS.Ev) (toks : List Tok) (e : Ending) (c : FSt) (a : TS) : Prop :=
  (c, a) ∈ pairsOf script toks e
instance (script : List H3.FS.Ev) (toks : List Tok) (e : Ending) (c : FSt) (a : TS) :
    Decidable (RpOf script toks e c a) := by unfold RpOf; exact inferInstance

/-- the obligations of `FrameSim` for a finite relation, each one decidable -/
def chkHasData (ps : List (FSt × TS)) : Prop := ∀ p ∈ ps, fsSrc.hasData p.1 = tokSrc.hasData p.2
def chkNext (ps : List (FSt × TS)) : Prop :=
  ∀ p ∈ ps, (fsSrc.pollNext p.1).1 = (tokSrc.pollNext p.2).1 ∧
    ((fsSrc.pollNext p.1).2, (tokSrc.pollNext p.2).2) ∈ ps
def chkData (ps : List (FSt × TS)) : Prop :=
  ∀ p ∈ ps, (fsSrc.pollData p.1).1 = (tokSrc.pollData p.2).1 ∧
    ((fsSrc.pollData p.1).2, (tokSrc.pollData p.2).2) ∈ ps
def chkEos (ps : List (FSt × TS)) : Prop :=
  ∀ p ∈ ps, fsSrc.isEos p.1 = true → tokSrc.hasData p.2 = false →
    (tokSrc.pollNext p.2).1 = .none ∧ (p.1, (tokSrc.pollNext p.2).2) ∈ ps
instance (ps : List (FSt × TS)) : Decidable (chkHasData ps) := by unfold chkHasData; exact inferInstance
instance (ps : List (FSt × TS)) : Decidable (chkNext ps) := by unfold chkNext; exact inferInstance
instance (ps : List (FSt × TS)) : Decidable (chkData ps) := by unfold chkData; exact inferInstance
instance (ps : List (FSt × TS)) : Decidable (chkEos ps) := by unfold chkEos; exact inferInstance

def simChecks (ps : List (FSt × TS)) : Prop := chkHasData ps ∧ chkNext ps ∧ chkData ps ∧ chkEos ps
instance (ps : List (FSt × TS)) : Decidable (simChecks ps) := by unfold simChecks; exact inferInstance

theorem sim_of_checks (script : List H3.FS.Ev) (toks : List Tok) (e : Ending)
    (h : simChecks (pairsOf script toks e)) : FrameSim fsSrc tokSrc (RpOf script toks e) where
  hasData := fun c a hR => h.1 (c, a) hR
  next := fun c a hR => h.2.1 (c, a) hR
  data := fun c a hR => h.2.2.1 (c, a) hR
  eosL := fun c a hR h1 _ h3 => h.2.2.2 (c, a) hR h1 h3
  eosR := by
    intro c a _ _ h
    simp at h

theorem simS : FrameSim fsSrc tokSrc (RpOf script₁ toksS .fin) :=
  sim_of_checks _ _ _ (by decide +kernel)

example : (spec .server (toksS.map kind) .fin).accepts
    (observe (documented .server fsSrc allOk 20 { src := ({}, script₁) })) :=
  (C03_lifted_to_chunks fsSrc _ simS .server allOk ({}, script₁) toksS .fin 20 (by decide +kernel)
    (by simp [toksS, TokWF]) (by decide) (by decide)).2

/-- a DATA frame cut short by FIN (FIN read with the frame header): the frame layer hands out
    nothing of the payload, then `UnexpectedEnd`; `is_eos` is true there with data outstanding -/
def script₂ : List H3.FS.Ev := [.chunk [0x01, 0x01, 0xaa, 0x00, 0x03, 0xb1, 0xb2], .fin]
def toksT : List Tok := [.headers [0xaa], .data 3 []]

theorem simT : FrameSim fsSrc tokSrc (RpOf script₂ toksT .truncated) :=
  sim_of_checks _ _ _ (by decide +kernel)

example : observe (documented .server fsSrc allOk 20 { src := ({}, script₂) }) =
    { calls := [.head [0xaa], .body [], .connError 262], connError := some 262 } := by
  rw [(C03_lifted_to_chunks fsSrc _ simT .server allOk ({}, script₂) toksT .truncated 20 (by decide +kernel)
    (by simp [toksT, TokWF]) (by decide) (by decide)).1]
  decide

example : documentedChunks .server allOk script₁ = documentedFrames .server allOk 20 toksS .fin := by
  decide +kernel
-- the same bytes cut per byte, FIN in a later poll; RESET noticed with the DATA header still buffered
example : documentedChunks .client allOk
    [.chunk [0x01], .chunk [0x02], .chunk [0xaa], .chunk [0xbb], .chunk [0x00], .chunk [0x02], .chunk [0xc1],
     .chunk [0xc2], .fin] = documentedFrames .client allOk 20 [.headers [0xaa, 0xbb], .data 2 [[0xc1], [0xc2]]] .fin := by
  decide +kernel
example : documentedChunks .server allOk [.chunk [0x01, 0x02, 0xaa, 0xbb, 0x00, 0x02, 0xc1], .reset 9] =
    documentedFrames .server allOk 20 [.headers [0xaa, 0xbb]] (.reset 9) := by
  decide +kernel

/-! ## The lifting to chunks, unconditionally

`C03_lifted_to_chunks` above needs a simulation between the frame layer and the token source as a
hypothesis.  For the `FrameStream` model (`fsSrc`) it is discharged here from the C02 invariant, for
EVERY transport script.  Two remarks on the shape of the statement.

* A `FrameSim` in the strict sense cannot exist once the script has a `Pending` before more data
  (`C03_strict_sim_impossible`): the model answers `Pending` and later a frame, the token source
  repeats its ending for ever.  The documented pattern never calls the frame layer again after
  `Pending` or an error, so the simulation that is proved — `FrameSimP`, `liftR_sim` — asks for
  related successors only after a frame, a data piece or `None`; every `FrameSim` is a `FrameSimP`
  (`FrameSim.toP`) and `same_documentedP` gives for `FrameSimP` what `same_documented` gives for
  `FrameSim`.  With a `Pending` in the middle the frame sequence `toks` is what the frame layer
  delivers up to that `Pending`, and the ending is `open_` — exactly what the application sees.
* The pieces in which a DATA payload is handed out, and how much of a payload cut short by FIN or
  RESET is handed out at all, depend on the chunking (C02), so `toks` is a function of the script;
  what does not depend on it is stated by `Tied`: flattened to byte granularity the answers
  `compile toks e` are the tokens of the reference automaton `run frameDec` over the bytes taken
  from the transport — all of them when the ending is `fin`, `open_`, a protocol error or a
  truncation inside a frame header or non-DATA payload; all but possibly some of the last payload
  bytes for a truncation inside DATA; a prefix for `reset`. -/

open H3.FS (ScriptOK evBytes run frameDec upToFin)

/-- The general simulation: the `FrameStream` model over a transport script, in any configuration
    satisfying the C02 invariant, answers `has_data`/`poll_next`/`poll_data`/`is_eos` like the
    token source that holds the model's own future answers (`LiftR`), as long as the documented
    pattern goes on; and for every script of non-empty chunks without a WebTransport header the
    initial configuration is related to the token source of a well-formed frame sequence tied to
    the bytes of the script. -/
theorem C03_frame_layer_simulation :
    FrameSimP fsSrc tokSrc LiftR ∧
    ∀ sc : List H3.FS.Ev, ScriptOK sc → NoRaw (evBytes (upToFin sc)) →
      ∃ toks e, LiftR ({}, sc) (TS.ofToks toks e) ∧ (∀ tok ∈ toks, TokWF tok) ∧ Tied sc toks e := by
  refine ⟨liftR_sim, fun sc hsc hraw => ?_⟩
  obtain ⟨toks, e, hR, hwf, _, _, htied⟩ := lift_exists sc hsc hraw
  exact ⟨toks, e, hR, hwf, htied⟩

/-- **The lifting, closed.**  For every role, every header oracle `H`, every transport script `sc`
    of non-empty chunks (ANY cutting of the bytes, `Pending` anywhere, FIN / RESET anywhere or
    neither) whose bytes before the first FIN carry no WebTransport header at a frame position
    (`NoRaw`, a decidable condition on the byte string, `C03_noraw_of_framing_spec`) and whose
    HEADERS blocks are acceptable to the oracle IN THEIR POSITIONS (`hH`: of the blocks the
    reference automaton finds in these bytes the first is a well-formed head, the second a
    well-formed trailer section — `HdrsOkK` on the recogniser's input `kindsOf …`):
    there is a frame sequence `toks` with ending `e`, well formed, with acceptable blocks
    (`HdrsOk`; its HEADERS frames are HEADERS frames of the bytes) and tied to the bytes of the
    script (`Tied`), such that the documented call pattern over the chunked frame layer —
    `documentedChunks`, and `documented role fsSrc` with any fuel — gives exactly the trace of the
    frame-level model on `toks`/`e`; hence its observed outcome is one the RFC 9114 §4.1 recogniser
    accepts for `toks`.  No simulation hypothesis is left. -/
theorem C03_lifted_to_chunks_closed (role : Role) (H : Hdr) (sc : List H3.FS.Ev)
    (hsc : ScriptOK sc) (hraw : NoRaw (evBytes (upToFin sc)))
    (hH : HdrsOkK H .head (kindsOf (run frameDec (.hdr []) (evBytes (upToFin sc))).2)) :
    ∃ toks e, Tied sc toks e ∧ (∀ tok ∈ toks, TokWF tok) ∧ HdrsOk H toks ∧
      (∀ b, Tok.headers b ∈ toks →
        H3.FS.Tok.frame (.headers b) ∈ (run frameDec (.hdr []) (evBytes (upToFin sc))).2) ∧
      documentedChunks role H sc = documentedFrames role H (fsFuel ({}, sc)) toks e ∧
      (spec (sideOf role) (toks.map kind) (stopOf e)).accepts (observe (documentedChunks role H sc)) ∧
      ∀ fuel, documented role fsSrc H fuel { src := ({}, sc) } = documentedFrames role H fuel toks e := by
  obtain ⟨toks, e, hR, hwf, hfuel, hhdr, htied⟩ := lift_exists sc hsc hraw
  have hok : HdrsOk H toks := tied_hdrsOk H htied hH
  have hmem : ∀ b, Tok.headers b ∈ toks →
      H3.FS.Tok.frame (.headers b) ∈ (run frameDec (.hdr []) (evBytes (upToFin sc))).2 := by
    intro b htok
    obtain ⟨more, hm⟩ := tied_prefix htied
    rw [← hm]
    exact List.mem_append_left _ (hhdr b htok)
  have hdoc : ∀ fuel, documented role fsSrc H fuel { src := ({}, sc) } =
      documentedFrames role H fuel toks e := fun fuel =>
    same_documentedP liftR_sim tokSrc_hdrNoData role H fuel (x := { src := ({}, sc) })
      (y := { src := TS.ofToks toks e }) ⟨fun _ => hR, rfl, rfl⟩ rfl
  refine ⟨toks, e, htied, hwf, hok, hmem, hdoc _, ?_, hdoc⟩
  show (spec (sideOf role) (toks.map kind) (stopOf e)).accepts
    (observe (documented role fsSrc H (fsFuel ({}, sc)) { src := ({}, sc) }))
  rw [hdoc]
  exact recv_spec role H e toks _ hwf hok hfuel

/-! non-vacuity of `C03_lifted_to_chunks_closed`: the hypotheses hold for concrete scripts (`NoRaw`
    is decided by evaluating the reference automaton), e.g. `script₁` above, and a script with a `Pending` in the middle, where the documented pattern stops at the
    first `Pending` answer -/
example : ScriptOK script₁ ∧ NoRaw (evBytes (upToFin script₁)) := by
  refine ⟨?_, by decide +kernel⟩
  intro b hb
  simp [script₁] at hb
  rcases hb with rfl | rfl | rfl <;> simp

example : ∃ toks e, Tied script₁ toks e ∧ (∀ tok ∈ toks, TokWF tok) ∧ HdrsOk allOk toks ∧
    (∀ b, Tok.headers b ∈ toks →
      H3.FS.Tok.frame (.headers b) ∈ (run frameDec (.hdr []) (evBytes (upToFin script₁))).2) ∧
    documentedChunks .server allOk script₁ = documentedFrames .server allOk (fsFuel ({}, script₁)) toks e ∧
    (spec .server (toks.map kind) (stopOf e)).accepts (observe (documentedChunks .server allOk script₁)) ∧
    ∀ fuel, documented .server fsSrc allOk fuel { src := ({}, script₁) } =
      documentedFrames .server allOk fuel toks e :=
  C03_lifted_to_chunks_closed .server allOk script₁
    (by intro b hb; simp [script₁] at hb; rcases hb with rfl | rfl | rfl <;> simp)
    (by decide +kernel) (by decide +kernel)

def script₃ : List H3.FS.Ev :=
  [.chunk [0x01], .chunk [0x02, 0xaa, 0xbb], .pend, .chunk [0x00, 0x02, 0xc1, 0xc2], .fin]

example : observe (documentedChunks .server allOk script₃) =
    { calls := [.head [0xaa, 0xbb], .body [], .pending] } := by decide +kernel
example : ∃ toks e, Tied script₃ toks e ∧ (∀ tok ∈ toks, TokWF tok) ∧ HdrsOk allOk toks ∧
    (∀ b, Tok.headers b ∈ toks →
      H3.FS.Tok.frame (.headers b) ∈ (run frameDec (.hdr []) (evBytes (upToFin script₃))).2) ∧
    documentedChunks .client allOk script₃ = documentedFrames .client allOk (fsFuel ({}, script₃)) toks e ∧
    (spec .client (toks.map kind) (stopOf e)).accepts (observe (documentedChunks .client allOk script₃)) ∧
    ∀ fuel, documented .client fsSrc allOk fuel { src := ({}, script₃) } =
      documentedFrames .client allOk fuel toks e :=
  C03_lifted_to_chunks_closed .client allOk script₃
    (by intro b hb; simp [script₃] at hb; rcases hb with rfl | rfl | rfl <;> simp)
    (by decide +kernel) (by decide +kernel)
-- a WebTransport header at a frame position is what `NoRaw` excludes
example : ¬ NoRaw [0x01, 0x00, 0x40, 0x41, 0x04, 0xaa] := by decide +kernel

/-- The side condition `NoRaw` in RFC terms: it holds for every well-formed byte string on which the
    RFC 9114 §7.1 oracle of C02 (`Spec.Framing.observe`, either ending) does not say `outside` —
    i.e. which has no frame of type 0x41 (the WebTransport stream signal) at a frame position. -/
theorem C03_noraw_of_framing_spec (w : List Nat) (e : H3.Spec.Framing.Ending) (hwf : H3.Varint.WF w)
    (hno : H3.Spec.Framing.Tok.outside ∉ H3.Spec.Framing.observe (w.length + 1) w e) : NoRaw w :=
  H3.Spec.Framing.agree_noraw (H3.Spec.Framing.reference_is_spec w e hwf hno)

example : NoRaw [0x01, 0x02, 0xaa, 0xbb, 0x00, 0x01, 0xc1] :=
  C03_noraw_of_framing_spec _ .fin (by intro b hb; simp at hb; omega) (by decide +kernel)

/-- **The same for every chunking: FIN on a frame boundary.**  The wire bytes `w`, cut into
    non-empty chunks in ANY way (`pre`: chunks only, `evBytes pre = w`), then FIN (whatever the
    script says behind it is never looked at).  If `w` is a sequence of complete frames (the
    reference automaton stands at a frame boundary; no WebTransport header; of the HEADERS blocks
    found in `w` the first is an acceptable head and the second an acceptable trailer section) then the observed outcome of the documented pattern over
    the chunked frame layer is one the RFC 9114 §4.1 recogniser accepts for the frame kinds read
    off the reference automaton's tokens over `w` (`kindsOf`), ended by FIN.  The right-hand side
    mentions neither the chunking nor the frame layer: the outcome (head, body bytes, end of body,
    trailers, or the connection error / stream refusal) is a function of the bytes alone. -/
theorem C03_chunked_outcome_fin (role : Role) (H : Hdr) (pre post : List H3.FS.Ev)
    (hpre : OnlyChunks pre) (hsc : ScriptOK (pre ++ .fin :: post)) (hraw : NoRaw (evBytes pre))
    (hH : HdrsOkK H .head (kindsOf (run frameDec (.hdr []) (evBytes pre)).2))
    (hclean : (run frameDec (.hdr []) (evBytes pre)).1 = .hdr []) :
    (spec (sideOf role) (kindsOf (run frameDec (.hdr []) (evBytes pre)).2) .fin).accepts
      (observe (documentedChunks role H (pre ++ .fin :: post))) := by
  have hfin : H3.FS.Ev.fin ∉ pre := fun hm => by obtain ⟨b, hb⟩ := hpre _ hm; cases hb
  have hup : upToFin (pre ++ .fin :: post) = pre := H3.FS.upToFin_fin pre post hfin
  obtain ⟨toks, e, htied, _, _, _, _, hacc, _⟩ :=
    C03_lifted_to_chunks_closed role H (pre ++ .fin :: post) hsc (by rw [hup]; exact hraw)
      (by rw [hup]; exact hH)
  obtain ⟨he, hk⟩ := tied_fin_exact hpre htied hclean
  rw [he, hk] at hacc
  exact hacc

/-- **The same for every chunking: stream still open.**  The bytes `w` received so far, cut into
    non-empty chunks in ANY way, nothing else yet (no FIN, no RESET), no protocol error in `w`: the
    observed outcome is one the recogniser accepts for the frame kinds read off the reference
    automaton's tokens over `w`, stream still open — every complete frame of `w` has been acted on
    (and every payload byte of a DATA frame still arriving has been handed out), the call in
    progress is pending. -/
theorem C03_chunked_outcome_open (role : Role) (H : Hdr) (sc : List H3.FS.Ev)
    (hch : OnlyChunks sc) (hsc : ScriptOK sc) (hraw : NoRaw (evBytes sc))
    (hH : HdrsOkK H .head (kindsOf (run frameDec (.hdr []) (evBytes sc)).2))
    (hlive : (run frameDec (.hdr []) (evBytes sc)).1 ≠ .dead) :
    (spec (sideOf role) (kindsOf (run frameDec (.hdr []) (evBytes sc)).2) .open_).accepts
      (observe (documentedChunks role H sc)) := by
  have hfin : H3.FS.Ev.fin ∉ sc := fun hm => by obtain ⟨b, hb⟩ := hch _ hm; cases hb
  have hup : upToFin sc = sc := by
    have := H3.FS.upToFin_append_of_not_mem sc [] hfin
    simpa [upToFin] using this
  obtain ⟨toks, e, htied, _, _, _, _, hacc, _⟩ :=
    C03_lifted_to_chunks_closed role H sc hsc (by rw [hup]; exact hraw) (by rw [hup]; exact hH)
  obtain ⟨he, hk⟩ := tied_open_exact hch htied hlive
  rw [he, hk] at hacc
  exact hacc

/-! non-vacuity: the eleven bytes of `script₁` (HEADERS, DATA(0), DATA(2), a grease frame) in three
    cuttings; the recogniser's input and its verdict are computed from the bytes alone -/
def wire₁ : List Nat := [0x01, 0x02, 0xaa, 0xbb, 0x00, 0x00, 0x00, 0x02, 0xc1, 0xc2, 0x21, 0x00]
example : kindsOf (run frameDec (.hdr []) wire₁).2 = [.H [0xaa, 0xbb], .D [], .D [0xc1, 0xc2]] ∧
    (run frameDec (.hdr []) wire₁).1 = .hdr [] := by decide +kernel
example : spec .server (kindsOf (run frameDec (.hdr []) wire₁).2) .fin =
    .oneOf [{ calls := [.head [0xaa, 0xbb], .body [0xc1, 0xc2], .bodyEnd, .noTrailers] }] := by
  decide +kernel
example (post : List H3.FS.Ev) (hpost : ScriptOK post) :
    (spec .server (kindsOf (run frameDec (.hdr []) wire₁).2) .fin).accepts
      (observe (documentedChunks .server allOk
        ([.chunk [0x01, 0x02, 0xaa], .chunk [0xbb, 0x00, 0x00, 0x00, 0x02, 0xc1], .chunk [0xc2, 0x21, 0x00]] ++
          .fin :: post))) :=
  C03_chunked_outcome_fin .server allOk
    [.chunk [0x01, 0x02, 0xaa], .chunk [0xbb, 0x00, 0x00, 0x00, 0x02, 0xc1], .chunk [0xc2, 0x21, 0x00]] post
    (by intro ev hev; simp at hev; rcases hev with rfl | rfl | rfl <;> exact ⟨_, rfl⟩)
    (by
      intro b hb
      simp at hb
      rcases hb with rfl | rfl | rfl | hb
      · simp
      · simp
      · simp
      · exact hpost b hb)
    (by decide +kernel) (by decide +kernel) (by decide +kernel)
example : observe (documentedChunks .server allOk
    [.chunk [0x01], .chunk [0x02], .chunk [0xaa, 0xbb, 0x00, 0x00, 0x00], .chunk [0x02, 0xc1, 0xc2, 0x21], .chunk [0x00],
      .fin]) = { calls := [.head [0xaa, 0xbb], .body [0xc1, 0xc2], .bodyEnd, .noTrailers] } := by
  decide +kernel
-- still open after the first nine bytes: DATA(2) has delivered one byte, the call is pending
example : spec .client (kindsOf (run frameDec (.hdr []) (wire₁.take 9)).2) .open_ =
    .oneOf [{ calls := [.head [0xaa, 0xbb], .body [0xc1], .pending] }] := by decide +kernel
example : (spec .client (kindsOf (run frameDec (.hdr []) (wire₁.take 9)).2) .open_).accepts
    (observe (documentedChunks .client allOk [.chunk [0x01, 0x02], .chunk [0xaa, 0xbb, 0x00, 0x00, 0x00, 0x02, 0xc1]])) :=
  C03_chunked_outcome_open .client allOk [.chunk [0x01, 0x02], .chunk [0xaa, 0xbb, 0x00, 0x00, 0x00, 0x02, 0xc1]]
    (by intro ev hev; simp at hev; rcases hev with rfl | rfl <;> exact ⟨_, rfl⟩)
    (by intro b hb; simp at hb; rcases hb with rfl | rfl <;> simp)
    (by decide +kernel) (by decide +kernel) (by decide +kernel)

/-! the same with the driver's faithful oracle and a request WITH trailers on the wire: HEADERS
    (the request block), DATA(2), HEADERS (the trailer block), a grease frame — cut in three places -/
def wireReq : List Nat :=
  [0x01, 0x0d] ++ H3.Drv.C03.blkRequest ++ [0x00, 0x02, 0xc1, 0xc2] ++ [0x01, 0x06] ++ H3.Drv.C03.blkTrailer ++
    [0x21, 0x00]
def cutReq : List H3.FS.Ev := [.chunk (wireReq.take 5), .chunk ((wireReq.drop 5).take 13), .chunk (wireReq.drop 18)]

example : evBytes cutReq = wireReq := by decide +kernel
example : spec .server (kindsOf (run frameDec (.hdr []) (evBytes cutReq)).2) .fin =
    .oneOf [{ calls := [.head H3.Drv.C03.blkRequest, .body [0xc1, 0xc2], .bodyEnd, .trailers H3.Drv.C03.blkTrailer] }] := by
  decide +kernel
example : (spec .server (kindsOf (run frameDec (.hdr []) (evBytes cutReq)).2) .fin).accepts
    (observe (documentedChunks .server (H3.Drv.C03.hdrFor .server) (cutReq ++ .fin :: []))) :=
  C03_chunked_outcome_fin .server (H3.Drv.C03.hdrFor .server) cutReq []
    (by decide +kernel) (by decide +kernel) (by decide +kernel) (by decide +kernel) (by decide +kernel)
-- the client's oracle refuses the request block as a head: the hypothesis fails, as it should
example : ¬ HdrsOkK (H3.Drv.C03.hdrFor .client) .head (kindsOf (run frameDec (.hdr []) (evBytes cutReq)).2) := by
  decide +kernel

/-! ## Re-polling: every schedule of deliveries and polls

`documented` / `documentedChunks` stop at the first call that answers `Pending`, so the theorems
above say what the application has been given up to that point.  A real task is polled again when
more has arrived.  In the `FrameStream` model a schedule of deliveries and polls is a script with
`pend` events anywhere: a `pend` is a poll of the transport that finds nothing new (the model
answers `Pending` there exactly as on an exhausted script: `C03_pend_is_empty_poll`) and the next
poll finds what has been delivered meanwhile.  `documentedPolledChunks role H sc` runs the
documented pattern over such a script with EVERY call polled again while it answers `Pending` and
the script has events left (`documentedR`, `retry`): the re-poll starts the call over from its
first line — `poll_recv_data` re-enters its loop, `poll_recv_trailers` finds the trailers it saved —
with whatever the previous poll left in the stream object.  A `Pending` in the resulting trace is
the last word: nothing more will ever arrive.

Proof (`Lemmas/ReqRetry.lean`, `Lemmas/ReqPoll.lean`, `Lemmas/FrameStreamPend.lean`): (1) for any
frame layer with inert `Pending` answers (`PendLaws`; `fsLaws` for the model) re-polling a call is
ONE poll of the call over the frame layer whose `poll_next`/`poll_data` wait (`retry_pollHead`,
`retry_pollRecvData`, `retry_pollRecvTrailers`, `documentedR_eq`); (2) the waiting model answers like
the token source holding its future answers (`FutS`, `futS_exists` by the C02 invariant and gA2's
measure `mu`, `liftRS_sim : FrameSimP waitSrc tokSrc LiftRS`), so `same_documentedP` and `recv_spec`
apply as they do for the one-shot pattern; (3) the ending `open_` now means "script used up", which
makes the frame sequence a function of the bytes for FIN / still-open streams whatever the
schedule (`tiedS_fin_exact`, `tiedS_open_exact`). -/

open H3.ReqRecv (documentedPolledChunks NoEnd TiedS)

/-- a `pend` event is a poll that finds nothing new: the model answers exactly as it does on an
    exhausted script (same answer, same state) -/
theorem C03_pend_is_empty_poll (s : H3.FS.St) (r : List H3.FS.Ev) :
    (H3.FS.pollNext frameDec s (.pend :: r)).1 = (H3.FS.pollNext frameDec s []).1 ∧
    (H3.FS.pollNext frameDec s (.pend :: r)).2.1 = (H3.FS.pollNext frameDec s []).2.1 ∧
    (H3.FS.pollData (F := Frame) (E := FrameErr) s (.pend :: r)).1 =
      (H3.FS.pollData (F := Frame) (E := FrameErr) s []).1 ∧
    (H3.FS.pollData (F := Frame) (E := FrameErr) s (.pend :: r)).2.1 =
      (H3.FS.pollData (F := Frame) (E := FrameErr) s []).2.1 := by
  have hnext : (H3.FS.pollNextLoop frameDec s (.pend :: r)).1 = (H3.FS.pollNextLoop frameDec s []).1 ∧
      (H3.FS.pollNextLoop frameDec s (.pend :: r)).2.1 = (H3.FS.pollNextLoop frameDec s []).2.1 := by
    rw [H3.FS.pollNextLoop, H3.FS.pollNextLoop]
    by_cases he : s.eos = true
    · rw [if_pos he, if_pos he]
      cases H3.FS.afterRecv frameDec s .eos with
      | none => exact ⟨rfl, rfl⟩
      | some p => exact ⟨rfl, rfl⟩
    · rw [if_neg he, if_neg he]
      cases H3.FS.afterRecv frameDec s .pending with
      | none => exact ⟨rfl, rfl⟩
      | some p => exact ⟨rfl, rfl⟩
  have hdata : (H3.FS.pollData (F := Frame) (E := FrameErr) s (.pend :: r)).1 =
        (H3.FS.pollData (F := Frame) (E := FrameErr) s []).1 ∧
      (H3.FS.pollData (F := Frame) (E := FrameErr) s (.pend :: r)).2.1 =
        (H3.FS.pollData (F := Frame) (E := FrameErr) s []).2.1 := by
    unfold H3.FS.pollData
    by_cases h0 : s.remaining = 0
    · rw [if_pos h0, if_pos h0]
      exact ⟨rfl, rfl⟩
    · rw [if_neg h0, if_neg h0]
      unfold H3.FS.recvForData
      by_cases he : s.eos = true
      · rw [if_pos he, if_pos he]
        simp only
        cases H3.FS.takeChunk s.remaining s.buf with
        | mk od buf' =>
          cases od with
          | none =>
            simp only
            by_cases hm : s.remaining ≠ H3.FS.USIZE_MAX
            · simp [hm]
            · simp [hm]
          | some d => simp only; split <;> exact ⟨rfl, rfl⟩
      · rw [if_neg he, if_neg he]
        simp only
        cases H3.FS.takeChunk s.remaining s.buf with
        | mk od buf' =>
          cases od with
          | none => exact ⟨rfl, rfl⟩
          | some d => simp only; split <;> exact ⟨rfl, rfl⟩
  refine ⟨?_, ?_, hdata.1, hdata.2⟩
  · unfold H3.FS.pollNext
    split
    · rfl
    · exact hnext.1
  · unfold H3.FS.pollNext
    split
    · rfl
    · exact hnext.2

/-- **Re-polling, every frame sequence, every ending, every schedule.**  For every role, header
    oracle and transport script `sc` of non-empty chunks — ANY frame sequence, valid or not; ANY
    cutting; `pend` anywhere = any schedule of deliveries and polls; FIN (on a frame boundary or
    inside a frame), RESET, or neither, anywhere — without a WebTransport header (`NoRaw`) and whose
    HEADERS blocks are acceptable in their positions: with every call of the documented pattern
    polled again while it answers `Pending` and events are left, the trace is exactly that of the
    frame-level model on a frame sequence `toks`/`e` tied to the bytes of the script (`TiedS`: the
    frame-layer answers are the reference automaton's tokens over the bytes taken from the
    transport — all of them for FIN and for a stream still open with the script used up; all but
    possibly some of the last payload bytes for FIN inside DATA; a prefix for RESET — and the ending
    `open_` occurs only with the script used up), hence the observed outcome is one the RFC 9114 §4.1
    recogniser accepts for `toks`. -/
theorem C03_polled_lifted_closed (role : Role) (H : Hdr) (sc : List H3.FS.Ev)
    (hsc : ScriptOK sc) (hraw : NoRaw (evBytes (upToFin sc)))
    (hH : HdrsOkK H .head (kindsOf (run frameDec (.hdr []) (evBytes (upToFin sc))).2)) :
    ∃ toks e, TiedS sc toks e ∧ (∀ tok ∈ toks, TokWF tok) ∧ HdrsOk H toks ∧
      documentedPolledChunks role H sc = documentedFrames role H (fsFuel ({}, sc)) toks e ∧
      (spec (sideOf role) (toks.map kind) (stopOf e)).accepts (observe (documentedPolledChunks role H sc)) := by
  obtain ⟨toks, e, hR, hwf, hfuel, htied⟩ := liftS_exists sc hsc hraw
  have hok : HdrsOk H toks := tied_hdrsOk H htied.tied hH
  have hdoc : documented role waitSrc H (fsFuel ({}, sc)) { src := ({}, sc) } =
      documentedFrames role H (fsFuel ({}, sc)) toks e :=
    same_documentedP liftRS_sim tokSrc_hdrNoData role H _ (x := { src := ({}, sc) })
      (y := { src := TS.ofToks toks e }) ⟨fun _ => hR, rfl, rfl⟩ rfl
  have hpoll : documentedPolledChunks role H sc = documentedFrames role H (fsFuel ({}, sc)) toks e := by
    rw [← hdoc]
    exact documentedR_eq fsLaws role H _ _ _ _ (by simp [flen]) (Nat.le_refl _)
      (by
        show ∀ r ∈ (documented role waitSrc H (fsFuel ({}, sc)) { src := ({}, sc) }).body, r ≠ .invalid
        rw [hdoc]
        exact documentedFrames_no_invalid role H _ toks e hfuel)
  refine ⟨toks, e, htied, hwf, hok, hpoll, ?_⟩
  rw [hpoll]
  exact recv_spec role H e toks _ hwf hok hfuel

/-- **Re-polling, FIN: the outcome is a function of the bytes.**  The wire bytes `w` — ANY frame
    sequence, valid or not — cut into non-empty chunks in ANY way, delivered under ANY schedule
    (`pre`: chunks and `pend`s in any order, `evBytes pre = w`), then FIN, where `w` ends on a
    frame boundary (`acc = []`) or inside a frame header / a payload other than DATA (`acc ≠ []`,
    FIN inside a frame): with every call polled again while it answers `Pending`, the observed
    outcome is one the recogniser accepts for the frame kinds of `w` ended by FIN resp. by FIN
    inside a frame — the right-hand side of `C03_chunked_outcome_fin`: neither the cutting nor the
    schedule appears in it. -/
theorem C03_polled_outcome_fin (role : Role) (H : Hdr) (pre post : List H3.FS.Ev) (acc : H3.FS.Bytes)
    (hpre : NoEnd pre) (hsc : ScriptOK (pre ++ .fin :: post)) (hraw : NoRaw (evBytes pre))
    (hH : HdrsOkK H .head (kindsOf (run frameDec (.hdr []) (evBytes pre)).2))
    (hend : (run frameDec (.hdr []) (evBytes pre)).1 = .hdr acc) :
    (spec (sideOf role) (kindsOf (run frameDec (.hdr []) (evBytes pre)).2)
        (if acc = [] then .fin else .truncated)).accepts
      (observe (documentedPolledChunks role H (pre ++ .fin :: post))) := by
  have hfin : H3.FS.Ev.fin ∉ pre := H3.ReqRecv.noEnd_fin hpre
  have hup : upToFin (pre ++ .fin :: post) = pre := H3.FS.upToFin_fin pre post hfin
  obtain ⟨toks, e, htied, _, _, _, hacc⟩ :=
    C03_polled_lifted_closed role H (pre ++ .fin :: post) hsc (by rw [hup]; exact hraw)
      (by rw [hup]; exact hH)
  obtain ⟨he, hk⟩ := tiedS_fin_exact hpre htied hend
  rw [he, hk] at hacc
  by_cases ha : acc = []
  · rw [if_pos ha] at hacc ⊢; exact hacc
  · rw [if_neg ha] at hacc ⊢; exact hacc

/-- **Re-polling, stream still open.**  The bytes received so far, cut and scheduled in ANY way
    (chunks and `pend`s in any order, nothing else), no protocol error in them: with every call
    polled again until the script is used up, the observed outcome is one the recogniser accepts
    for the frame kinds of ALL the bytes, stream still open — every complete frame has been acted
    on, every payload byte of a DATA frame still arriving has been handed out, the call in progress
    is pending. -/
theorem C03_polled_outcome_open (role : Role) (H : Hdr) (sc : List H3.FS.Ev)
    (hch : NoEnd sc) (hsc : ScriptOK sc) (hraw : NoRaw (evBytes sc))
    (hH : HdrsOkK H .head (kindsOf (run frameDec (.hdr []) (evBytes sc)).2))
    (hlive : (run frameDec (.hdr []) (evBytes sc)).1 ≠ .dead) :
    (spec (sideOf role) (kindsOf (run frameDec (.hdr []) (evBytes sc)).2) .open_).accepts
      (observe (documentedPolledChunks role H sc)) := by
  have hfin : H3.FS.Ev.fin ∉ sc := H3.ReqRecv.noEnd_fin hch
  have hup : upToFin sc = sc := by
    have := H3.FS.upToFin_append_of_not_mem sc [] hfin
    simpa [upToFin] using this
  obtain ⟨toks, e, htied, _, _, _, hacc⟩ :=
    C03_polled_lifted_closed role H sc hsc (by rw [hup]; exact hraw) (by rw [hup]; exact hH)
  obtain ⟨he, hk⟩ := tiedS_open_exact hch htied hlive
  rw [he, hk] at hacc
  exact hacc

/-! non-vacuity: the request `wireReq` (HEADERS, DATA(2), trailers, grease; the driver's faithful
    oracle) delivered byte-wise-ish with polls that find nothing new in between — the one-shot pattern
    stops at the first `Pending`, the re-polled one delivers everything; an INVALID sequence
    (HEADERS, DATA(1), GOAWAY) under a schedule with `Pending`s; a stream still open -/
def polledReq : List H3.FS.Ev :=
  [.chunk (wireReq.take 1), .pend, .chunk ((wireReq.drop 1).take 9), .pend, .pend,
   .chunk ((wireReq.drop 10).take 7), .pend, .chunk ((wireReq.drop 17).take 1), .pend,
   .chunk ((wireReq.drop 18).take 3), .pend, .chunk (wireReq.drop 21), .pend]

example : evBytes polledReq = wireReq := by decide +kernel
example : observe (documentedChunks .server (H3.Drv.C03.hdrFor .server) (polledReq ++ [.fin])) =
    { calls := [.pending] } := by decide +kernel
example : observe (documentedPolledChunks .server (H3.Drv.C03.hdrFor .server) (polledReq ++ [.fin])) =
    { calls := [.head H3.Drv.C03.blkRequest, .body [0xc1, 0xc2], .bodyEnd, .trailers H3.Drv.C03.blkTrailer] } := by
  decide +kernel
example : (spec .server (kindsOf (run frameDec (.hdr []) (evBytes polledReq)).2) (if ([] : List Nat) = [] then .fin else .truncated)).accepts
    (observe (documentedPolledChunks .server (H3.Drv.C03.hdrFor .server) (polledReq ++ .fin :: []))) :=
  C03_polled_outcome_fin .server (H3.Drv.C03.hdrFor .server) polledReq [] [] (by decide +kernel) (by decide +kernel)
    (by decide +kernel) (by decide +kernel) (by decide +kernel)
-- still open after the same deliveries: everything handed out, `recv_trailers` waits for the end
example : observe (documentedPolledChunks .server (H3.Drv.C03.hdrFor .server) polledReq) =
    { calls := [.head H3.Drv.C03.blkRequest, .body [0xc1, 0xc2], .bodyEnd, .pending] } := by decide +kernel
example : (spec .server (kindsOf (run frameDec (.hdr []) (evBytes polledReq)).2) .open_).accepts
    (observe (documentedPolledChunks .server (H3.Drv.C03.hdrFor .server) polledReq)) :=
  C03_polled_outcome_open .server (H3.Drv.C03.hdrFor .server) polledReq (by decide +kernel) (by decide +kernel)
    (by decide +kernel) (by decide +kernel) (by decide +kernel)
-- an invalid sequence under a schedule with `Pending`s: HEADERS, DATA(1), GOAWAY, then FIN
def polledBad : List H3.FS.Ev :=
  [.chunk [0x01], .pend, .chunk [0x01, 0xaa, 0x00], .pend, .chunk [0x01, 0xc1, 0x07], .pend, .chunk [0x01], .pend,
   .chunk [0x00]]
example : observe (documentedPolledChunks .client allOk (polledBad ++ [.fin])) =
    { calls := [.head [0xaa], .body [0xc1], .connError 261], connError := some 261 } := by decide +kernel
example : (spec .client (kindsOf (run frameDec (.hdr []) (evBytes polledBad)).2) (if ([] : List Nat) = [] then .fin else .truncated)).accepts
    (observe (documentedPolledChunks .client allOk (polledBad ++ .fin :: []))) :=
  C03_polled_outcome_fin .client allOk polledBad [] [] (by decide +kernel) (by decide +kernel)
    (by decide +kernel) (by decide +kernel) (by decide +kernel)
-- FIN inside a frame header (the GOAWAY frame lacks its payload): H3_FRAME_ERROR, under the same schedule
example : observe (documentedPolledChunks .client allOk (polledBad.dropLast ++ [.fin])) =
    { calls := [.head [0xaa], .body [0xc1], .connError 262], connError := some 262 } := by decide +kernel
example : (spec .client (kindsOf (run frameDec (.hdr []) (evBytes polledBad.dropLast)).2)
      (if ([0x07, 0x01] : List Nat) = [] then .fin else .truncated)).accepts
    (observe (documentedPolledChunks .client allOk (polledBad.dropLast ++ .fin :: []))) :=
  C03_polled_outcome_fin .client allOk polledBad.dropLast [] [0x07, 0x01] (by decide +kernel) (by decide +kernel)
    (by decide +kernel) (by decide +kernel) (by decide +kernel)
-- RESET in the middle of the DATA payload of `wireReq`, polls in between: the prefix version
example : ∃ toks e, TiedS ((polledReq.take 8) ++ [.reset 9]) toks e ∧ (∀ tok ∈ toks, TokWF tok) ∧
    HdrsOk (H3.Drv.C03.hdrFor .server) toks ∧
    documentedPolledChunks .server (H3.Drv.C03.hdrFor .server) ((polledReq.take 8) ++ [.reset 9]) =
      documentedFrames .server (H3.Drv.C03.hdrFor .server) (fsFuel ({}, (polledReq.take 8) ++ [.reset 9])) toks e ∧
    (spec .server (toks.map kind) (stopOf e)).accepts
      (observe (documentedPolledChunks .server (H3.Drv.C03.hdrFor .server) ((polledReq.take 8) ++ [.reset 9]))) :=
  C03_polled_lifted_closed .server (H3.Drv.C03.hdrFor .server) _ (by decide +kernel) (by decide +kernel)
    (by decide +kernel)
example : observe (documentedPolledChunks .server (H3.Drv.C03.hdrFor .server) ((polledReq.take 8) ++ [.reset 9])) =
    { calls := [.head H3.Drv.C03.blkRequest, .body [0xc1], .resetBy 9] } := by decide +kernel

/-! ## `split()` in the middle of reading

`RequestStream::split` hands the receive half the buffered bytes, the decoder state,
`remaining_data` and the saved trailers (`St.recvHalf`: nothing the receive calls look at changes).
In the scenario machine `Sim` — what the correspondence run executes against the real
`RequestStream::split`, split at every position of a multi-chunk DATA frame and between the end of
the body and the trailers — a `split` is a call like the others: posted while another call waits
it waits in the mailbox, posted to a task that has ended or to a resolver it is refused. -/

/-- **Splitting at any point does not change the digest.**  Take ANY scenario (peer events and API
    calls in any order, any header oracle, either role) and remove every `split` from it — or, read
    the other way, insert `split` calls ANYWHERE: before, between or behind the receive calls,
    while a call is pending, several times.  The two runs end with the same stream state (buffered
    bytes, decoder state, `remaining_data`, saved trailers, error cell, resets sent), the same task
    life, the same call in progress, and the same log of answers — every `recv_data` piece, the end
    of the body, the trailers, every error, in the same order — except for the `split` entries
    themselves. -/
theorem C03_split_preserves_outcome (H : Hdr) (role : Role) (ops : List Op) :
    (runOps H { role := role } ops).st = (runOps H { role := role } (ops.filter fun o => !o.isSpCall)).st ∧
    (runOps H { role := role } ops).alive = (runOps H { role := role } (ops.filter fun o => !o.isSpCall)).alive ∧
    (runOps H { role := role } ops).inflight =
      (runOps H { role := role } (ops.filter fun o => !o.isSpCall)).inflight ∧
    (runOps H { role := role } ops).log.filter notSpL =
      (runOps H { role := role } (ops.filter fun o => !o.isSpCall)).log.filter notSpL := by
  have h := runOps_noSp H ops { role := role } { role := role } (SimEq.refl _) (fun _ => rfl) (fun _ => rfl)
  exact ⟨h.st, h.alive, h.inflight, h.log⟩

/-! non-vacuity: a request whose DATA(3) payload arrives in three chunks; one piece is read on the
    whole stream, the stream is split inside the frame, the rest and the trailers are read on the
    receive half (and the stream is split once more before the trailers) -/
def opsSplit : List Op :=
  [.ev (.chunk ([0x01, 0x0d] ++ H3.Drv.C03.blkRequest ++ [0x00, 0x03, 0xa1])), .call { cmd := .res, halt := true },
   .call { cmd := .rd, halt := true }, .call { cmd := .sp }, .ev (.chunk [0xa2]), .ev (.chunk [0xa3]),
   .ev (.chunk ([0x01, 0x06] ++ H3.Drv.C03.blkTrailer)), .call { cmd := .rda, halt := true }, .call { cmd := .sp },
   .ev .fin, .call { cmd := .rt }]

example : (runOps (H3.Drv.C03.hdrFor .server) { role := .server } opsSplit).log.reverse =
    [(.res, .res (.head H3.Drv.C03.blkRequest)), (.rd, .res (.data [0xa1])), (.sp, .ok), (.rd, .res (.data [0xa2])),
     (.rd, .res (.data [0xa3])), (.rd, .res .end_), (.sp, .ok), (.rt, .res (.trailers H3.Drv.C03.blkTrailer))] := by
  decide +kernel
example : ((runOps (H3.Drv.C03.hdrFor .server) { role := .server } (opsSplit.filter fun o => !o.isSpCall)).log.reverse) =
    [(.res, .res (.head H3.Drv.C03.blkRequest)), (.rd, .res (.data [0xa1])), (.rd, .res (.data [0xa2])),
     (.rd, .res (.data [0xa3])), (.rd, .res .end_), (.rt, .res (.trailers H3.Drv.C03.blkTrailer))] := by
  decide +kernel

/-- Why the simulation is `FrameSimP` and not `FrameSim`: for a script with a `Pending` before
    more data NO relation containing the initial configuration is a `FrameSim` between the
    `FrameStream` model and the token source — the model answers `Pending` and then a frame, the
    token source, once it has answered `Pending`, answers it for ever. -/
theorem C03_strict_sim_impossible :
    ¬ ∃ (R : FSt → TS → Prop) (a : TS), FrameSim fsSrc tokSrc R ∧
      R ({}, [.pend, .chunk [0x01, 0x00], .fin]) a := by
  rintro ⟨R, a, sim, h⟩
  obtain ⟨h1, h2⟩ := sim.next _ _ h
  have e1 : fsSrc.pollNext ({}, [.pend, .chunk [0x01, 0x00], .fin]) =
      (.pending, ({}, [.chunk [0x01, 0x00], .fin])) := by decide +kernel
  rw [e1] at h1 h2
  simp only at h1 h2
  rw [tok_pending_fix a h1.symm] at h2
  obtain ⟨h3, _⟩ := sim.next _ _ h2
  have e2 : (fsSrc.pollNext ({}, [.chunk [0x01, 0x00], .fin])).1 = .frame (.headers []) := by
    decide +kernel
  rw [e2, ← h1] at h3
  cases h3

end H3.Props.C03
