import H3.Lemmas.Qpack
/-! # C10 — the field-section size limit is enforced exactly, in both directions

Property theorems only.  Model: `H3.Qpack` — `decode_stateless` with its running `mem_size` and
early cancel, `encode_stateless`, and the six call sites as decision functions (`sendSite` for
`send_request` / `send_response` / `send_trailers` with `SharedState::settings()` as an `Option` and
the protocol default; `recvSite` for `accept_with_frame` / `recv_response` / `poll_recv_trailers`;
`serverResolve` for the 431 of `resolve`).  Specification: `Spec.Qpack.size`, the RFC 9114 §4.2.2
size `Σ (|name| + |value| + 32)`; accept ⇔ size ≤ limit.  No C15 fact is needed here. -/
namespace H3.Props.C10
open H3.Qpack H3.Qpack.Lemmas

/-- Receiving.  Let `b` be a field section h3 can decode at all (it is accepted under *some*
    limit `L0`, as the list `fs`).  Then for every limit `L`: `b` is accepted — as the same list,
    with the RFC 9114 size as `mem_size` — exactly when `size fs ≤ L`; otherwise the answer is
    `HeaderTooLong(n)` with `L < n ≤ size fs` (the running size where the loop stopped).  All the
    sizes are at most `128·|b|`, so the `u64` never wraps for sections shorter than 2^57 octets. -/
theorem C10_recv_exact (b : List Nat) (L0 : Nat) (fs : List Field) (m : Nat)
    (h0 : decodeStateless b L0 = .ok fs m) :
    m = Spec.Qpack.size (pairs fs) ∧ m ≤ 128 * b.length ∧
    (b.length < 2 ^ 57 → m < 2 ^ 64) ∧
    ∀ L, (decodeStateless b L = .ok fs (Spec.Qpack.size (pairs fs)) ↔ Spec.Qpack.size (pairs fs) ≤ L) ∧
      (L < Spec.Qpack.size (pairs fs) →
        ∃ n, decodeStateless b L = .err (.headerTooLong n) ∧ L < n ∧ n ≤ Spec.Qpack.size (pairs fs)) := by
  have hx : decodeStatelessX b L0 = (.ok fs m, laxSection b L0) := by
    unfold decodeStateless at h0
    unfold laxSection
    rw [← h0]
  rcases decodeStatelessX_eq b L0 _ _ hx with ⟨e, he, _⟩ | ⟨rest, ⟨pre, hsplit⟩, hall⟩
  · cases he
  · have hrun := (hall L0).symm
    rw [hx] at hrun
    obtain ⟨_, hok, _⟩ := decodeLoop_facts L0 rest.length rest 0 _ _ hrun (Nat.le_refl _)
    obtain ⟨hm, _, hbound⟩ := hok fs m rfl
    have hrl : rest.length ≤ b.length := by rw [hsplit, List.length_append]; omega
    have hm' : m = Spec.Qpack.size (pairs fs) := by omega
    refine ⟨hm', by omega, fun hl => by omega, ?_⟩
    intro L
    obtain ⟨i1, i2⟩ := decodeLoop_limit L0 rest.length rest 0 fs m _ hrun (Nat.le_refl _) L
    refine ⟨⟨?_, ?_⟩, ?_⟩
    · intro hL
      have hxL : decodeStatelessX b L = (.ok fs (Spec.Qpack.size (pairs fs)), laxSection b L) := by
        unfold decodeStateless at hL
        unfold laxSection
        rw [← hL]
      have hrunL := (hall L).symm
      rw [hxL] at hrunL
      obtain ⟨_, hokL, _⟩ := decodeLoop_facts L rest.length rest 0 _ _ hrunL (Nat.le_refl _)
      exact (hokL fs _ rfl).2.1 (Nat.zero_le _)
    · intro hle
      unfold decodeStateless
      rw [hall L, i1 (by omega), hm']
    · intro hlt
      obtain ⟨n, lx, hr, h1, h2⟩ := i2 (by omega) (Nat.zero_le _)
      exact ⟨n, by unfold decodeStateless; rw [hall L, hr], h1, by omega⟩

-- GET https://a/ (four fields, 167): accepted at 167, refused at 166 with the running size
example : decodeStateless [0, 0, 0xd1, 0xd7, 0x50, 0x81, 0x1f, 0xc1] 167 =
    .ok [⟨[58, 109, 101, 116, 104, 111, 100], [71, 69, 84]⟩, ⟨[58, 115, 99, 104, 101, 109, 101], [104, 116, 116, 112, 115]⟩,
         ⟨[58, 97, 117, 116, 104, 111, 114, 105, 116, 121], [97]⟩, ⟨[58, 112, 97, 116, 104], [47]⟩] 167 := by
  decide +kernel
example : decodeStateless [0, 0, 0xd1, 0xd7, 0x50, 0x81, 0x1f, 0xc1] 166 = .err (.headerTooLong 167) ∧
    decodeStateless [0, 0, 0xd1, 0xd7, 0x50, 0x81, 0x1f, 0xc1] 100 = .err (.headerTooLong 129) ∧
    decodeStateless [0, 0, 0xd1, 0xd7, 0x50, 0x81, 0x1f, 0xc1] 0 = .err (.headerTooLong 42) := by
  decide +kernel

/-- Whatever the input, a reported size is above the limit and at most `128·|b|`: the `u64`
    `mem_size` never wraps (for sections shorter than 2^57 octets), and the model's own loop bound
    is never reached. -/
theorem C10_recv_no_wrap (b : List Nat) (L : Nat) :
    decodeStateless b L ≠ .err .fuel ∧
    (∀ n, decodeStateless b L = .err (.headerTooLong n) → L < n ∧ n ≤ 128 * b.length) ∧
    (∀ fs m, decodeStateless b L = .ok fs m → m ≤ L ∧ m ≤ 128 * b.length) := by
  have hx : decodeStatelessX b L = (decodeStateless b L, laxSection b L) := rfl
  rcases decodeStatelessX_eq b L _ _ hx with ⟨e, he, hf, hnt, _⟩ | ⟨rest, ⟨pre, hsplit⟩, hall⟩
  · rw [he]
    refine ⟨fun hc => hf (by injection hc), ?_, ?_⟩
    · intro n hc; injection hc with hc; exact absurd hc (hnt n)
    · intro fs m hc; cases hc
  · have hrun := (hall L).symm
    rw [hx] at hrun
    obtain ⟨hf, hok, htl⟩ := decodeLoop_facts L rest.length rest 0 _ _ hrun (Nat.le_refl _)
    have hrl : rest.length ≤ b.length := by rw [hsplit, List.length_append]; omega
    refine ⟨hf, ?_, ?_⟩
    · intro n hn
      obtain ⟨h1, h2⟩ := htl n hn
      exact ⟨h1, by omega⟩
    · intro fs m hm
      obtain ⟨_, h2, h3⟩ := hok fs m hm
      exact ⟨h2 (Nat.zero_le _), by omega⟩

/-- Both directions together: a field section h3 itself has encoded (any field list of octet
    strings) is accepted by an h3 receiver with limit `L` exactly when its RFC 9114 size — the
    number `encode_stateless` returned to the sender — is at most `L`; otherwise it is refused with
    `HeaderTooLong`.  (So the hypothesis of `C10_recv_exact` holds for every such section; uses the
    C15 round-trip theorems, hypothesis `C15Facts`.) -/
theorem C10_own_encoding_exact (h15 : C15Facts) (fs : List Field) (hfs : ∀ f ∈ fs, Encodable f) (L : Nat) :
    (encodeStateless fs).2 = Spec.Qpack.size (pairs fs) ∧
    (decodeStateless (encodeStateless fs).1 L = .ok fs (Spec.Qpack.size (pairs fs)) ↔
      Spec.Qpack.size (pairs fs) ≤ L) ∧
    (L < Spec.Qpack.size (pairs fs) →
      ∃ n, decodeStateless (encodeStateless fs).1 L = .err (.headerTooLong n) ∧ L < n ∧
        n ≤ Spec.Qpack.size (pairs fs)) := by
  have h0 : decodeStateless (encodeStateless fs).1 (Spec.Qpack.size (pairs fs)) =
      .ok fs (Spec.Qpack.size (pairs fs)) := by
    unfold decodeStateless
    rw [decodeStateless_encode h15 fs hfs _ (Nat.le_refl _)]
  obtain ⟨_, _, _, hall⟩ := C10_recv_exact _ _ _ _ h0
  obtain ⟨bs, henc, _, _⟩ := encodeStateless_spec h15 fs (fun f hf => (hfs f hf).writable)
  refine ⟨by simp [encodeStateless, henc], (hall L).1, (hall L).2⟩

theorem encodeFields_size : ∀ (fs : List Field) (size : Nat) (bs : List Nat) (size' : Nat),
    encodeFields? fs size = some (bs, size') → size' = size + Spec.Qpack.size (pairs fs) := by
  intro fs
  induction fs with
  | nil =>
    intro size bs size' h
    simp only [encodeFields?, Option.some.injEq, Prod.mk.injEq] at h
    simp [pairs, Spec.Qpack.size, h.2]
  | cons f fs ih =>
    intro size bs size' h
    unfold encodeFields? at h
    cases hf : encodeField? f with
    | none => simp [hf] at h
    | some b =>
      simp only [hf] at h
      cases hr : encodeFields? fs (size + f.memSize) with
      | none => simp [hr] at h
      | some x =>
        obtain ⟨bs', s'⟩ := x
        simp only [hr, Option.some.injEq, Prod.mk.injEq] at h
        have := ih _ _ _ hr
        rw [size_pairs_cons]
        omega

/-- Sending.  `encode_stateless` returns exactly the RFC 9114 §4.2.2 size of the field list.  Each
    of the three send sites (`send_request`, `send_response`, `send_trailers`: the same code)
    refuses exactly when that size exceeds `peerLimit` — the value of the peer's SETTINGS once
    they have been applied, the protocol default `2^62 − 1` (`VarInt::MAX`, regenerated from
    `config.rs`) before that or when the peer's SETTINGS do not carry the parameter — and then
    reports `(size, peerLimit)` and writes nothing; otherwise it writes the encoded block. -/
theorem C10_send_exact (fs : List Field) (applied : Option Nat) (block : List Nat) (size : Nat)
    (h : encodeStateless? fs = some (block, size)) :
    size = Spec.Qpack.size (pairs fs) ∧
    peerLimit none = 2 ^ 62 - 1 ∧ (∀ v, peerLimit (some v) = v) ∧
    (Spec.Qpack.size (pairs fs) > peerLimit applied ↔
      sendSite applied fs = .refused (Spec.Qpack.size (pairs fs)) (peerLimit applied)) ∧
    (Spec.Qpack.size (pairs fs) ≤ peerLimit applied ↔ sendSite applied fs = .written block) := by
  have hs : size = Spec.Qpack.size (pairs fs) := by
    unfold encodeStateless? at h
    cases hf : encodeFields? fs 0 with
    | none => simp [hf] at h
    | some x =>
      obtain ⟨bs, s⟩ := x
      simp only [hf, Option.some.injEq, Prod.mk.injEq] at h
      have := encodeFields_size fs 0 bs s hf
      omega
  subst hs
  refine ⟨rfl, by decide, fun v => rfl, ?_, ?_⟩
  · unfold sendSite
    simp only [h]
    constructor
    · intro hgt; rw [if_pos hgt]
    · intro hr
      by_cases hgt : Spec.Qpack.size (pairs fs) > peerLimit applied
      · exact hgt
      · rw [if_neg hgt] at hr; cases hr
  · unfold sendSite
    simp only [h]
    constructor
    · intro hle; rw [if_neg (by omega)]
    · intro hw
      by_cases hgt : Spec.Qpack.size (pairs fs) > peerLimit applied
      · rw [if_pos hgt] at hw; cases hw
      · omega

-- `:status: 200` + `x: aaa` (42 + 36): written under limit 78, refused under 77; default 2^62−1
example : sendSite (some 78) [⟨[58, 115, 116, 97, 116, 117, 115], [50, 48, 48]⟩, ⟨[120], [97, 97, 97]⟩] =
    .written [0, 0, 0xd9, 0x29, 0xf3, 0x82, 0x18, 0xc7] := by decide +kernel
example : sendSite (some 77) [⟨[58, 115, 116, 97, 116, 117, 115], [50, 48, 48]⟩, ⟨[120], [97, 97, 97]⟩] =
    .refused 78 77 := by decide +kernel
example : sendSite none [⟨[58, 115, 116, 97, 116, 117, 115], [50, 48, 48]⟩] = .written [0, 0, 0xd9] := by
  decide +kernel

/-- Sending a request that had to wait.  `send_request` is the one send site that can be suspended
    before its comparison (`poll_open_bidi` pending while the peer's stream limit is exhausted).
    Whatever the peer's SETTINGS cell held when the call was made (`atCall`), the request is
    refused exactly when its RFC 9114 size exceeds the limit in force when the stream has been
    opened and the request is about to be written (`atOpen`: the advertised value once the SETTINGS
    have been applied, the protocol default before), and is written otherwise.  In particular a
    call made under the protocol default whose stream opens after the peer advertised a smaller
    limit does not send an oversized request. -/
theorem C10_pending_request_uses_limit_at_send (fs : List Field) (atCall atOpen : Option Nat)
    (block : List Nat) (size : Nat) (h : encodeStateless? fs = some (block, size)) :
    (Spec.Qpack.size (pairs fs) > peerLimit atOpen ↔
      sendRequestSite atCall atOpen fs = .refused (Spec.Qpack.size (pairs fs)) (peerLimit atOpen)) ∧
    (Spec.Qpack.size (pairs fs) ≤ peerLimit atOpen ↔ sendRequestSite atCall atOpen fs = .written block) ∧
    (∀ v, atCall = none → atOpen = some v → v < Spec.Qpack.size (pairs fs) →
      sendRequestSite atCall atOpen fs = .refused (Spec.Qpack.size (pairs fs)) v) := by
  obtain ⟨_, _, hv, hr, hw⟩ := C10_send_exact fs atOpen block size h
  refine ⟨hr, hw, ?_⟩
  intro v _ ho hlt
  subst ho
  have := hr.mp (by rw [hv]; exact hlt)
  rw [hv] at this
  exact this

-- GET https://a/ (167): called under the default, the peer's limit 100 arrives while the call waits
-- for stream credit: refused (167, 100); with limit 167 it is written
example : sendRequestSite none (some 100)
    [⟨[58, 109, 101, 116, 104, 111, 100], [71, 69, 84]⟩, ⟨[58, 115, 99, 104, 101, 109, 101], [104, 116, 116, 112, 115]⟩,
     ⟨[58, 97, 117, 116, 104, 111, 114, 105, 116, 121], [97]⟩, ⟨[58, 112, 97, 116, 104], [47]⟩] = .refused 167 100 := by
  decide +kernel
example : sendRequestSite none (some 167)
    [⟨[58, 109, 101, 116, 104, 111, 100], [71, 69, 84]⟩, ⟨[58, 115, 99, 104, 101, 109, 101], [104, 116, 116, 112, 115]⟩,
     ⟨[58, 97, 117, 116, 104, 111, 114, 105, 116, 121], [97]⟩, ⟨[58, 112, 97, 116, 104], [47]⟩] =
    .written [0, 0, 0xd1, 0xd7, 0x50, 0x81, 0x1f, 0xc1] := by
  decide +kernel

/-- `split`.  The receive half of a split request stream enforces the endpoint's configured maximum
    unchanged — every receive site answers on it exactly as on the unsplit stream, so
    `C10_recv_exact` and `C10_outcomes` carry over — and the value the send half carries (`0`) is
    not consulted by any send site: what the send half may send is decided by `sendSite` from the
    shared settings cell alone (`C10_send_exact`). -/
theorem C10_split_keeps_receive_limit (mfs : Nat) :
    (splitLimits mfs).2 = mfs ∧ (splitLimits mfs).1 = 0 ∧
    ∀ site block, recvSite site (splitLimits mfs).2 block = recvSite site mfs block := by
  refine ⟨rfl, rfl, fun _ _ => rfl⟩

-- trailers `x-t: aa` (size 37) on the receive half: accepted at 37, refused at 36 (not at 0 < 37 only)
example : recvSite .serverTrailers (splitLimits 37).2 [0, 0, 0x2b, 0xf2, 0xb2, 0x7f, 0x82, 0x18, 0xff] =
    .fields [⟨[120, 45, 116], [97, 97]⟩] ∧
    recvSite .clientTrailers (splitLimits 36).2 [0, 0, 0x2b, 0xf2, 0xb2, 0x7f, 0x82, 0x18, 0xff] =
    .tooBig 37 36 (some 268) := by
  decide +kernel

/-- Outcomes over the limit.  Let `decode_stateless` answer `HeaderTooLong(n)` under the receiver's
    configured maximum.  At the server's request head the 431 response (one field `:status: 431`,
    size 42, block `00 00 5f 09 83 69 90 ff`) is attempted: when 42 fits the client's limit it is
    written and `resolve_request` returns header-too-big `(n, max)`; when it does not, nothing is
    written and the call still returns header-too-big (the send site's `(42, client limit)`).  For
    trailers at the server the call returns header-too-big; for the response and for trailers at
    the client it returns header-too-big and issues `STOP_SENDING(H3_REQUEST_CANCELLED)`.  None of
    these outcomes is the connection-error outcome (`connError`: error cell written, `close`
    called), which is reserved to the other decoder errors. -/
theorem C10_outcomes (mfs : Nat) (applied : Option Nat) (block : List Nat) (n : Nat)
    (h : decodeStateless block mfs = .err (.headerTooLong n)) :
    encodeStateless? response431 = some ([0, 0, 0x5f, 0x09, 0x83, 0x69, 0x90, 0xff], 42) ∧
    (42 ≤ peerLimit applied →
      serverResolve mfs applied block = .tooBig n mfs (some [0, 0, 0x5f, 0x09, 0x83, 0x69, 0x90, 0xff])) ∧
    (peerLimit applied < 42 → serverResolve mfs applied block = .tooBig 42 (peerLimit applied) none) ∧
    recvSite .serverTrailers mfs block = .tooBig n mfs none ∧
    recvSite .clientResponse mfs block = .tooBig n mfs (some 268) ∧
    recvSite .clientTrailers mfs block = .tooBig n mfs (some 268) ∧
    (∀ site c, recvSite site mfs block ≠ .connError c) ∧
    (∀ c, serverResolve mfs applied block ≠ .connError c) := by
  have h431 : encodeStateless? response431 = some ([0, 0, 0x5f, 0x09, 0x83, 0x69, 0x90, 0xff], 42) := by
    decide +kernel
  have hrs : ∀ site, recvSite site mfs block = .tooBig n mfs site.stopCode := by
    intro site; unfold recvSite; rw [h]
  have hres : serverResolve mfs applied block =
      if 42 > peerLimit applied then .tooBig 42 (peerLimit applied) none
      else .tooBig n mfs (some [0, 0, 0x5f, 0x09, 0x83, 0x69, 0x90, 0xff]) := by
    unfold serverResolve sendSite
    rw [hrs, h431]
    by_cases hgt : 42 > peerLimit applied
    · simp only [if_pos hgt]
    · simp only [if_neg hgt]
  refine ⟨h431, ?_, ?_, hrs _, hrs _, hrs _, ?_, ?_⟩
  · intro hle; rw [hres, if_neg (by omega)]
  · intro hlt; rw [hres, if_pos (by omega)]
  · intro site c; rw [hrs]; intro hc; cases hc
  · intro c; rw [hres]; split <;> (intro hc; cases hc)

-- non-vacuity: a request of size 167 under limit 100, client limit absent / 42 / 41
example : serverResolve 100 none [0, 0, 0xd1, 0xd7, 0x50, 0x81, 0x1f, 0xc1] =
    .tooBig 129 100 (some [0, 0, 0x5f, 0x09, 0x83, 0x69, 0x90, 0xff]) := by decide +kernel
example : serverResolve 100 (some 42) [0, 0, 0xd1, 0xd7, 0x50, 0x81, 0x1f, 0xc1] =
    .tooBig 129 100 (some [0, 0, 0x5f, 0x09, 0x83, 0x69, 0x90, 0xff]) := by decide +kernel
example : serverResolve 100 (some 41) [0, 0, 0xd1, 0xd7, 0x50, 0x81, 0x1f, 0xc1] = .tooBig 42 41 none := by
  decide +kernel
example : recvSite .clientResponse 41 [0, 0, 0xd9] = .tooBig 42 41 (some 268) ∧
    recvSite .clientResponse 42 [0, 0, 0xd9] = .fields [⟨[58, 115, 116, 97, 116, 117, 115], [50, 48, 48]⟩] := by
  decide +kernel

end H3.Props.C10
