import H3.Model.Goaway
import H3.Spec.Goaway
import H3.Lemmas.Goaway
import H3.Lemmas.GoawayQueue
import H3.Props.C16
/-! # C08 — GOAWAY identifiers never grow and draw the accept/reject line exactly

Property theorems only.  Model: `H3.Goaway` (server `shutdown`/`accept`, client `poll_close`
GOAWAY rules and the two `send_request` gates — on entry and behind `poll_open_bidi`; `StreamId + n` is `H3.StreamId.add`, whose
saturation is `C16_streamid_add_saturates`).  Oracle: `H3.Spec.Goaway` (RFC 9114 §5.2,
§7.2.6 over the observable history).

A server history is an arbitrary `List Ev`: arrivals in any order, `accept` polls, `shutdown n`
with any `n` at any moment and repeatedly, completions, peer GOAWAYs.  The accept/reject line
is judged where `accept` takes the stream from the transport (R-08): the observation
`surfaced i` / `rejected i` is made at that moment, against the GOAWAYs written before it. -/
namespace H3.Props.C08
open H3.Goaway H3.Spec.Goaway H3.Lemmas.Goaway H3.StreamId

/-- the request streams a history lets arrive, in order. -/
def arrivals : List Ev → List Nat
  | [] => []
  | .arrive id :: r => id :: arrivals r
  | _ :: r => arrivals r

/-- transport contract: a stream opened by the client towards the server as a request stream
    has a client-initiated bidirectional stream ID. -/
def WellTyped : Ev → Prop
  | .arrive id => id % 4 = 0
  | _ => True

/-- the history stays below the saturation point of `StreamId + n`: for every request index `k`
    it contains and every `shutdown(n)` in it (all `n ≤ N`), `k + n + 1 ≤ 2^60 − 1`. -/
def Below (N : Nat) : Ev → Prop
  | .arrive id => id % 4 = 0 ∧ id / 4 + N + 1 ≤ 2^60 - 1
  | .shutdown n => n ≤ N
  | _ => True

private def evOk (P Q : Nat → Prop) : Ev → Prop
  | .arrive id => P id
  | .shutdown n => Q n
  | _ => True

private theorem arrivals_cons (e : Ev) (es : List Ev) : arrivals (e :: es) = arrivals [e] ++ arrivals es := by
  cases e <;> simp [arrivals]

private theorem step_ok {strict : Bool} {P Q : Nat → Prop} (H : Hyp strict P Q) (s : State) (h : Hist) (e : Ev)
    (hi : GInv P s h) (he : evOk P Q e) :
    valid strict h (step s e).2 = true ∧ GInv P (step s e).1 (pushAll h (step s e).2) ∧
    outcomes (step s e).2 ++ (step s e).1.incoming = s.incoming ++ arrivals [e] := by
  cases e with
  | arrive id =>
    refine ⟨by simp [step, valid], ⟨hi.sent_eq, hi.sent_min, hi.surf_le, hi.largest_ok, ?_⟩, by simp [step, outcomes, arrivals]⟩
    intro j hj
    simp only [step, List.mem_append, List.mem_singleton] at hj
    rcases hj with hj | rfl
    · exact hi.incoming_ok j hj
    · exact he
  | accept =>
    obtain ⟨h1, h2, h3⟩ := accept_ok H s h hi
    exact ⟨h1, h2, by simpa [step, arrivals] using h3⟩
  | shutdown n =>
    by_cases hf : s.failed = true
    · -- a failed connection: `shutdown` reports the error, nothing is written
      have e : step s (.shutdown n) = (s, [.shutdownErr]) := by simp [step, hf]
      rw [e]
      exact ⟨by simp [valid, okObs], by simpa [pushAll, Hist.push] using hi, by simp [outcomes, arrivals]⟩
    · have e : step s (.shutdown n) = ((shutdown s n).1, (shutdown s n).2 ++ [.shutdownOk]) := by
        simp [step, hf]
      rw [e]
      obtain ⟨h1, h2, h3, _, _, _, h7⟩ := shutdown_ok H s h n he hi
      refine ⟨?_, ?_, ?_⟩
      · simp only; rw [valid_append, h1]; simp [valid, okObs]
      · simp only; rw [pushAll_append]; simpa [pushAll, Hist.push] using h2
      · simp only; rw [outcomes_append, h7, h3]; simp [outcomes, arrivals]
  | complete id =>
    exact ⟨by simp [step, valid], ⟨hi.sent_eq, hi.sent_min, hi.surf_le, hi.largest_ok, hi.incoming_ok⟩,
      by simp [step, outcomes, arrivals]⟩
  | recvGoaway id =>
    exact ⟨by simp [step, valid], ⟨hi.sent_eq, hi.sent_min, hi.surf_le, hi.largest_ok, hi.incoming_ok⟩,
      by simp [step, outcomes, arrivals]⟩
  | pollClose =>
    obtain ⟨e1, e2, e3, _⟩ := procCtlClient_fields s.ctl s
    have hi1 : GInv P (procCtlClient s s.ctl) h :=
      ⟨by rw [e1]; exact hi.sent_eq, by rw [e1]; exact hi.sent_min, by rw [e2]; exact hi.surf_le,
        by rw [e2]; exact hi.largest_ok, by rw [e3]; exact hi.incoming_ok⟩
    simp only [step, pollClose]
    by_cases hf : s.failed = true
    · simp only [hf, if_true]
      exact ⟨by simp [valid, okObs], by simpa [pushAll, Hist.push] using hi, by simp [outcomes, arrivals]⟩
    · simp only [hf]
      simp only [Bool.false_eq_true, if_false]
      by_cases hf1 : (procCtlClient s s.ctl).failed = true
      · simp only [hf1, if_true]
        exact ⟨by simp [valid, okObs], by simpa [pushAll, Hist.push] using hi1, by simp [outcomes, arrivals, e3]⟩
      · simp only [hf1]
        simp only [Bool.false_eq_true, if_false]
        exact ⟨by simp [valid, okObs], by simpa [pushAll, Hist.push] using hi1, by simp [outcomes, arrivals, e3]⟩
  | sendCall =>
    by_cases hc : s.closing = true
    · have e : step s .sendCall = (s, [.remoteClosing]) := by simp [step, sendCall, hc]
      rw [e]
      exact ⟨by simp [valid, okObs], by simpa [pushAll, Hist.push] using hi, by simp [outcomes, arrivals]⟩
    · have hc' : s.closing = false := by simpa using hc
      have e : step s .sendCall = ({ s with parked := s.parked + 1 }, []) := by
        simp [step, sendCall, hc']
      rw [e]
      have hi' : GInv P { s with parked := s.parked + 1 } h :=
        ⟨hi.sent_eq, hi.sent_min, hi.surf_le, hi.largest_ok, hi.incoming_ok⟩
      exact ⟨by simp [valid], by simpa [pushAll] using hi', by simp [outcomes, arrivals]⟩
  | sendOpened =>
    by_cases hp : s.parked = 0
    · have e : step s .sendOpened = (s, []) := by simp [step, sendOpened, hp]
      rw [e]
      exact ⟨by simp [valid], by simpa [pushAll] using hi, by simp [outcomes, arrivals]⟩
    · have hi' : GInv P { s with parked := s.parked - 1, opened := s.opened + 1 } h :=
        ⟨hi.sent_eq, hi.sent_min, hi.surf_le, hi.largest_ok, hi.incoming_ok⟩
      by_cases hc : s.closing = true
      · have e : step s .sendOpened = ({ s with parked := s.parked - 1, opened := s.opened + 1 },
            [.unused (4 * s.opened), .remoteClosing]) := by simp [step, sendOpened, hp, hc]
        rw [e]
        exact ⟨by simp [valid, okObs], by simpa [pushAll, Hist.push] using hi', by simp [outcomes, arrivals]⟩
      · have hc' : s.closing = false := by simpa using hc
        have e : step s .sendOpened = ({ s with parked := s.parked - 1, opened := s.opened + 1 },
            [.opened (4 * s.opened)]) := by simp [step, sendOpened, hp, hc']
        rw [e]
        exact ⟨by simp [valid, okObs], by simpa [pushAll, Hist.push] using hi', by simp [outcomes, arrivals]⟩
  | resolve id =>
    by_cases hc : id ∈ s.ongoing
    · have e : step s (.resolve id) = (s, [.served id]) := by simp [step, hc]
      rw [e]
      exact ⟨by simp [valid, okObs], by simpa [pushAll, Hist.push] using hi, by simp [outcomes, arrivals]⟩
    · have e : step s (.resolve id) = (s, []) := by simp [step, hc]
      rw [e]
      exact ⟨by simp [valid], by simpa [pushAll] using hi, by simp [outcomes, arrivals]⟩

private theorem run_ok {strict : Bool} {P Q : Nat → Prop} (H : Hyp strict P Q) (evs : List Ev) :
    ∀ (s : State) (h : Hist), GInv P s h → (∀ e ∈ evs, evOk P Q e) →
    valid strict h (run s evs).2 = true ∧ GInv P (run s evs).1 (pushAll h (run s evs).2) ∧
    outcomes (run s evs).2 ++ (run s evs).1.incoming = s.incoming ++ arrivals evs := by
  induction evs with
  | nil => intro s h hi _; exact ⟨by simp [run, valid], by simpa [run, pushAll] using hi, by simp [run, outcomes, arrivals]⟩
  | cons e es ih =>
    intro s h hi he
    obtain ⟨a1, a2, a3⟩ := step_ok H s h e hi (he e (by simp))
    obtain ⟨b1, b2, b3⟩ := ih (step s e).1 (pushAll h (step s e).2) a2 (fun e' he' => he e' (List.mem_cons_of_mem _ he'))
    refine ⟨?_, ?_, ?_⟩
    · simp only [run]; rw [valid_append, a1, b1]; rfl
    · simp only [run]; rw [pushAll_append]; exact b2
    · simp only [run]; rw [outcomes_append, List.append_assoc, b3, ← List.append_assoc, a3, arrivals_cons e es,
        List.append_assoc]

private theorem valid_split (strict : Bool) (h : Hist) (a : List Obs) (o : Obs) (b : List Obs)
    (hv : valid strict h (a ++ o :: b) = true) : okObs strict (pushAll h a) o = true := by
  rw [valid_append] at hv
  simp only [valid, Bool.and_eq_true] at hv
  exact hv.2.1

/-- how `valid` reads, observation by observation (`h` is the history observed before `o`). -/
private theorem okObs_reading (strict : Bool) (h : Hist) (o : Obs) (hv : okObs strict h o = true) :
    (∀ g, o = .goaway g → g % 4 = 0 ∧ g < 2^62 ∧ (∀ p ∈ h.sent, g ≤ p) ∧
      (strict = true → ∀ i ∈ h.surfaced, i < g)) ∧
    (∀ i, o = .surfaced i → ∀ g, h.sent.head? = some g → i < g) ∧
    (∀ i, o = .rejected i → ∃ g, h.sent.head? = some g ∧ g ≤ i) := by
  refine ⟨?_, ?_, ?_⟩
  · rintro g rfl
    simp only [okObs, okGoaway, clientBidi, Bool.and_eq_true, beq_iff_eq, decide_eq_true_eq, List.all_eq_true,
      Bool.or_eq_true, Bool.not_eq_true', noRetract] at hv
    obtain ⟨⟨⟨h1, h2⟩, h3⟩, h4⟩ := hv
    refine ⟨h1, h2, h3, ?_⟩
    intro hs
    rcases h4 with h4 | h4
    · rw [hs] at h4; cases h4
    · exact h4
  · rintro i rfl g hg
    simp only [okObs, mustReject, lastSent, hg, Bool.not_eq_true', decide_eq_false_iff_not] at hv
    omega
  · rintro i rfl
    simp only [okObs, mustReject, lastSent] at hv
    cases hs : h.sent.head? with
    | none => rw [hs] at hv; cases hv
    | some g =>
      rw [hs] at hv
      exact ⟨g, rfl, by simpa using hv⟩

/-- **The server's line.**  For every history whose indices stay below the saturation point
    (`Below N`), and with `h` the history observed before each observation `o` of the trace:

    * a GOAWAY written carries a client-initiated bidirectional stream ID, not larger than any
      identifier written before, and larger than every request already shown to the
      application (no request surfaced earlier is at or above an identifier sent later);
    * a request is shown to the application only if nothing was sent yet or its ID is below
      the last identifier sent; it is refused (H3_REQUEST_REJECTED, never shown) only if its ID
      is at or above the last identifier sent;
    * every arrival gets exactly one of the two outcomes, in arrival order, or still waits in
      the transport (so "surfaced ⇔ below the line" is an equivalence). -/
theorem C08_server_line (evs : List Ev) (N : Nat) (hb : ∀ e ∈ evs, Below N e) :
    valid true {} (run {} evs).2 = true ∧
    (∀ a o b, (run {} evs).2 = a ++ o :: b →
      (∀ g, o = .goaway g → g % 4 = 0 ∧ g < 2^62 ∧ (∀ p ∈ (pushAll {} a).sent, g ≤ p) ∧
        (∀ i ∈ (pushAll {} a).surfaced, i < g)) ∧
      (∀ i, o = .surfaced i → ∀ g, (pushAll {} a).sent.head? = some g → i < g) ∧
      (∀ i, o = .rejected i → ∃ g, (pushAll {} a).sent.head? = some g ∧ g ≤ i)) ∧
    arrivals evs = outcomes (run {} evs).2 ++ (run {} evs).1.incoming := by
  have H : Hyp true (fun id => id % 4 = 0 ∧ id / 4 + N + 1 ≤ 2^60 - 1) (fun n => n ≤ N) := by
    refine ⟨fun id h => h.1, Nat.zero_le _, ?_⟩
    intro _ L n hL hn
    rw [shutdownId_above L n hL.1 (by omega)]
    omega
  have hev : ∀ e ∈ evs, evOk (fun id => id % 4 = 0 ∧ id / 4 + N + 1 ≤ 2^60 - 1) (fun n => n ≤ N) e := by
    intro e he
    have := hb e he
    cases e <;> simp_all [evOk, Below]
  obtain ⟨h1, _, h3⟩ := run_ok H evs {} {} (ginv_init _) hev
  refine ⟨h1, ?_, by simpa using h3.symm⟩
  intro a o b hab
  rw [hab] at h1
  obtain ⟨r1, r2, r3⟩ := okObs_reading true _ o (valid_split true {} a o b h1)
  exact ⟨fun g hg => by
    obtain ⟨x1, x2, x3, x4⟩ := r1 g hg
    exact ⟨x1, x2, x3, x4 rfl⟩, r2, r3⟩

/-- **At and beyond saturation** everything but the last clause of the first item still holds,
    for every history the transport can produce: the identifiers written are valid
    client-initiated bidirectional stream IDs (`C16_streamid_add_saturates`), never increase,
    and draw the accept/reject line exactly. -/
theorem C08_server_line_saturated (evs : List Ev) (hw : ∀ e ∈ evs, WellTyped e) :
    valid false {} (run {} evs).2 = true ∧
    (∀ a o b, (run {} evs).2 = a ++ o :: b →
      (∀ g, o = .goaway g → g % 4 = 0 ∧ g < 2^62 ∧ (∀ p ∈ (pushAll {} a).sent, g ≤ p)) ∧
      (∀ i, o = .surfaced i → ∀ g, (pushAll {} a).sent.head? = some g → i < g) ∧
      (∀ i, o = .rejected i → ∃ g, (pushAll {} a).sent.head? = some g ∧ g ≤ i)) ∧
    arrivals evs = outcomes (run {} evs).2 ++ (run {} evs).1.incoming := by
  have H : Hyp false (fun id => id % 4 = 0) (fun _ => True) :=
    ⟨fun id h => h, trivial, fun h => by cases h⟩
  have hev : ∀ e ∈ evs, evOk (fun id => id % 4 = 0) (fun _ => True) e := by
    intro e he
    have := hw e he
    cases e <;> simp_all [evOk, WellTyped]
  obtain ⟨h1, _, h3⟩ := run_ok H evs {} {} (ginv_init _) hev
  refine ⟨h1, ?_, by simpa using h3.symm⟩
  intro a o b hab
  rw [hab] at h1
  obtain ⟨r1, r2, r3⟩ := okObs_reading false _ o (valid_split false {} a o b h1)
  exact ⟨fun g hg => by
    obtain ⟨x1, x2, x3, _⟩ := r1 g hg
    exact ⟨x1, x2, x3⟩, r2, r3⟩

private theorem sat_arith (L n k r : Nat) (h4 : L % 4 = 0) (hk : k = min (n + 1) 18446744073709551615)
    (a1 : r % 4 = L % 4) (a2 : r / 4 = min (L / 4 + k) 1152921504606846975) :
    r = 4 * min (L / 4 + n + 1) 1152921504606846975 := by
  omega

private theorem sat_arith0 (n r : Nat) (a1 : r % 4 = 0) (a2 : r / 4 = min (0 + n) 1152921504606846975) :
    r = 4 * min n 1152921504606846975 := by
  omega

/-- the identifier `shutdown(n)` computes, in `StreamId` arithmetic: `n+1` requests past the
    largest accepted one / `n` requests from the first, index saturating at 2^60 − 1
    (restating `C16_streamid_add_saturates` for the two call sites). -/
theorem C08_shutdown_id (L n : Nat) (h4 : L % 4 = 0) (hL : L < 2^62) (hn : n < 2^64) :
    shutdownId (some L) n = 4 * min (L / 4 + n + 1) (2^60 - 1) ∧
    shutdownId none n = 4 * min n (2^60 - 1) := by
  have hk : succSat n = min (n + 1) 18446744073709551615 := by simp [succSat, U64MAX]
  have hs : succSat n < 2^64 := by rw [hk]; omega
  obtain ⟨a1, a2, -, -⟩ := H3.Props.C16.C16_streamid_add_saturates L (succSat n) hL hs
  obtain ⟨b1, b2, -, -⟩ := H3.Props.C16.C16_streamid_add_saturates 0 n (by omega) hn
  simp only [index, Nat.reducePow, Nat.reduceSub] at a2 b2
  exact ⟨sat_arith L n _ _ h4 hk a1 a2, sat_arith0 n _ b1 b2⟩

/-! ### `accept` says "no more requests" only when drained

`poll_accept_request_stream_internal` answers `Ready(Ok(None))` in two places, both behind
`poll_requests_completion(cx).is_ready()` (= the request-end channel is emptied into
`ongoing_streams`, then "is `ongoing_streams` empty?"): when the transport has no stream and a
GOAWAY of the peer has been processed (C09's case), and — after a *local* `shutdown` — right after
refusing a stream at or above the identifier sent.  `H3.Goaway.acceptLoop` has both. -/

/-- **`None` only when drained and nothing acceptable waits, state by state.**  For every connection
    state `s`, every queue `q` of streams waiting in the transport and either value of the loop's
    flag (`refused`: a stream has been refused earlier in this poll): one run of the accept loop
    answers `None` *exactly* when no request is ongoing at that moment (`ongoing_streams` is empty),
    **every** stream waiting is one the filter refuses (its ID is at or above the identifier sent —
    no acceptable stream is left behind a refused one: D-08b), and either a stream is refused in
    this poll (local shutdown) or a GOAWAY of the peer has been processed.  Such a run shows no
    request to the application, leaves `ongoing_streams` empty, gives every waiting stream its
    outcome and leaves the queue empty.  In particular a refusal while a request shown earlier is
    still in progress never ends `accept`. -/
theorem C08_accept_none_only_when_drained (refused : Bool) (s : State) (q : List Nat) :
    (Obs.acceptNone ∈ (acceptLoop refused s q).2 ↔
      s.ongoing = [] ∧ (∀ id ∈ q, rejects s.sentClosing id = true) ∧
      (refused = true ∨ q ≠ [] ∨ s.recvClosing.isSome = true)) ∧
    (Obs.acceptNone ∈ (acceptLoop refused s q).2 →
      surfacedIn (acceptLoop refused s q).2 = [] ∧ (acceptLoop refused s q).1.ongoing = [] ∧
      outcomes (acceptLoop refused s q).2 = q ∧ (acceptLoop refused s q).1.incoming = []) := by
  refine ⟨acceptLoop_none_iff q refused s, ?_⟩
  intro hn
  have h1 := acceptLoop_none_quiet q refused s hn
  have h2 := ((acceptLoop_none_iff q refused s).mp hn).1
  obtain ⟨h3, h4⟩ := acceptLoop_none_empties q refused s hn
  refine ⟨h1, ?_, h4, h3⟩
  rw [acceptLoop_ongoing, h1, h2]; rfl

/-- **`None` abandons no stream** (D-08b, for every state): when a poll of `accept` answers `None`,
    every stream that was waiting in the transport at that poll has had its outcome in this very
    poll, in order, and nothing waits any more.  With `arrivals = outcomes ++ still-queued` of
    `C08_server_line` this is the oracle's rule `okQueue … acceptNone`: at `None` every stream the peer
    has opened has been shown to the application or refused. -/
theorem C08_none_abandons_no_stream (s : State) (hn : Obs.acceptNone ∈ (step s .accept).2) :
    outcomes (step s .accept).2 = s.incoming ∧ (step s .accept).1.incoming = [] := by
  simp only [step, accept] at hn ⊢
  by_cases hf : s.failed = true
  · simp [hf] at hn
  · simp only [hf] at hn ⊢
    simp only [Bool.false_eq_true, if_false] at hn ⊢
    by_cases hf1 : (procCtlServer s s.ctl).failed = true
    · simp [hf1] at hn
    · simp only [hf1] at hn ⊢
      simp only [Bool.false_eq_true, if_false] at hn ⊢
      obtain ⟨h3, h4⟩ := acceptLoop_none_empties _ false _ hn
      exact ⟨by rw [h4]; exact (procCtlServer_fields s.ctl s).2.2.1, h3⟩

/-- **A `shutdown(n)` that answers `Ok` leaves a GOAWAY in force** whose identifier is at most the one
    the call computed — it is either the one in force before (not larger) or written by this call
    (the oracle's rule `okQueue … shutdownOk`). -/
theorem C08_shutdown_ok_has_goaway_in_force (s : State) (n : Nat) (hf : s.failed = false) :
    Obs.shutdownOk ∈ (step s (.shutdown n)).2 ∧
    ∃ g, (step s (.shutdown n)).1.sentClosing = some g ∧ g ≤ shutdownId s.largest n ∧
      (s.sentClosing = some g ∨ Obs.goaway g ∈ (step s (.shutdown n)).2) := by
  simp only [step, hf, shutdown]
  simp only [Bool.false_eq_true, if_false]
  by_cases hk : keepsPrevious s.sentClosing (shutdownId s.largest n) = true
  · simp only [hk, if_true]
    cases hs : s.sentClosing with
    | none => simp [keepsPrevious, hs] at hk
    | some g =>
      have : g ≤ shutdownId s.largest n := by simpa [keepsPrevious, hs] using hk
      exact ⟨by simp, g, rfl, this, Or.inl rfl⟩
  · simp only [hk]
    simp only [Bool.false_eq_true, if_false]
    exact ⟨by simp, _, rfl, Nat.le_refl _, Or.inr (by simp)⟩

-- a refusal with request 0 still in progress does not end `accept`; with nothing in progress it does
example : (acceptLoop false { sentClosing := some 4, largest := some 0, ongoing := [0] } [4, 8]).2 =
      [.rejected 4, .rejected 8, .acceptPending] ∧
    (acceptLoop false { sentClosing := some 4, largest := some 0, ongoing := [] } [4, 8]).2 =
      [.rejected 4, .rejected 8, .acceptNone] ∧
    -- an acceptable stream behind a refused one is still served while a request is in progress …
    (acceptLoop false { sentClosing := some 12, largest := some 0, ongoing := [0] } [12, 4]).2 =
      [.rejected 12, .surfaced 4] ∧
    -- … and when none is (the witness of D-08b: shutdown(1) announced 4, stream 4 arrives before stream 0)
    (run {} [.shutdown 1, .arrive 4, .arrive 0, .accept]).2 =
      [.goaway 4, .shutdownOk, .rejected 4, .surfaced 0] := by decide

/-- **The queue rules over whole histories** (`H3.Spec.Goaway.okQueue`; D-08b).  The judged history
    of a run (`runJ`) is what the model shows with the peer's `arrived id`, the application's
    `completed id` and `shutdownCalled n` put in where the events happen.  For every history whose
    arrivals are distinct request stream IDs (a stream is opened once) and whose `shutdown` counts
    fit `usize`, every observation passes the queue rules against the history before it:

    * a stream is shown or refused at most once;
    * `None` is answered only when every stream the peer has opened has been shown or refused, and
      every request shown is done;
    * a `shutdown(n)` that answers `Ok` leaves a GOAWAY in force whose identifier is at most
      `n` requests past the largest one shown (`shutdownBound`), 2^62 − 4 at most. -/
theorem C08_server_queue (evs : List Ev) (hq : ∀ e ∈ evs, H3.Lemmas.GoawayQueue.QEv e)
    (hn : (arrivals evs).Nodup) :
    validQ {} (H3.Lemmas.GoawayQueue.runJ {} evs) = true := by
  have ha : ∀ l : List Ev, arrivals l = H3.Lemmas.GoawayQueue.arrivalsOf l := by
    intro l
    induction l with
    | nil => rfl
    | cons e r ih => cases e <;> simp [arrivals, H3.Lemmas.GoawayQueue.arrivalsOf, ih]
  have hf : H3.Lemmas.GoawayQueue.IdForm := fun L n h4 hL hn => C08_shutdown_id L n h4 hL hn
  exact H3.Lemmas.GoawayQueue.run_q hf evs {} {} H3.Lemmas.GoawayQueue.qinv_init hq (ha evs ▸ hn)
    (by intro id _; simp)

-- the witness of D-08b as the judge sees it: the repaired model's history passes, the unrepaired tree's does not
example : H3.Lemmas.GoawayQueue.runJ {} [.shutdown 1, .arrive 4, .arrive 0, .accept, .complete 0, .accept] =
      [.shutdownCalled 1, .goaway 4, .shutdownOk, .arrived 4, .arrived 0, .rejected 4, .surfaced 0, .completed 0,
       .acceptPending] ∧
    validQ {} [.shutdownCalled 1, .goaway 4, .shutdownOk, .arrived 4, .arrived 0, .rejected 4, .goaway 0, .acceptNone] = false ∧
    -- `shutdown = Ok` without a GOAWAY, a second outcome, `None` with a request in progress, an identifier above the bound
    validQ {} [.surfaced 0, .shutdownOk, .acceptNone] = false ∧
    validQ {} [.goaway 4, .shutdownOk, .surfaced 0, .surfaced 0] = false ∧
    validQ {} [.surfaced 0, .goaway 4, .shutdownCalled 0, .shutdownOk, .acceptNone] = false ∧
    validQ {} [.goaway 12, .shutdownCalled 2, .shutdownOk] = false ∧
    validQ {} [.goaway 8, .shutdownCalled 2, .shutdownOk] = true := by decide

-- … and the hypotheses of `C08_server_queue` are satisfiable by such a history
example : (∀ e ∈ [Ev.shutdown 1, .arrive 4, .arrive 0, .accept, .complete 0, .accept], H3.Lemmas.GoawayQueue.QEv e) ∧
    (arrivals [Ev.shutdown 1, .arrive 4, .arrive 0, .accept, .complete 0, .accept]).Nodup := by
  refine ⟨?_, by decide⟩
  intro e he; simp at he
  rcases he with rfl | rfl | rfl | rfl | rfl | rfl <;> simp [H3.Lemmas.GoawayQueue.QEv]

/-- **… and over whole histories.**  In every history (any interleaving of arrivals, `accept`
    polls, `shutdown n`, completions, GOAWAYs of the peer), with *in progress* read off the history
    alone (`H3.Spec.Goaway.inProgress`: shown to the application by an earlier step and no
    `complete` for it since): `ongoing_streams` is exactly the set of requests in progress, and a
    step that shows `None` is an `accept` made when no request is in progress (none is in
    progress after it either). -/
theorem C08_accept_none_history (evs : List Ev) :
    inProgress (trace {} evs) = (run {} evs).1.ongoing ∧
    (∀ pre st post, trace {} evs = pre ++ st :: post → Obs.acceptNone ∈ st.2 →
      st.1 = .accept ∧ inProgress pre = [] ∧ inProgress (pre ++ [st]) = []) := by
  obtain ⟨h1, h2⟩ := trace_progress evs {} [] rfl
  refine ⟨by simpa using h1, ?_⟩
  intro pre st post h hn
  simpa using h2 pre st post h hn

-- local shutdown: stream 4 is refused while request 0 is in progress (`accept` keeps waiting);
-- once request 0 has completed the next refusal ends `accept`
example : trace {} [.arrive 0, .accept, .shutdown 0, .arrive 4, .accept, .complete 0, .arrive 8, .accept] =
    [(.arrive 0, []), (.accept, [.surfaced 0]), (.shutdown 0, [.goaway 4, .shutdownOk]), (.arrive 4, []),
     (.accept, [.rejected 4, .acceptPending]), (.complete 0, []), (.arrive 8, []),
     (.accept, [.rejected 8, .acceptNone])] := by decide
example : inProgress (trace {} [.arrive 0, .accept, .shutdown 0, .arrive 4, .accept]) = [0] ∧
    inProgress (trace {} [.arrive 0, .accept, .shutdown 0, .arrive 4, .accept, .complete 0, .arrive 8]) = [] := by
  decide

/-- **Every request below the line is still served.**  After every history — whatever GOAWAYs
    were sent in it (`shutdown n` at any moment, the last one of `accept`) or received from the
    peer, and also after `accept` has answered `None` — `resolve_request` on a request that is in
    progress (shown to the application earlier, not completed: `inProgress`) returns the request
    and leaves the connection as it was.  (Which arrivals are shown is `C08_server_line`: exactly
    those below the last identifier sent; the oracle's clause `notServed ⇒ false` is part of
    `valid` there.) -/
theorem C08_surfaced_request_is_served (evs : List Ev) (id : Nat) (h : id ∈ inProgress (trace {} evs)) :
    step (run {} evs).1 (.resolve id) = ((run {} evs).1, [.served id]) ∧
    okObs true (pushAll {} (run {} evs).2) (.served id) = true := by
  rw [(C08_accept_none_history evs).1] at h
  exact ⟨by simp [step, h], rfl⟩

-- request 0 is served after shutdown(0) has announced 4, after the peer's GOAWAY, and request 4 (below the
-- line of shutdown(1)) is served after `accept` has refused request 8
example : (run {} [.arrive 0, .accept, .shutdown 0, .recvGoaway 0, .accept, .resolve 0]).2 =
      [.surfaced 0, .goaway 4, .shutdownOk, .acceptPending, .served 0] ∧
    (run {} [.arrive 0, .accept, .shutdown 1, .arrive 4, .arrive 8, .accept, .accept, .resolve 4, .resolve 8]).2 =
      [.surfaced 0, .goaway 8, .shutdownOk, .surfaced 4, .rejected 8, .acceptPending, .served 4] ∧
    valid true {} [.surfaced 0, .goaway 4, .notServed 0] = false := by decide

/-! ### client -/

/-- events of a client history; identifiers come off the wire as 62-bit integers
    (`C16_decode_total`). -/
def ClientEv : Ev → Prop
  | .recvGoaway id => id < 2^62
  | .pollClose => True
  | .sendCall => True
  | .sendOpened => True
  | _ => False

private theorem client_run (evs : List Ev) : ∀ (s : State) (ps buf : List Nat),
    (∀ e ∈ evs, ClientEv e) → (∀ id ∈ buf, id < 2^62) → absClient s = clientAfter ps →
    (s.failed = false → s.ctl = buf) →
    absClient (run s evs).1 = clientAfter (evs.foldl feed (ps, buf)).1 := by
  induction evs with
  | nil => intro s ps buf _ _ h _; simpa [run] using h
  | cons e es ih =>
    intro s ps buf hc hbuf habs hctl
    have hes : ∀ e' ∈ es, ClientEv e' := fun e' he' => hc e' (List.mem_cons_of_mem _ he')
    have he := hc e (by simp)
    simp only [run, List.foldl]
    cases e with
    | recvGoaway id =>
      apply ih _ ps (buf ++ [id]) hes
      · intro j hj
        rcases List.mem_append.mp hj with hj | hj
        · exact hbuf j hj
        · have : j = id := by simpa using hj
          subst this; exact he
      · simpa [step, absClient] using habs
      · intro hf; simp only [step]; rw [hctl hf]
    | pollClose =>
      simp only [feed]
      by_cases hf : s.failed = true
      · have hs : (step s .pollClose).1 = s := by simp [step, pollClose, hf]
        rw [hs]
        apply ih s (ps ++ buf) [] hes (by simp)
        · have herr : (clientAfter ps).err = true := by rw [← habs]; exact hf
          rw [habs]
          simp only [clientAfter, List.foldl_append]
          exact (clientStep_err buf _ herr).symm
        · intro hf'; rw [hf] at hf'; cases hf'
      · have hf' : s.failed = false := by simpa using hf
        have hs : (step s .pollClose).1 = procCtlClient s s.ctl := by
          simp only [step, pollClose, hf']
          simp only [Bool.false_eq_true, if_false]
          split <;> rfl
        rw [hs, hctl hf']
        obtain ⟨p1, p2⟩ := procCtlClient_abs buf s hf' hbuf
        apply ih _ (ps ++ buf) [] hes (by simp)
        · rw [p1, habs]; simp [clientAfter, List.foldl_append]
        · exact p2
    | sendCall =>
      simp only [feed]
      by_cases hcl : s.closing = true
      · have hs : (step s .sendCall).1 = s := by simp [step, sendCall, hcl]
        rw [hs]; exact ih s ps buf hes hbuf habs hctl
      · have hs : (step s .sendCall).1 = { s with parked := s.parked + 1 } := by
          simp [step, sendCall, hcl]
        rw [hs]; exact ih _ ps buf hes hbuf habs hctl
    | sendOpened =>
      simp only [feed]
      by_cases hp : s.parked = 0
      · have hs : (step s .sendOpened).1 = s := by simp [step, sendOpened, hp]
        rw [hs]; exact ih s ps buf hes hbuf habs hctl
      · have hs : (step s .sendOpened).1 = { s with parked := s.parked - 1, opened := s.opened + 1 } := by
          simp only [step, sendOpened, hp, if_false]
          split <;> rfl
        rw [hs]; exact ih _ ps buf hes hbuf habs hctl
    | arrive _ => exact absurd he (by simp [ClientEv])
    | accept => exact absurd he (by simp [ClientEv])
    | shutdown _ => exact absurd he (by simp [ClientEv])
    | complete _ => exact absurd he (by simp [ClientEv])
    | resolve _ => exact absurd he (by simp [ClientEv])

/-- **The client's rules.**  For every sequence of GOAWAY identifiers received, driver polls,
    `send_request` calls (`sendCall`) and moments at which a waiting call gets its stream
    (`sendOpened`: at once with stream credit, else when the peer grants it — any time later), with
    `c` the oracle's verdict on the identifiers the driver has been given to process
    (`processed evs`; `clientStep`: a non-request ID or an ID larger than the one before is
    H3_ID_ERROR, after which nothing is processed):

    * the connection has failed with H3_ID_ERROR exactly when the oracle says so, and the
      driver's poll reports exactly that;
    * both gates of `send_request` are exactly "a GOAWAY has been accepted": a call made then
      returns `RemoteClosing` and changes nothing; a call that gets its stream then — **whenever it
      was made, also before the GOAWAY** (D-08c) — returns `RemoteClosing`, its stream is left
      without a byte; otherwise the call waits for its stream / writes the request on the next
      request stream;
    * once gated, gated for ever: whatever else is received, polled, attempted or granted, no call
      starts a request (neither a new one nor one that was waiting). -/
theorem C08_client_rules (evs : List Ev) (hc : ∀ e ∈ evs, ClientEv e) :
    (run {} evs).1.failed = (clientAfter (processed evs)).err ∧
    ((pollClose (run {} evs).1).2 = [.idError] ↔ (pollClose (run {} evs).1).1.failed = true) ∧
    (run {} evs).1.closing = (clientAfter (processed evs)).stopped ∧
    ((clientAfter (processed evs)).stopped = true →
      step (run {} evs).1 .sendCall = ((run {} evs).1, [.remoteClosing]) ∧
      ((run {} evs).1.parked ≠ 0 → step (run {} evs).1 .sendOpened =
        ({ (run {} evs).1 with parked := (run {} evs).1.parked - 1, opened := (run {} evs).1.opened + 1 },
          [.unused (4 * (run {} evs).1.opened), .remoteClosing]))) ∧
    ((clientAfter (processed evs)).stopped = false →
      step (run {} evs).1 .sendCall = ({ (run {} evs).1 with parked := (run {} evs).1.parked + 1 }, []) ∧
      ((run {} evs).1.parked ≠ 0 → step (run {} evs).1 .sendOpened =
        ({ (run {} evs).1 with parked := (run {} evs).1.parked - 1, opened := (run {} evs).1.opened + 1 },
          [.opened (4 * (run {} evs).1.opened)]))) ∧
    ((clientAfter (processed evs)).stopped = true → ∀ more, (∀ e ∈ more, ClientEv e) →
      (clientAfter (processed (evs ++ more))).stopped = true ∧
      step (run {} (evs ++ more)).1 .sendCall = ((run {} (evs ++ more)).1, [.remoteClosing]) ∧
      (∀ i, Obs.opened i ∉ (step (run {} (evs ++ more)).1 .sendOpened).2)) := by
  have key : ∀ evs : List Ev, (∀ e ∈ evs, ClientEv e) →
      absClient (run {} evs).1 = clientAfter (processed evs) := fun evs hc =>
    client_run evs {} [] [] hc (by simp) rfl (fun _ => rfl)
  have gate : ∀ s : State, s.closing = true → step s .sendCall = (s, [.remoteClosing]) := by
    intro s h; simp [step, sendCall, h]
  have gate2 : ∀ s : State, s.closing = true → s.parked ≠ 0 → step s .sendOpened =
      ({ s with parked := s.parked - 1, opened := s.opened + 1 }, [.unused (4 * s.opened), .remoteClosing]) := by
    intro s h hp; simp [step, sendOpened, h, hp]
  have gate2' : ∀ s : State, s.closing = true → ∀ i, Obs.opened i ∉ (step s .sendOpened).2 := by
    intro s h i
    by_cases hp : s.parked = 0
    · simp [step, sendOpened, hp]
    · rw [gate2 s h hp]; simp
  have hk := key evs hc
  have hfail : (run {} evs).1.failed = (clientAfter (processed evs)).err := by rw [← hk]; rfl
  have hclos : (run {} evs).1.closing = (clientAfter (processed evs)).stopped := by rw [← hk]; rfl
  refine ⟨hfail, ?_, hclos, ?_, ?_, ?_⟩
  · generalize (run {} evs).1 = s
    unfold pollClose
    by_cases hf : s.failed = true
    · simp [hf]
    · simp only [hf]
      simp only [Bool.false_eq_true, if_false]
      by_cases hf1 : (procCtlClient s s.ctl).failed = true
      · simp [hf1]
      · simp [hf1]
  · intro hst; exact ⟨gate _ (hclos.trans hst), gate2 _ (hclos.trans hst)⟩
  · intro hst
    have : (run {} evs).1.closing = false := hclos.trans hst
    refine ⟨by simp [step, sendCall, this], ?_⟩
    intro hp
    simp [step, sendOpened, this, hp]
  · intro hst more hm
    have hall : ∀ e ∈ evs ++ more, ClientEv e := by
      intro e he
      rcases List.mem_append.mp he with h | h
      · exact hc e h
      · exact hm e h
    have hst' : (clientAfter (processed (evs ++ more))).stopped = true := by
      obtain ⟨y, hy⟩ := feed_prefix more (evs.foldl feed ([], []))
      have : processed (evs ++ more) = processed evs ++ y := by
        simp only [processed, List.foldl_append]; exact hy
      rw [this]
      simp only [clientAfter, List.foldl_append]
      exact clientStep_stopped y _ hst
    have := key (evs ++ more) hall
    have hcl : (run {} (evs ++ more)).1.closing = (clientAfter (processed (evs ++ more))).stopped := by
      rw [← this]; rfl
    exact ⟨hst', gate _ (hcl.trans hst'), gate2' _ (hcl.trans hst')⟩

/-- What the client oracle says, without the fold: no H3_ID_ERROR ⇔ every identifier processed
    is a client-initiated bidirectional stream ID and the sequence never increases; new requests
    are stopped ⇔ a first GOAWAY was processed and was such an ID. -/
theorem C08_client_oracle (ids : List Nat) :
    ((clientAfter ids).err = false ↔
      (∀ id ∈ ids, clientBidi id = true) ∧ ids.Pairwise (fun a b => b ≤ a)) ∧
    ((clientAfter ids).stopped = true ↔ ∃ id r, ids = id :: r ∧ clientBidi id = true) := by
  constructor
  · have := clientFold_ok ids {} rfl
    simpa [clientAfter] using this
  · cases ids with
    | nil => simp [clientAfter]
    | cons id r =>
      simp only [clientAfter, List.foldl]
      by_cases hb : clientBidi id = true
      · have hs : clientStep {} id = { prev := some id, stopped := true } := by
          simp [clientStep, clientBad, hb]
        rw [hs]
        exact ⟨fun _ => ⟨id, r, rfl, hb⟩, fun _ => clientStep_stopped r _ rfl⟩
      · have hb' : clientBidi id = false := by simpa using hb
        have hs : clientStep {} id = { err := true } := by simp [clientStep, clientBad, hb']
        rw [hs, clientStep_err r _ rfl]
        constructor
        · intro h; cases h
        · rintro ⟨id', r', h1, h2⟩
          simp only [List.cons.injEq] at h1
          rw [← h1.1, hb'] at h2; cases h2

/-! ### non-vacuity: concrete histories -/

/-- **`shutdown` on a failed connection** (the repair of D-05s): once a connection error has been
    recorded (here: H3_ID_ERROR for a GOAWAY whose identifier increased) `shutdown(n)` reports it,
    writes no GOAWAY and changes nothing — `sent_closing` included, so the identifiers the peer has
    seen stay those `C08_server_line` has judged. -/
theorem C08_shutdown_on_failed_connection (s : State) (n : Nat) (hf : s.failed = true) :
    step s (.shutdown n) = (s, [.shutdownErr]) := by
  simp [step, hf]

-- a failed connection (the peer's GOAWAY identifier increased: H3_ID_ERROR): `shutdown` reports the
-- error `accept` reported and writes no GOAWAY (D-05s, repaired)
example : (run {} [.arrive 0, .accept, .recvGoaway 4, .accept, .recvGoaway 8, .accept, .shutdown 0, .shutdown 2]).2 =
    [.surfaced 0, .acceptPending, .acceptErr, .shutdownErr, .shutdownErr] := by decide
-- shutdown(0) after serving stream 0 announces 4 and refuses stream 4
example : (run {} [.arrive 0, .accept, .shutdown 0, .arrive 4, .accept]).2 =
    [.surfaced 0, .goaway 4, .shutdownOk, .rejected 4, .acceptPending] := by decide
-- out-of-order arrival: the identifier is based on the largest accepted ID, not the latest
example : (run {} [.arrive 8, .arrive 4, .accept, .accept, .shutdown 0]).2 =
    [.surfaced 8, .surfaced 4, .goaway 12, .shutdownOk] := by decide
-- grace interval, repeated shutdowns never raise the identifier; the last request done, a refusal ends accept
example : (run {} [.arrive 0, .accept, .shutdown 2, .shutdown 3, .shutdown 0, .arrive 4, .complete 0, .accept]).2 =
    [.surfaced 0, .goaway 12, .shutdownOk, .shutdownOk, .goaway 4, .shutdownOk, .rejected 4, .acceptNone] := by decide
-- nothing accepted yet: shutdown(2) still lets two requests in
example : (run {} [.shutdown 2, .arrive 0, .arrive 4, .arrive 8, .accept, .accept, .accept]).2 =
    [.goaway 8, .shutdownOk, .surfaced 0, .surfaced 4, .rejected 8, .acceptPending] := by decide
-- the hypothesis of `C08_server_line` is needed: at the last index the identifier cannot exceed the request
example : valid true {} (run {} [.arrive (2^62 - 4), .accept, .shutdown 5]).2 = false ∧
    valid false {} (run {} [.arrive (2^62 - 4), .accept, .shutdown 5]).2 = true := by decide
-- … and is satisfiable
example : ∀ e ∈ [Ev.arrive 8, .arrive 4, .accept, .shutdown 3], Below 3 e := by
  intro e he; simp at he; rcases he with rfl | rfl | rfl | rfl <;> simp [Below]
-- client: accepted GOAWAY gates send_request; a larger one afterwards is H3_ID_ERROR, the gate stays
example : (run {} [.sendCall, .sendOpened, .recvGoaway 8, .pollClose, .sendCall, .recvGoaway 12, .pollClose, .sendCall]).2 =
    [.opened 0, .drvPending, .remoteClosing, .idError, .remoteClosing] := by decide
-- client (the witness of D-08c): a call waits for stream credit, the GOAWAY is processed, the credit arrives: the call is
-- refused, stream 0 stays without a byte, and so is every later call; with the credit first the request goes out
example : (run {} [.sendCall, .recvGoaway 0, .pollClose, .sendOpened, .sendCall]).2 =
      [.drvPending, .unused 0, .remoteClosing, .remoteClosing] ∧
    (run {} [.sendCall, .sendOpened, .recvGoaway 0, .pollClose, .sendCall]).2 =
      [.opened 0, .drvPending, .remoteClosing] ∧
    (∀ e ∈ [Ev.sendCall, .recvGoaway 0, .pollClose, .sendOpened], ClientEv e) := by
  refine ⟨by decide, by decide, ?_⟩
  intro e he; simp at he; rcases he with rfl | rfl | rfl | rfl <;> simp [ClientEv]
-- client: a server-initiated ID is H3_ID_ERROR and does not gate
example : (run {} [.recvGoaway 3, .pollClose, .sendCall, .sendOpened]).2 = [.idError, .opened 0] := by decide
example : clientAfter [8, 4, 4, 0] = ⟨some 0, false, true⟩ ∧ (clientAfter [8, 4, 5]).err = true ∧
    (clientAfter [2]).stopped = false := by decide

end H3.Props.C08
