import H3.Lemmas.Qpack
/-! # C11 — stateless QPACK field sections: what h3 writes and accepts is RFC 9204, exactly

Property theorems only.  Model: `H3.Qpack` (`qpack/{static_,field,block,encoder,decoder}.rs`, tables
regenerated from the source).  Specification: `H3.Spec.Qpack` (two-stage RFC 9204 §4.5 decoder for
dynamic-table capacity 0, hand-typed Appendix A, strict RFC 7541 strings).

The theorems about byte strings rest on the C15 theorems (prefixed integers, Huffman codec,
string literals); they take them as the explicit hypothesis `C15Facts`, whose fields are the
statements of `H3.Props.C15` verbatim (discharge: `⟨C15_prefix_int_roundtrip,
C15_prefix_int_ok_sound, C15_huffman_roundtrip, C15_string_literal_encode, C15_string_literal_roundtrip,
C15_huffman_accepts_exactly_partial⟩`). -/
namespace H3.Props.C11
open H3.Qpack H3.Qpack.Lemmas

/-- The generated `PREDEFINED_HEADERS` is RFC 9204 Appendix A (99 entries); `find` answers with an
    index holding exactly the field, `find_name` with an index holding the name; both answer with
    the *first* such index (not required by the RFC; recorded because the encoder's output depends
    on it). -/
theorem C11_static_table_is_rfc :
    H3.Gen.StaticTable.table = H3.Spec.Qpack.staticTable ∧
    H3.Spec.Qpack.staticTable.length = 99 ∧
    (∀ f i, StaticTable.find f = some i → StaticTable.get i = some f) ∧
    (∀ n i, StaticTable.findName n = some i → ∃ f, StaticTable.get i = some f ∧ f.name = n) ∧
    (∀ f i, StaticTable.find f = some i → ∀ j, j < i → StaticTable.get j ≠ some f) ∧
    (∀ n i, StaticTable.findName n = some i → ∀ j f, j < i → StaticTable.get j = some f → f.name ≠ n) := by
  refine ⟨table_eq, by decide +kernel, ?_, ?_, ?_, ?_⟩
  · intro f i h
    simp [StaticTable.get, find_sound f i h]
  · intro n i h
    obtain ⟨v, hv⟩ := findName_sound n i h
    exact ⟨⟨n, v⟩, by simp [StaticTable.get, hv], rfl⟩
  · intro f i h j hj
    have hm := findGo_mem _ _ _ _ h
    have hall : H3.Gen.StaticTable.findArms.all (fun e =>
        (List.range e.2).all (fun j => H3.Gen.StaticTable.table[j]? != some e.1)) = true := by
      decide +kernel
    have := List.all_eq_true.mp (List.all_eq_true.mp hall _ hm) j (List.mem_range.mpr hj)
    intro hc
    unfold StaticTable.get at hc
    cases ht : H3.Gen.StaticTable.table[j]? with
    | none => simp [ht] at hc
    | some p =>
      obtain ⟨a, b⟩ := p
      simp only [ht, Option.some.injEq] at hc
      subst hc
      simp [ht] at this
  · intro n i h j f hj hg
    have hm := findNameGo_mem _ _ _ h
    have hall : H3.Gen.StaticTable.findNameArms.all (fun e =>
        (List.range e.2).all (fun j => (H3.Gen.StaticTable.table[j]?).map (·.1) != some e.1)) = true := by
      decide +kernel
    have := List.all_eq_true.mp (List.all_eq_true.mp hall _ hm) j (List.mem_range.mpr hj)
    intro hc
    unfold StaticTable.get at hg
    cases ht : H3.Gen.StaticTable.table[j]? with
    | none => simp [ht] at hg
    | some p =>
      obtain ⟨a, b⟩ := p
      simp only [ht, Option.some.injEq] at hg
      subst hg
      simp only at hc
      subst hc
      simp [ht] at this

example : StaticTable.find ⟨[58, 109, 101, 116, 104, 111, 100], [71, 69, 84]⟩ = some 17 := by decide +kernel
example : StaticTable.findName [58, 115, 116, 97, 116, 117, 115] = some 24 := by decide +kernel
example : StaticTable.get 99 = none := by decide +kernel

/-- Every field section h3 encodes — any field list over all byte values whose names and values have Huffman
    codings that fit the Huffman encoder's `u32` positions (the hypothesis `Writable` is: octets, coding length
    `L` with `7·L < 2^32`, i.e. shorter than 613 566 757 octets; decidable.  With the earlier "any lengths
    < 2^63" the statement was FALSE OF THE CODE: `encode_stateless` with ONE field whose value is 450 000 000 ×
    `0a` panics in `HuffmanEncoder::put` — site D-15e, `C15_huffman_encoder_positions_fit`, probe
    `huff encn 0a 450000000`) — does not
    panic, starts with the prefix `00 00`, consists of octets, and is decoded by the independent RFC 9204
    decoder to exactly the input list, in order, through static-indexed, static-name-reference and
    literal lines only.  (h3's OWN decoder reads it back when, moreover, every Huffman coding is shorter
    than 2^29 − 2 octets — `Encodable`, `C10_own_encoding_exact` — and refuses it otherwise:
    `C15_string_literal_beyond_bound`, the bound of the repair of D-06u.) -/
theorem C11_encode_then_rfc_decode (h15 : C15Facts) (fs : List Field) (hfs : ∀ f ∈ fs, Writable f) :
    encodeStateless? fs = some (encodeStateless fs) ∧
    Spec.Qpack.specDecode (encodeStateless fs).1 = .ok (pairs fs) ∧
    (encodeStateless fs).1.take 2 = [0, 0] ∧
    (∀ b ∈ (encodeStateless fs).1, b < 256) ∧
    ∃ ls, Spec.Qpack.parse (encodeStateless fs).1 = .ok ls ∧ ls.all (·.isStateless) = true := by
  obtain ⟨bs, henc, hwf, ls, hparse, hia, hall⟩ := encodeStateless_spec h15 fs hfs
  have he : encodeStateless fs = ([0, 0] ++ bs, Spec.Qpack.size (pairs fs)) := by
    simp [encodeStateless, henc]
  rw [he]
  refine ⟨henc, ?_, rfl, ?_, ls, hparse, hall⟩
  · simp only [Spec.Qpack.specDecode, hparse, hia]
  · intro b hb
    simp only [List.cons_append, List.nil_append, List.mem_cons] at hb
    rcases hb with rfl | rfl | hb
    · omega
    · omega
    · exact hwf b hb

-- `:method: GET`, `x-a: aa`, `:status: 431`, `"": ""` ↦ `00 00 d1 2b f2 b0 ff 82 18 ff 5f 09 83 69 90 ff 28 80`
example : (encodeStateless [⟨[58, 109, 101, 116, 104, 111, 100], [71, 69, 84]⟩, ⟨[120, 45, 97], [97, 97]⟩,
      ⟨[58, 115, 116, 97, 116, 117, 115], [52, 51, 49]⟩, ⟨[], []⟩]).1 =
    [0, 0, 0xd1, 0x2b, 0xf2, 0xb0, 0xff, 0x82, 0x18, 0xff, 0x5f, 0x09, 0x83, 0x69, 0x90, 0xff, 0x28, 0x80] := by
  decide +kernel
example : Spec.Qpack.specDecode
    [0, 0, 0xd1, 0x2b, 0xf2, 0xb0, 0xff, 0x82, 0x18, 0xff, 0x5f, 0x09, 0x83, 0x69, 0x90, 0xff, 0x28, 0x80] =
    .ok [([58, 109, 101, 116, 104, 111, 100], [71, 69, 84]), ([120, 45, 97], [97, 97]),
         ([58, 115, 116, 97, 116, 117, 115], [52, 51, 49]), ([], [])] := by decide +kernel

/- Full statement (false on the unchanged and on the repaired tree, because of D-15):

     ∀ b max fs m, (∀ x ∈ b, x < 256) → decodeStateless b max = .ok fs m →
       Spec.Qpack.specDecode b = .ok (pairs fs) ∧ …

   What is missing: the sections one of whose Huffman-coded string literals is accepted through the
   lax `check_eof` branch of the Huffman decoder (ghost flag `laxSection`; site D-15, recorded for
   C15 and C11, not repaired because a repository test demands the laxity). -/

/-- Every byte string h3 accepts as a field section — under any limit, outside the lax Huffman
    branch — is a valid RFC 9204 encoding for a decoder of capacity 0, h3's field list equals the
    independent decoding, the reported size is the RFC 9114 §4.2.2 size and within the limit, and
    every line is static-indexed, static-name-reference or literal. -/
theorem C11_accepts_only_rfc_partial (h15 : C15Facts) (b : List Nat) (hb : ∀ x ∈ b, x < 256) (max : Nat)
    (fs : List Field) (m : Nat) (h : decodeStateless b max = .ok fs m) (hlax : laxSection b max = false) :
    Spec.Qpack.specDecode b = .ok (pairs fs) ∧
    m = Spec.Qpack.size (pairs fs) ∧ m ≤ max ∧
    ∃ ls, Spec.Qpack.parse b = .ok ls ∧ ls.all (·.isStateless) = true := by
  have hx : decodeStatelessX b max = (.ok fs m, false) := by
    unfold decodeStateless at h
    unfold laxSection at hlax
    rw [← h, ← hlax]
  obtain ⟨ls, hparse, hia, hall, hm, hle⟩ := decodeStatelessX_sound h15 b hb max fs m hx
  exact ⟨by simp only [Spec.Qpack.specDecode, hparse, hia], hm, hle, ls, hparse, hall⟩

example : decodeStatelessX [0, 0, 0xd1, 0x5f, 0x09, 0x83, 0x69, 0x90, 0xff] 1000 =
    (.ok [⟨[58, 109, 101, 116, 104, 111, 100], [71, 69, 84]⟩, ⟨[58, 115, 116, 97, 116, 117, 115], [52, 51, 49]⟩] 84,
     false) := by decide +kernel

/-- The negation of the full statement on a concrete witness (D-15): `00 00 5f 09 81 ff` — a
    literal with name reference `:status` whose value is one octet `ff` of Huffman data, i.e.
    eight bits of padding — is accepted as `:status: ""`; RFC 7541 §5.2 makes it a decoding error. -/
theorem C11_accepts_only_rfc_fails_on_lax_branch :
    decodeStatelessX [0, 0, 0x5f, 0x09, 0x81, 0xff] 1000 =
      (.ok [⟨[58, 115, 116, 97, 116, 117, 115], []⟩] 39, true) ∧
    Spec.Qpack.specDecode [0, 0, 0x5f, 0x09, 0x81, 0xff] = .error .invalidHuffman := by
  constructor <;> decide +kernel

/-- The three receive call sites (`accept_with_frame`, `recv_response`, `poll_recv_trailers`) map
    the decoder's answer by the same three-row table: `Ok` goes on, `HeaderTooLong` becomes
    `HeaderTooBig` without connection error, *every other error* becomes the connection error
    `QPACK_DECOMPRESSION_FAILED`.

    Whatever the RFC decoder rejects — truncated integer or string, invalid Huffman coding,
    Required Insert Count or sign bit impossible for capacity 0, relative or post-base reference
    to the dynamic table, static index ≥ 99 (the reasons of `Spec.Qpack.Reject`) — h3 rejects
    (outside the lax Huffman branch): with an error of the third row, at every site; or, when the
    lines before the invalid one already exceed the limit, with the size error (`max < n`).  With a
    limit no section of that length can reach (`128·|b| ≤ max`) it is always the connection error. -/
theorem C11_rejects (h15 : C15Facts) (b : List Nat) (hb : ∀ x ∈ b, x < 256) (max : Nat)
    (r : Spec.Qpack.Reject) (hspec : Spec.Qpack.specDecode b = .error r)
    (hlax : laxSection b max = false) :
    ∃ e, decodeStateless b max = .err e ∧ e ≠ .fuel ∧
      ((∃ n, e = .headerTooLong n ∧ max < n ∧ n ≤ 128 * b.length) ∨
       (∀ site, recvSite site max b = .connError QPACK_DECOMPRESSION_FAILED)) ∧
      (128 * b.length ≤ max → ∀ site, recvSite site max b = .connError QPACK_DECOMPRESSION_FAILED) := by
  cases hd : decodeStateless b max with
  | ok fs m =>
    have := (C11_accepts_only_rfc_partial h15 b hb max fs m hd hlax).1
    rw [hspec] at this; cases this
  | err e =>
    have hx : decodeStatelessX b max = (.err e, laxSection b max) := by
      unfold decodeStateless at hd
      unfold laxSection
      rw [← hd]
    -- facts about the run
    have hfacts : e ≠ .fuel ∧ ∀ n, e = .headerTooLong n → max < n ∧ n ≤ 128 * b.length := by
      rcases decodeStatelessX_eq b max _ _ hx with ⟨e', he, hf, hnt, _⟩ | ⟨rest, ⟨pre, hsplit⟩, hall⟩
      · injection he with he
        subst he
        exact ⟨hf, fun n hn => absurd hn (hnt n)⟩
      · have hrun := hall max
        rw [hx] at hrun
        obtain ⟨hf, _, htl⟩ := decodeLoop_facts max rest.length rest 0 _ _ hrun.symm (Nat.le_refl _)
        refine ⟨fun hc => hf (by rw [hc]), fun n hn => ?_⟩
        obtain ⟨h1, h2⟩ := htl n (by rw [hn])
        have : rest.length ≤ b.length := by rw [hsplit, List.length_append]; omega
        exact ⟨h1, by omega⟩
    obtain ⟨hfuel, htl⟩ := hfacts
    have hsite : (∀ n, e ≠ .headerTooLong n) →
        ∀ site, recvSite site max b = .connError QPACK_DECOMPRESSION_FAILED := by
      intro hn site
      unfold recvSite
      rw [hd]
      cases e <;> first | rfl | exact absurd rfl (hn _)
    refine ⟨e, rfl, hfuel, ?_, ?_⟩
    · by_cases hc : ∃ n, e = .headerTooLong n
      · obtain ⟨n, hn⟩ := hc
        exact Or.inl ⟨n, hn, htl n hn⟩
      · exact Or.inr (hsite (fun n hn => hc ⟨n, hn⟩))
    · intro hbig
      apply hsite
      intro n hn
      have := htl n hn
      omega

/-! Non-vacuity: one witness per category of the property text (specification's reason, model's
    error, outcome at a receive site). -/
-- relative reference to the dynamic table (indexed, T = 0)
example : Spec.Qpack.specDecode [0, 0, 0x80] = .error .dynamicReference ∧
    decodeStateless [0, 0, 0x80] 1000 = .err (.missingRefs 0) ∧
    recvSite .serverRequest 1000 [0, 0, 0x80] = .connError 512 := by decide +kernel
-- literal with a dynamic name reference (T = 0)
example : Spec.Qpack.specDecode [0, 0, 0x40, 0x00] = .error .dynamicReference ∧
    decodeStateless [0, 0, 0x40, 0x00] 1000 = .err (.missingRefs 0) := by decide +kernel
-- post-base index and post-base name reference
example : Spec.Qpack.specDecode [0, 0, 0x10] = .error .postBaseReference ∧
    decodeStateless [0, 0, 0x10] 1000 = .err (.missingRefs 0) ∧
    Spec.Qpack.specDecode [0, 0, 0x00, 0x00] = .error .postBaseReference ∧
    decodeStateless [0, 0, 0x00, 0x00] 1000 = .err (.missingRefs 0) := by decide +kernel
-- static index 99
example : Spec.Qpack.specDecode [0, 0, 0xff, 0x24] = .error (.staticIndex 99) ∧
    decodeStateless [0, 0, 0xff, 0x24] 1000 = .err (.invalidStaticIndex 99) ∧
    recvSite .clientResponse 1000 [0, 0, 0xff, 0x24] = .connError 512 := by decide +kernel
-- truncated integer, truncated string
example : Spec.Qpack.specDecode [0, 0, 0xff] = .error .truncatedInteger ∧
    decodeStateless [0, 0, 0xff] 1000 = .err (.invalidInteger .unexpectedEnd) ∧
    Spec.Qpack.specDecode [0, 0, 0x5f, 0x09, 0x03, 0x61] = .error .truncatedString ∧
    decodeStateless [0, 0, 0x5f, 0x09, 0x03, 0x61] 1000 = .err (.invalidString .unexpectedEnd) ∧
    recvSite .clientTrailers 1000 [0, 0, 0x5f, 0x09, 0x03, 0x61] = .connError 512 := by decide +kernel
-- integer with an eleventh continuation octet (oversized): refused, never a wrapped value
example : decodeStateless [0, 0, 0xff, 0xff, 0xff, 0xff, 0xff, 0xff, 0xff, 0xff, 0xff, 0xff, 0xff, 0x01] 1000 =
    .err (.invalidInteger .overflow) := by decide +kernel
-- invalid Huffman coding that the decoder does detect (EOS prefix too long *and* crossing a level)
example : Spec.Qpack.specDecode [0, 0, 0x5f, 0x09, 0x82, 0xff, 0xff] = .error .invalidHuffman := by
  decide +kernel
-- section prefix: Required Insert Count 5, sign bit 1 (D-11, repaired)
example : Spec.Qpack.specDecode [5, 0, 0xd1] = .error .requiredInsertCount ∧
    decodeStateless [5, 0, 0xd1] 1000 = .err (.invalidInteger .overflow) ∧
    Spec.Qpack.specDecode [0, 0x80, 0xd1] = .error .negativeBase ∧
    decodeStateless [0, 0x80, 0xd1] 1000 = .err (.badBaseIndex (-1)) ∧
    recvSite .serverTrailers 1000 [0, 0x80, 0xd1] = .connError 512 := by decide +kernel
-- no first octet of a line is an "unknown prefix": the five patterns cover all 256 values
example : ∀ first < 256, HeaderBlockField.decode first ≠ .unknown := by decide +kernel

end H3.Props.C11
