import H3.Lemmas.FrameStreamReader
import H3.Lemmas.FrameLaws
import H3.Lemmas.FrameRefSpec
import H3.Lemmas.FrameStreamFast
import H3.Lemmas.GenAgreeReq
import H3.Lemmas.GenAgreeCtl
import H3.Lemmas.FramingStrict
import H3.Lemmas.FrameStreamSplit
import H3.Lemmas.C06Frame
/-! # C02 — frame boundaries follow RFC 9114 §7.1 exactly, independent of chunking

Property theorems only.  Models: `H3.Frame` (`Frame::decode`, `proto/frame.rs`), `H3.FS`
(`FrameStream::{poll_next,poll_data}`, `FrameDecoder::decode`, `BufList`, `frame.rs`/`buf.rs`/
`stream.rs`).  Specification: `H3.Spec.Framing` (RFC 9114 §7.1/§7.2 oracle `observe`),
`H3.Spec.FrameRef` (byte-at-a-time reference automaton `run`, the decoder laws `Laws`, the
invariant `Inv`, reachable configurations `Reach`, the segmentation `Boundary`),
`H3.Spec.FrameAgree` (`Agree`: automaton result vs. oracle tokens).

All statements are unbounded: no bound on lengths, number of chunks or number of calls. -/
namespace H3.Props.C02
open H3.Varint H3.FS H3.Spec.Framing

deriving instance DecidableEq for H3.FS.Out

/-! ## 1. `Frame::decode` is the §7.1 segmentation with the §7.2 payload grammar -/

/-- With `rfcDecode` (RFC 9000 §16) for type and length: header not complete ⇒ `Incomplete`;
    DATA ⇒ `Data(len)` consuming the header only; payload not all there ⇒ `Incomplete`;
    otherwise exactly `header + len` bytes are consumed for frames and for unknown types
    (skipped in full), and the payload is classified exactly as `Spec.Framing.classify` does:
    the same frame value, `Malformed` ⇔ `.malformed`, `UnsupportedFrame` ⇔ `.h2`,
    SETTINGS error ⇔ `.badSettings`.  (The header size `|w| - |r2|` is `size(ty) + size(len)`
    as encoded; the WebTransport header 0x41 is outside this specification.) -/
theorem C02_frame_decode_is_segment (w : Varint.Bytes) (hwf : WF w) :
    (rfcDecode w = none → ∃ m, H3.Frame.decode w = .incomplete m) ∧
    ∀ ty r1, rfcDecode w = some (ty, r1) → ty ≠ 0x41 →
      (rfcDecode r1 = none → ∃ m, H3.Frame.decode w = .incomplete m) ∧
      ∀ len r2, rfcDecode r1 = some (len, r2) →
        (w.length - r2.length = rfcLen (w.headD 0) + rfcLen (r1.headD 0) ∧
          r2 = w.drop (w.length - r2.length)) ∧
        (ty = 0x0 → H3.Frame.decode w = .frame (.data len) (w.length - r2.length)) ∧
        (ty ≠ 0x0 → r2.length < len → ∃ m, H3.Frame.decode w = .incomplete m) ∧
        (ty ≠ 0x0 → len ≤ r2.length →
          (isKnown ty = false → H3.Frame.decode w = .unknown (w.length - r2.length + len)) ∧
          (isKnown ty = true →
            match classify ty (r2.take len) with
            | .frame f => H3.Frame.decode w = .frame f (w.length - r2.length + len)
            | .okSettings => ∃ es, H3.Frame.decode w = .frame (.settings es) (w.length - r2.length + len)
            | .badSettings => ∃ e, H3.Frame.decode w = .error (.settings e)
            | .malformed => H3.Frame.decode w = .error .malformed
            | .h2 t => H3.Frame.decode w = .error (.unsupported t)
            | _ => False)) := by
  have hv := H3.Frame.decode_view w
  rw [H3.Frame.hdr2_of_rfc w hwf] at hv
  refine ⟨fun h1 => ?_, fun ty r1 h1 hty => ?_⟩
  · rw [h1] at hv; exact ⟨_, hv⟩
  · rw [h1] at hv
    simp only at hv
    refine ⟨fun h2 => ?_, fun len r2 h2 => ?_⟩
    · rw [h2] at hv; exact ⟨_, hv⟩
    · rw [h2] at hv
      simp only at hv
      obtain ⟨hh2, hle, hr2⟩ := H3.Frame.rfc_rest2 h1 h2
      have hwt : ty ≠ H3.Gen.Consts.FRAME_WEBTRANSPORT_BI_STREAM := hty
      unfold H3.Frame.body at hv
      rw [if_neg hwt] at hv
      have hsz : w.length - r2.length = rfcLen (w.headD 0) + rfcLen (r1.headD 0) := by
        have ⟨a1, a2⟩ := H3.Frame.rfc_len h1
        have ⟨a3, a4⟩ := H3.Frame.rfc_len h2
        omega
      refine ⟨⟨hsz, hr2⟩, fun hd => ?_, fun hd hs => ?_, fun hd hc => ?_⟩
      · have hd' : ty = H3.Gen.Consts.FRAME_DATA := hd
        rw [if_pos hd'] at hv; exact hv
      · have hd' : ty ≠ H3.Gen.Consts.FRAME_DATA := hd
        rw [if_neg hd', if_pos (by omega)] at hv; exact ⟨_, hv⟩
      · have hd' : ty ≠ H3.Gen.Consts.FRAME_DATA := hd
        rw [if_neg hd', if_neg (by omega), ← hr2] at hv
        refine ⟨fun hk => ?_, fun hk => ?_⟩
        · rw [hv, H3.Frame.typed_unknown ty _ _ hk]
        · have hTA := H3.Frame.typed_classify ty (r2.take len) (w.length - r2.length + len)
            (H3.Frame.WF_take (by rw [hr2]; exact H3.Frame.WF_drop hwf _) _) hk
          rw [← hv] at hTA
          revert hTA
          cases classify ty (r2.take len) <;> simp only [H3.Frame.TypedAgrees] <;> intro hTA
          all_goals first | exact hTA | exact hTA.1

-- GOAWAY(5) followed by another byte: three bytes consumed; payload with extra bytes: malformed
-- (D-02a, repaired); payload shorter than its varint: malformed, not Incomplete (D-02b, repaired);
-- a grease frame is skipped in full
example : H3.Frame.decode [0x07, 0x01, 0x05, 0xff] = .frame (.goaway 5) 3 := by decide
example : H3.Frame.decode [0x07, 0x03, 0x01, 0x00, 0x00] = .error .malformed ∧
    classify 0x7 [0x01, 0x00, 0x00] = .malformed := by decide
example : H3.Frame.decode [0x07, 0x01, 0x40] = .error .malformed := by decide
example : H3.Frame.decode [0x21, 0x02, 0xaa, 0xbb, 0x01] = .unknown 4 := by decide

/-- SETTINGS payloads: the model reports an error exactly when the specification (pairs of
    varints, no HTTP/2 identifier, no repeated defined identifier) says `badSettings`. -/
theorem C02_settings_payload_agrees (p : Varint.Bytes) (hwf : WF p) :
    (∃ e, H3.Frame.settingsDecode p = .error e) ↔ classify 0x4 p = .badSettings := by
  have h := H3.Frame.settings_agrees p hwf
  cases hd : H3.Frame.settingsDecode p with
  | error e =>
    rw [hd] at h
    have : classify 4 p = .badSettings := by simpa [H3.Frame.isError] using h.symm
    exact ⟨fun _ => this, fun _ => ⟨e, rfl⟩⟩
  | ok es =>
    rw [hd] at h
    have : classify 4 p ≠ .badSettings := by
      intro hc; rw [hc] at h; simp [H3.Frame.isError] at h
    exact ⟨fun h' => (by obtain ⟨e, he⟩ := h'; cases he), fun hc => absurd hc this⟩

example : classify 0x4 [0x06, 0x10, 0x06, 0x11] = .badSettings ∧
    H3.Frame.isError (H3.Frame.settingsDecode [0x06, 0x10, 0x06, 0x11]) = true := by decide
example : classify 0x4 [0x06, 0x10, 0x21, 0x11] = .okSettings := by decide

/-! ## 2. The three laws of the decoder -/

/-- `Frame::decode` satisfies L1 (stability, `1 ≤ n ≤ |b|`), L2 (minimality) and L3 (lower
    bound) of DESIGN App. B.1 — the hypotheses of the generic theorems below. -/
theorem C02_decode_laws : Laws frameDec := frameDec_laws

example : frameDec.dec [0x07, 0x01, 0x05] = .frame (.goaway 5) 3 := rfl

/-- L1 and L2 spelled out on `Frame.decode`: a definite answer on `b` is the answer on every
    extension; the position `n` of a frame/skip answer satisfies `1 ≤ n ≤ |b|`, no prefix
    shorter than `n` has a definite answer, and the prefix of length `n` has this answer. -/
theorem C02_decode_stable_minimal (b c : Varint.Bytes)
    (h : ∀ m, H3.Frame.decode b ≠ .incomplete m) :
    H3.Frame.decode (b ++ c) = H3.Frame.decode b ∧
    ∀ n, (H3.Frame.decode b = .unknown n ∨ ∃ f, H3.Frame.decode b = .frame f n) →
      1 ≤ n ∧ n ≤ b.length ∧ (∀ k, k < n → ∃ m, H3.Frame.decode (b.take k) = .incomplete m) ∧
      H3.Frame.decode (b.take n) = H3.Frame.decode b := by
  have hdef : (frameDec.dec b).isIncomplete = false := (liftRes_definite_iff _).mpr h
  refine ⟨liftRes_inj (frameDec_stable b c hdef), fun n hn => ?_⟩
  have hpos : (frameDec.dec b).pos? = some n := by
    show (liftRes (H3.Frame.decode b)).pos? = some n
    rcases hn with hn | ⟨f, hn⟩ <;> rw [hn] <;> rfl
  have ⟨h1, h2⟩ := frameDec_pos_le b n hpos
  have ⟨h3, h4⟩ := frameDec_minimal b n hpos
  exact ⟨h1, h2, fun k hk => (liftRes_incomplete_iff _).mp (h3 k hk), liftRes_inj h4⟩

example : H3.Frame.decode ([0x07, 0x01, 0x05] ++ [0xff, 0xee]) = H3.Frame.decode [0x07, 0x01, 0x05] ∧
    H3.Frame.decode ([0x07, 0x01, 0x05, 0xff].take 3) = H3.Frame.decode [0x07, 0x01, 0x05, 0xff] := by
  have h : ∀ b, H3.Frame.decode b = .frame (.goaway 5) 3 → ∀ m, H3.Frame.decode b ≠ .incomplete m := by
    intro b hb m hm; rw [hb] at hm; cases hm
  exact ⟨(C02_decode_stable_minimal _ _ (h _ (by decide))).1,
    ((C02_decode_stable_minimal [0x07, 0x01, 0x05, 0xff] [] (h _ (by decide))).2 3
      (Or.inr ⟨.goaway 5, by decide⟩)).2.2.2⟩

/-- L3 = `incomplete_is_sound`: after `Incomplete(m)` no extension shorter than `m` bytes can
    decode — the licence for the `FrameDecoder.expected` memo. -/
theorem C02_incomplete_is_sound (b c : Varint.Bytes) (m : Nat)
    (h : H3.Frame.decode b = .incomplete m) (hlt : (b ++ c).length < m) :
    ∃ m', H3.Frame.decode (b ++ c) = .incomplete m' := by
  apply (liftRes_incomplete_iff _).mp
  cases hd : (liftRes (H3.Frame.decode (b ++ c))).isIncomplete with
  | true => rfl
  | false =>
    have := frameDec_lower b c m (by show liftRes _ = _; rw [h]; rfl) hd
    omega

example : ∃ m', H3.Frame.decode ([0x07, 0x03, 0x01] ++ [0x00]) = .incomplete m' :=
  C02_incomplete_is_sound [0x07, 0x03, 0x01] [0x00] 5 (by decide) (by decide)

/-- `Incomplete` is only ever reported for a buffer that does not yet hold a complete §7.1
    segment (header cut off, or fewer payload bytes than the length says) — never for a
    complete frame whose payload is too short for its fields (that is `Malformed`). -/
theorem C02_incomplete_is_prefix (b : Varint.Bytes) (hwf : WF b) (m : Nat)
    (h : H3.Frame.decode b = .incomplete m) :
    rfcDecode b = none ∨ ∃ ty r1, rfcDecode b = some (ty, r1) ∧
      (rfcDecode r1 = none ∨ ∃ len r2, rfcDecode r1 = some (len, r2) ∧
        ty ≠ 0x0 ∧ ty ≠ 0x41 ∧ r2.length < len) := by
  have hv := H3.Frame.decode_view b
  rw [H3.Frame.hdr2_of_rfc b hwf] at hv
  cases h1 : rfcDecode b with
  | none => exact Or.inl rfl
  | some p1 =>
    obtain ⟨ty, r1⟩ := p1
    refine Or.inr ⟨ty, r1, rfl, ?_⟩
    rw [h1] at hv
    simp only at hv
    cases h2 : rfcDecode r1 with
    | none => exact Or.inl rfl
    | some p2 =>
      obtain ⟨len, r2⟩ := p2
      refine Or.inr ⟨len, r2, rfl, ?_⟩
      rw [h2] at hv
      simp only at hv
      obtain ⟨_, hle, _⟩ := H3.Frame.rfc_rest2 h1 h2
      have : (liftRes (H3.Frame.body ty len (b.length - r2.length) b)).isIncomplete = true := by
        rw [← hv, h]; rfl
      rw [body_incomplete_iff] at this
      exact ⟨this.2.1, this.1, by omega⟩

example : H3.Frame.decode [0x07, 0x03, 0x01] = .incomplete 5 := by decide
example : H3.Frame.decode ([0x07, 0x03, 0x01] ++ [0x00]) = .incomplete 5 := by decide

/-- ... and such a buffer is a *proper prefix* of a complete segment: some non-empty
    continuation makes the decoder give a definite answer. -/
theorem C02_incomplete_is_completable (b : Varint.Bytes) (m : Nat)
    (h : H3.Frame.decode b = .incomplete m) :
    ∃ c, c ≠ [] ∧ ∀ m', H3.Frame.decode (b ++ c) ≠ .incomplete m' := by
  obtain ⟨c, hc⟩ := frameDec_completable b
  refine ⟨c, ?_, (liftRes_definite_iff _).mp hc⟩
  intro h0
  subst h0
  rw [List.append_nil] at hc
  have : (liftRes (H3.Frame.decode b)).isIncomplete = true := by rw [h]; rfl
  rw [show frameDec.dec b = liftRes (H3.Frame.decode b) from rfl, this] at hc
  cases hc

example : H3.Frame.decode ([0x07, 0x03, 0x01] ++ [0x00, 0x00]) = .error .malformed := by decide

/-! ## 3. Chunking independence: the invariant over arbitrary call sequences -/

/-- For every decoder satisfying the laws, every transport script with non-empty chunks
    (`pend`, `fin`, `reset` anywhere) and every sequence of `poll_next`/`poll_data` calls, in
    every reachable configuration the invariant of App. B.1 holds: the bytes of the chunks
    taken from the script are `consumed ++ buffer`; the byte-wise reference automaton run over
    `consumed` emits exactly the tokens handed out so far (frames as frame tokens, data
    pieces flattened to bytes) and stands at `hdr []` / `data remaining`; the `expected` memo
    is sound. -/
theorem C02_chunking_independent {F E : Type} (D : Dec F E) (L : Laws D) (sc0 : List Ev)
    (hsc : ScriptOK sc0) {toks : List (FS.Tok F E)} {s : St} {script : List Ev}
    (h : Reach D sc0 toks s script) :
    ∃ taken, sc0 = taken ++ script ∧ Inv D (evBytes taken) toks s := by
  obtain ⟨taken, h1, _, h3⟩ := reach_inv D L sc0 hsc h
  exact ⟨taken, h1, h3⟩

-- a reachable configuration: DATA(2) announced, one payload byte buffered, `fin` not yet taken
example : ∃ taken, [Ev.chunk [0x00, 0x02, 0xaa], .fin] = taken ++ [.fin] ∧
    Inv frameDec (evBytes taken) ([] ++ Out.toks (.frame (.data 2)))
      { buf := [[0xaa]], remaining := 2 } :=
  C02_chunking_independent frameDec frameDec_laws _
    (by intro b hb; simp at hb; subst hb; simp)
    (Reach.next Reach.init (by decide +kernel :
      pollNext frameDec {} [Ev.chunk [0x00, 0x02, 0xaa], .fin] =
        (.frame (.data 2), { buf := [[0xaa]], remaining := 2 }, [.fin])) rfl)

/-- the same for the model of `Frame::decode` -/
theorem C02_chunking_independent_frames (sc0 : List Ev) (hsc : ScriptOK sc0)
    {toks : List RTok} {s : St} {script : List Ev} (h : Reach frameDec sc0 toks s script) :
    ∃ taken, sc0 = taken ++ script ∧ Inv frameDec (evBytes taken) toks s :=
  C02_chunking_independent frameDec C02_decode_laws sc0 hsc h

example : ∃ taken, [Ev.pend, .chunk [0x21, 0x01], .chunk [0xee, 0x07]] = taken ++ [] ∧
    Inv frameDec (evBytes taken) ([] ++ Out.toks (.pending : FOut)) { buf := [[0x07]] , expected := some 2 } :=
  C02_chunking_independent_frames _
    (by intro b hb; simp at hb; rcases hb with rfl | rfl <;> simp)
    (Reach.next (Reach.next Reach.init (by decide +kernel :
        pollNext frameDec {} [Ev.pend, .chunk [0x21, 0x01], .chunk [0xee, 0x07]] =
          (.pending, {}, [.chunk [0x21, 0x01], .chunk [0xee, 0x07]])) rfl)
      (by decide +kernel :
        pollNext frameDec {} [Ev.chunk [0x21, 0x01], .chunk [0xee, 0x07]] =
          (.pending, { buf := [[0x07]], expected := some 2 }, [])) rfl)

/-- The tokens handed out are a function of the bytes only: for two scripts carrying the same
    bytes (cut differently, with different `pend`s) and any two call sequences, both token
    sequences are prefixes of the one sequence the reference automaton emits on those bytes. -/
theorem C02_tokens_function_of_bytes {F E : Type} (D : Dec F E) (L : Laws D)
    (sc1 sc2 : List Ev) (h1 : ScriptOK sc1) (h2 : ScriptOK sc2) (hb : evBytes sc1 = evBytes sc2)
    {toks1 toks2 : List (FS.Tok F E)} {s1 s2 : St} {r1 r2 : List Ev}
    (hr1 : Reach D sc1 toks1 s1 r1) (hr2 : Reach D sc2 toks2 s2 r2) :
    toks1 <+: (run D (.hdr []) (evBytes sc1)).2 ∧ toks2 <+: (run D (.hdr []) (evBytes sc1)).2 := by
  obtain ⟨t1, e1, hI1⟩ := C02_chunking_independent D L sc1 h1 hr1
  obtain ⟨t2, e2, hI2⟩ := C02_chunking_independent D L sc2 h2 hr2
  constructor
  · obtain ⟨more, hm⟩ := inv_toks_prefix D hI1 (evBytes r1)
    rw [← evBytes_append, ← e1] at hm
    exact ⟨more, hm.symm⟩
  · obtain ⟨more, hm⟩ := inv_toks_prefix D hI2 (evBytes r2)
    rw [← evBytes_append, ← e2, ← hb] at hm
    exact ⟨more, hm.symm⟩

/-- The same for the model's own driver `runCalls` (the one the correspondence run compares
    with the real `FrameStream`): for two scripts with the same bytes and any two call
    sequences, the frames and data bytes answered are prefixes of the one token sequence of
    the reference automaton over those bytes. -/
theorem C02_runCalls_chunking_independent (sc1 sc2 : List Ev) (h1 : ScriptOK sc1)
    (h2 : ScriptOK sc2) (hb : evBytes sc1 = evBytes sc2) (calls1 calls2 : List Call) :
    (runCalls {} sc1 calls1).flatMap Out.toks <+: (run frameDec (.hdr []) (evBytes sc1)).2 ∧
    (runCalls {} sc2 calls2).flatMap Out.toks <+: (run frameDec (.hdr []) (evBytes sc1)).2 := by
  obtain ⟨s1, r1, hr1⟩ := runCalls_reach sc1 calls1 [] {} sc1 Reach.init
  obtain ⟨s2, r2, hr2⟩ := runCalls_reach sc2 calls2 [] {} sc2 Reach.init
  simpa using C02_tokens_function_of_bytes frameDec C02_decode_laws sc1 sc2 h1 h2 hb hr1 hr2

-- two cuttings of the same seven bytes (DATA(2) aa bb, then GOAWAY(5)); different pieces, the
-- same frames and the same data bytes
example : runCalls {} [.chunk [0x00, 0x02, 0xaa], .pend, .chunk [0xbb, 0x07, 0x01, 0x05], .fin]
      [.next, .data, .data, .data, .data, .next, .next] =
    [.frame (.data 2), .data [0xaa], .data [0xbb], .none, .none, .frame (.goaway 5), .none] := by
  decide +kernel
example : runCalls {} [.chunk [0x00], .chunk [0x02, 0xaa, 0xbb, 0x07], .chunk [0x01, 0x05], .fin]
      [.next, .data, .data, .next, .next] =
    [.frame (.data 2), .data [0xaa, 0xbb], .none, .frame (.goaway 5), .none] := by
  decide +kernel
example : (run frameDec (.hdr []) [0x00, 0x02, 0xaa, 0xbb, 0x07, 0x01, 0x05]).2 =
    [.frame (.data 2), .byte 0xaa, .byte 0xbb, .frame (.goaway 5)] := by decide

/-- **`split()` is invisible to the frame layer.**  The receive half that `FrameStream::split`
    returns carries the buffered bytes, the end-of-stream flag, the decoder's `expected` memo and
    `remaining_data` unchanged (`St.split s = s`).  Hence (1) for every starting state, every
    transport script and every call sequence over `poll_next` / `poll_data` / `split`, the answers
    are those of the same sequence without the splits; (2) the same for a request-body reader
    (`runR`: `poll_recv_data` again and again — the only way the API reaches `split`): answers,
    final state and rest of the script do not depend on where, or how often, it splits; (3) with
    splits anywhere, the frames and data bytes handed out — also those behind `poll_recv_data` — are
    a prefix of the one token sequence the reference automaton emits on the bytes of the script:
    in particular, after a split in the middle of a DATA payload no payload byte is read as a
    frame header. -/
theorem C02_split_is_invisible :
    (∀ s : St, s.split = s) ∧
    (∀ (s : St) (script : List Ev) (cs : List CallS),
      runCallsS s script cs = runCalls s script (CallS.erase cs)) ∧
    (∀ (s : St) (script : List Ev) (cs cs' : List CallR), CallR.erase cs = CallR.erase cs' →
      runR s script cs = runR s script cs') ∧
    (∀ (sc : List Ev), ScriptOK sc → ∀ cs : List CallS,
      (runCallsS {} sc cs).flatMap Out.toks <+: (run frameDec (.hdr []) (evBytes sc)).2) ∧
    (∀ (sc : List Ev), ScriptOK sc → ∀ cs : List CallR,
      (runR {} sc cs).raw.flatMap Out.toks <+: (run frameDec (.hdr []) (evBytes sc)).2) := by
  refine ⟨split_eq, fun s script cs => runCallsS_erase cs s script,
    fun s script cs cs' h => runR_splits_anywhere cs cs' h s script, ?_, ?_⟩
  · intro sc hsc cs
    rw [runCallsS_erase]
    exact (C02_runCalls_chunking_independent sc sc hsc hsc rfl (CallS.erase cs) []).1
  · intro sc hsc cs
    obtain ⟨s1, r1, hr1⟩ := runR_reach sc cs [] {} sc Reach.init
    simpa using (C02_tokens_function_of_bytes frameDec C02_decode_laws sc sc hsc hsc rfl hr1 hr1).1

-- DATA(4) aa bb | cc dd: a split after the first piece (remaining_data = 2, nothing buffered) and the
-- reader goes on inside the payload; a receive half that forgot `remaining_data` would decode `cc dd`
-- as a frame header
example : (runR {} [.chunk [0x00, 0x04, 0xaa, 0xbb], .chunk [0xcc, 0xdd], .fin] [.recv, .split, .recv, .recv]).outs =
    [.data [0xaa, 0xbb], .data [0xcc, 0xdd], .none] := by decide +kernel
example : runCallsS {} [.chunk [0x00, 0x04, 0xaa, 0xbb], .chunk [0xcc, 0xdd], .fin]
      [.next, .split, .data, .split, .data, .data, .split, .next] =
    [.frame (.data 4), .data [0xaa, 0xbb], .data [0xcc, 0xdd], .none, .none] := by decide +kernel
example : (pollNext frameDec { ({ remaining := 2 } : St).split with remaining := 0 } [.chunk [0xcc, 0xdd], .fin]).1 ≠
    (pollData (F := H3.Frame.Frame) (E := H3.Frame.FrameErr) ({ remaining := 2 } : St).split [.chunk [0xcc, 0xdd], .fin]).1 := by
  decide +kernel

/-- No byte is interpreted twice or as both header and payload: in every reachable
    configuration the consumed bytes are a concatenation of whole frames (buffers on which the
    decoder answers with exactly their length) and DATA payload bytes, ending `remaining`
    bytes before the end of a DATA payload — the consumed offset is a §7.1 segment boundary. -/
theorem C02_no_resync {F E : Type} (D : Dec F E) (L : Laws D) (sc0 : List Ev)
    (hsc : ScriptOK sc0) {toks : List (FS.Tok F E)} {s : St} {script : List Ev}
    (h : Reach D sc0 toks s script) :
    ∃ taken consumed, sc0 = taken ++ script ∧ evBytes taken = consumed ++ s.flat ∧
      Boundary D consumed s.remaining := by
  obtain ⟨taken, e, hI⟩ := C02_chunking_independent D L sc0 hsc h
  obtain ⟨c, hs, hr⟩ := hI.split
  exact ⟨taken, c, e, hs, boundary_of_run D L c s.remaining toks hr⟩

-- after the grease frame `21 01 ee` has been skipped, 3 bytes are consumed and `07` is buffered
example : ∃ taken consumed, [Ev.chunk [0x21, 0x01], .chunk [0xee, 0x07]] = taken ++ [] ∧
    evBytes taken = consumed ++ [0x07] ∧ Boundary frameDec consumed 0 :=
  C02_no_resync frameDec frameDec_laws _
    (by intro b hb; simp at hb; rcases hb with rfl | rfl <;> simp)
    (Reach.next Reach.init (by decide +kernel :
        pollNext frameDec {} [Ev.chunk [0x21, 0x01], .chunk [0xee, 0x07]] =
          (.pending, { buf := [[0x07]], expected := some 2 }, [])) rfl)

-- model fidelity after an error (not part of the property; `frame.rs` resets `expected` when
-- it skips an unknown frame, also when the next frame is then an error): a repeated call
-- repeats the error instead of answering `Pending` from a stale memo
example : (pollNext frameDec (pollNext frameDec
      { buf := [[0x21, 0x00, 0x02, 0x00]], expected := some 4 } []).2.1 []).1 =
    .errProto (.unsupported 2) := by decide +kernel

/-! ## 4. Truncation is reported, and nothing waits for ever after FIN -/

/-- Liveness half: once `fin` has been consumed no call answers `Pending`. -/
theorem C02_no_pending_after_fin {F E : Type} (D : Dec F E) (L : Laws D) (sc0 : List Ev)
    (hsc : ScriptOK sc0) {toks : List (FS.Tok F E)} {s : St} {script : List Ev}
    (h : Reach D sc0 toks s script) (heos : s.eos = true) :
    (pollNext D s script).1 ≠ .pending ∧ (pollData (F := F) (E := E) s script).1 ≠ .pending := by
  obtain ⟨taken, e, hI⟩ := C02_chunking_independent D L sc0 hsc h
  have hsc' : ScriptOK script := by rw [e] at hsc; exact scriptOK_suffix hsc
  constructor
  · rcases pollNext_preserves D L _ toks s script hI hsc' with ⟨_, hp⟩ | ⟨_, hp⟩
    · rw [hp]; intro hc; cases hc
    · revert hp
      generalize pollNext D s script = res
      obtain ⟨o, s', script'⟩ := res
      rintro ⟨tk, _, htk, hout⟩ ho
      simp only at ho
      subst ho
      rw [heos] at htk
      simp only [TakenOK, if_true] at htk
      have h1 : s'.eos = false := hout.2.2.1
      rw [htk.2.2] at h1
      cases h1
  · have hp := pollData_spec D _ toks s script hI hsc'
    revert hp
    generalize pollData (F := F) (E := E) s script = res
    obtain ⟨o, s', script'⟩ := res
    rintro ⟨tk, _, htk, hout⟩ ho
    simp only at ho
    subst ho
    rw [heos] at htk
    simp only [TakenOK, if_true] at htk
    have h1 : s'.eos = false := hout.2.2.1
    rw [htk.2.2] at h1
    cases h1

example : (pollNext frameDec { buf := [[0x07]], eos := true } []).1 = .errEnd ∧
    (pollData (F := H3.Frame.Frame) (E := H3.Frame.FrameErr)
      { buf := [], eos := true, remaining := 1 } []).1 = .errEnd := by decide +kernel

/-- One call after FIN when the bytes seen end inside a frame (the reference automaton over all
    bytes seen stands in a header / non-DATA payload `hdr acc`, `acc ≠ []`, or in a DATA
    payload): `poll_next` answers `UnexpectedEnd` or hands out a buffered frame, `poll_data`
    (not in WebTransport raw mode) answers `UnexpectedEnd` or hands out a non-empty buffered
    piece; never `Pending`, never a clean `None`, never another error; and every frame or
    piece handed out shortens the buffer, so `UnexpectedEnd` comes after finitely many. -/
theorem C02_truncation_step {F E : Type} (D : Dec F E) (L : Laws D) (seen : FS.Bytes)
    (toks : List (FS.Tok F E)) (s : St) (script : List Ev) (hI : Inv D seen toks s)
    (hsc : ScriptOK script) (heos : s.eos = true)
    (htr : (∃ acc, acc ≠ [] ∧ (run D (.hdr []) seen).1 = .hdr acc) ∨
      (∃ rem, (run D (.hdr []) seen).1 = .data rem)) :
    (s.remaining = 0 → (pollNext D s script).1 = .errEnd ∨
      ∃ f, (pollNext D s script).1 = .frame f ∧
        (pollNext D s script).2.1.flat.length < s.flat.length) ∧
    (s.remaining ≠ 0 → s.remaining ≠ USIZE_MAX →
      (pollData (F := F) (E := E) s script).1 = .errEnd ∨
      ∃ d, d ≠ [] ∧ (pollData (F := F) (E := E) s script).1 = .data d ∧
        (pollData (F := F) (E := E) s script).2.1.flat.length < s.flat.length) := by
  have hnotclean : ∀ c tk, seen = c → run D (.hdr []) c = (.hdr [], tk) → False := by
    intro c tk hc hr
    rw [hc, hr] at htr
    rcases htr with ⟨acc, hne, h⟩ | ⟨rem, h⟩
    · simp only [PSt.hdr.injEq] at h; exact hne h.symm
    · cases h
  constructor
  · intro h0
    rcases pollNext_preserves D L seen toks s script hI hsc with ⟨hn, _⟩ | ⟨_, hp⟩
    · exact absurd h0 hn
    · revert hp
      generalize pollNext D s script = res
      obtain ⟨o, s', script'⟩ := res
      rintro ⟨tk, _, htk, hout⟩
      rw [heos] at htk
      simp only [TakenOK, if_true] at htk
      obtain ⟨_, rfl, heos'⟩ := htk
      simp only [evBytes, List.append_nil] at hout
      cases o with
      | errEnd => exact Or.inl rfl
      | frame f =>
        have hI' : Inv D (seen ++ []) (toks ++ [.frame f]) s' := by
          rw [List.append_nil]; exact hout
        have := inv_progress D hI hI' (by simp)
        exact Or.inr ⟨f, rfl, by simpa using this⟩
      | pending =>
        have h1 : s'.eos = false := hout.2.2.1
        rw [heos'] at h1; cases h1
      | none =>
        obtain ⟨hI', hfl, _, hrem⟩ := hout
        obtain ⟨c, hs, hr⟩ := hI'.split
        rw [hfl, List.append_nil] at hs
        rw [hrem, PSt.ofRem_zero] at hr
        exact (hnotclean c toks hs hr).elim
      | errProto e =>
        obtain ⟨c, n, hs, hr, _, _, hrE⟩ := hout
        exfalso
        have : run D (.hdr []) seen = (.dead, toks ++ [.errProto e]) := by
          rw [hs, ← List.take_append_drop n s'.flat, run_append, hr, run_append, hrE, run_dead]
          simp
        rw [this] at htr
        rcases htr with ⟨_, _, h⟩ | ⟨_, h⟩ <;> cases h
      | errQuic c =>
        have h1 : s'.eos = false := hout.2.2
        rw [heos'] at h1; cases h1
      | data _ => exact absurd hout id
      | panic => exact absurd hout id
  · intro h0 hmax
    have hp := pollData_spec D seen toks s script hI hsc
    revert hp
    generalize pollData (F := F) (E := E) s script = res
    obtain ⟨o, s', script'⟩ := res
    rintro ⟨tk, _, htk, hout⟩
    rw [heos] at htk
    simp only [TakenOK, if_true] at htk
    obtain ⟨_, rfl, heos'⟩ := htk
    simp only [evBytes, List.append_nil] at hout
    cases o with
    | errEnd => exact Or.inl rfl
    | data d =>
      obtain ⟨hd, _, _, hI'⟩ := hout
      have hI'' : Inv D (seen ++ []) (toks ++ d.map .byte) s' := by
        rw [List.append_nil]; exact hI'
      have := inv_progress D hI hI'' (by simpa using hd)
      exact Or.inr ⟨d, hd, rfl, by simpa using this⟩
    | pending =>
      have h1 : s'.eos = false := hout.2.2.1
      rw [heos'] at h1; cases h1
    | none =>
      rcases hout.2 with ⟨hz, _⟩ | ⟨hm, _⟩
      · exact absurd hz h0
      · exact absurd hm hmax
    | errQuic c =>
      have h1 : s.eos = false := hout.2.2
      rw [heos] at h1; cases h1
    | frame _ => exact absurd hout id
    | errProto _ => exact absurd hout id
    | panic => exact absurd hout id

-- FIN consumed, bytes seen `00 02 aa`: the buffered piece first, then `UnexpectedEnd`
example : pollData (F := H3.Frame.Frame) (E := H3.Frame.FrameErr)
      { buf := [[0xaa], [0xbb]], eos := true, remaining := 3 } [] =
    (.data [0xaa], { buf := [[0xbb]], eos := true, remaining := 2 }, []) ∧
    pollData (F := H3.Frame.Frame) (E := H3.Frame.FrameErr)
      { buf := [[0xbb]], eos := true, remaining := 2 } [] =
    (.errEnd, { buf := [], eos := true, remaining := 2 }, []) := by decide +kernel

/-- The reader loop, any decoder satisfying the laws, any script without `reset`: with `w` the
    bytes of the script up to its first `fin` and `R = run D (hdr []) w`, the loop hands out
    frames and data pieces (no `Pending` in between) whose tokens are those of `R`, and then
    exactly one final answer determined by `R` and by whether the script has a `fin`:
    `errProto e` iff `R` is dead with `e`; otherwise, with `fin`: `None` iff `R` stands at a
    frame boundary, `UnexpectedEnd` iff it stands inside a frame (header, non-DATA payload:
    all tokens handed out; DATA payload: all but possibly some of the last payload bytes);
    without `fin`: `Pending`, all tokens handed out.  (`hraw` excludes WebTransport raw mode.) -/
theorem C02_reader_is_reference {F E : Type} (D : Dec F E) (L : Laws D) (script : List Ev)
    (hsc : ScriptOK script) (hnr : NoReset script)
    (hraw : ∀ f, FS.Tok.frame f ∈ (run D (.hdr []) (evBytes (upToFin script))).2 →
      (D.kind f).rem < USIZE_MAX)
    (fuel : Nat) (hfuel : script.length + (evBytes script).length < fuel) :
    ReaderPost (run D (.hdr []) (evBytes (upToFin script))) (hasFin script) []
      (readerG D fuel {} script) := by
  have := readerG_spec D L (evBytes (upToFin script)) (hasFin script) hraw fuel {} script [] []
    (inv_init D) hsc hnr (by simp [wOf]) (by simp [finOf]) (by simpa [St.flat] using hfuel)
  exact this

example : readerG frameDec 20 {} [.chunk [0x21, 0x01], .pend, .chunk [0xee, 0x07, 0x01, 0x05]] =
    [.frame (.goaway 5), .pending] := by decide +kernel

/-- Truncation is reported: a script with `fin` (no `reset`) whose bytes end inside a frame —
    header, non-DATA payload or DATA payload, wherever the chunk boundaries are — makes the
    reader loop of the model end with `UnexpectedEnd` after handing out frames and data pieces
    only: never a clean `None`, never `Pending`. -/
theorem C02_truncation_reported (script : List Ev) (hsc : ScriptOK script) (hnr : NoReset script)
    (hfin : hasFin script = true)
    (hraw : ∀ f, FS.Tok.frame f ∈ (run frameDec (.hdr []) (evBytes (upToFin script))).2 →
      (frameDec.kind f).rem < USIZE_MAX)
    (htr : (∃ acc, acc ≠ [] ∧ (run frameDec (.hdr []) (evBytes (upToFin script))).1 = .hdr acc) ∨
      (∃ rem, (run frameDec (.hdr []) (evBytes (upToFin script))).1 = .data rem))
    (fuel : Nat) (hfuel : script.length + (evBytes script).length < fuel) :
    ∃ body, readerLoop fuel {} script = body ++ [.errEnd] ∧
      ∀ o ∈ body, (∃ f, o = .frame f) ∨ (∃ d, o = .data d) := by
  obtain ⟨body, last, heq, hbody, hfinal⟩ :=
    C02_reader_is_reference frameDec C02_decode_laws script hsc hnr hraw fuel hfuel
  rw [← readerLoop_eq] at heq
  refine ⟨body, ?_, hbody⟩
  rw [heq]
  congr 2
  cases last with
  | errEnd => rfl
  | none =>
    obtain ⟨_, h1, _⟩ := hfinal
    rw [h1] at htr
    rcases htr with ⟨acc, hne, h⟩ | ⟨_, h⟩
    · simp only [PSt.hdr.injEq] at h; exact absurd h.symm hne
    · cases h
  | pending => rw [hfin] at hfinal; exact absurd hfinal.1 (by simp)
  | errProto e =>
    rw [hfinal.1] at htr
    rcases htr with ⟨_, _, h⟩ | ⟨_, h⟩ <;> cases h
  | frame _ => exact absurd hfinal id
  | data _ => exact absurd hfinal id
  | errQuic _ => exact absurd hfinal id
  | panic => exact absurd hfinal id

-- the hypotheses are satisfiable: DATA(2) with one payload byte, then FIN
example : ∃ body, readerLoop 20 {} [.chunk [0x00, 0x02], .chunk [0xaa], .fin] = body ++ [.errEnd] ∧
    ∀ o ∈ body, (∃ f, o = .frame f) ∨ (∃ d, o = .data d) := by
  have hrun : run frameDec (.hdr []) (evBytes (upToFin [.chunk [0x00, 0x02], .chunk [0xaa], .fin])) =
      (.data 1, [.frame (.data 2), .byte 0xaa]) := by decide
  refine C02_truncation_reported _ (by intro b hb; simp at hb; rcases hb with rfl | rfl <;> simp)
    (by intro c hc; simp at hc) (by decide) ?_ (Or.inr ⟨1, by rw [hrun]⟩) 20 (by decide)
  intro f hf
  rw [hrun] at hf
  simp at hf
  subst hf
  decide

-- cut inside a DATA payload exactly at a chunk boundary (D-02c, repaired); inside a header;
-- inside a GOAWAY payload
example : readerLoop 20 {} [.chunk [0x00, 0x02], .chunk [0xaa], .fin] =
    [.frame (.data 2), .data [0xaa], .errEnd] := by decide +kernel
example : readerLoop 20 {} [.chunk [0x00, 0x02, 0xaa], .fin] =
    [.frame (.data 2), .errEnd] := by decide +kernel
example : readerLoop 20 {} [.chunk [0x07, 0x01, 0x05, 0x40], .fin] =
    [.frame (.goaway 5), .errEnd] := by decide +kernel
example : readerLoop 20 {} [.chunk [0x07], .chunk [0x02, 0x40], .fin] = [.errEnd] := by
  decide +kernel

/-! ## 5. The reference automaton is the RFC oracle -/

/-- For `Frame::decode`: the reference automaton over a well-formed byte string `w` and the
    oracle `observe w ending` agree (`Agree`): the same frames in the same order, SETTINGS as
    `okSettings`, each DATA payload byte for byte, a DATA payload cut off by the end as
    `partialData` (FIN) / `data` (open), the same protocol error (`malformed`, `h2`,
    `badSettings`), and the final token `none`/`truncated`/`pending` according to whether the
    automaton stands at a frame boundary or inside a frame.  (Strings on which the oracle says
    `outside`, the WebTransport 0x41 header, are excluded.) -/
theorem C02_reference_is_spec (w : Varint.Bytes) (e : Ending) (hwf : WF w)
    (hno : Spec.Framing.Tok.outside ∉ observe (w.length + 1) w e) :
    Agree e (run frameDec (.hdr []) w).1 (run frameDec (.hdr []) w).2
      (observe (w.length + 1) w e) :=
  reference_is_spec w e hwf hno

example : observe 8 [0x00, 0x02, 0xaa, 0xbb, 0x07, 0x01, 0x05] .fin =
    [.frame (.data 2), .data [0xaa, 0xbb], .frame (.goaway 5), .none_] := by decide
example : observe 5 [0x00, 0x03, 0xaa, 0xbb] .fin =
    [.frame (.data 3), .partialData [0xaa, 0xbb], .truncated] := by decide

/-- Together: for every script without `reset` carrying well-formed bytes `w` before its first
    `fin` (any cutting into non-empty chunks, `pend` anywhere), the reader loop of the model
    of `FrameStream` hands out frames and data pieces and one final answer that are those of
    the reference automaton over `w` (`ReaderPost`), and the reference automaton agrees with
    `observe w ending` (`Agree`).  Neither side of the comparison mentions the chunking. -/
theorem C02_reader_observes_spec (script : List Ev) (hsc : ScriptOK script) (hnr : NoReset script)
    (hwf : WF (evBytes (upToFin script)))
    (hno : Spec.Framing.Tok.outside ∉
      observe ((evBytes (upToFin script)).length + 1) (evBytes (upToFin script))
        (if hasFin script then .fin else .open_))
    (fuel : Nat) (hfuel : script.length + (evBytes script).length < fuel) :
    ReaderPost (run frameDec (.hdr []) (evBytes (upToFin script))) (hasFin script) []
      (readerLoop fuel {} script) ∧
    Agree (if hasFin script then .fin else .open_)
      (run frameDec (.hdr []) (evBytes (upToFin script))).1
      (run frameDec (.hdr []) (evBytes (upToFin script))).2
      (observe ((evBytes (upToFin script)).length + 1) (evBytes (upToFin script))
        (if hasFin script then .fin else .open_)) := by
  have hA := C02_reference_is_spec (evBytes (upToFin script)) _ hwf hno
  refine ⟨?_, hA⟩
  rw [readerLoop_eq]
  exact C02_reader_is_reference frameDec C02_decode_laws script hsc hnr (agree_noraw hA) fuel hfuel

-- the same bytes, three cuttings: the same frames, the same data bytes, the same ending
example : readerLoop 40 {} [.chunk [0x00, 0x02, 0xaa, 0xbb, 0x07, 0x01, 0x05], .fin] =
    [.frame (.data 2), .data [0xaa, 0xbb], .frame (.goaway 5), .none] := by decide +kernel
example : readerLoop 40 {} [.chunk [0x00], .pend, .chunk [0x02, 0xaa], .chunk [0xbb, 0x07],
      .pend, .chunk [0x01], .chunk [0x05], .fin] =
    [.frame (.data 2), .data [0xaa], .data [0xbb], .frame (.goaway 5), .none] := by decide +kernel

/-! ## 6. The error code at the two callers -/

/-- Corollary at the two call sites of the frame layer (request stream:
    `handle_frame_stream_error_on_request_stream`; control stream: `ConnectionInner::poll_control`).

    (a) A complete frame of a type with a meaning whose payload is longer or shorter than its fields
    by the §7.2 grammar (`classify … = .malformed`) is answered `Malformed` by `Frame::decode`; the
    frame layer reports it as `Proto(Malformed)` (`C02_reader_observes_spec`), a stream that FIN cuts
    inside a frame as `UnexpectedEnd` (`C02_truncation_reported`).
    (b) On a request stream both become the CONNECTION error H3_FRAME_ERROR: that code goes into the
    connection's error cell if no error is there yet, and the caller is told the error in the cell.
    (c) On the control stream both are the connection error H3_FRAME_ERROR, before and after SETTINGS.
    (d) The two code tables of the models are the arms of `got_frame_error`, of
    `handle_frame_stream_error_on_request_stream` and of `poll_control` as the translator re-reads
    them from the Rust sources on every run (`H3.Gen.FrameErrCodes`, `H3.Gen.CtlArms`).

    Not covered, on purpose: a SETTINGS payload that ends inside an entry is answered
    `Settings(Malformed)`, which `got_frame_error` turns into H3_SETTINGS_ERROR — reading R-02s,
    the `example` below.  (0x0106 = H3_FRAME_ERROR, RFC 9114 §8.1.) -/
theorem C02_frame_error_code_at_callers :
    (∀ (w : Varint.Bytes), WF w → ∀ ty r1 len r2, rfcDecode w = some (ty, r1) → ty ≠ 0x41 →
      rfcDecode r1 = some (len, r2) → ty ≠ 0x0 → len ≤ r2.length → isKnown ty = true →
      classify ty (r2.take len) = .malformed → H3.Frame.decode w = .error .malformed) ∧
    (∀ {σ : Type} (st : H3.ReqRecv.St σ),
      (H3.ReqRecv.fsErr st (.errProto .malformed)).1 = .errConn (st.env.cell.getD 0x0106) ∧
      (H3.ReqRecv.fsErr st .errEnd).1 = .errConn (st.env.cell.getD 0x0106) ∧
      (H3.ReqRecv.fsErr st (.errProto .malformed)).2.env.cell = some (st.env.cell.getD 0x0106) ∧
      (H3.ReqRecv.fsErr st .errEnd).2.env.cell = some (st.env.cell.getD 0x0106)) ∧
    (∀ c : H3.Control.Conn,
      H3.Control.classify c (.proto .malformed) = .error 0x0106 ∧
      H3.Control.classify c .truncated = .error 0x0106) ∧
    (H3.ReqRecv.frameErrCode .malformed = Gen.FrameErrCodes.code (H3.GenAgree.Req.protoOf .malformed) ∧
      H3.Control.protoCode .malformed = Gen.FrameErrCodes.code (H3.GenAgree.Ctl.protoOf .malformed) ∧
      Gen.FrameErrCodes.decoder .malformed = .proto (H3.GenAgree.Req.protoOf .malformed) ∧
      Gen.FrameErrCodes.code .malformed = 0x0106 ∧
      Gen.FrameErrCodes.requestStreamUnexpectedEnd = 0x0106 ∧
      Gen.CtlArms.onTruncated = .err 0x0106 ∧ Gen.CtlArms.onProto = .gotFrameError) := by
  refine ⟨?_, ?_, ?_, ?_⟩
  · intro w hwf ty r1 len r2 h1 hty h2 hd hle hk hc
    have h := (((C02_frame_decode_is_segment w hwf).2 ty r1 h1 hty).2 len r2 h2).2.2.2 hd hle
    have h' := h.2 hk
    rw [hc] at h'
    exact h'
  · intro σ st
    have hp := (H3.GenAgree.Req.fsErr_agrees st).2.1 .malformed
    have he := (H3.GenAgree.Req.fsErr_agrees st).2.2
    rw [hp, he]
    cases hc : st.env.cell <;>
      simp [H3.ReqRecv.connErr, hc, Gen.FrameErrCodes.code, H3.GenAgree.Req.protoOf,
        Gen.FrameErrCodes.requestStreamUnexpectedEnd]
  · intro c
    exact ⟨rfl, rfl⟩
  · exact ⟨H3.GenAgree.Req.frameErrCode_agrees .malformed, H3.GenAgree.Ctl.protoCode_agrees .malformed,
      rfl, rfl, rfl, rfl, rfl⟩

-- non-vacuity: GOAWAY with two bytes after its varint, on a request stream with an empty error cell
-- and on a control stream: `Malformed`, connection error 0x0106 at both
example : H3.Frame.decode [0x07, 0x03, 0x01, 0x00, 0x00] = .error .malformed ∧
    (H3.ReqRecv.fsErr ({ src := () } : H3.ReqRecv.St Unit) (.errProto .malformed)).1 = .errConn 0x106 ∧
    H3.Control.classify {} (.proto .malformed) = .error 0x106 :=
  ⟨C02_frame_error_code_at_callers.1 [0x07, 0x03, 0x01, 0x00, 0x00] (by unfold WF; decide) 0x7 [0x03, 0x01, 0x00, 0x00]
      3 [0x01, 0x00, 0x00] (by decide) (by decide) (by decide) (by decide) (by decide) (by decide) (by decide),
    (C02_frame_error_code_at_callers.2.1 _).1, (C02_frame_error_code_at_callers.2.2.1 {}).1⟩

-- an error already in the cell is the one reported (C05): the frame error does not replace it
example : (H3.ReqRecv.fsErr ({ src := (), env := { cell := some 0x101 } } : H3.ReqRecv.St Unit) .errEnd).1 =
    .errConn 0x101 := (C02_frame_error_code_at_callers.2.1 _).2.1

-- Reading R-02s (DESIGN.md section 9), the witness that the statement above cannot be extended to
-- SETTINGS: the payload `06` (identifier 6, no value) of the complete frame `04 01 06` ends inside an
-- entry (`short`: RFC 9114 §7.1 ¶5 ⇒ H3_FRAME_ERROR); the strict oracle says `malformed`,
-- `Frame::decode` says `Settings(Malformed)`, and both callers turn that into H3_SETTINGS_ERROR (0x0109)
example : settingsVerdict [0x06] = .short ∧ classifyS false 0x4 [0x06] = .malformed ∧
    classifyS true 0x4 [0x06] = .malformed ∧
    H3.Frame.decode [0x04, 0x01, 0x06] = .error (.settings .malformed) ∧
    H3.ReqRecv.frameErrCode (.settings .malformed) = 0x109 ∧
    H3.Control.protoCode (.settings .malformed) = 0x109 ∧
    Gen.FrameErrCodes.code .settings = 0x109 := by decide

/-! ## 7. The strict oracle and the lenient one; what the driver evaluates -/

/-- The strict SETTINGS reading refines the lenient one and differs from it only on payloads that
    end inside an entry: for every other payload (`ok`, `ids`) `classifyS` is `classify`, whichever
    rule is preferred; on a payload that ends inside an entry `classify` says `badSettings` and
    `classifyS` says `malformed` (H3_FRAME_ERROR) — or, only if a reserved / repeated defined
    identifier was received as well, `badSettings` under the other preference.  Frames of every other
    type are classified alike. -/
theorem C02_strict_reading_differs_only_on_short_settings (b : Bool) (ty : Nat) (p : Varint.Bytes) :
    (ty ≠ 0x4 → classifyS b ty p = classify ty p) ∧
    (ty = 0x4 →
      match settingsVerdict p with
      | .ok => classifyS b ty p = .okSettings ∧ classify ty p = .okSettings
      | .ids => classifyS b ty p = .badSettings ∧ classify ty p = .badSettings
      | .short => classifyS b ty p = .malformed ∧ classify ty p = .badSettings
      | .shortAndIds => classifyS b ty p = (if b then .badSettings else .malformed) ∧
          classify ty p = .badSettings) := by
  refine ⟨fun h => by simp [classifyS, h], fun h => ?_⟩
  subst h
  have he := entries_pairs (p.length + 1) p
  cases hq : pairs (p.length + 1) p with
  | some ps =>
    rw [hq] at he
    have hv : settingsVerdict p = if badIds ps then .ids else .ok := by
      simp only [settingsVerdict, he, receivedIds]
      cases badIds ps <;> rfl
    have hc : classify 4 p = if badIds ps then .badSettings else .okSettings := by
      simp [classify, hq]
      rfl
    cases hb : badIds ps <;> simp [hv, hc, hb, classifyS]
  | none =>
    rw [hq] at he
    have hc : classify 4 p = .badSettings := by simp [classify, hq]
    have hne : ((entries (p.length + 1) p).2 == Cut.clean) = false := by simpa using he
    cases hb : badIds (receivedIds (entries (p.length + 1) p)) <;>
      simp [settingsVerdict, hne, hb, classifyS, hc]

example : settingsVerdict [0x06, 0x10, 0x21] = .short ∧ settingsVerdict [0x00, 0x00, 0x06] = .shortAndIds ∧
    settingsVerdict [0x06, 0x10, 0x06] = .shortAndIds ∧ settingsVerdict [0x06, 0x10, 0x06, 0x11] = .ids ∧
    settingsVerdict [0x06, 0x10, 0x21, 0x11] = .ok := by decide

/-- The copy of the segmentation that the strict oracle uses (`observeWith`) is `observe` when it is
    given `classify`: the strict oracle `observeS` differs from `observe` in the classification of
    complete SETTINGS frames only. -/
theorem C02_observeWith_classify (fuel : Nat) (w : Varint.Bytes) (e : Ending) :
    observeWith classify fuel w e = observe fuel w e := by
  induction fuel generalizing w with
  | zero => rfl
  | succ n ih =>
    unfold observeWith observe
    simp only [ih]
    rfl

example : observeS false 4 [0x04, 0x01, 0x06] .fin = [.malformed] ∧
    observe 4 [0x04, 0x01, 0x06] .fin = [.badSettings] ∧
    observeS false 8 [0x04, 0x02, 0x06, 0x10, 0x07, 0x01, 0x05] .fin = observe 8 [0x04, 0x02, 0x06, 0x10, 0x07, 0x01, 0x05] .fin := by
  decide

/-- What the driver evaluates is the model: the reader loop and the call runner that `h3drv` runs
    (`readerLoopF`, `runCallsF`: they ask the `expected` memo before flattening the buffer) are the
    functions `readerLoop` and `runCalls` the theorems above speak about. -/
theorem C02_driver_runs_the_model (fuel : Nat) (s : St) (script : List Ev) (calls : List Call) :
    readerLoopF fuel s script = readerLoop fuel s script ∧ runCallsF s script calls = runCalls s script calls :=
  ⟨readerLoopF_eq fuel s script, runCallsF_eq s script calls⟩

example : readerLoopF 40 {} [.chunk [0x01, 0x03, 0xaa], .chunk [0xbb], .chunk [0xcc, 0x07, 0x01, 0x05], .fin] =
    [.frame (.headers [0xaa, 0xbb, 0xcc]), .frame (.goaway 5), .none] := by decide +kernel

/-! ## 9. Declared lengths beyond 2^30 (builder bC12)

    The length field of a frame header is a varint of up to 62 bits and nothing but the end of the stream bounds it.  The code
    computes with it in `usize`: `Incomplete(remaining + 1)`, `Incomplete(2 + len as usize)`, `buf.take(len as usize)` (reached
    only when `len` bytes are buffered).  The model has `Nat` there; this is the bound that makes the two the same on a 64-bit
    target. -/

private theorem varint_endOf_le (bs : Varint.Bytes) (k : Nat) (h : H3.Varint.decode bs = .endOf k) : k ≤ 3 := by
  unfold H3.Varint.decode at h
  split at h
  · cases h; omega
  · simp only at h
    repeat' split at h
    all_goals first | (cases h; omega) | cases h

/-- Whatever `Frame::decode` answers `Incomplete(m)` on: `m` is the number of bytes it looked at plus one, or two plus a declared
    length below 2^62 (or the small constant of the WebTransport arm) - so with fewer than 2^63 bytes buffered neither
    `remaining + 1` nor `2 + len` leaves `usize` on a 64-bit target (`m < 2^64`), and the `expected` memo compares the true number. -/
theorem C02_incomplete_no_wrap (b : Varint.Bytes) (hwf : WF b) (m : Nat)
    (h : H3.Frame.decode b = .incomplete m) :
    (m ≤ b.length + 1 ∨ m < 2 ^ 62 + 2) ∧ (b.length < 2 ^ 63 → m < 2 ^ 64) := by
  have key : m ≤ b.length + 1 ∨ m < 2 ^ 62 + 2 := by
    unfold H3.Frame.decode at h
    cases h1 : H3.Varint.decode b with
    | endOf k =>
      rw [h1] at h
      simp only [H3.Frame.DecRes.incomplete.injEq] at h
      omega
    | ok ty r1 =>
      rw [h1] at h
      simp only at h
      have hr1 := (H3.C06.varint_ok_bound b hwf ty r1 h1).2
      split at h
      · cases h2 : H3.Varint.decode r1 with
        | endOf k =>
          rw [h2] at h
          simp only [H3.Frame.DecRes.incomplete.injEq] at h
          have := varint_endOf_le r1 k h2
          omega
        | ok sid r2 => rw [h2] at h; cases h
      · unfold H3.Frame.afterType at h
        cases h2 : H3.Varint.decode r1 with
        | endOf k =>
          rw [h2] at h
          simp only [H3.Frame.DecRes.incomplete.injEq] at h
          omega
        | ok l r2 =>
          rw [h2] at h
          simp only at h
          have hl := (H3.C06.varint_ok_bound r1 hr1 l r2 h2).1
          split at h
          · cases h
          · split at h
            · simp only [H3.Frame.DecRes.incomplete.injEq] at h
              omega
            · exfalso
              revert h
              unfold H3.Frame.typed
              repeat' split
              all_goals intro h; cases h
  refine ⟨key, fun hb => ?_⟩
  rcases key with k | k <;> omega

-- HEADERS declaring 2^62-1 bytes, three present: the bare decoder asks for 2 + (2^62-1) bytes, the oracle says "the stream ended
-- inside a frame", the reader loop of the model answers UnexpectedEnd - whole, and cut inside the 8-byte length field
example : H3.Frame.decode [0x01, 0xff, 0xff, 0xff, 0xff, 0xff, 0xff, 0xff, 0xff, 0xaa, 0xbb, 0xcc] = .incomplete (2 ^ 62 + 1) ∧
    observe 13 [0x01, 0xff, 0xff, 0xff, 0xff, 0xff, 0xff, 0xff, 0xff, 0xaa, 0xbb, 0xcc] .fin = [.truncated] ∧
    readerLoop 20 {} [.chunk [0x01, 0xff, 0xff, 0xff, 0xff, 0xff, 0xff, 0xff, 0xff, 0xaa, 0xbb, 0xcc], .fin] = [.errEnd] ∧
    readerLoop 20 {} [.chunk [0x01, 0xff, 0xff, 0xff, 0xff], .chunk [0xff, 0xff, 0xff, 0xff, 0xaa, 0xbb, 0xcc], .fin] = [.errEnd] := by
  decide +kernel
-- DATA declaring 2^32 bytes, one present, then the end: the header is handed out, then the truncation error
example : observe 11 [0x00, 0xc0, 0x00, 0x00, 0x01, 0x00, 0x00, 0x00, 0x00, 0xaa] .fin =
      [.frame (.data (2 ^ 32)), .partialData [0xaa], .truncated] ∧
    readerLoop 20 {} [.chunk [0x00, 0xc0, 0x00, 0x00, 0x01], .chunk [0x00, 0x00, 0x00, 0x00], .chunk [0xaa], .fin] =
      [.frame (.data (2 ^ 32)), .data [0xaa], .errEnd] := by
  decide +kernel

end H3.Props.C02
