import H3.Model.FrameStream
import H3.Spec.Framing
/-! # C02 — frame boundaries follow RFC 9114 §7.1 exactly, independent of chunking
    (theorems under construction) -/
namespace H3.Props.C02
end H3.Props.C02
