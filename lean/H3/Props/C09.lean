import H3.Model.Drain
import H3.Spec.Drain
import H3.Lemmas.Drain
/-! # C09 — shutdown drains exactly

Property theorems only.  Model: `H3.Drain` (`ongoing_streams`, the request-end channel, the
owners of `RequestEnd`, `poll_requests_completion`, the `Ok(None)` decision of `accept`, the
wake-up of the task awaiting `accept`).  Oracle: `H3.Spec.Drain` (a request is alive while one of
its handles has not been dropped; "no more requests" ⇔ the peer's GOAWAY is in and no request
is alive).

A history is an arbitrary `List Ev`: any number of requests, arrivals, `accept` calls, executor
turns (`poll`, effective only when the task was woken), `split`s (`clone`), handle drops
(`dropHandle` — every way a request ends is a sequence of these: finished and dropped, resolver
dropped before resolution, FIN or RESET before HEADERS and malformed headers (the failing
`resolve_request` consumes the resolver), RESET after HEADERS (the application drops the
stream), the two halves dropped separately), the peer's GOAWAY and connection errors, in any
order. -/
namespace H3.Props.C09
open H3.Drain H3.Spec.Drain H3.Lemmas.Drain

private theorem history (evs : List Ev) : ∀ (s : State) (pre : List Step), Inv s → Rel pre s →
    Inv (run s evs) ∧ Rel (pre ++ trace s evs) (run s evs) ∧
    (∀ a st b, trace s evs = a ++ st :: b → returnsNone st = true →
      goawaySeen (pre ++ a) = true ∧ noneAlive (pre ++ a) = true) := by
  induction evs with
  | nil =>
    intro s pre hi hr
    refine ⟨hi, by simpa [trace, run] using hr, ?_⟩
    intro a st b h
    simp [trace] at h
  | cons e es ih =>
    intro s pre hi hr
    obtain ⟨hi1, hr1, hn1⟩ := step_inv s pre e hi hr
    obtain ⟨hi2, hr2, hn2⟩ := ih (step s e).1 (pre ++ [⟨e, (step s e).2⟩]) hi1 hr1
    refine ⟨hi2, ?_, ?_⟩
    · simpa [trace, run, List.append_assoc] using hr2
    · intro a st b h hn
      cases a with
      | nil =>
        simp only [trace, List.nil_append, List.cons.injEq] at h
        obtain ⟨h1, _⟩ := h
        subst h1
        simpa using hn1 hn
      | cons a0 a' =>
        simp only [trace, List.cons_append, List.cons.injEq] at h
        obtain ⟨h1, h2⟩ := h
        subst h1
        have := hn2 a' st b h2 hn
        simpa [List.append_assoc] using this

/-- **Never early.**  In every history: whenever `accept` answers "no more requests", the
    peer's GOAWAY has arrived before and no request handed out earlier has a handle left. -/
theorem C09_never_early (evs : List Ev) (pre : List Step) (st : Step) (post : List Step)
    (h : trace {} evs = pre ++ st :: post) (hn : returnsNone st = true) :
    goawaySeen pre = true ∧ noneAlive pre = true ∧ ∀ id, alive pre id = false := by
  obtain ⟨_, _, hne⟩ := history evs {} [] inv_init rel_init
  have := hne pre st post h hn
  simp only [List.nil_append] at this
  refine ⟨this.1, this.2, ?_⟩
  intro id
  have h0 : owners pre = [] := by simpa [noneAlive] using this.2
  simp [alive, h0]

/-- The invariant behind it, in terms of the connection's variables: in every reachable state
    `ongoing_streams` contains every request with a live handle, and every ID in it has a live
    handle or its end notification waits in the channel. -/
theorem C09_ongoing_invariant (evs : List Ev) :
    (∀ id, alive (trace {} evs) id = true → id ∈ (run {} evs).ongoing) ∧
    (∀ id ∈ (run {} evs).ongoing, alive (trace {} evs) id = true ∨ id ∈ (run {} evs).chan) := by
  obtain ⟨hi, hr, _⟩ := history evs {} [] inv_init rel_init
  simp only [List.nil_append] at hr
  constructor
  · intro id h
    apply hi.live_sub
    rw [← hr.owners_eq]
    simpa [alive] using h
  · intro id h
    rcases hi.ongoing_sub id h with h' | h'
    · left
      rw [← hr.owners_eq] at h'
      simpa [alive] using h'
    · exact Or.inr h'

/-- **Always eventually.**  After any history in which the peer's GOAWAY has arrived, every
    handle of every request handed out is gone, no connection error was recorded and no stream
    waits in the transport: an `accept` that is outstanding *has been woken* (so the executor
    polls it again — the end notification of the last request is what wakes it) and that poll
    answers "no more requests"; and if no call is outstanding, the next call answers so at
    its first poll. -/
theorem C09_always_eventually (evs : List Ev)
    (hg : goawaySeen (trace {} evs) = true) (hd : noneAlive (trace {} evs) = true)
    (he : errorSeen (trace {} evs) = false)
    (ha : arrivals (trace {} evs) = handedOut (trace {} evs)) :
    ((run {} evs).inFlight = true →
      (run {} evs).wake = true ∧ (step (run {} evs) .poll).2 = [.acceptNone]) ∧
    ((run {} evs).inFlight = false →
      (step (step (run {} evs) .callAccept).1 .poll).2 = [.acceptNone]) := by
  obtain ⟨hi, hr, _⟩ := history evs {} [] inv_init rel_init
  simp only [List.nil_append] at hr
  generalize run {} evs = s at *
  generalize trace {} evs = tr at *
  have hh : s.handles = [] := by
    rw [← hr.owners_eq]; simpa [noneAlive] using hd
  have hf : s.failed = false := by
    cases h : s.failed with
    | false => rfl
    | true => rw [hr.error_iff.mpr h] at he; cases he
  have hinc : s.incoming = [] := by
    have := hr.arrivals_eq
    rw [ha] at this
    exact (List.self_eq_append_right.mp this)
  have hgo : s.recvClosing = true ∨ 0 < s.ctl := hr.goaway_iff.mp hg
  have hrc : (catchUp s).recvClosing = true := by
    rcases hgo with h | h <;> simp [catchUp, h]
  have hon : (catchUp s).ongoing = [] := by
    apply List.eq_nil_iff_forall_not_mem.mpr
    intro j hj
    obtain ⟨h1, h2⟩ := mem_removeAll.mp hj
    rcases hi.ongoing_sub j h1 with h | h
    · rw [hh] at h; cases h
    · exact h2 h
  -- the poll of a woken call
  have hpoll : ∀ t : State, t.inFlight = true → t.wake = true → t.failed = false → t.incoming = [] →
      (catchUp t).recvClosing = true → (catchUp t).ongoing = [] → (step t .poll).2 = [.acceptNone] := by
    intro t h1 h2 h3 h4 h5 h6
    have h3' : (catchUp t).failed = false := h3
    have h4' : (catchUp t).incoming = [] := h4
    simp [step, poll, h1, h2, h3', takeStream, h4', verdict, h5, h6]
  constructor
  · intro hfl
    have hw : s.wake = true := by
      cases hwk : s.wake with
      | true => rfl
      | false =>
        exfalso
        obtain ⟨hc, hctl, _, _, hno⟩ := hi.parked hfl hwk
        apply hno
        refine ⟨?_, ?_⟩
        · rcases hgo with h | h
          · exact h
          · omega
        · apply List.eq_nil_iff_forall_not_mem.mpr
          intro j hj
          rcases hi.ongoing_sub j hj with h | h
          · rw [hh] at h; cases h
          · rw [hc] at h; cases h
    exact ⟨hw, hpoll s hfl hw hf hinc hrc hon⟩
  · intro hfl
    have : (step s .callAccept).1 = { s with inFlight := true, wake := true } := by simp [step, hfl]
    rw [this]
    exact hpoll _ rfl rfl hf hinc hrc hon

/-- **The completion test is never early, wherever it is made.**
    `poll_requests_completion(cx).is_ready()` — empty the request-end channel into
    `ongoing_streams`, then "is `ongoing_streams` empty?" — also guards the `Ok(None)` that
    `accept` gives right after refusing a stream during a *local* shutdown (that path is in
    `H3.Goaway.acceptLoop`, whose event `complete id` is this model's channel receive; theorem
    `C08_accept_none_only_when_drained`).  In every reachable state of this model a positive
    test means that no handle of any request handed out is alive. -/
theorem C09_completion_test_never_early (evs : List Ev)
    (h : removeAll (run {} evs).ongoing (run {} evs).chan = []) :
    noneAlive (trace {} evs) = true ∧ ∀ id, alive (trace {} evs) id = false := by
  obtain ⟨hi, hr, _⟩ := history evs {} [] inv_init rel_init
  simp only [List.nil_append] at hr
  have h0 : owners (trace {} evs) = [] := by
    rw [hr.owners_eq]
    apply List.eq_nil_iff_forall_not_mem.mpr
    intro id hid
    have : id ∈ removeAll (run {} evs).ongoing (run {} evs).chan :=
      mem_removeAll.mpr ⟨hi.live_sub id hid, fun hc => hi.chan_dead id hc hid⟩
    rw [h] at this
    cases this
  refine ⟨by simp [noneAlive, h0], ?_⟩
  intro id
  simp [alive, h0]

/-- A recorded connection error does not leave `accept` hanging either: an outstanding call has
    been woken and its poll reports the error. -/
theorem C09_error_reported (evs : List Ev) (he : errorSeen (trace {} evs) = true)
    (hfl : (run {} evs).inFlight = true) :
    (run {} evs).wake = true ∧ (step (run {} evs) .poll).2 = [.acceptErr] := by
  obtain ⟨hi, hr, _⟩ := history evs {} [] inv_init rel_init
  simp only [List.nil_append] at hr
  generalize run {} evs = s at *
  have hf : s.failed = true := hr.error_iff.mp he
  have hw : s.wake = true := by
    cases hwk : s.wake with
    | true => rfl
    | false =>
      obtain ⟨_, _, _, h, _⟩ := hi.parked hfl hwk
      rw [hf] at h; cases h
  refine ⟨hw, ?_⟩
  have hf' : (catchUp s).failed = true := hf
  simp [step, poll, hfl, hw, hf']

-- non-vacuity of `C09_error_reported`: a request was handed out and one half of it is still alive, the GOAWAY is
-- in, a second `accept` has been polled and is parked (`acceptPending`); then a task records a connection error.
-- Both hypotheses hold, the parked call has been woken by the error and its poll answers the error — not `None`
-- (a request is alive) and not `Pending`; before the error the same call was NOT woken (so the wake is the error's)
example : let evs := [Ev.arrive 0, .callAccept, .poll, .clone 0, .dropHandle 0, .goaway, .callAccept, .poll, .connError]
    errorSeen (trace {} evs) = true ∧ (run {} evs).inFlight = true ∧
    ((run {} evs).wake = true ∧ (step (run {} evs) .poll).2 = [.acceptErr]) ∧
    (run {} evs.dropLast).wake = false ∧ (run {} evs.dropLast).inFlight = true ∧
    (trace {} evs.dropLast).getLast?.map (·.obs) = some [.acceptPending] := by decide
-- … and the theorem applied to that history gives the conclusion
example : (step (run {} [Ev.arrive 0, .callAccept, .poll, .clone 0, .dropHandle 0, .goaway, .callAccept, .poll,
    .connError]) .poll).2 = [.acceptErr] :=
  (C09_error_reported _ (by decide) (by decide)).2

/-! ### non-vacuity: concrete histories -/

/-- what each step of a history shows. -/
def shows (evs : List Ev) : List (List Obs) := (trace {} evs).map (·.obs)

-- resolver dropped before resolution, GOAWAY, and the parked accept is woken and says None
example : shows [.arrive 0, .callAccept, .poll, .callAccept, .poll, .goaway, .poll, .dropHandle 0, .poll] =
    [[], [], [.handedOut 0], [], [.acceptPending], [], [.acceptPending], [], [.acceptNone]] := by decide
-- … and it was the drop that woke it
example : (run {} [.arrive 0, .callAccept, .poll, .callAccept, .poll, .goaway, .poll, .dropHandle 0]).wake = true := by
  decide
-- split: the request ends with the second half, not the first
example : shows [.arrive 4, .callAccept, .poll, .clone 4, .goaway, .callAccept, .poll, .dropHandle 4, .poll,
                 .dropHandle 4, .poll] =
    [[], [], [.handedOut 4], [], [], [], [.acceptPending], [], [], [], [.acceptNone]] := by decide
-- three requests ending in different ways, interleaved; None only after the last handle
example : shows [.arrive 0, .arrive 4, .callAccept, .poll, .callAccept, .poll, .goaway, .arrive 8, .callAccept, .poll,
                 .dropHandle 4, .callAccept, .poll, .clone 0, .dropHandle 8, .poll, .dropHandle 0, .poll,
                 .dropHandle 0, .poll] =
    [[], [], [], [.handedOut 0], [], [.handedOut 4], [], [], [], [.handedOut 8],
     [], [], [.acceptPending], [], [], [.acceptPending], [], [], [], [.acceptNone]] := by decide
-- the hypotheses of `C09_always_eventually` are satisfiable with an outstanding call
example : let evs := [Ev.arrive 0, .callAccept, .poll, .callAccept, .poll, .goaway, .poll, .dropHandle 0]
    goawaySeen (trace {} evs) = true ∧ noneAlive (trace {} evs) = true ∧ errorSeen (trace {} evs) = false ∧
    arrivals (trace {} evs) = handedOut (trace {} evs) ∧ (run {} evs).inFlight = true := by decide
-- no GOAWAY: accept keeps waiting although nothing is alive
example : shows [.arrive 0, .callAccept, .poll, .dropHandle 0, .callAccept, .poll] =
    [[], [], [.handedOut 0], [], [], [.acceptPending]] := by decide
-- `C09_completion_test_never_early`: the test is positive after the last handle went (its notification waits in the
-- channel) and negative while one half of a split request is alive
example : let s := run {} [.arrive 0, .callAccept, .poll, .clone 0, .dropHandle 0, .dropHandle 0]
    removeAll s.ongoing s.chan = [] ∧ s.ongoing = [0] := by decide
example : let s := run {} [.arrive 0, .callAccept, .poll, .clone 0, .dropHandle 0]
    removeAll s.ongoing s.chan = [0] := by decide

end H3.Props.C09
