import H3.Model.Varint
import H3.Model.StreamId
import H3.Lemmas.Varint
/-! # C16 — variable-length integers and stream-ID arithmetic match RFC 9000

Property theorems only.  Models: `H3.Varint` (`proto/varint.rs`), `H3.StreamId`
(`proto/stream.rs`, `proto/push.rs`, `webtransport/session_id.rs`). -/
namespace H3.Props.C16
open H3.Varint H3.StreamId

/-- Round trip for every value below 2^62, with any bytes following; the encoding has the
    length `size` reports and consists of bytes. -/
theorem C16_decode_encode (x : Nat) (hx : x < 2^62) (rest : Bytes) :
    decode (encode x ++ rest) = .ok x rest ∧ (encode x).length = size x ∧ WF (encode x) := by
  unfold encode encode?
  by_cases h6 : x < 2^6
  · rw [if_pos h6]
    refine ⟨?_, by simp [size, h6], ?_⟩
    · simp only [Option.getD_some, List.cons_append, List.nil_append]
      rw [decode1 _ _ (by omega)]; congr 1; omega
    · intro b hb; simp at hb; subst hb; omega
  · rw [if_neg h6]
    by_cases h14 : x < 2^14
    · rw [if_pos h14]
      refine ⟨?_, by simp [size, h6, h14, be_length], be_wf _ _⟩
      simp only [Option.getD_some, be2, List.cons_append, List.nil_append]
      rw [decode2 _ _ _ (by omega)]; congr 1; omega
    · rw [if_neg h14]
      by_cases h30 : x < 2^30
      · rw [if_pos h30]
        refine ⟨?_, by simp [size, h6, h14, h30, be_length], be_wf _ _⟩
        simp only [Option.getD_some, be4, List.cons_append, List.nil_append]
        rw [decode4 _ _ _ _ _ (by omega)]; congr 1; omega
      · rw [if_neg h30, if_pos hx]
        refine ⟨?_, by simp [size, h6, h14, h30, be_length], be_wf _ _⟩
        simp only [Option.getD_some, be8, List.cons_append, List.nil_append]
        rw [decode8 _ _ _ _ _ _ _ _ _ (by omega)]; congr 1; omega

example : decode (encode 16384 ++ [7]) = .ok 16384 [7] := by decide

/-- `write_var` (used for every frame type, length and id on the wire) panics exactly for
    values the checked constructor refuses, and otherwise writes `encode`. -/
theorem C16_write_var (x : Nat) :
    writeVar x = if x < 2^62 then some (encode x) else none := by
  unfold writeVar fromU64 encode
  by_cases h : x < 2^62
  · have : (encode? x).isSome := by
      unfold encode?; repeat' split
      all_goals first | rfl | omega
    cases he : encode? x <;> simp_all
  · simp [h]

/-- The encoder uses the shortest of the four forms: `size x` is in {1,2,4,8}, is big enough
    (`x < 2^(8·size−2)`), and no shorter form is. -/
theorem C16_encode_shortest (x : Nat) (hx : x < 2^62) :
    (size x = 1 ∨ size x = 2 ∨ size x = 4 ∨ size x = 8) ∧ x < 2 ^ (8 * size x - 2) ∧
    ∀ n, (n = 1 ∨ n = 2 ∨ n = 4 ∨ n = 8) → x < 2 ^ (8 * n - 2) → size x ≤ n := by
  unfold size
  by_cases h6 : x < 2^6
  · rw [if_pos h6]
    refine ⟨by simp, by simpa using h6, ?_⟩
    rintro n (rfl | rfl | rfl | rfl) _ <;> omega
  · rw [if_neg h6]
    by_cases h14 : x < 2^14
    · rw [if_pos h14]
      refine ⟨by simp, by simpa using h14, ?_⟩
      rintro n (rfl | rfl | rfl | rfl) h <;> simp at h <;> omega
    · rw [if_neg h14]
      by_cases h30 : x < 2^30
      · rw [if_pos h30]
        refine ⟨by simp, by simpa using h30, ?_⟩
        rintro n (rfl | rfl | rfl | rfl) h <;> simp at h <;> omega
      · rw [if_neg h30]
        refine ⟨by simp, by simpa using hx, ?_⟩
        rintro n (rfl | rfl | rfl | rfl) h <;> simp at h <;> omega

/-- `VarInt::size` agrees and never reaches `unreachable!` below 2^62. -/
theorem C16_size_total (x : Nat) (hx : x < 2^62) : size? x = some (size x) :=
  size_eq_of_lt hx

/-- `encoded_size(first)` is the RFC length for every first byte. -/
theorem C16_encoded_size (b0 : Nat) (h : b0 < 256) :
    encodedSize b0 = rfcLen b0 ∧
    (encodedSize b0 = 1 ∨ encodedSize b0 = 2 ∨ encodedSize b0 = 4 ∨ encodedSize b0 = 8) := by
  refine ⟨rfl, ?_⟩
  unfold encodedSize
  have : b0 / 64 = 0 ∨ b0 / 64 = 1 ∨ b0 / 64 = 2 ∨ b0 / 64 = 3 := by omega
  rcases this with h | h | h | h <;> simp [h]

/-- Decoding is total and is the RFC 9000 §16 function on *every* byte string: when the
    announced length is present the result is the RFC value (minimal or not) and exactly that
    many bytes are consumed; otherwise `UnexpectedEnd`; the value is always below 2^62. -/
theorem C16_decode_total (bs : Bytes) (hwf : WF bs) :
    (∀ v r, rfcDecode bs = some (v, r) → decode bs = .ok v r ∧ v < 2^62) ∧
    (rfcDecode bs = none → ∃ k, decode bs = .endOf k) := by
  cases bs with
  | nil => simp [rfcDecode, decode]
  | cons b0 r =>
    have hb0 : b0 < 256 := hwf b0 (by simp)
    have hr : ∀ b ∈ r, b < 256 := fun b hb => hwf b (by simp [hb])
    constructor
    · intro v r' h
      simp only [rfcDecode] at h
      split at h
      · cases h
      · rename_i hlen
        simp only [Option.some.injEq, Prod.mk.injEq] at h
        obtain ⟨hv, hr'⟩ := h
        subst hv hr'
        have htag : b0 / 64 = 0 ∨ b0 / 64 = 1 ∨ b0 / 64 = 2 ∨ b0 / 64 = 3 := by omega
        rcases htag with ht | ht | ht | ht
        · rw [decode1 _ _ ht]
          simp [rfcValue, rfcLen, ht, beVal]
          omega
        · match r, hr, hlen with
          | [], _, hlen => simp [rfcLen, ht] at hlen
          | b1 :: r, hr, _ =>
            have h1 : b1 < 256 := hr b1 (by simp)
            rw [decode2 _ _ _ ht]
            simp [rfcValue, rfcLen, ht, beVal]
            omega
        · match r, hr, hlen with
          | [], _, hlen => simp [rfcLen, ht] at hlen
          | [_], _, hlen => simp [rfcLen, ht] at hlen
          | [_, _], _, hlen => simp [rfcLen, ht] at hlen
          | b1 :: b2 :: b3 :: r, hr, _ =>
            have h1 : b1 < 256 := hr b1 (by simp)
            have h2 : b2 < 256 := hr b2 (by simp)
            have h3 : b3 < 256 := hr b3 (by simp)
            rw [decode4 _ _ _ _ _ ht]
            simp [rfcValue, rfcLen, ht, beVal]
            omega
        · match r, hr, hlen with
          | [], _, hlen => simp [rfcLen, ht] at hlen
          | [_], _, hlen => simp [rfcLen, ht] at hlen
          | [_, _], _, hlen => simp [rfcLen, ht] at hlen
          | [_, _, _], _, hlen => simp [rfcLen, ht] at hlen
          | [_, _, _, _], _, hlen => simp [rfcLen, ht] at hlen
          | [_, _, _, _, _], _, hlen => simp [rfcLen, ht] at hlen
          | [_, _, _, _, _, _], _, hlen => simp [rfcLen, ht] at hlen
          | b1 :: b2 :: b3 :: b4 :: b5 :: b6 :: b7 :: r, hr, _ =>
            have h1 : b1 < 256 := hr b1 (by simp)
            have h2 : b2 < 256 := hr b2 (by simp)
            have h3 : b3 < 256 := hr b3 (by simp)
            have h4 : b4 < 256 := hr b4 (by simp)
            have h5 : b5 < 256 := hr b5 (by simp)
            have h6 : b6 < 256 := hr b6 (by simp)
            have h7 : b7 < 256 := hr b7 (by simp)
            rw [decode8 _ _ _ _ _ _ _ _ _ ht]
            simp [rfcValue, rfcLen, ht, beVal]
            omega
    · intro h
      simp only [rfcDecode] at h
      split at h
      · rename_i hlen
        exact decode_short b0 r (by simpa [rfcLen] using hlen) hb0
      · cases h

-- a non-minimal two-byte encoding of 5 is accepted with its RFC value
example : decode [0x40, 0x05, 9] = .ok 5 [9] := by decide
example : decode [0xc0, 0, 0] = .endOf 3 := by decide

/-- The checked constructors accept exactly the values below 2^62. -/
theorem C16_from_u64_iff (x : Nat) :
    (fromU64 x = some x ↔ x < 2^62) ∧ (fromU64 x = none ↔ 2^62 ≤ x) ∧
    (tryFrom x = some x ↔ x < 2^62) ∧ (tryFrom x = none ↔ 2^62 ≤ x) ∧
    (pushTryFrom x = some x ↔ x < 2^62) := by
  unfold pushTryFrom fromU64 tryFrom VARINT_MAX
  refine ⟨?_, ?_, ?_, ?_, ?_⟩ <;> split <;> simp <;> omega

/-- Initiator, direction and index are the RFC 9000 §2.1 ones. -/
theorem C16_streamid_kinds (id : Nat) :
    (isRequest id = true ↔ rfcKind id = .clientBidi) ∧
    (isPush id = true ↔ rfcKind id = .serverUni) ∧
    (initiator id = 0 ↔ (rfcKind id = .clientBidi ∨ rfcKind id = .clientUni)) ∧
    (dir id = 0 ↔ (rfcKind id = .clientBidi ∨ rfcKind id = .serverBidi)) ∧
    id = 4 * index id + id % 4 := by
  unfold isRequest isPush initiator dir index rfcKind
  have h : id % 4 = 0 ∨ id % 4 = 1 ∨ id % 4 = 2 ∨ id % 4 = 3 := by omega
  rcases h with h | h | h | h <;> simp [h] <;> omega

/-- Advancing a stream ID by `n` requests: same kind, index advanced by `n` but saturating
    at the largest index (2^60 − 1), result a valid stream ID, no `u64` wrap in
    `StreamId::new`'s shift. -/
theorem C16_streamid_add_saturates (id n : Nat) (hid : id < 2^62) (hn : n < 2^64) :
    let r := add id n
    r % 4 = id % 4 ∧ index r = min (index id + n) (2^60 - 1) ∧ r < 2^62 ∧
    (min (satAdd (index id) n) (VARINT_MAX / 4)) * 4 < 2^64 := by
  simp only [add, new, satAdd, index, dir, initiator, U64MAX, VARINT_MAX]
  omega

example : add 4 18446744073709551615 = 4611686018427387900 := by decide
example : add 7 1 = 11 := by decide

end H3.Props.C16
