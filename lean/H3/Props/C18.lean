import H3.Model.Datagram
import H3.Lemmas.Varint
import H3.Props.C16
/-! # C18 — HTTP Datagrams carry their stream ID and payload unchanged -/
namespace H3.Props.C18
open H3.Datagram
abbrev Bytes := Varint.Bytes

private theorem enc_len (x : Nat) (hx : x < 2^62) : (Varint.encode x).length = Varint.size x :=
  (H3.Props.C16.C16_decode_encode x hx []).2.1

private theorem size_le (x : Nat) : Varint.size x ≤ 8 := by
  unfold Varint.size; repeat' split
  all_goals omega

private theorem view_encode (sid : Nat) (hs : sid < 2^62) (p : Bytes) :
    (encode sid p).view = Varint.encode (sid / 4) ++ p := by
  have hq : sid / 4 < 2^62 := by omega
  have hl := enc_len _ hq
  simp [encode, Enc.view, intoArray, ← hl]

/-- The bytes of an encoded datagram are the varint of S/4 followed by P (RFC 9297 §2.1). -/
theorem C18_encode_bytes (sid : Nat) (hs : sid < 2^62) (h4 : sid % 4 = 0) (p : Bytes) :
    new sid p = some (sid, p) ∧
    (encode sid p).view = Varint.encode (sid / 4) ++ p ∧
    (encode sid p).remaining = (Varint.encode (sid / 4) ++ p).length := by
  refine ⟨by simp [new, h4], view_encode sid hs p, ?_⟩
  have hq : sid / 4 < 2^62 := by omega
  simp [encode, Enc.remaining, enc_len _ hq]

/-- Well-formedness kept by every `advance`: the cursor stays inside the header. -/
def EncWF (e : Enc) : Prop := e.pos ≤ e.len ∧ e.len ≤ e.hdr.length

theorem encode_wf (sid : Nat) (hs : sid < 2^62) (p : Bytes) : EncWF (encode sid p) := by
  have hq : sid / 4 < 2^62 := by omega
  have := enc_len _ hq
  have := size_le (sid / 4)
  simp [EncWF, encode, intoArray]; omega

/-- The `Buf` view: `remaining` is the length of what is left, `chunk` is a prefix of it that
    is non-empty whenever something is left, and `advance k` drops exactly `k` bytes — so any
    consumer, whatever its chunk/advance pattern, reads exactly `view`. -/
theorem C18_buf_view (e : Enc) (hwf : EncWF e) :
    e.remaining = e.view.length ∧
    (∃ t, e.view = e.chunk ++ t) ∧ (e.view ≠ [] → e.chunk ≠ []) ∧
    ∀ k, k ≤ e.remaining → EncWF (e.advance k) ∧ (e.advance k).view = e.view.drop k := by
  obtain ⟨h1, h2⟩ := hwf
  have hlen : ((e.hdr.take e.len).drop e.pos).length = e.len - e.pos := by
    simp [List.length_take]; omega
  refine ⟨by simp [Enc.remaining, Enc.view, hlen], ?_, ?_, ?_⟩
  · unfold Enc.chunk Enc.view
    split
    · exact ⟨e.payload, rfl⟩
    · rename_i h
      have : (e.hdr.take e.len).drop e.pos = [] := by
        apply List.eq_nil_of_length_eq_zero; omega
      exact ⟨[], by simp [this]⟩
  · unfold Enc.chunk Enc.view
    split
    · intro _ hc
      have := congrArg List.length hc
      simp at this; omega
    · rename_i h
      have : (e.hdr.take e.len).drop e.pos = [] := by
        apply List.eq_nil_of_length_eq_zero; omega
      simp [this]
  · intro k hk
    unfold Enc.advance Enc.view EncWF
    by_cases hr : e.len - e.pos > 0
    · simp only [hr, if_true]
      refine ⟨⟨by omega, h2⟩, ?_⟩
      rw [List.drop_append, hlen, List.drop_drop]
      by_cases hk' : k ≤ e.len - e.pos
      · rw [Nat.min_eq_left hk']
        have z1 : k - k = 0 := by omega
        have z2 : k - (e.len - e.pos) = 0 := by omega
        rw [z1, z2]
      · have hm : min k (e.len - e.pos) = e.len - e.pos := by omega
        rw [hm]
        have e1 : List.drop (e.pos + (e.len - e.pos)) (List.take e.len e.hdr) = [] := by
          apply List.drop_eq_nil_of_le; simp [List.length_take]; omega
        have e2 : List.drop (e.pos + k) (List.take e.len e.hdr) = [] := by
          apply List.drop_eq_nil_of_le; simp [List.length_take]; omega
        rw [e1, e2]
    · simp only [hr, if_false]
      refine ⟨⟨h1, h2⟩, ?_⟩
      have : (e.hdr.take e.len).drop e.pos = [] := by
        apply List.eq_nil_of_length_eq_zero; omega
      simp [this]

/-- Every consumption pattern (any sequence of "take k bytes of the current chunk") yields a
    prefix of the wire bytes, in order, nothing twice. -/
theorem C18_consume_prefix (e : Enc) (hwf : EncWF e) (ks : List Nat) :
    ∃ t, e.view = consume e ks ++ t := by
  induction ks generalizing e with
  | nil => exact ⟨e.view, by simp [consume]⟩
  | cons k ks ih =>
    obtain ⟨hrem, ⟨t, ht⟩, _, hadv⟩ := C18_buf_view e hwf
    have hk : min k e.chunk.length ≤ e.remaining := by
      rw [hrem, ht]; simp; omega
    obtain ⟨hwf', hv'⟩ := hadv _ hk
    obtain ⟨t', ht'⟩ := ih (e.advance (min k e.chunk.length)) hwf'
    refine ⟨t', ?_⟩
    simp only [consume, List.append_assoc, ← ht', hv']
    conv => lhs; rw [← List.take_append_drop (min k e.chunk.length) e.view]
    congr 1
    rw [ht, List.take_append_of_le_length (by omega)]
    simp [List.take_eq_take_iff]

/-- Decoding what was encoded gives S and P back. -/
theorem C18_decode_encode (sid : Nat) (hs : sid < 2^62) (h4 : sid % 4 = 0) (p : Bytes) :
    decode (encode sid p).view = .ok sid p := by
  have hq : sid / 4 < 2^62 := by omega
  rw [view_encode sid hs p, decode, (H3.Props.C16.C16_decode_encode _ hq p).1]
  have : ¬ (sid / 4 * 4 > 2^62 - 1) := by omega
  simp only [this, if_false]
  congr 1; omega

/-- Decoding is total: H3_DATAGRAM_ERROR exactly when the integer is truncated or the
    stream ID would exceed 2^62−1; otherwise stream ID = 4·q and the payload is the rest; the
    multiplication cannot wrap in `u64`. -/
theorem C18_decode_total (bs : Bytes) (hwf : Varint.WF bs) :
    (Varint.rfcDecode bs = none → decode bs = .datagramError) ∧
    (∀ q rest, Varint.rfcDecode bs = some (q, rest) →
      q * 4 < 2^64 ∧
      decode bs = if q * 4 > 2^62 - 1 then .datagramError else .ok (4 * q) rest) := by
  obtain ⟨h1, h2⟩ := H3.Props.C16.C16_decode_total bs hwf
  constructor
  · intro h; obtain ⟨k, hk⟩ := h2 h; simp [decode, hk]
  · intro q rest h
    obtain ⟨hd, hq⟩ := h1 q rest h
    refine ⟨by omega, ?_⟩
    simp only [decode, hd]
    split
    · rfl
    · congr 1; omega


/-! ### a non-contiguous payload `Buf` -/

def NoEmpty (cs : List Bytes) : Prop := ∀ c ∈ cs, c ≠ []

/-- the one-chunk datagram with the same bytes -/
def flat (e : EncM) : Enc := { hdr := e.hdr, len := e.len, pos := e.pos, payload := e.payload.flatten }

private theorem advChunks_flatten (cs : List Bytes) (k : Nat) :
    (advChunks cs k).flatten = cs.flatten.drop k := by
  induction cs generalizing k with
  | nil => simp [advChunks]
  | cons c cs ih =>
    unfold advChunks
    by_cases h : k < c.length
    · rw [if_pos h]
      simp only [List.flatten_cons]
      rw [List.drop_append_of_le_length (by omega)]
    · rw [if_neg h, ih]
      simp only [List.flatten_cons]
      rw [List.drop_append]
      have : List.drop k c = [] := List.drop_eq_nil_of_le (by omega)
      rw [this]; rfl

private theorem advChunks_noEmpty (cs : List Bytes) (k : Nat) (h : NoEmpty cs) : NoEmpty (advChunks cs k) := by
  induction cs generalizing k with
  | nil => simpa [advChunks] using h
  | cons c cs ih =>
    unfold advChunks
    by_cases hk : k < c.length
    · rw [if_pos hk]
      intro x hx
      rcases List.mem_cons.mp hx with rfl | hx
      · intro h0
        have := congrArg List.length h0
        simp at this; omega
      · exact h x (List.mem_cons_of_mem _ hx)
    · rw [if_neg hk]
      exact ih _ (fun x hx => h x (List.mem_cons_of_mem _ hx))

private theorem flat_advance (e : EncM) (k : Nat) : flat (e.advance k) = (flat e).advance k := by
  unfold EncM.advance Enc.advance flat
  by_cases hr : e.len - e.pos > 0
  · simp only [hr, if_true, advChunks_flatten]
  · simp only [hr, if_false, advChunks_flatten]

private theorem chunkM_prefix (e : EncM) (hwf : EncWF (flat e)) (hne : NoEmpty e.payload) :
    (∃ t, e.view = e.chunk ++ t) ∧ (e.view ≠ [] → e.chunk ≠ []) := by
  obtain ⟨h1, h2⟩ := hwf
  simp only [flat] at h1 h2
  have hlen : ((e.hdr.take e.len).drop e.pos).length = e.len - e.pos := by
    simp [List.length_take]; omega
  unfold EncM.chunk EncM.view
  by_cases hr : e.len - e.pos > 0
  · rw [if_pos hr]
    refine ⟨⟨_, rfl⟩, ?_⟩
    intro _ hc
    have := congrArg List.length hc
    simp at this; omega
  · rw [if_neg hr]
    have hz : (e.hdr.take e.len).drop e.pos = [] := by
      apply List.eq_nil_of_length_eq_zero; omega
    rw [hz]
    cases hp : e.payload with
    | nil => simp
    | cons c cs =>
      refine ⟨⟨cs.flatten, by simp⟩, ?_⟩
      intro _
      simpa using hne c (by rw [hp]; exact List.mem_cons_self)

/-- every consumption pattern over the multi-chunk buffer yields a prefix of the one-chunk view -/
private theorem consumeM_prefix (e : EncM) (hwf : EncWF (flat e)) (hne : NoEmpty e.payload) (ks : List Nat) :
    ∃ t, e.view = consumeM e ks ++ t := by
  induction ks generalizing e with
  | nil => exact ⟨e.view, by simp [consumeM]⟩
  | cons k ks ih =>
    obtain ⟨⟨t, ht⟩, _⟩ := chunkM_prefix e hwf hne
    obtain ⟨hrem, _, _, hadv⟩ := C18_buf_view (flat e) hwf
    have hv : e.view = (flat e).view := rfl
    have hk : min k e.chunk.length ≤ (flat e).remaining := by
      rw [hrem, ← hv, ht]; simp; omega
    obtain ⟨hwf', hv'⟩ := hadv _ hk
    rw [← flat_advance] at hwf' hv'
    have hne' : NoEmpty (e.advance (min k e.chunk.length)).payload := by
      unfold EncM.advance
      by_cases hr : e.len - e.pos > 0
      · simp only [hr, if_true]; exact advChunks_noEmpty _ _ hne
      · simp only [hr, if_false]; exact advChunks_noEmpty _ _ hne
    obtain ⟨t', ht'⟩ := ih (e.advance (min k e.chunk.length)) hwf' hne'
    refine ⟨t', ?_⟩
    have hv'' : (e.advance (min k e.chunk.length)).view = e.view.drop (min k e.chunk.length) := hv'
    simp only [consumeM, List.append_assoc, ← ht', hv'']
    conv => lhs; rw [← List.take_append_drop (min k e.chunk.length) e.view]
    congr 1
    rw [ht, List.take_append_of_le_length (by omega)]
    simp [List.take_eq_take_iff]

/-- reading chunk after chunk to the end (what `copy_to_bytes(remaining())` and `put` do) yields the whole view -/
private theorem drainM_all (f : Nat) (e : EncM) (hwf : EncWF (flat e)) (hne : NoEmpty e.payload)
    (hf : e.view.length < f) : drainM f e = e.view := by
  induction f generalizing e with
  | zero => omega
  | succ f ih =>
    obtain ⟨⟨t, ht⟩, hnz⟩ := chunkM_prefix e hwf hne
    unfold drainM
    by_cases hc : e.chunk = []
    · have : e.view = [] := by
        by_cases hv : e.view = []
        · exact hv
        · exact absurd hc (hnz hv)
      simp [hc, this]
    · have hce : e.chunk.isEmpty = false := by simpa using hc
      rw [hce]
      simp only [Bool.false_eq_true, if_false]
      obtain ⟨hrem, _, _, hadv⟩ := C18_buf_view (flat e) hwf
      have hv : e.view = (flat e).view := rfl
      have hk : e.chunk.length ≤ (flat e).remaining := by
        rw [hrem, ← hv, ht]; simp
      obtain ⟨hwf', hv'⟩ := hadv _ hk
      rw [← flat_advance] at hwf' hv'
      have hne' : NoEmpty (e.advance e.chunk.length).payload := by
        unfold EncM.advance
        by_cases hr : e.len - e.pos > 0
        · simp only [hr, if_true]; exact advChunks_noEmpty _ _ hne
        · simp only [hr, if_false]; exact advChunks_noEmpty _ _ hne
      have hv'' : (e.advance e.chunk.length).view = e.view.drop e.chunk.length := hv'
      have hpos : 0 < e.chunk.length := List.length_pos_iff.mpr hc
      have hle : e.chunk.length ≤ e.view.length := by
        have := congrArg List.length ht
        simp at this; omega
      rw [ih _ hwf' hne' (by rw [hv'']; simp; omega), hv'']
      conv => rhs; rw [← List.take_append_drop e.chunk.length e.view]
      congr 1
      rw [ht]; simp

/-- **The encoded datagram does not depend on how the payload `Buf` is chunked.** For every request stream id
    `sid < 2^62` divisible by four and every payload handed over as ANY list of non-empty chunks `cs`
    (`Chain`, `BufList`, …): `remaining()` is the length of `varint(sid/4) ++ cs.flatten` - header plus ALL
    chunks, not the current one; every chunk/advance pattern yields a prefix of exactly those bytes; reading
    chunk after chunk to the end (`copy_to_bytes(remaining())`, as h3-quinn does, or `put`) yields exactly
    those bytes; and they decode to `sid` and the flattened payload. So the wire datagram of a multi-chunk
    payload is the wire datagram of the same bytes in one piece (`C18_encode_bytes`). -/
theorem C18_payload_chunking_independent (sid : Nat) (hs : sid < 2^62) (h4 : sid % 4 = 0)
    (cs : List Bytes) (hne : ∀ c ∈ cs, c ≠ []) :
    (encodeM sid cs).view = (encode sid cs.flatten).view ∧
    (encodeM sid cs).view = Varint.encode (sid / 4) ++ cs.flatten ∧
    (encodeM sid cs).remaining = (Varint.encode (sid / 4) ++ cs.flatten).length ∧
    (∀ ks, ∃ t, Varint.encode (sid / 4) ++ cs.flatten = consumeM (encodeM sid cs) ks ++ t) ∧
    drainM ((encodeM sid cs).remaining + 1) (encodeM sid cs) = Varint.encode (sid / 4) ++ cs.flatten ∧
    decode (drainM ((encodeM sid cs).remaining + 1) (encodeM sid cs)) = .ok sid cs.flatten := by
  have hflat : flat (encodeM sid cs) = encode sid cs.flatten := rfl
  have hwf : EncWF (flat (encodeM sid cs)) := by rw [hflat]; exact encode_wf sid hs _
  have hv : (encodeM sid cs).view = Varint.encode (sid / 4) ++ cs.flatten := by
    have : (encodeM sid cs).view = (flat (encodeM sid cs)).view := rfl
    rw [this, hflat, view_encode sid hs]
  have hr : (encodeM sid cs).remaining = (Varint.encode (sid / 4) ++ cs.flatten).length := by
    have : (encodeM sid cs).remaining = (flat (encodeM sid cs)).remaining := rfl
    rw [this, hflat]; exact (C18_encode_bytes sid hs h4 _).2.2
  have hd : drainM ((encodeM sid cs).remaining + 1) (encodeM sid cs) = Varint.encode (sid / 4) ++ cs.flatten := by
    rw [drainM_all _ _ hwf hne (by rw [hr, hv]; omega), hv]
  refine ⟨by rw [hv, view_encode sid hs], hv, hr, ?_, hd, ?_⟩
  · intro ks
    obtain ⟨t, ht⟩ := consumeM_prefix _ hwf hne ks
    exact ⟨t, by rw [← hv]; exact ht⟩
  · rw [hd, ← view_encode sid hs]; exact C18_decode_encode sid hs h4 _

example : drainM 9 (encodeM 8 [[1, 2], [3], [4, 5, 6]]) = [2, 1, 2, 3, 4, 5, 6] := by decide
example : (encodeM 8 [[1, 2], [3], [4, 5, 6]]).remaining = 7 := by decide
example : consumeM (encodeM 8 [[1, 2], [3], [4, 5, 6]]) [1, 9, 9, 2] = [2, 1, 2, 3, 4, 5] := by decide

/-- **The error arms of `send_datagram`.** `NotAvailable` and `TooLarge` are handed to the caller as what they
    are and are NOT connection errors (nothing is offered to the connection's error cell, the connection goes on,
    whatever the cell holds); a transport connection error is offered to the cell - what the driver and every
    other handle then report is `convertOrigin` of the FIRST stored error (C05) -; the three classes of answers are
    pairwise different, and while the connection has no error yet the answer tells which condition it was. -/
theorem C18_send_error_classes (cell : Option Origin) :
    handleSendError cell .notAvailable = (.notAvailable, none) ∧
    handleSendError cell .tooLarge = (.tooLarge, none) ∧
    (∀ e, ∃ c, handleSendError cell (.conn e) = (.conn c, some e)) ∧
    (∀ a b, (handleSendError cell a).1 = (handleSendError cell b).1 → a = b ∨ ∃ e e', a = .conn e ∧ b = .conn e') ∧
    (∀ a b, (handleSendError none a).1 = (handleSendError none b).1 → a = b) ∧
    (∀ a, (handleSendError cell a).2.isSome ↔ ∃ e, a = .conn e) := by
  refine ⟨rfl, rfl, fun e => ⟨_, rfl⟩, ?_, ?_, ?_⟩
  · intro a b h
    cases a <;> cases b <;> simp_all [handleSendError]
  · intro a b h
    cases a with
    | notAvailable => cases b <;> simp_all [handleSendError]
    | tooLarge => cases b <;> simp_all [handleSendError]
    | conn e =>
      cases b with
      | notAvailable => simp_all [handleSendError]
      | tooLarge => simp_all [handleSendError]
      | conn e' => cases e <;> cases e' <;> simp_all [handleSendError, cellAfter, convertOrigin]
  · intro a
    cases a <;> simp [handleSendError]

/-- **The sender's answer is the connection's outcome** (D-18b and D-05g, repaired): whatever the connection's error
    cell holds when the transport refuses a datagram with a connection error `e`, the error in the cell afterwards is
    the first one - the one that was there, else `e` (`cellAfter`, the `OnceLock`) -, and `send_datagram` answers
    exactly what the driver, `read_datagram` and every request handle report for it: `convertOrigin` of that winner.
    So an idle timeout that is the connection's first error is `Timeout` (not `Remote(Timeout)`), and behind an
    earlier error the sender names that error, not its own. -/
theorem C18_send_error_is_outcome (cell : Option Origin) (e : CE) :
    (handleSendError cell (.conn e)).1 = .conn (convertOrigin (cellAfter cell (.quic e))) ∧
    (cell = none → (handleSendError cell (.conn e)).1 = .conn (convertOrigin (.quic e))) ∧
    (∀ first, cell = some first → (handleSendError cell (.conn e)).1 = .conn (convertOrigin first)) ∧
    (handleSendError none (.conn .timeout)).1 = .conn .timeout := by
  refine ⟨rfl, ?_, ?_, rfl⟩
  · intro h; subst h; rfl
  · intro first h; subst h; rfl

example : (handleSendError none (.conn (.app 7))).1 = .conn (.remote (.app 7)) := rfl
example : (handleSendError none (.conn .timeout)).1 = .conn .timeout := rfl
example : (handleSendError (some (.internal 0x105)) (.conn .timeout)).1 = .conn (.local_ 0x105) := rfl
example : (handleSendError (some (.quic (.app 5))) (.conn .timeout)).1 = .conn (.remote (.app 5)) := rfl
example : (handleSendError (some (.quic .timeout)) .tooLarge) = (.tooLarge, none) := rfl

example : decode [0x01, 0x78, 0x79] = .ok 4 [0x78, 0x79] := by decide
example : (encode 4 [0x78, 0x79]).view = [0x01, 0x78, 0x79] := by decide
example : decode [0xff, 0xff, 0xff, 0xff, 0xff, 0xff, 0xff, 0xff] = .datagramError := by decide

end H3.Props.C18
