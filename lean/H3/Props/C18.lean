import H3.Model.Datagram
import H3.Lemmas.Varint
import H3.Props.C16
/-! # C18 — HTTP Datagrams carry their stream ID and payload unchanged -/
namespace H3.Props.C18
open H3.Datagram
abbrev Bytes := Varint.Bytes

private theorem enc_len (x : Nat) (hx : x < 2^62) : (Varint.encode x).length = Varint.size x :=
  (H3.Props.C16.C16_decode_encode x hx []).2.1

private theorem size_le (x : Nat) : Varint.size x ≤ 8 := by
  unfold Varint.size; repeat' split
  all_goals omega

private theorem view_encode (sid : Nat) (hs : sid < 2^62) (p : Bytes) :
    (encode sid p).view = Varint.encode (sid / 4) ++ p := by
  have hq : sid / 4 < 2^62 := by omega
  have hl := enc_len _ hq
  simp [encode, Enc.view, intoArray, ← hl]

/-- The bytes of an encoded datagram are the varint of S/4 followed by P (RFC 9297 §2.1). -/
theorem C18_encode_bytes (sid : Nat) (hs : sid < 2^62) (h4 : sid % 4 = 0) (p : Bytes) :
    new sid p = some (sid, p) ∧
    (encode sid p).view = Varint.encode (sid / 4) ++ p ∧
    (encode sid p).remaining = (Varint.encode (sid / 4) ++ p).length := by
  refine ⟨by simp [new, h4], view_encode sid hs p, ?_⟩
  have hq : sid / 4 < 2^62 := by omega
  simp [encode, Enc.remaining, enc_len _ hq]

/-- Well-formedness kept by every `advance`: the cursor stays inside the header. -/
def EncWF (e : Enc) : Prop := e.pos ≤ e.len ∧ e.len ≤ e.hdr.length

theorem encode_wf (sid : Nat) (hs : sid < 2^62) (p : Bytes) : EncWF (encode sid p) := by
  have hq : sid / 4 < 2^62 := by omega
  have := enc_len _ hq
  have := size_le (sid / 4)
  simp [EncWF, encode, intoArray]; omega

/-- The `Buf` view: `remaining` is the length of what is left, `chunk` is a prefix of it that
    is non-empty whenever something is left, and `advance k` drops exactly `k` bytes — so any
    consumer, whatever its chunk/advance pattern, reads exactly `view`. -/
theorem C18_buf_view (e : Enc) (hwf : EncWF e) :
    e.remaining = e.view.length ∧
    (∃ t, e.view = e.chunk ++ t) ∧ (e.view ≠ [] → e.chunk ≠ []) ∧
    ∀ k, k ≤ e.remaining → EncWF (e.advance k) ∧ (e.advance k).view = e.view.drop k := by
  obtain ⟨h1, h2⟩ := hwf
  have hlen : ((e.hdr.take e.len).drop e.pos).length = e.len - e.pos := by
    simp [List.length_take]; omega
  refine ⟨by simp [Enc.remaining, Enc.view, hlen], ?_, ?_, ?_⟩
  · unfold Enc.chunk Enc.view
    split
    · exact ⟨e.payload, rfl⟩
    · rename_i h
      have : (e.hdr.take e.len).drop e.pos = [] := by
        apply List.eq_nil_of_length_eq_zero; omega
      exact ⟨[], by simp [this]⟩
  · unfold Enc.chunk Enc.view
    split
    · intro _ hc
      have := congrArg List.length hc
      simp at this; omega
    · rename_i h
      have : (e.hdr.take e.len).drop e.pos = [] := by
        apply List.eq_nil_of_length_eq_zero; omega
      simp [this]
  · intro k hk
    unfold Enc.advance Enc.view EncWF
    by_cases hr : e.len - e.pos > 0
    · simp only [hr, if_true]
      refine ⟨⟨by omega, h2⟩, ?_⟩
      rw [List.drop_append, hlen, List.drop_drop]
      by_cases hk' : k ≤ e.len - e.pos
      · rw [Nat.min_eq_left hk']
        have z1 : k - k = 0 := by omega
        have z2 : k - (e.len - e.pos) = 0 := by omega
        rw [z1, z2]
      · have hm : min k (e.len - e.pos) = e.len - e.pos := by omega
        rw [hm]
        have e1 : List.drop (e.pos + (e.len - e.pos)) (List.take e.len e.hdr) = [] := by
          apply List.drop_eq_nil_of_le; simp [List.length_take]; omega
        have e2 : List.drop (e.pos + k) (List.take e.len e.hdr) = [] := by
          apply List.drop_eq_nil_of_le; simp [List.length_take]; omega
        rw [e1, e2]
    · simp only [hr, if_false]
      refine ⟨⟨h1, h2⟩, ?_⟩
      have : (e.hdr.take e.len).drop e.pos = [] := by
        apply List.eq_nil_of_length_eq_zero; omega
      simp [this]

/-- Every consumption pattern (any sequence of "take k bytes of the current chunk") yields a
    prefix of the wire bytes, in order, nothing twice. -/
theorem C18_consume_prefix (e : Enc) (hwf : EncWF e) (ks : List Nat) :
    ∃ t, e.view = consume e ks ++ t := by
  induction ks generalizing e with
  | nil => exact ⟨e.view, by simp [consume]⟩
  | cons k ks ih =>
    obtain ⟨hrem, ⟨t, ht⟩, _, hadv⟩ := C18_buf_view e hwf
    have hk : min k e.chunk.length ≤ e.remaining := by
      rw [hrem, ht]; simp; omega
    obtain ⟨hwf', hv'⟩ := hadv _ hk
    obtain ⟨t', ht'⟩ := ih (e.advance (min k e.chunk.length)) hwf'
    refine ⟨t', ?_⟩
    simp only [consume, List.append_assoc, ← ht', hv']
    conv => lhs; rw [← List.take_append_drop (min k e.chunk.length) e.view]
    congr 1
    rw [ht, List.take_append_of_le_length (by omega)]
    simp [List.take_eq_take_iff]

/-- Decoding what was encoded gives S and P back. -/
theorem C18_decode_encode (sid : Nat) (hs : sid < 2^62) (h4 : sid % 4 = 0) (p : Bytes) :
    decode (encode sid p).view = .ok sid p := by
  have hq : sid / 4 < 2^62 := by omega
  rw [view_encode sid hs p, decode, (H3.Props.C16.C16_decode_encode _ hq p).1]
  have : ¬ (sid / 4 * 4 > 2^62 - 1) := by omega
  simp only [this, if_false]
  congr 1; omega

/-- Decoding is total: H3_DATAGRAM_ERROR exactly when the integer is truncated or the
    stream ID would exceed 2^62−1; otherwise stream ID = 4·q and the payload is the rest; the
    multiplication cannot wrap in `u64`. -/
theorem C18_decode_total (bs : Bytes) (hwf : Varint.WF bs) :
    (Varint.rfcDecode bs = none → decode bs = .datagramError) ∧
    (∀ q rest, Varint.rfcDecode bs = some (q, rest) →
      q * 4 < 2^64 ∧
      decode bs = if q * 4 > 2^62 - 1 then .datagramError else .ok (4 * q) rest) := by
  obtain ⟨h1, h2⟩ := H3.Props.C16.C16_decode_total bs hwf
  constructor
  · intro h; obtain ⟨k, hk⟩ := h2 h; simp [decode, hk]
  · intro q rest h
    obtain ⟨hd, hq⟩ := h1 q rest h
    refine ⟨by omega, ?_⟩
    simp only [decode, hd]
    split
    · rfl
    · congr 1; omega

example : decode [0x01, 0x78, 0x79] = .ok 4 [0x78, 0x79] := by decide
example : (encode 4 [0x78, 0x79]).view = [0x01, 0x78, 0x79] := by decide
example : decode [0xff, 0xff, 0xff, 0xff, 0xff, 0xff, 0xff, 0xff] = .datagramError := by decide

end H3.Props.C18
