import H3.Lemmas.C04
import H3.Lemmas.Setup
import H3.Drv.C04
/-! # C04 — control and unidirectional stream rules are enforced with the right error

Property theorems only; vocabulary and proofs are in `H3/Lemmas/C04.lean`.
Models: `H3.UniAccept` (`AcceptRecvStream::{poll_next_varint, poll_type, into_stream}`), `H3.Control`
(`poll_accept_recv`, `poll_control`, `poll_grease_stream`, server `poll_next_control`, client
`poll_close`).  Oracle: `H3.Spec.ControlRules` (RFC 9114 §6.2, §6.2.1, §7.2). -/
namespace H3.Props.C04
open H3.Lemmas.C04 H3.Control H3.Frame

section resolution
open H3.UniAccept H3.Varint
open H3.Spec.ControlRules (Hdr header hasId)

/-- **Stream type resolution.**  For every transport script — every way of cutting the stream
    into chunks, `Pending` anywhere, FIN or RESET at any position (what follows them is never looked
    at) — `poll_type`, called again while it answers `Pending`, ends as RFC 9114 §6.2 says:
    * the header (type varint of any length form, plus push id / session id for push and
      WebTransport streams) is complete in the bytes sent before the end ⇒ the stream is resolved
      with exactly the RFC 9000 §16 values (`Varint.rfcDecode`), and what is left in the buffer
      followed by what the transport still has is exactly the rest of the stream, in order;
    * the header is incomplete and the stream has ended ⇒ the stream is dropped, no error;
    * the header is incomplete and the stream is still open ⇒ `Pending`;
    * H3_INTERNAL_ERROR never. -/
theorem C04_type_resolution (sc : List Ev) (hwf : ScriptWF sc) :
    match header (bytesOf sc), resolve (sc.length + 1) {} sc with
    | .complete ty id rest, .resolved s r => s.ty = some ty ∧ s.id = id ∧ s.buf ++ future s r = rest
    | .incomplete, .dropped => hasEnd sc = true
    | .incomplete, .waiting _ => hasEnd sc = false
    | _, _ => False :=
  type_resolution sc hwf

-- non-vacuity.  A WebTransport uni stream: type `40 54` (2-byte form), session id `80 01 | 00 00`
-- (4-byte form, cut in the middle), then payload: resolved with id 0x10000, payload kept
example : resolve 5 {} [.chunk [0x40, 0x54], .pend, .chunk [0x80, 0x01], .chunk [0x00, 0x00, 0xaa]] =
    .resolved { buf := [0xaa], ty := some 0x54, id := some 0x10000 } [] := by decide +kernel
-- type and id in one chunk, FIN right behind: still resolved (the buffer is tried first)
example : resolve 3 {} [.chunk [0x40, 0x54, 0x01, 0xbb], .fin] =
    .resolved { buf := [0xbb], ty := some 0x54, id := some 1 } [.fin] := by decide +kernel
-- a push stream whose id never completes, reset: dropped, no error
example : resolve 4 {} [.chunk [0x01], .chunk [0x40], .reset 9] = .dropped := by decide +kernel
-- an 8-byte grease type, byte by byte, still open: waiting; with the last byte: resolved
example : resolve 4 {} [.chunk [0xc0, 0, 0, 0], .pend, .chunk [0, 0, 0]] =
    .waiting { buf := [0xc0, 0, 0, 0, 0, 0, 0], expected := some 8 } := by decide +kernel
example : resolve 5 {} [.chunk [0xc0, 0, 0, 0], .pend, .chunk [0, 0, 0], .chunk [0x21, 7]] =
    .resolved { buf := [7], ty := some 0x21 } [] := by decide +kernel
-- D-04b, the code before the repair: `expected` (2, from the type `40 54`) is still there when the
-- session id is read ...
example : pollVarintOld {} [.chunk [0x40, 0x54]] = (.ok 0x54, { expected := some 2 }, []) := by
  decide +kernel
-- ... so `80 01` "is complete" and decoding fails: H3_INTERNAL_ERROR
example : (pollVarintOld { expected := some 2, ty := some 0x54 } [.chunk [0x80, 0x01], .chunk [0, 0]]).1 =
    .internal := by decide +kernel
-- ... a complete one-byte id waits for a second byte, and is dropped at FIN
example : (pollVarintOld { expected := some 2, ty := some 0x54 } [.chunk [0x01]]).1 = .pending := by
  decide +kernel
example : (pollVarintOld { expected := some 2, ty := some 0x54 } [.chunk [0x01], .fin]).1 = .ended := by
  decide +kernel
-- ... and an id that came in the same chunk as the type is not looked at before the transport is
example : (pollVarintOld { buf := [0x05], ty := some 0x54 } []).1 = .pending := by decide +kernel
example : (pollVarint { buf := [0x05], ty := some 0x54 } []).1 = .ok 5 := by decide +kernel


end resolution

section machine
open H3.Spec.ControlRules H3.Gen.Consts

/-- `into_stream` + the arms of `poll_accept_recv` classify a resolved stream as RFC 9114 §6.2 does
    (WebTransport streams only when the extension is enabled); neither `expect` of `into_stream`
    can fire once `poll_type` has answered `Ready`. -/
theorem C04_into_stream (cfg : Cfg) (s : UniAccept.St) (ty : Nat) (hty : s.ty = some ty)
    (hid : hasId ty = true → s.id.isSome = true) :
    ∃ k, UniAccept.intoStream s = some k ∧ absKind cfg k = streamTy cfg.wt ty :=
  into_stream cfg s ty hty hid

/-- **Streams the RFC table tolerates never cause a connection error** — stated against the
    oracle, not against the model's own arms.  Whatever header the peer sent: if its type — the
    RFC 9000 §16 reading, `C04_type_resolution` — is one that `Spec.streamTy` calls unknown (a
    reserved `0x1f * N + 0x21` value, any other value, the WebTransport type with the extension
    off), the verdict of `Spec.ControlRules.verdict` is `ok` in every oracle state, and the code,
    having resolved the stream (`s.ty = some ty`, the id present where the type has one), classifies
    it (`into_stream`) and takes an arm of `poll_accept_recv` that raises no connection error and
    leaves the connection state as it was; all it may do is STOP_SENDING with
    H3_STREAM_CREATION_ERROR (§6.2 SHOULD).  The same for a stream closed or reset before its header
    was complete (`closedEarly` / `PollTypeError::EndOfStream`). -/
theorem C04_unknown_stream (cfg : Cfg) (c : Conn) (sp : St) (s : UniAccept.St) (ty : Nat)
    (hty : s.ty = some ty) (hid : hasId ty = true → s.id.isSome = true)
    (hunk : streamTy cfg.wt ty = .unknown) :
    (verdict (isServer cfg) sp (.stream (streamTy cfg.wt ty))).1 = .ok ∧
    (verdict (isServer cfg) sp .closedEarly).1 = .ok ∧
    (∃ k, UniAccept.intoStream s = some k ∧
      (acceptArrival cfg c (.kind k)).err = none ∧ (acceptArrival cfg c (.kind k)).conn = c ∧
      ((acceptArrival cfg c (.kind k)).stop = none ∨
       (acceptArrival cfg c (.kind k)).stop = some H3_STREAM_CREATION_ERROR)) ∧
    (acceptArrival cfg c .dropped).err = none ∧ (acceptArrival cfg c .dropped).conn = c :=
  unknown_stream_spec cfg c sp s ty hty hid hunk

-- non-vacuity: a grease type (8-byte form) resolved by `resolve`, then accepted: told to stop, no
-- error; the WebTransport type with the extension off: dropped without a word
example : streamTy false 0x21 = .unknown ∧ streamTy false 0x54 = .unknown ∧ streamTy true 0x54 = .wtUni := by decide
example : (UniAccept.intoStream { buf := [7], ty := some 0x21 }).map
    (fun k => acceptArrival { role := .server } { control := true } (.kind k)) =
    some { conn := { control := true }, stop := some 0x0103 } := by decide
example : (UniAccept.intoStream { ty := some 0x54, id := some 4 }).map
    (fun k => acceptArrival { role := .server, wt := false } {} (.kind k)) = some { conn := {} } := by decide

/-- **The control machine raises the oracle's error.**  For every role and configuration and
    every history — unidirectional streams of any type arriving (or being dropped) in any order,
    interleaved with whatever the frame layer reports on the control stream, of any length: at
    every input the verdict of the RFC table (`Spec.ControlRules.verdict`) accepts what the machine
    does (`Conforms`) — no connection error where the verdict is `ok`, an error with one of the
    listed codes where it is `must`, either where the property does not constrain the situation
    (`may`) — and this up to and including the first connection error.  (`NoInternal`: `poll_type`
    never answers H3_INTERNAL_ERROR; that is `C04_type_resolution`.) -/
theorem C04_control_machine (cfg : Cfg) (ins : List In) (h : NoInternal ins) :
    Conforms cfg {} {} ins :=
  control_machine cfg ins h

-- non-vacuity of `C04_control_machine`: histories on which the verdict is `must` and the machine
-- raises exactly that error ...
example : firstErr { role := .client } {} [.uni 3 (.kind .control), .item (.frame (.settings [])),
    .uni 7 (.kind (.unknown 0x21)), .pend, .item (.frame (.maxPushId 1))] = some 0x0105 := by decide +kernel
example : firstErr { role := .server } {} [.uni 2 (.kind .control), .uni 6 (.kind .encoder),
    .uni 10 (.kind .control)] = some 0x0103 := by decide +kernel
example : firstErr { role := .server } {} [.uni 2 (.kind .control), .item (.frame (.goaway 0))] = some 0x010a := by
  decide +kernel
example : firstErr { role := .server } {} [.uni 2 (.kind .control), .item (.frame (.settings [])),
    .item (.frame (.settings []))] = some 0x0105 := by decide +kernel
example : firstErr { role := .server } {} [.uni 2 (.kind .control), .item (.frame (.settings [])),
    .item .fin] = some 0x0104 := by decide +kernel
example : (verdict true { control := true, settings := true } (.ctl .data)).1 = .must [0x0105] := by decide
-- ... and one without any error: unknown and early-closed streams, push, an unknown-typed WebTransport
-- stream (extension off), CANCEL_PUSH/MAX_PUSH_ID/GOAWAY to a server
example : firstErr { role := .server } {} [.uni 2 (.kind .control), .uni 6 (.kind (.unknown 0x21)),
    .uni 10 .dropped, .item (.frame (.settings [])), .uni 14 (.kind .push), .uni 18 (.kind (.wtUni 4)),
    .item (.frame (.cancelPush 1)), .item (.frame (.maxPushId 1)), .item (.frame (.goaway 4)),
    .item (.frame (.goaway 0))] = none := by decide +kernel


/-- **Where the property is silent: server push, and the closing of a peer QPACK stream.**
    `Spec.ControlRules.verdictRfc` is the table with the RFCs' demands also where the property's text
    names no rule (readings R-04b, R-04e): it differs from the table the theorems above judge by only
    for a push stream, CANCEL_PUSH, MAX_PUSH_ID sent to a server — the rules of server push — and for
    the closing of the peer's QPACK encoder / decoder stream (RFC 9204 §4.2: H3_CLOSED_CRITICAL_STREAM;
    the property names the control stream only); the oracle state it leads to is always the same.
    Hence on every history without these four events `C04_control_machine` is conformance to RFC 9114
    by the letter.  (The name is kept for the references to it; the fourth difference was added by the
    second audit and is part of the statement.) -/
theorem C04_rfc_table_differs_only_on_push (server : Bool) (sp : St) (e : Ev) :
    verdictRfc server sp e = verdict server sp e ∨
    e = .stream .push ∨ (∃ id, e = .ctl (.cancelPush id)) ∨ (∃ id, e = .ctl (.maxPushId id) ∧ server = true) ∨
    e = .qpackClosed :=
  rfc_table_differs server sp e

/-- **The closing of a peer QPACK stream (reading R-04e).**  The property's table does not constrain it
    (no error, or H3_CLOSED_CRITICAL_STREAM — never another code), the RFC table demands
    H3_CLOSED_CRITICAL_STREAM (RFC 9204 §4.2), and neither changes the oracle's state. -/
theorem C04_qpack_closure_verdicts (server : Bool) (sp : St) :
    verdict server sp .qpackClosed = (.may [0x0104], sp) ∧
    verdictRfc server sp .qpackClosed = (.must [0x0104], sp) := by
  constructor <;> rfl

-- the code: the peer's QPACK streams are stored and never read, so their closing is no input of the
-- machine at all (`In` has no such constructor; engine `ctl`: `o6 s6:02 f6` ⇒ no error) — accepted by
-- `may`, refused by the RFC table (NOTE line of every run)
example : accepts (verdict true {} .qpackClosed).1 none ∧ accepts (verdict true {} .qpackClosed).1 (some 0x0104) ∧
    ¬ accepts (verdict true {} .qpackClosed).1 (some 0x0105) ∧ ¬ accepts (verdictRfc true {} .qpackClosed).1 none := by
  simp [accepts, verdict, verdictRfc, H3_CLOSED_CRITICAL_STREAM]

-- … and on the three of server push the code does depart from the letter (server push is not implemented: the
-- arms carry `//= type=TODO` citations): a push stream is dropped without an error by either role
-- (§6.2.2: H3_STREAM_CREATION_ERROR at a server; §4.6: H3_ID_ERROR at a client that never sent
-- MAX_PUSH_ID), a server ignores CANCEL_PUSH and a MAX_PUSH_ID that goes down (§7.2.3, §7.2.7:
-- H3_ID_ERROR), a client answers CANCEL_PUSH with H3_FRAME_UNEXPECTED (§7.2.3: H3_ID_ERROR).
-- Reproduced on the real code by every run of the check (NOTE lines, engine `ctlrfc`).
example : (verdictRfc true { control := true, settings := true } (.stream .push)).1 = .must [0x0103] ∧
    firstErr { role := .server } {} [.uni 2 (.kind .control), .item (.frame (.settings [])), .uni 6 (.kind .push)] = none := by
  decide +kernel
example : (verdictRfc false { control := true, settings := true } (.stream .push)).1 = .must [0x0108] ∧
    firstErr { role := .client } {} [.uni 3 (.kind .control), .item (.frame (.settings [])), .uni 7 (.kind .push)] = none := by
  decide +kernel
example : (verdictRfc true { control := true, settings := true } (.ctl (.cancelPush 1))).1 = .must [0x0108] ∧
    firstErr { role := .server } {} [.uni 2 (.kind .control), .item (.frame (.settings [])), .item (.frame (.cancelPush 1))] = none := by
  decide +kernel
example : (verdictRfc false { control := true, settings := true } (.ctl (.cancelPush 1))).1 = .must [0x0108] ∧
    firstErr { role := .client } {} [.uni 3 (.kind .control), .item (.frame (.settings [])), .item (.frame (.cancelPush 1))]
      = some 0x0105 := by
  decide +kernel
example : (verdictRfc true { control := true, settings := true, maxPush := some 5 } (.ctl (.maxPushId 1))).1 = .must [0x0108] ∧
    firstErr { role := .server } {} [.uni 2 (.kind .control), .item (.frame (.settings [])),
      .item (.frame (.maxPushId 5)), .item (.frame (.maxPushId 1))] = none := by
  decide +kernel
-- GOAWAY identifiers are demanded (`must`), and raised: a growing one; one that is no request id, to a client
example : (verdict true { control := true, settings := true, lastGoaway := some 4 } (.ctl (.goaway 8))).1 = .must [0x0108] ∧
    firstErr { role := .server } {} [.uni 2 (.kind .control), .item (.frame (.settings [])),
      .item (.frame (.goaway 4)), .item (.frame (.goaway 8))] = some 0x0108 := by
  decide +kernel
example : (verdict false { control := true, settings := true } (.ctl (.goaway 3))).1 = .must [0x0108] ∧
    firstErr { role := .client } {} [.uni 3 (.kind .control), .item (.frame (.settings [])), .item (.frame (.goaway 3))]
      = some 0x0108 := by
  decide +kernel

-- frames of unknown type never reach the machine (`Item` has no constructor for them): the frame
-- layer below `poll_control` (`FS.pollNext`, C02) skips them, whatever their type and length form
example : (match FS.pollNext FS.frameDec {} [.chunk [0x21, 0x02, 0xaa, 0xbb, 0x07, 0x01, 0x00]] with
    | (.frame f, _, _) => some f
    | _ => none) = some (.goaway 0) := by decide +kernel
example : (match FS.pollNext FS.frameDec {} [.chunk [0x40, 0x21, 0x40, 0x00], .chunk [0xc0, 0, 0, 0, 0, 0, 0x10, 0x40],
      .chunk [0x01, 0xee, 0x04, 0x00]] with
    | (.frame f, _, _) => some f
    | _ => none) = some (.settings []) := by decide +kernel

end machine

/-- **Acted upon exactly once.**  Whatever `poll_open_send` / `send_data` / `poll_ready` /
    `poll_finish` of the grease stream answer (`g`: pending, ok or error in any pattern, pending for
    ever when exhausted), in whatever state the grease stream is (`gs`), and however the arrival
    of the inputs is spread over polls of the driver (`pend` anywhere in `ins`): the frames handed
    to the role handler, the connection error returned and the final connection state are those of
    the reference run, which knows neither polls nor the grease stream.  The frames handed over
    are, in order and each once, the frames the frame layer delivered — all of them if no
    connection error occurs, otherwise those up to the one that raised it. -/
theorem C04_acted_once (cfg : Cfg) (c : Conn) (gs : Grease) (ins : List In) (g : List GAns)
    (hc : c.err = none) (hctl : c.control = true) :
    driveAll false cfg (ins.length + 1) c gs ins g = refRun cfg c ins ∧
    (refRun cfg c ins).1 <+: delivered ins ∧
    ((refRun cfg c ins).2.1 = none → (refRun cfg c ins).1 = delivered ins) :=
  acted_once cfg c gs ins g hc hctl

/-- the same from any state, e.g. before the control stream has arrived (items that precede it in
    `ins` are not deliverable) -/
theorem C04_acted_once_any (cfg : Cfg) (c : Conn) (gs : Grease) (ins : List In) (g : List GAns)
    (hc : c.err = none) :
    driveAll false cfg (ins.length + 1) c gs ins g = refRun cfg c ins :=
  acted_once_any cfg c gs ins g hc

/-- the connection error the polled machine returns — for every grease script — is the one raised
    at the first input that raises one (`firstErr`), i.e. the one `C04_control_machine` speaks about -/
theorem C04_first_error (cfg : Cfg) (c : Conn) (gs : Grease) (ins : List In) (g : List GAns)
    (hc : c.err = none) :
    (driveAll false cfg (ins.length + 1) c gs ins g).2.1 = firstErr cfg c ins :=
  first_error cfg c gs ins g hc

-- non-vacuity: SETTINGS, CANCEL_PUSH, GOAWAY with a grease stream that never gets stream credit,
-- one whose write stays pending, one that fails: all three frames are handed over
example : (driveAll false { role := .server } 4 { control := true } { flag := true }
    [.item (.frame (.settings [])), .item (.frame (.cancelPush 1)), .pend, .item (.frame (.goaway 0))] []).1
    = [.settings [], .cancelPush 1, .goaway 0] := by decide +kernel
example : (driveAll false { role := .server } 4 { control := true } { flag := true }
    [.item (.frame (.settings [])), .item (.frame (.cancelPush 1)), .item (.frame (.goaway 0))]
    [.ok, .ok, .pending, .pending, .err]).1
    = [.settings [], .cancelPush 1, .goaway 0] := by decide +kernel
-- a client: MAX_PUSH_ID is handed to the handler, which raises H3_FRAME_UNEXPECTED
example : (driveAll false { role := .client } 3 { control := true } { flag := true }
    [.item (.frame (.settings [])), .item (.frame (.maxPushId 1))] []).2.1 = some 261 := by decide +kernel
-- D-04a: the code before the repair (`blocking = true`) loses every frame while the grease
-- stream is pending: nothing is handed over, GOAWAY is gone, MAX_PUSH_ID is not rejected
example : (driveAll true { role := .server } 3 { control := true } { flag := true }
    [.item (.frame (.settings [])), .pend, .item (.frame (.goaway 0))] []).1 = [] := by decide +kernel
example : (driveAll true { role := .client } 3 { control := true } { flag := true }
    [.item (.frame (.settings [])), .pend, .item (.frame (.maxPushId 1))] []).2.1 = none := by decide +kernel


/-! ## Transport faults: the grease stream, the own control stream, a server-initiated bidi stream

`C04_acted_once` already quantifies over every grease script, `err` answers included (`GAns.err` at
any call of `poll_open_send` / `send_data` / `poll_ready` / `poll_finish`).  What is added here is
its consequence in the form the correspondence run exercises (engine `ctl` with injected stream
errors on the grease stream, engine `flt` with connection errors), and the error arms of the
endpoint's own control stream and of client `poll_close`, over `H3.Setup`. -/

/-- **An error on the grease stream is never a connection error and never loses a frame.**  Two runs
    of the polled driver over the same inputs that differ only in what the grease stream's calls
    answer (`g`, `g'`: any patterns of pending / ok / error) and in the grease state they start
    from end alike: the same frames handed to the role handler, the same connection error (or
    none), the same connection state. -/
theorem C04_grease_error_harmless (cfg : Cfg) (c : Conn) (gs gs' : Grease) (ins : List In) (g g' : List GAns)
    (hc : c.err = none) :
    driveAll false cfg (ins.length + 1) c gs ins g = driveAll false cfg (ins.length + 1) c gs' ins g' := by
  rw [C04_acted_once_any cfg c gs ins g hc, C04_acted_once_any cfg c gs' ins g' hc]

/-- **After an error the grease stream is given up.**  Whatever step the grease machine is at, a
    call answering an error makes `poll_grease_stream` answer `Ready` with
    `send_grease_stream_flag = false` and the step unchanged; with the flag off `poll_control` does
    not touch the grease stream again (the script is left as it is) and hands the frame on. -/
theorem C04_grease_error_gives_up (gs : Grease) (r : List GAns) :
    (pollGrease gs (.err :: r)).1 = true ∧ (pollGrease gs (.err :: r)).2.1 = { gs with flag := false } ∧
    ∀ (blocking : Bool) (f : Frame) (c : Conn) (ins : List In) (g : List GAns),
      afterFrame blocking f c { gs with flag := false } ins g =
        { res := .ready f, conn := c, gs := { gs with flag := false }, ins := ins, g := g } := by
  refine ⟨?_, ?_, ?_⟩
  · cases gs with
    | mk flag step => cases step <;> simp [pollGrease, gOpen, gSend, gReady, gFinish, nextAns]
  · cases gs with
    | mk flag step => cases step <;> simp [pollGrease, gOpen, gSend, gReady, gFinish, nextAns]
  · intro blocking f c ins g
    simp [afterFrame]

-- non-vacuity: SETTINGS, GOAWAY(0) to a server whose grease stream fails at the open / at
-- `send_data` / at `poll_ready` after a `Pending` / at `poll_finish`: both frames are acted upon,
-- no connection error; a client still rejects MAX_PUSH_ID behind a failing grease stream
example : ∀ g ∈ [[GAns.err], [.ok, .err], [.ok, .ok, .pending, .err], [.ok, .ok, .ok, .err]],
    driveAll false { role := .server } 4 { control := true } { flag := true }
      [.item (.frame (.settings [])), .pend, .item (.frame (.goaway 0))] g =
    ([.settings [], .goaway 0], none, { control := true, gotSettings := true, recvClosing := some 0 }) := by
  decide +kernel
example : (driveAll false { role := .client } 3 { control := true } { flag := true }
    [.item (.frame (.settings [])), .item (.frame (.maxPushId 1))] [.ok, .err]).2.1 = some 261 := by decide +kernel
example : pollGrease { flag := true, step := .dataPrepared } [.err, .ok] =
    (true, { flag := false, step := .dataPrepared }, [.ok]) := by decide

section faults
open H3.Setup H3.ErrCell H3.Gen.Consts

/-- **The endpoint's own control stream.**  A write on it (`send_control_stream_headers` during the
    setup, `shutdown` later) that the transport answers with a stream error — the peer's
    STOP_SENDING (`StreamTerminated`) or `Unknown` — is the connection error
    H3_CLOSED_CRITICAL_STREAM (RFC 9114 §6.2.1), detected locally: `close` is called once with
    0x0104 and the call returns `Local` with that code; a connection error from the transport is
    passed on as it is, closing nothing unless it is the trait implementation's `InternalError`
    (then `close(H3_INTERNAL_ERROR)`).  The same arms serve a failed read on the peer's control
    stream.  Once an error has been handled it is the one returned, and nothing more is closed. -/
theorem C04_own_control_stream_error :
    (∀ c, shutdownWrite {} (some (.terminated c)) =
      ({ handled := some (.localApp 0x0104 0), closes := [0x0104] }, some (.localApp 0x0104 0))) ∧
    (∀ t, (shutdownWrite {} (some (.unknown t))).2 = some (.localApp 0x0104 1) ∧
      (shutdownWrite {} (some (.unknown t))).1.closes = [0x0104]) ∧
    (∀ q, (shutdownWrite {} (some (.conn q))).2 = some (convert (.quic q)) ∧
      OutcomeOK (convert (.quic q)) (shutdownWrite {} (some (.conn q))).1.closes) ∧
    (∀ e, finishHeaders {} (some e) = shutdownWrite {} (some e)) ∧
    (∀ (d : Drv) (h : CErr) (e : SErr), d.handled = some h → shutdownWrite d (some e) = (d, some h)) := by
  refine ⟨fun c => by simp [shutdownWrite, raise, ctlStreamErr, convert, closeCode, closeOf, CODE_H3_CLOSED_CRITICAL_STREAM],
    fun t => by simp [shutdownWrite, raise, ctlStreamErr, convert, closeCode, closeOf, CODE_H3_CLOSED_CRITICAL_STREAM],
    fun q => ?_, fun e => rfl, fun d h e hd => by simp [shutdownWrite, raise, hd]⟩
  simp only [shutdownWrite, ctlStreamErr, H3.Lemmas.Setup.raise_fresh]
  exact ⟨trivial, H3.Lemmas.Setup.outcome_convert _⟩

example : shutdownWrite {} (some (.conn (.internal 3))) =
    ({ handled := some (.remote (.internal 3)), closes := [0x0102] }, some (.remote (.internal 3))) := by decide
example : shutdownWrite {} (some (.conn .timeout)) = ({ handled := some .timeout, closes := [] }, some .timeout) := by
  decide

/-- **The peer's STOP_SENDING on the endpoint's control stream during the setup** (engine `ctl`, `x<sid>`
    on the own streams; reading R-04c).  The `join3` of `send_control_stream_headers` ends only when all
    three writes have ended; then a control-stream write that ended with a stream error — `poll_ready`
    answering `StreamTerminated` when it met the stopped stream — makes `build` fail with
    H3_CLOSED_CRITICAL_STREAM, `close(0x0104)` once, whatever happened on the QPACK streams; while one
    of the QPACK writes is still pending `build` is pending and nothing is closed; and an error on a
    QPACK stream alone is dropped (`let _ = stream::write(..)`): `build` returns the connection,
    nothing is closed. -/
theorem C04_stopped_control_stream_fails_setup {T : Type} (t : T) (c : Nat) (wd we : WSt) (p : Bool) :
    (wd.isDone = true → we.isDone = true →
      (joinHeaders t {} (.done (some (.terminated c))) wd we p).res = some (some (.localApp 0x0104 0)) ∧
      (joinHeaders t {} (.done (some (.terminated c))) wd we p).st.drv.closes = [0x0104]) ∧
    ((wd.isDone && we.isDone) = false →
      (joinHeaders t {} (.done (some (.terminated c))) wd we p).res = none ∧
      (joinHeaders t {} (.done (some (.terminated c))) wd we p).st.drv.closes = []) ∧
    (∀ r1 r2, (joinHeaders t {} (.done none) (.done r1) (.done r2) p).res = some none ∧
      (joinHeaders t {} (.done none) (.done r1) (.done r2) p).st.drv.closes = []) := by
  refine ⟨fun h1 h2 => ?_, fun h => ?_, fun r1 r2 => ?_⟩
  · simp [joinHeaders, h1, h2, finishHeaders, raise, ctlStreamErr, convert, closeCode, closeOf,
      CODE_H3_CLOSED_CRITICAL_STREAM]
  · simp [joinHeaders, h]
  · simp [joinHeaders, WSt.isDone, finishHeaders]

-- non-vacuity, the whole `build` future against a scripted transport: three streams, the control
-- stream's `send_data` ok, its `poll_ready` meets STOP_SENDING(7), the QPACK headers go out: Err(0x104),
-- one close; the same with the decoder's `poll_ready` pending first: `build` waits for it
example : (buildRun scriptTr 3 [.ok, .ok, .ok, .ok, .err (.terminated 7), .ok, .ok, .ok, .ok] {}).2 =
    ({ phase := .finished, drv := { handled := some (.localApp 0x0104 0), closes := [0x0104] } },
     some (some (.localApp 0x0104 0))) := by decide
example : (buildPoll scriptTr [.ok, .ok, .ok, .ok, .err (.terminated 7), .ok, .pending, .ok, .ok] {}).res = none ∧
    (buildPoll scriptTr [.ok, .ok, .ok, .ok, .err (.terminated 7), .ok, .pending, .ok, .ok] {}).st.drv.closes = [] := by
  decide
-- STOP_SENDING on the two QPACK streams only: the connection is built
example : (buildRun scriptTr 3 [.ok, .ok, .ok, .ok, .ok, .ok, .err (.terminated 7), .ok, .err (.terminated 9)] {}).2.2 =
    some none := by decide

/-- **A client that is handed a server-initiated bidirectional stream** (RFC 9114 §6.1): when the
    control loop of `poll_close` has nothing more to do and `poll_accept_bi` yields a stream, the
    connection error is H3_STREAM_CREATION_ERROR, `close(0x0103)` once; if the connection had
    failed before — or the transport answers `poll_accept_bi` with a connection error — that
    error is the outcome and nothing (more) is closed for the stream; `Pending` raises nothing. -/
theorem C04_client_rejects_server_bidi :
    clientAcceptBi {} .stream =
      ({ handled := some (.localApp 0x0103 0), closes := [0x0103] }, some (.localApp 0x0103 0)) ∧
    (∀ (d : Drv) (h : CErr) (a : AccBi), d.handled = some h → a ≠ .pending → clientAcceptBi d a = (d, some h)) ∧
    (∀ q, (clientAcceptBi {} (.err q)).2 = some (convert (.quic q)) ∧
      OutcomeOK (convert (.quic q)) (clientAcceptBi {} (.err q)).1.closes) ∧
    (∀ d, clientAcceptBi d .pending = (d, none)) := by
  refine ⟨by simp [clientAcceptBi, raise, convert, closeCode, closeOf, CODE_H3_STREAM_CREATION_ERROR], ?_, ?_,
    fun d => rfl⟩
  · intro d h a hd ha
    cases a with
    | pending => exact absurd rfl ha
    | stream => simp [clientAcceptBi, raise, hd]
    | err q => simp [clientAcceptBi, raise, hd]
  · intro q
    simp only [clientAcceptBi, H3.Lemmas.Setup.raise_fresh]
    simp only [raise]
    exact ⟨trivial, H3.Lemmas.Setup.outcome_convert _⟩

example : clientAcceptBi {} (.err (.appClose 0x100)) =
    ({ handled := some (.remote (.appClose 0x100)), closes := [] }, some (.remote (.appClose 0x100))) := by decide

end faults

/-! ## The driver's oracle: what a RESET of the control stream may overtake (reading R-04d) -/

section overtaking
open H3.Drv.C04 H3.Spec.ControlRules

/-- **A RESET overtakes only what the endpoint had not looked at.**  `overtaken isReset x r` is what
    the driver's oracle (`ctlStep`, engine `ctl`) accepts for one event of the control stream when the
    table leaves the alternatives `r`; `isReset` = the control stream had been reset when the endpoint
    came to look at the batch of events this one belongs to (`ctlPhase`: the events of the bytes that
    arrived since the last quiescence point; an event judged before is never judged again).
    * no such reset ⇒ exactly the table's alternatives: the frame's own error and nothing else;
    * a reset ⇒ at most ONE alternative is added, it is H3_CLOSED_CRITICAL_STREAM, and it is added only
      where the table demands an error anyway (every alternative of `r` is an error): no error is never
      added, another code is never added. -/
theorem C04_reset_overtakes_only_unseen_frames (isReset : Bool) (x : SpecSt) (r : List SpecSt) :
    (isReset = false → overtaken isReset x r = r) ∧
    (∀ y ∈ overtaken isReset x r, y ∈ r ∨
      (isReset = true ∧ y.dead = some H3_CLOSED_CRITICAL_STREAM ∧ ∀ z ∈ r, z.dead.isSome = true)) := by
  constructor
  · intro h; subst h; simp [overtaken]
  · intro y hy
    unfold overtaken at hy
    split at hy
    · rename_i hc
      simp only [Bool.and_eq_true, List.all_eq_true] at hc
      rcases List.mem_append.mp hy with h | h
      · exact Or.inl h
      · right
        refine ⟨hc.1.1, ?_, hc.1.2⟩
        simp only [List.mem_singleton] at h
        subst h; rfl
    · exact Or.inl hy

/-- the codes the oracle accepts after the given ops (server, no grease, unlimited credit) -/
def deadAfter (ops : List Op) : List (Option Nat) :=
  let rc : RunCfg := { server := true }
  let sp0 : SpecSt := { rc := rc, env := OwnNet.init rc }
  ((runSpec ((specSetup sp0).map fun x => (x, {})) ops).map fun (s, _) => s.dead).eraseDups

-- non-vacuity, on whole lines of engine `ctl` (the witness pair of R-04d has these bytes): SETTINGS and a
-- second SETTINGS, then RESET, all before the endpoint looks ⇒ H3_FRAME_UNEXPECTED or
-- H3_CLOSED_CRITICAL_STREAM ...
example : deadAfter [.openS 2, .chunk 2 [0, 4, 0, 4, 0], .reset 2 7, .api "AL"] = [some 0x0105, some 0x0104] := by
  decide +kernel
-- ... the endpoint looked between the second SETTINGS and the RESET (the accept loop runs: the driver is
-- polled to quiescence after every op) ⇒ H3_FRAME_UNEXPECTED only ...
example : deadAfter [.openS 2, .api "AL", .chunk 2 [0, 4, 0, 4, 0], .reset 2 7] = [some 0x0105] := by
  decide +kernel
example : deadAfter [.openS 2, .chunk 2 [0, 4, 0, 4, 0], .api "A", .reset 2 7] = [some 0x0105] := by
  decide +kernel
-- ... no reset ⇒ the frame's own error only; a reset alone ⇒ H3_CLOSED_CRITICAL_STREAM only
example : deadAfter [.openS 2, .chunk 2 [0, 4, 0, 4, 0], .fin 2, .api "AL"] = [some 0x0105] := by
  decide +kernel
example : deadAfter [.openS 2, .chunk 2 [0, 4, 0], .reset 2 7, .api "AL"] = [some 0x0104] := by
  decide +kernel
-- reading R-04e on a whole line: the peer's QPACK encoder stream FINed ⇒ H3_CLOSED_CRITICAL_STREAM or nothing
example : deadAfter [.openS 2, .chunk 2 [0, 4, 0], .openS 6, .chunk 6 [2], .fin 6, .api "AL"] = [some 0x0104, none] := by
  decide +kernel
-- ... and what else the line demands stays demanded: a second SETTINGS after the RESET of the encoder stream
example : deadAfter [.openS 2, .chunk 2 [0, 4, 0], .api "AL", .openS 6, .chunk 6 [2], .reset 6 3, .chunk 2 [4, 0]] =
    [some 0x0104, some 0x0105] := by
  decide +kernel
-- frame type 0x41 (`40 41`): no opinion on the alternative that went past it, but an error demanded
-- BEFORE it stays demanded (second SETTINGS, then 0x41)
example : deadAfter [.openS 2, .chunk 2 [0, 4, 0, 4, 0, 0x40, 0x41, 0], .api "AL"] = [some 0x0105] := by
  decide +kernel
example : ((runSpec ((specSetup { rc := { server := true }, env := OwnNet.init { server := true } }).map fun x => (x, {}))
    [.openS 2, .chunk 2 [0, 4, 0, 0x40, 0x41, 0], .api "AL"]).map fun (s, _) => (s.dead, s.unknown)) =
    [(some 0x0105, false), (none, true)] := by
  decide +kernel

end overtaking


end H3.Props.C04
