import H3.Lemmas.C04
/-! # C04 — control and unidirectional stream rules are enforced with the right error

Property theorems only; vocabulary and proofs are in `H3/Lemmas/C04.lean`.
Models: `H3.UniAccept` (`AcceptRecvStream::{poll_next_varint, poll_type, into_stream}`), `H3.Control`
(`poll_accept_recv`, `poll_control`, `poll_grease_stream`, server `poll_next_control`, client
`poll_close`).  Oracle: `H3.Spec.ControlRules` (RFC 9114 §6.2, §6.2.1, §7.2). -/
namespace H3.Props.C04
open H3.Lemmas.C04 H3.Control H3.Frame

section resolution
open H3.UniAccept H3.Varint
open H3.Spec.ControlRules (Hdr header hasId)

/-- **Stream type resolution.**  For every transport script — every way of cutting the stream
    into chunks, `Pending` anywhere, FIN or RESET at any position (what follows them is never looked
    at) — `poll_type`, called again while it answers `Pending`, ends as RFC 9114 §6.2 says:
    * the header (type varint of any length form, plus push id / session id for push and
      WebTransport streams) is complete in the bytes sent before the end ⇒ the stream is resolved
      with exactly the RFC 9000 §16 values (`Varint.rfcDecode`), and what is left in the buffer
      followed by what the transport still has is exactly the rest of the stream, in order;
    * the header is incomplete and the stream has ended ⇒ the stream is dropped, no error;
    * the header is incomplete and the stream is still open ⇒ `Pending`;
    * H3_INTERNAL_ERROR never. -/
theorem C04_type_resolution (sc : List Ev) (hwf : ScriptWF sc) :
    match header (bytesOf sc), resolve (sc.length + 1) {} sc with
    | .complete ty id rest, .resolved s r => s.ty = some ty ∧ s.id = id ∧ s.buf ++ future s r = rest
    | .incomplete, .dropped => hasEnd sc = true
    | .incomplete, .waiting _ => hasEnd sc = false
    | _, _ => False :=
  type_resolution sc hwf

-- non-vacuity.  A WebTransport uni stream: type `40 54` (2-byte form), session id `80 01 | 00 00`
-- (4-byte form, cut in the middle), then payload: resolved with id 0x10000, payload kept
example : resolve 5 {} [.chunk [0x40, 0x54], .pend, .chunk [0x80, 0x01], .chunk [0x00, 0x00, 0xaa]] =
    .resolved { buf := [0xaa], ty := some 0x54, id := some 0x10000 } [] := by decide +kernel
-- type and id in one chunk, FIN right behind: still resolved (the buffer is tried first)
example : resolve 3 {} [.chunk [0x40, 0x54, 0x01, 0xbb], .fin] =
    .resolved { buf := [0xbb], ty := some 0x54, id := some 1 } [.fin] := by decide +kernel
-- a push stream whose id never completes, reset: dropped, no error
example : resolve 4 {} [.chunk [0x01], .chunk [0x40], .reset 9] = .dropped := by decide +kernel
-- an 8-byte grease type, byte by byte, still open: waiting; with the last byte: resolved
example : resolve 4 {} [.chunk [0xc0, 0, 0, 0], .pend, .chunk [0, 0, 0]] =
    .waiting { buf := [0xc0, 0, 0, 0, 0, 0, 0], expected := some 8 } := by decide +kernel
example : resolve 5 {} [.chunk [0xc0, 0, 0, 0], .pend, .chunk [0, 0, 0], .chunk [0x21, 7]] =
    .resolved { buf := [7], ty := some 0x21 } [] := by decide +kernel
-- D-04b, the code before the repair: `expected` (2, from the type `40 54`) is still there when the
-- session id is read ...
example : pollVarintOld {} [.chunk [0x40, 0x54]] = (.ok 0x54, { expected := some 2 }, []) := by
  decide +kernel
-- ... so `80 01` "is complete" and decoding fails: H3_INTERNAL_ERROR
example : (pollVarintOld { expected := some 2, ty := some 0x54 } [.chunk [0x80, 0x01], .chunk [0, 0]]).1 =
    .internal := by decide +kernel
-- ... a complete one-byte id waits for a second byte, and is dropped at FIN
example : (pollVarintOld { expected := some 2, ty := some 0x54 } [.chunk [0x01]]).1 = .pending := by
  decide +kernel
example : (pollVarintOld { expected := some 2, ty := some 0x54 } [.chunk [0x01], .fin]).1 = .ended := by
  decide +kernel
-- ... and an id that came in the same chunk as the type is not looked at before the transport is
example : (pollVarintOld { buf := [0x05], ty := some 0x54 } []).1 = .pending := by decide +kernel
example : (pollVarint { buf := [0x05], ty := some 0x54 } []).1 = .ok 5 := by decide +kernel


end resolution

section machine
open H3.Spec.ControlRules H3.Gen.Consts

/-- `into_stream` + the arms of `poll_accept_recv` classify a resolved stream as RFC 9114 §6.2 does
    (WebTransport streams only when the extension is enabled); neither `expect` of `into_stream`
    can fire once `poll_type` has answered `Ready`. -/
theorem C04_into_stream (cfg : Cfg) (s : UniAccept.St) (ty : Nat) (hty : s.ty = some ty)
    (hid : hasId ty = true → s.id.isSome = true) :
    ∃ k, UniAccept.intoStream s = some k ∧ absKind cfg k = streamTy cfg.wt ty :=
  into_stream cfg s ty hty hid

/-- a stream of unknown type is told to stop with H3_STREAM_CREATION_ERROR (RFC 9114 §6.2 SHOULD)
    and never causes a connection error; neither does a stream dropped before its type is known -/
theorem C04_unknown_stream (cfg : Cfg) (c : Conn) (ty : Nat) :
    acceptArrival cfg c (.kind (.unknown ty)) = { conn := c, stop := some 0x0103 } ∧
    acceptArrival cfg c .dropped = { conn := c } :=
  unknown_stream cfg c ty

/-- **The control machine raises the oracle's error.**  For every role and configuration and
    every history — unidirectional streams of any type arriving (or being dropped) in any order,
    interleaved with whatever the frame layer reports on the control stream, of any length: at
    every input the verdict of the RFC table (`Spec.ControlRules.verdict`) accepts what the machine
    does (`Conforms`) — no connection error where the verdict is `ok`, an error with one of the
    listed codes where it is `must`, either where the property does not constrain the situation
    (`may`) — and this up to and including the first connection error.  (`NoInternal`: `poll_type`
    never answers H3_INTERNAL_ERROR; that is `C04_type_resolution`.) -/
theorem C04_control_machine (cfg : Cfg) (ins : List In) (h : NoInternal ins) :
    Conforms cfg {} {} ins :=
  control_machine cfg ins h

-- non-vacuity of `C04_control_machine`: histories on which the verdict is `must` and the machine
-- raises exactly that error ...
example : firstErr { role := .client } {} [.uni 3 (.kind .control), .item (.frame (.settings [])),
    .uni 7 (.kind (.unknown 0x21)), .pend, .item (.frame (.maxPushId 1))] = some 0x0105 := by decide +kernel
example : firstErr { role := .server } {} [.uni 2 (.kind .control), .uni 6 (.kind .encoder),
    .uni 10 (.kind .control)] = some 0x0103 := by decide +kernel
example : firstErr { role := .server } {} [.uni 2 (.kind .control), .item (.frame (.goaway 0))] = some 0x010a := by
  decide +kernel
example : firstErr { role := .server } {} [.uni 2 (.kind .control), .item (.frame (.settings [])),
    .item (.frame (.settings []))] = some 0x0105 := by decide +kernel
example : firstErr { role := .server } {} [.uni 2 (.kind .control), .item (.frame (.settings [])),
    .item .fin] = some 0x0104 := by decide +kernel
example : (verdict true { control := true, settings := true } (.ctl .data)).1 = .must [0x0105] := by decide
-- ... and one without any error: unknown and early-closed streams, push, an unknown-typed WebTransport
-- stream (extension off), CANCEL_PUSH/MAX_PUSH_ID/GOAWAY to a server
example : firstErr { role := .server } {} [.uni 2 (.kind .control), .uni 6 (.kind (.unknown 0x21)),
    .uni 10 .dropped, .item (.frame (.settings [])), .uni 14 (.kind .push), .uni 18 (.kind (.wtUni 4)),
    .item (.frame (.cancelPush 1)), .item (.frame (.maxPushId 1)), .item (.frame (.goaway 4)),
    .item (.frame (.goaway 0))] = none := by decide +kernel


-- frames of unknown type never reach the machine (`Item` has no constructor for them): the frame
-- layer below `poll_control` (`FS.pollNext`, C02) skips them, whatever their type and length form
example : (match FS.pollNext FS.frameDec {} [.chunk [0x21, 0x02, 0xaa, 0xbb, 0x07, 0x01, 0x00]] with
    | (.frame f, _, _) => some f
    | _ => none) = some (.goaway 0) := by decide +kernel
example : (match FS.pollNext FS.frameDec {} [.chunk [0x40, 0x21, 0x40, 0x00], .chunk [0xc0, 0, 0, 0, 0, 0, 0x10, 0x40],
      .chunk [0x01, 0xee, 0x04, 0x00]] with
    | (.frame f, _, _) => some f
    | _ => none) = some (.settings []) := by decide +kernel

end machine

/-- **Acted upon exactly once.**  Whatever `poll_open_send` / `send_data` / `poll_ready` /
    `poll_finish` of the grease stream answer (`g`: pending, ok or error in any pattern, pending for
    ever when exhausted), in whatever state the grease stream is (`gs`), and however the arrival
    of the inputs is spread over polls of the driver (`pend` anywhere in `ins`): the frames handed
    to the role handler, the connection error returned and the final connection state are those of
    the reference run, which knows neither polls nor the grease stream.  The frames handed over
    are, in order and each once, the frames the frame layer delivered — all of them if no
    connection error occurs, otherwise those up to the one that raised it. -/
theorem C04_acted_once (cfg : Cfg) (c : Conn) (gs : Grease) (ins : List In) (g : List GAns)
    (hc : c.err = none) (hctl : c.control = true) :
    driveAll false cfg (ins.length + 1) c gs ins g = refRun cfg c ins ∧
    (refRun cfg c ins).1 <+: delivered ins ∧
    ((refRun cfg c ins).2.1 = none → (refRun cfg c ins).1 = delivered ins) :=
  acted_once cfg c gs ins g hc hctl

/-- the same from any state, e.g. before the control stream has arrived (items that precede it in
    `ins` are not deliverable) -/
theorem C04_acted_once_any (cfg : Cfg) (c : Conn) (gs : Grease) (ins : List In) (g : List GAns)
    (hc : c.err = none) :
    driveAll false cfg (ins.length + 1) c gs ins g = refRun cfg c ins :=
  acted_once_any cfg c gs ins g hc

/-- the connection error the polled machine returns — for every grease script — is the one raised
    at the first input that raises one (`firstErr`), i.e. the one `C04_control_machine` speaks about -/
theorem C04_first_error (cfg : Cfg) (c : Conn) (gs : Grease) (ins : List In) (g : List GAns)
    (hc : c.err = none) :
    (driveAll false cfg (ins.length + 1) c gs ins g).2.1 = firstErr cfg c ins :=
  first_error cfg c gs ins g hc

-- non-vacuity: SETTINGS, CANCEL_PUSH, GOAWAY with a grease stream that never gets stream credit,
-- one whose write stays pending, one that fails: all three frames are handed over
example : (driveAll false { role := .server } 4 { control := true } { flag := true }
    [.item (.frame (.settings [])), .item (.frame (.cancelPush 1)), .pend, .item (.frame (.goaway 0))] []).1
    = [.settings [], .cancelPush 1, .goaway 0] := by decide +kernel
example : (driveAll false { role := .server } 4 { control := true } { flag := true }
    [.item (.frame (.settings [])), .item (.frame (.cancelPush 1)), .item (.frame (.goaway 0))]
    [.ok, .ok, .pending, .pending, .err]).1
    = [.settings [], .cancelPush 1, .goaway 0] := by decide +kernel
-- a client: MAX_PUSH_ID is handed to the handler, which raises H3_FRAME_UNEXPECTED
example : (driveAll false { role := .client } 3 { control := true } { flag := true }
    [.item (.frame (.settings [])), .item (.frame (.maxPushId 1))] []).2.1 = some 261 := by decide +kernel
-- D-04a: the code before the repair (`blocking = true`) loses every frame while the grease
-- stream is pending: nothing is handed over, GOAWAY is gone, MAX_PUSH_ID is not rejected
example : (driveAll true { role := .server } 3 { control := true } { flag := true }
    [.item (.frame (.settings [])), .pend, .item (.frame (.goaway 0))] []).1 = [] := by decide +kernel
example : (driveAll true { role := .client } 3 { control := true } { flag := true }
    [.item (.frame (.settings [])), .pend, .item (.frame (.maxPushId 1))] []).2.1 = none := by decide +kernel


end H3.Props.C04
