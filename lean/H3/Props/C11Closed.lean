import H3.Props.C15
import H3.Props.C11
import H3.Props.C10
/-! Discharges the hypothesis `C15Facts` of the C11 / C10 theorems with the theorems of
    `H3.Props.C15`, and restates the C11/C10 theorems that took it as a hypothesis in closed
    form (no hypothesis left other than those of the property itself).  The statements below
    are copied verbatim from `Props/C11.lean` / `Props/C10.lean` minus the `C15Facts` binder. -/
namespace H3.Props.C11
open H3.Props.C15 H3.Qpack H3.Qpack.Lemmas

theorem C11_c15_facts : H3.Qpack.Lemmas.C15Facts :=
  ⟨C15_prefix_int_roundtrip, C15_prefix_int_ok_sound, C15_huffman_roundtrip,
   C15_string_literal_encode, C15_string_literal_roundtrip, C15_huffman_accepts_exactly_partial⟩

theorem C11_encode_then_rfc_decode_closed (fs : List Field) (hfs : ∀ f ∈ fs, Writable f) :
    encodeStateless? fs = some (encodeStateless fs) ∧
    Spec.Qpack.specDecode (encodeStateless fs).1 = .ok (pairs fs) ∧
    (encodeStateless fs).1.take 2 = [0, 0] ∧
    (∀ b ∈ (encodeStateless fs).1, b < 256) ∧
    ∃ ls, Spec.Qpack.parse (encodeStateless fs).1 = .ok ls ∧ ls.all (·.isStateless) = true :=
  H3.Props.C11.C11_encode_then_rfc_decode C11_c15_facts fs hfs

theorem C11_accepts_only_rfc_partial_closed (b : List Nat) (hb : ∀ x ∈ b, x < 256) (max : Nat)
    (fs : List Field) (m : Nat) (h : decodeStateless b max = .ok fs m) (hlax : laxSection b max = false) :
    Spec.Qpack.specDecode b = .ok (pairs fs) ∧
    m = Spec.Qpack.size (pairs fs) ∧ m ≤ max ∧
    ∃ ls, Spec.Qpack.parse b = .ok ls ∧ ls.all (·.isStateless) = true :=
  H3.Props.C11.C11_accepts_only_rfc_partial C11_c15_facts b hb max fs m h hlax

theorem C11_rejects_closed (b : List Nat) (hb : ∀ x ∈ b, x < 256) (max : Nat)
    (r : Spec.Qpack.Reject) (hspec : Spec.Qpack.specDecode b = .error r)
    (hlax : laxSection b max = false) :
    ∃ e, decodeStateless b max = .err e ∧ e ≠ .fuel ∧
      ((∃ n, e = .headerTooLong n ∧ max < n ∧ n ≤ 128 * b.length) ∨
       (∀ site, recvSite site max b = .connError QPACK_DECOMPRESSION_FAILED)) ∧
      (128 * b.length ≤ max → ∀ site, recvSite site max b = .connError QPACK_DECOMPRESSION_FAILED) :=
  H3.Props.C11.C11_rejects C11_c15_facts b hb max r hspec hlax

theorem C10_own_encoding_exact_closed (fs : List Field) (hfs : ∀ f ∈ fs, Encodable f) (L : Nat) :
    (encodeStateless fs).2 = Spec.Qpack.size (pairs fs) ∧
    (decodeStateless (encodeStateless fs).1 L = .ok fs (Spec.Qpack.size (pairs fs)) ↔
      Spec.Qpack.size (pairs fs) ≤ L) ∧
    (L < Spec.Qpack.size (pairs fs) →
      ∃ n, decodeStateless (encodeStateless fs).1 L = .err (.headerTooLong n) ∧ L < n ∧
        n ≤ Spec.Qpack.size (pairs fs)) :=
  H3.Props.C10.C10_own_encoding_exact C11_c15_facts fs hfs L

end H3.Props.C11
