import H3.Lemmas.C06Run
import H3.Lemmas.C06Free
import H3.Lemmas.C06Ctl
import H3.Props.C04
import H3.Props.C05
import H3.Props.C11Closed
import H3.Props.C12
import H3.Props.C14
import H3.Lemmas.Setup
import H3.Lemmas.SendCompletion
import H3.Lemmas.ConnClose
/-! # C06 — no peer behaviour makes h3 panic or leaves a call pending for ever

Property theorems only; vocabulary and proofs are in `H3/Lemmas/C06{Frame,Req,Run,Ctl}.lean`.
The machines are the ones the other properties model and tie to the code: `H3.FS`
(`FrameStream::{poll_next,poll_data}`; `Out.panic` = `assert!(remaining_data == 0)`, C02),
`H3.ReqRecv` over `fsSrc` (`poll_recv_data`, `poll_recv_trailers`, `resolve_request`,
`recv_response`, C03), `H3.UniAccept` + `H3.Control` (C04), `H3.Qpack`/`H3.PrefixInt`/
`H3.PrefixString`/`H3.Huffman`/`H3.Headers` (C10, C11, C12, C15), `H3.ErrCell` (C05), `H3.WriteBuf`
(C14).

A *transport script* (`List FS.Ev`) is what the QUIC receive stream answers to successive reads:
`chunk bytes | pend | fin | reset code`; an exhausted script answers `Pending`; "every
fragmentation and every schedule of polls" = "every script".  Hypotheses that occur:
`ScriptWF` — the chunks consist of bytes (`< 256`); `FS.ScriptOK` — chunks are non-empty (R-T);
only the completion theorems need the latter.

The *documented call pattern* of a request stream (both roles): `resolve_request` resp.
`recv_response`; then `recv_data` until it answers `None`; then `recv_trailers`; a call that
returns an error ends the pattern (no further call on the stream), a call that is `Pending` is
polled again.  As a state machine: `Phase`, `pollPhase`, `nextPhase`. -/
namespace H3.Props.C06
open H3.C06 H3.ReqRecv H3.Gen.Consts
open H3.Lemmas.C04 (ScriptWF hasEnd firstErr)
open H3.FS (Ev ScriptOK)

deriving instance DecidableEq for H3.FS.Out

/-! ## 1. Request streams: the `assert!` of `poll_next` cannot fire -/

/-- **No panic on a request stream — the model's drivers.**  Both roles, every classification of
    header blocks (`H`), every transport script of bytes — arbitrary bytes, cut into arbitrary
    chunks (empty ones included), `pend` anywhere, FIN / RESET anywhere, anything behind them:
    * `documented … fsSrc …` (the driver the correspondence run executes: one poll per call, a
      `Pending` call stays pending), for every loop bound, and `documentedChunks`;
    * `runDoc` (every `Pending` retried while the script has events left), for every bound on
      `poll_recv_data`'s loop and on the number of polls
    never contain the panic outcome: no call of the documented pattern reaches `poll_next` with
    `remaining_data ≠ 0`. -/
theorem C06_no_panic_request_stream (role : Role) (H : Hdr) (script : List Ev) (hwf : ScriptWF script) :
    (∀ fuel,
      (documented role fsSrc H fuel { src := ({}, script) }).head ≠ .panic ∧
      (∀ r ∈ (documented role fsSrc H fuel { src := ({}, script) }).body, r ≠ .panic) ∧
      (documented role fsSrc H fuel { src := ({}, script) }).trailers ≠ some .panic) ∧
    ((documentedChunks role H script).head ≠ .panic ∧
      (∀ r ∈ (documentedChunks role H script).body, r ≠ .panic) ∧
      (documentedChunks role H script).trailers ≠ some .panic) ∧
    (∀ N k, ∀ e ∈ runDoc role H N k .head (initSt script), e.2 ≠ .panic) :=
  ⟨fun fuel => documented_no_panic role H fuel _ (phaseOK_init script) (wfSt_init script hwf),
   documented_no_panic role H _ _ (phaseOK_init script) (wfSt_init script hwf),
   fun N k => runDoc_no_panic role H N k .head _ (phaseOK_init script) (wfSt_init script hwf)⟩

/-- every header block decodes to a well-formed message / trailer section -/
def okHdr : Hdr := ⟨fun _ => .ok, fun _ => .ok⟩

/-- HEADERS(aa bb), DATA(2) cut in the length and in the payload, a grease frame, FIN; three
    `Pending`s on the way -/
def script₁ : List Ev :=
  [.chunk [0x01, 0x02, 0xaa, 0xbb, 0x00], .pend, .chunk [0x02, 0xc1], .pend, .chunk [0xc2, 0x21], .chunk [0x00], .fin]

-- non-vacuity: the pattern runs through all three phases; the one-poll driver stops at the first `pend`
example : documentedPolled .server okHdr script₁ =
    [(.head, .head [0xaa, 0xbb]), (.body, .data [0xc1]), (.body, .data [0xc2]), (.body, .end_),
     (.trailers, .noTrailers)] := by decide +kernel
example : documentedChunks .server okHdr script₁ =
    { head := .head [0xaa, 0xbb], body := [.pending], env := {} } := by decide +kernel
example : ScriptWF script₁ := by
  intro b hb
  simp only [script₁, List.mem_cons, Ev.chunk.injEq, reduceCtorEq, List.not_mem_nil, or_false, false_or] at hb
  rcases hb with rfl | rfl | rfl | rfl <;> (intro x hx; simp at hx; omega)

/-- **No panic on a request stream — every schedule, and the invariant.**  In every
    configuration the documented pattern can reach (`DocReach`: calls in the documented order,
    a `Pending` call polled again any number of times, further events arriving from the peer
    between any two polls, any loop bound `N`):
    * the invariant holds: before `resolve_request`/`recv_response` and before `recv_trailers`
      `remaining_data = 0`; while `recv_data` is being called `remaining_data < 2^62` (the
      length of a DATA frame is a varint), so `poll_data` cannot answer `None` with data
      outstanding (db6b9f0 closed the other way to get there);
    * the call the pattern makes next does not panic. -/
theorem C06_no_panic_request_stream_every_schedule (role : Role) (H : Hdr) (N : Nat) (ph : Phase) (st : RSt)
    (h : DocReach role H N ph st) :
    PhaseOK ph st ∧ (pollPhase role H N ph st).1 ≠ .panic :=
  ⟨(docReach_inv h).1, (pollPhase_safe role H N ph st (docReach_inv h).1 (docReach_inv h).2).noPanic⟩

-- non-vacuity: a configuration in the middle of a body (one piece handed out, two bytes outstanding)
example : DocReach .client okHdr 9 .body
    (pollPhase .client okHdr 9 .body (pollPhase .client okHdr 9 .head
      (initSt [.chunk [0x01, 0x01, 0xaa, 0x00, 0x03, 0xb1]])).2).2 :=
  .poll (.poll (.init _ (by intro b hb; simp at hb; subst hb; intro x hx; simp at hx; omega))
    (by decide +kernel)) (by decide +kernel)
example : (pollPhase .client okHdr 9 .body (pollPhase .client okHdr 9 .head
    (initSt [.chunk [0x01, 0x01, 0xaa, 0x00, 0x03, 0xb1]])).2).2.src.1.remaining = 2 := by decide +kernel

/-- **No panic on a request stream — ANY order of calls (no call-pattern hypothesis).**  After the
    repair "recv_trailers answers an error instead of panicking while a DATA payload is outstanding"
    `poll_recv_trailers` tests `has_data()` first, as `poll_recv_data` always did
    (`pollRecvTrailersG`).  For EVERY state of a request stream — any buffered chunks, any transport
    script behind them, any `remaining_data`, any saved trailers, any recorded error; that is:
    whatever was called before, in whatever order, whatever it answered (errors included), whatever
    arrived in between:
    * `recv_data` does not panic (for every bound on its loop);
    * `recv_trailers` does not panic;
    * the message head (`resolve_request`, which consumes the resolver and so runs once, first;
      `recv_response`, which the documentation wants called before `recv_data`) does not panic from
      `remaining_data = 0`, i.e. as the first call;
    * and the repair changes nothing inside the documented pattern: whenever `remaining_data = 0` —
      in particular in every configuration the pattern reaches before `recv_trailers` (`DocReach …
      .trailers`) — the repaired function is the function the other theorems (C03, C07, C01 and the
      completion theorems below) are about. -/
theorem C06_no_panic_any_call_order (role : Role) (H : Hdr) :
    (∀ (N : Nat) (st : RSt), (pollRecvData fsSrc N st).1 ≠ .panic) ∧
    (∀ st : RSt, (pollRecvTrailersG fsSrc H st).1 ≠ .panic) ∧
    (∀ st : RSt, st.src.1.remaining = 0 → (pollHead role fsSrc H st).1 ≠ .panic) ∧
    (∀ st : RSt, st.src.1.remaining = 0 → pollRecvTrailersG fsSrc H st = pollRecvTrailers fsSrc H st) ∧
    (∀ (N : Nat) (st : RSt), DocReach role H N .trailers st →
      pollRecvTrailersG fsSrc H st = (pollPhase role H N .trailers st)) :=
  ⟨pollRecvData_never_panics, pollRecvTrailersG_never_panics H, pollHead_never_panics role H,
   pollRecvTrailersG_eq H, fun _ st h => pollRecvTrailersG_eq H st (docReach_inv h).1⟩

/-- **The guard is what keeps the `assert!` from firing** (the scenario that used to be the panic
    outside the documented pattern): HEADERS, DATA(4) with two payload bytes, FIN.  `recv_data` fails
    with H3_FRAME_ERROR (the truncation, C02) and leaves `remaining_data = 4`; the part of
    `poll_recv_trailers` behind the guard would reach `poll_next` and its `assert!` (`panic` in the
    model, as the code before the repair did); the repaired function answers
    `StreamError{H3_FRAME_UNEXPECTED}`.  The same after a partly read body without any error. -/
theorem C06_recv_trailers_guard_witness :
    (pollRecvData fsSrc 10 (pollHead .server fsSrc okHdr
      (initSt [.chunk [0x01, 0x01, 0xaa, 0x00, 0x04, 0xb1, 0xb2], .fin])).2).1 = .errConn 262 ∧
    (pollRecvTrailers fsSrc okHdr (pollRecvData fsSrc 10 (pollHead .server fsSrc okHdr
      (initSt [.chunk [0x01, 0x01, 0xaa, 0x00, 0x04, 0xb1, 0xb2], .fin])).2).2).1 = .panic ∧
    (pollRecvTrailersG fsSrc okHdr (pollRecvData fsSrc 10 (pollHead .server fsSrc okHdr
      (initSt [.chunk [0x01, 0x01, 0xaa, 0x00, 0x04, 0xb1, 0xb2], .fin])).2).2).1 = .errStream 261 ∧
    (pollRecvData fsSrc 10 (pollHead .client fsSrc okHdr
      (initSt [.chunk [0x01, 0x01, 0xaa, 0x00, 0x04, 0xb1, 0xb2]])).2).1 = .data [0xb1, 0xb2] ∧
    (pollRecvTrailersG fsSrc okHdr (pollRecvData fsSrc 10 (pollHead .client fsSrc okHdr
      (initSt [.chunk [0x01, 0x01, 0xaa, 0x00, 0x04, 0xb1, 0xb2]])).2).2).1 = .errStream 261 := by
  decide +kernel

/-! ## 2. Request streams: completion -/

/-- **Completion on a request stream.**  Both roles, every `H`, every script of non-empty chunks
    of bytes that contains the stream's `fin` or a `reset` (at any position, anything before and
    behind it, `pend` anywhere): the documented pattern, every `Pending` retried, runs to its end —
    every logged answer is a value or an error (`settled`: not `Pending`, not the loop-bound
    artefact, not the panic outcome), and the last one ends the pattern (`nextPhase = none`: the
    answer of `recv_trailers`, or an error). -/
theorem C06_completion_request_stream (role : Role) (H : Hdr) (script : List Ev) (hwf : ScriptWF script)
    (hok : ScriptOK script) (hend : Ev.fin ∈ script ∨ ∃ c, Ev.reset c ∈ script) :
    (∀ e ∈ documentedPolled role H script, settled e.2 = true) ∧
    ∃ pre last, documentedPolled role H script = pre ++ [last] ∧ nextPhase last.1 last.2 = none := by
  have hmu : muS (initSt script) + 4 = fsFuel ({}, script) := by
    simp only [muS, mu, initSt, fsFuel, scriptBytes_eq, FS.St.flat]
    simp
    omega
  exact runDoc_complete role H _ _ .head (initSt script) (phaseOK_init script) (wfSt_init script hwf)
    (frameDec_good_init script hok) (Or.inr hend) (by omega) (by simp only [rank]; omega)

example : documentedPolled .client okHdr
    [.chunk [0x01, 0x02, 0xaa, 0xbb, 0x00], .pend, .chunk [0x04, 0xc1], .reset 7] =
    [(.head, .head [0xaa, 0xbb]), (.body, .errReset 7)] := by decide +kernel
example : documentedPolled .client okHdr
    [.chunk [0x01, 0x02, 0xaa, 0xbb, 0x00], .pend, .chunk [0x04, 0xc1], .fin] =
    [(.head, .head [0xaa, 0xbb]), (.body, .errConn 262)] := by decide +kernel
-- without the end of the stream in the script the pattern does stay pending (the hypothesis is needed)
example : documentedPolled .server okHdr [.chunk [0x01, 0x02, 0xaa, 0xbb, 0x00], .pend, .chunk [0x04, 0xc1]] =
    [(.head, .head [0xaa, 0xbb]), (.body, .data [0xc1]), (.body, .pending)] := by decide +kernel

/-- **Nothing waits once the stream has ended — every schedule.**  In every configuration the
    documented pattern can reach, once the transport has answered the end of the stream
    (`eos`), or a reset is what it answers next (`AtEnd`): the call the pattern makes next does
    not answer `Pending`, and if the pattern goes on the next configuration is again `AtEnd` — as
    it also is when more events arrive.  (No assumption on the chunking.) -/
theorem C06_completion_request_stream_every_schedule (role : Role) (H : Hdr) (N : Nat) (ph : Phase)
    (st : RSt) (h : DocReach role H N ph st) (hE : AtEnd st.src) :
    (pollPhase role H N ph st).1 ≠ .pending ∧
    (∀ ph', nextPhase ph (pollPhase role H N ph st).1 = some ph' → AtEnd (pollPhase role H N ph st).2.src) ∧
    (∀ evs, AtEnd (st.src.1, st.src.2 ++ evs)) :=
  ⟨((pollPhase_safe role H N ph st (docReach_inv h).1 (docReach_inv h).2).atEnd hE).1,
   ((pollPhase_safe role H N ph st (docReach_inv h).1 (docReach_inv h).2).atEnd hE).2,
   fun evs => atEnd_arrive evs hE⟩

example : AtEnd (pollPhase .server okHdr 9 .body
    (pollPhase .server okHdr 9 .head (initSt [.chunk [0x01, 0x01, 0xaa], .fin])).2).2.src :=
  Or.inl (by decide +kernel)
example : AtEnd (initSt [.reset 5, .chunk [0x01]]).src := Or.inr ⟨5, _, rfl⟩

/-! ## 3. Unidirectional streams: type resolution -/

/-- **Unidirectional streams.**  For every transport script of bytes (any chunking, `pend`
    anywhere, FIN or RESET anywhere), `poll_type` polled again while it answers `Pending`:
    * never ends with H3_INTERNAL_ERROR ("Unexpected end parsing varint");
    * is left waiting only if the script contains neither FIN nor RESET — a stream that ends
      before its header is complete is dropped, which raises no connection error;
    * when it resolves, neither `expect` of `into_stream` can fire. -/
theorem C06_uni_streams (sc : List Ev) (hwf : ScriptWF sc) :
    UniAccept.resolve (sc.length + 1) {} sc ≠ .internal ∧
    (hasEnd sc = true → ∀ s, UniAccept.resolve (sc.length + 1) {} sc ≠ .waiting s) ∧
    (∀ s r, UniAccept.resolve (sc.length + 1) {} sc = .resolved s r → UniAccept.intoStream s ≠ none) ∧
    (∀ cfg c, (Control.acceptArrival cfg c .dropped).err = none) := by
  have h := H3.Props.C04.C04_type_resolution sc hwf
  refine ⟨?_, ?_, ?_, fun _ _ => rfl⟩
  · intro hi
    rw [hi] at h
    cases hh : Spec.ControlRules.header (H3.Lemmas.C04.bytesOf sc) <;> rw [hh] at h <;> exact h
  · intro he s hs
    rw [hs] at h
    cases hh : Spec.ControlRules.header (H3.Lemmas.C04.bytesOf sc) with
    | complete ty id rest => rw [hh] at h; exact h
    | incomplete =>
      rw [hh] at h
      simp only at h
      rw [he] at h
      cases h
  · intro s r hs
    rw [hs] at h
    cases hh : Spec.ControlRules.header (H3.Lemmas.C04.bytesOf sc) with
    | incomplete => rw [hh] at h; exact h.elim
    | complete ty id rest =>
      rw [hh] at h
      simp only at h
      obtain ⟨hty, hid, _⟩ := h
      obtain ⟨k, hk, _⟩ := H3.Props.C04.C04_into_stream { role := .server } s ty hty
        (fun hi => by rw [hid]; exact header_id _ ty id rest hh hi)
      rw [hk]
      simp

example : UniAccept.resolve 4 {} [.chunk [0x01], .chunk [0x40], .reset 9] = .dropped := by decide +kernel
example : UniAccept.intoStream { buf := [0xaa], ty := some 0x54, id := some 0x10000 } = some (.wtUni 0x10000) := by
  decide

/-! ## 4. The control stream -/

/-- **The control stream.**  `ctlOuts k s script`: everything `FrameStream::poll_next` answers on
    the control stream for a transport script, from a state `s` with no payload outstanding
    (what `into_stream` builds), polled again after every frame without payload and after every
    `Pending` while the script has events; `ctlIns` = the same answers as `poll_control` reads
    them (`itemOf`).
    * No answer is the panic outcome (or a data piece): `poll_control` only calls `poll_next`
      with `remaining_data = 0` — for every script.
    * If the script (non-empty chunks) contains the stream's FIN or a RESET, the answers end
      with a terminal one — clean end, truncation, reset, protocol error, or a frame with a
      payload (DATA / WebTransport) — and the control machine ends with a connection error
      (`firstErr`), which is what the polled driver returns whatever the grease stream does
      (`driveAll`, by `C04_first_error`): it does not stay pending.
    * If no frame before the end raised an error (those errors are C04's), the error is
      H3_CLOSED_CRITICAL_STREAM for a clean FIN and for a RESET, and H3_FRAME_ERROR — the code
      of the overlapping rule — when FIN cuts a frame (R-04). -/
theorem C06_control_stream (cfg : Control.Cfg) (c : Control.Conn) (hc : c.control = true) (hce : c.err = none)
    (s : FS.St) (h0 : s.remaining = 0) (script : List Ev) (k : Nat) :
    (∀ o ∈ ctlOuts k s script, o ≠ .panic ∧ ∀ d, o ≠ .data d) ∧
    (Good FS.frameDec s script → Ends s script → mu s script < k →
      ∃ pre last, ctlOuts k s script = pre ++ [last] ∧ terminalOut last ∧
        (∃ e, firstErr cfg c (ctlIns k s script) = some e ∧
          ∀ gs g, (Control.driveAll false cfg ((ctlIns k s script).length + 1) c gs (ctlIns k s script) g).2.1
            = some e) ∧
        (firstErr cfg c (pre.filterMap itemOf) = none →
          ((last = .none ∨ ∃ q, last = .errQuic q) →
            firstErr cfg c (ctlIns k s script) = some CODE_H3_CLOSED_CRITICAL_STREAM) ∧
          (last = .errEnd → firstErr cfg c (ctlIns k s script) = some CODE_H3_FRAME_ERROR))) := by
  refine ⟨?_, ?_⟩
  · intro o ho
    have := ctlOuts_no_panic k s script h0 o ho
    cases o <;> first | exact this.elim | exact ⟨by simp, by simp⟩
  · intro hG hE hk
    obtain ⟨pre, last, h1, h2, h3⟩ := ctlOuts_complete k s script h0 hG hE hk
    refine ⟨pre, last, h1, h2, ?_, ?_⟩
    · obtain ⟨e, he⟩ := firstErr_of_terminal cfg last h2 pre c hc
      have he' : firstErr cfg c (ctlIns k s script) = some e := by
        unfold ctlIns; rw [h1]; exact he
      refine ⟨e, he', fun gs g => ?_⟩
      rw [H3.Props.C04.C04_first_error cfg c gs _ g hce]
      exact he'
    · intro hpre
      have hsplit : ∀ x, itemOf last = some x →
          firstErr cfg c (ctlIns k s script) = (Control.step cfg (after cfg c (pre.filterMap itemOf)) x).2.2 := by
        intro x hx
        unfold ctlIns
        rw [h1, List.filterMap_append]
        simp only [List.filterMap_cons, hx, List.filterMap_nil]
        exact firstErr_append_none cfg _ c x hpre
      have hctl := after_control cfg (pre.filterMap itemOf) c (filterMap_itemOf_not_uni pre) hc
      obtain ⟨e1, e2, e3⟩ := step_stream_end cfg _ hctl
      refine ⟨?_, ?_⟩
      · rintro (rfl | ⟨q, rfl⟩)
        · rw [hsplit _ rfl]; exact e1
        · rw [hsplit _ rfl]; exact e2 q
      · rintro rfl
        rw [hsplit _ rfl]; exact e3

-- non-vacuity: SETTINGS, GOAWAY(0) cut by a `Pending`, then FIN / RESET / FIN inside the frame
example : ctlOuts 20 {} [.chunk [0x04, 0x00, 0x07], .pend, .chunk [0x01, 0x00], .fin] =
    [.frame (.settings []), .pending, .frame (.goaway 0), .none] := by decide +kernel
example : firstErr { role := .server } { control := true }
    (ctlIns 20 {} [.chunk [0x04, 0x00, 0x07], .pend, .chunk [0x01, 0x00], .fin]) = some 0x0104 := by
  decide +kernel
example : firstErr { role := .client } { control := true }
    (ctlIns 20 {} [.chunk [0x04, 0x00, 0x07], .pend, .chunk [0x01], .reset 3]) = some 0x0104 := by
  decide +kernel
example : firstErr { role := .server } { control := true }
    (ctlIns 20 {} [.chunk [0x04, 0x00, 0x07], .pend, .chunk [0x01], .fin]) = some 0x0106 := by
  decide +kernel
-- a DATA frame on the control stream: the machine's error (H3_FRAME_UNEXPECTED) comes first
example : firstErr { role := .server } { control := true }
    (ctlIns 20 {} [.chunk [0x04, 0x00, 0x00, 0x02, 0xaa], .fin]) = some 0x0105 := by decide +kernel
example : Good FS.frameDec {} [.chunk [0x04, 0x00, 0x07], .pend, .chunk [0x01, 0x00], .fin] :=
  frameDec_good_init _ (by intro b hb; simp at hb; rcases hb with rfl | rfl <;> simp)
-- the state `into_stream` builds when bytes behind the stream header were already buffered
example : Good FS.frameDec { buf := if [0x04, 0x00] = [] then [] else [[0x04, 0x00]], eos := false } [.fin] :=
  good_leftover FS.frameDec [0x04, 0x00] false [.fin] (by intro b hb; simp at hb)

/-! ## 5. Field sections and messages -/

/-- **Field sections.**  Decoding any byte string as a field section and turning any field list
    into a message never panics:
    * `decode_stateless` on every byte string and every limit answers with one of the code's own
      `Ok`/`Err` values — the model's loop bound (`fuel`) is never reached (C10/C11);
    * the server's answer to an oversized section (encoding and sending the 431) does not panic;
    * `prefix_int::decode` with the prefix sizes 1..8 and `prefix_string::decode` with the sizes
      2..9 (the callers pass constants in these ranges) never hit `assert!(size <= 8)`, the
      `u8` shifts or `size - 1` — on every byte string (C15);
    * the Huffman decoder never runs out of the model's bound (C15);
    * the Huffman decoder's machine arithmetic — its `u32` bit positions, the `u8` / `u16` shifts and
      the slice indexings of `read_bits` — never overflows: `prefix_string::decode` with every one of
      these operations checked (`decodeGC?`) is the unchecked model on EVERY byte string, because the
      repaired function refuses a Huffman literal whose bit length + 16 does not fit `u32` before the
      decoder sees it (D-06u, `C15_huffman_positions_fit`; the tree under check has the refusal when the
      translator's `hugeLiteralRefused` says so);
    * `Header::try_from` + `into_request_parts` / `into_response_parts` / `into_fields` on every
      field list return `Ok` or a `HeaderError`, never the panic outcome (C12, after 8fb18d1; also
      with the D-01 repair, where a map that cannot be pre-sized starts empty and a full map is
      reported by `try_append`). -/
theorem C06_field_sections :
    (∀ (b : List Nat) (max : Nat), Qpack.decodeStateless b max ≠ .err .fuel) ∧
    (∀ (mfs : Nat) (applied : Option Nat) (block : List Nat), Qpack.serverResolve mfs applied block ≠ .panic) ∧
    (∀ (n : Nat) (bs : List Nat), 1 ≤ n → n ≤ 8 → Varint.WF bs →
      PrefixInt.decode? n bs = some (PrefixInt.decode n bs)) ∧
    (∀ (n : Nat) (bs : List Nat), 2 ≤ n → n ≤ 9 → Varint.WF bs →
      PrefixString.decode? n bs = some (PrefixString.decode n bs)) ∧
    (∀ b : List Nat, Varint.WF b → Huffman.hdecodeX b ≠ .error .fuel) ∧
    (H3.Gen.HuffDec.hugeLiteralRefused = true → ∀ (n : Nat) (bs : List Nat), 2 ≤ n → n ≤ 9 → Varint.WF bs →
      PrefixString.decodeGC? true n bs = some (PrefixString.decode n bs)) ∧
    (∀ (H : Headers.Http) (fs : List Headers.FieldLine),
      Headers.recvRequest H fs ≠ .panic ∧ Headers.recvResponse H fs ≠ .panic ∧
      Headers.recvTrailers H fs ≠ .panic) := by
  have hstr : ∀ (n : Nat) (bs : List Nat), 2 ≤ n → n ≤ 9 → Varint.WF bs →
      PrefixString.decode? n bs = some (PrefixString.decode n bs) := by
    intro n bs h2 h9 hwf
    have hi := H3.Props.C15.C15_prefix_int_no_panic (n - 1) (by omega) (by omega) bs hwf
    have hsome : ∃ x, PrefixString.decode? n bs = some x := by
      unfold PrefixString.decode? PrefixString.decodeG?
      rw [if_neg (by omega), hi]
      cases PrefixInt.decode (n - 1) bs with
      | endOf => exact ⟨_, rfl⟩
      | overflow => exact ⟨_, rfl⟩
      | ok flags len rest =>
        simp only
        split <;> exact ⟨_, rfl⟩
    obtain ⟨x, hx⟩ := hsome
    simp [PrefixString.decode, hx]
  refine ⟨fun b max => (H3.Props.C10.C10_recv_no_wrap b max).1, ?_, ?_, hstr, ?_, ?_, H3.Props.C12.C12_no_panic⟩
  · intro mfs applied block
    have h431 : Qpack.encodeStateless? Qpack.response431 =
        some ([0, 0, 0x5f, 0x09, 0x83, 0x69, 0x90, 0xff], 42) := by decide +kernel
    unfold Qpack.serverResolve
    cases Qpack.recvSite .serverRequest mfs block with
    | fields fs => simp
    | connError c => simp
    | tooBig n m st =>
      simp only [Qpack.sendSite, h431]
      by_cases hlim : 42 > Qpack.peerLimit applied <;> simp [hlim]
  · intro n bs h1 h8 hwf
    exact H3.Props.C15.C15_prefix_int_no_panic n h1 h8 bs hwf
  · intro b hb
    exact (H3.Props.C15.C15_huffman_accepts_exactly_partial b hb []).2.2.2.2.2
  · intro hg n bs h2 h9 hwf
    rw [((H3.Props.C15.C15_huffman_positions_fit).2.2.1 hg n bs).2]
    exact hstr n bs h2 h9 hwf

example : Qpack.decodeStateless [0, 0, 0x5f, 0x09, 0x81] 1000 = .err (.invalidString .unexpectedEnd) := by
  decide +kernel
example : Qpack.decodeStateless [0xff, 0xff, 0xff, 0xff, 0xff, 0xff, 0xff, 0xff, 0xff, 0xff, 0xff] 1000 =
    .err (.invalidInteger .overflow) := by decide +kernel
example : PrefixString.decode? 8 [0x82, 0xff] = some (.err .unexpectedEnd) := by decide +kernel

/-! ## 6. Connection close -/

/-- **When the connection has failed or was closed** (full strength: the connection error is an
    event of the model).  `H3.ConnClose` carries the event additively: the frame layer passes on
    whatever `StreamErrorIncoming` the transport answers, so `FS.Ev.reset c` / `Out.errQuic c` stand
    for "the transport answered `Err(e)`", `c` naming `e`; `TErr.code` names every variant — the
    identity on RESET_STREAM codes (`< 2^62`), numbers from `2^62` on for `ConnectionErrorIncoming`
    (`EvC.connErr q`: the peer closed the connection, it timed out, it failed) and `Unknown`.
    1. The naming loses nothing, and a connection error is never mistaken for a reset.
    2. Frame layer: with `connErr q` the transport's next answer (the end of the stream not yet
       read), `poll_next` and `poll_data` answer `Err(Quic(connection error))` AT ONCE — before
       anything buffered is decoded — and leave state and script alone: the error stays the
       transport's answer to every later read (sticky), as SimQuic and Quinn behave.
    3. Request streams, ANY state (whatever was called before, whatever it answered): with `connErr
       q` the transport's next answer, `recv_data`, `recv_trailers` and (as the first call) the
       message head do not answer `Pending` and do not panic; while the end of the stream has not
       been read they answer exactly the connection error (`recv_trailers` from a state with a DATA
       payload outstanding answers the stream error of its guard), the state is untouched, so every
       later call completes the same way.
    4. What the caller is handed: `handle_quic_stream_error` stores the error in the connection's
       cell unless one is there (first wins) and returns `StreamError::ConnectionError` of the error
       IN the cell; a RESET_STREAM code still yields `RemoteTerminate` and leaves the cell alone.
    5. The driver: `poll_control` with the error recorded returns it at once whatever is queued, and
       so does the role's driver poll; the error cell never loses a stored error — a peer close
       `quic (appClose code)` and a timeout `quic timeout` are such errors — and a parked driver's
       next poll returns it however the stream handles' steps interleave (`C05_no_lost_wakeup`);
       once the cell holds an error every connection-level failure of a call returns the stored one.
    6. The send side: a send call (`send_request` waiting for stream credit included) that is
       pending returns the connection error as soon as the transport answers it
       (`C06_send_completion`).
    What remains the transport's: that it wakes every task parked on one of its calls when the
    connection fails (SimQuic does, Quinn does; `C06_setup_pending_only_on_transport` and the frame
    layer's `pend` facts say h3 answers `Pending` only from a transport call that answered
    `Pending`) — the `adv`, `flt` and `wt` runs observe it at executor quiescence (R-06). -/
theorem C06_connection_close :
    ((∀ e : ConnClose.TErr, (∀ c, e = .terminated c → c < 2 ^ 62) → ConnClose.TErr.ofCode e.code = e) ∧
      ∀ q, 2 ^ 62 ≤ ConnClose.TErr.code (.conn q)) ∧
    (∀ (s : FS.St) (q : ErrCell.QErr) (r : List ConnClose.EvC), s.eos = false →
      (s.remaining = 0 → FS.pollNext FS.frameDec s (ConnClose.lower (.connErr q :: r)) =
        (.errQuic (ConnClose.TErr.code (.conn q)), s, ConnClose.lower (.connErr q :: r))) ∧
      (s.remaining ≠ 0 → FS.pollData (F := H3.Frame.Frame) (E := H3.Frame.FrameErr) s (ConnClose.lower (.connErr q :: r)) =
        (.errQuic (ConnClose.TErr.code (.conn q)), s, ConnClose.lower (.connErr q :: r)))) ∧
    (∀ (role : Role) (H : Hdr) (N : Nat) (st : RSt) (q : ErrCell.QErr) (r : List ConnClose.EvC),
      st.src.2 = ConnClose.lower (.connErr q :: r) →
      ((pollRecvData fsSrc N st).1 ≠ .pending ∧ (pollRecvData fsSrc N st).1 ≠ .panic) ∧
      ((pollRecvTrailersG fsSrc H st).1 ≠ .pending ∧ (pollRecvTrailersG fsSrc H st).1 ≠ .panic) ∧
      (st.src.1.remaining = 0 →
        (pollHead role fsSrc H st).1 ≠ .pending ∧ (pollHead role fsSrc H st).1 ≠ .panic) ∧
      (st.src.1.eos = false →
        pollRecvData fsSrc (N + 1) st = (.errReset (ConnClose.TErr.code (.conn q)), st) ∧
        (st.src.1.remaining = 0 → st.trailers = none →
          pollRecvTrailersG fsSrc H st = (.errReset (ConnClose.TErr.code (.conn q)), st)) ∧
        (st.src.1.remaining = 0 →
          pollHead role fsSrc H st = (.errReset (ConnClose.TErr.code (.conn q)), st)))) ∧
    ((∀ (cell : Option ErrCell.Err) (q : ErrCell.QErr),
        ConnClose.handleQuic cell (ConnClose.TErr.ofCode (ConnClose.TErr.code (.conn q))) =
          (.connection (ErrCell.convert (cell.getD (.quic q))), some (cell.getD (.quic q)))) ∧
      (∀ (cell : Option ErrCell.Err) (c : Nat), c < 2 ^ 62 →
        ConnClose.handleQuic cell (ConnClose.TErr.ofCode c) = (.remoteTerminate c, cell))) ∧
    ((∀ (blocking : Bool) (cfg : Control.Cfg) (c : Control.Conn) (gs : Control.Grease) (ins : List Control.In)
        (g : List Control.GAns) (e : Nat), c.err = some e →
      (Control.pollControl blocking cfg c gs ins g).res = .err e ∧
      ∀ fuel, (Control.drivePoll blocking cfg (fuel + 1) c gs ins g).res = some e) ∧
     (∀ (todo : List (List ErrCell.Err)) (sched : List ErrCell.TaskId) (e : ErrCell.Err),
      let s := ErrCell.run true (ErrCell.init todo) sched
      ErrCell.lostWakeup s = false ∧
      (s.cell = some e → s.pc = .idle → ∀ mid₁ mid₂ : List Nat,
        let s' := ErrCell.run true s
          ([.drv .poll] ++ mid₁.map .str ++ [.drv .pce] ++ mid₂.map .str ++ [.drv .pce])
        s'.handled = some (ErrCell.convert e) ∧ ∃ rest, s'.drets = ErrCell.convert e :: rest)) ∧
     (∀ (st : RSt) (c code : Nat), st.env.cell = some c → connErr st code = (.errConn c, st))) ∧
    (∀ (c : WriteBuf.SendCall) (_ : ∀ w ∈ c.writes, w.WF) (script : List WriteBuf.Acc) (out : List Nat)
        (q : Nat) (more : List WriteBuf.Acc),
      WriteBuf.callE c script = .pending out →
      WriteBuf.callE c (script ++ .err (.conn q) :: more) = .failed out (.conn q)) := by
  refine ⟨⟨ConnClose.ofCode_code, ConnClose.conn_code_ge⟩, ?_, ?_, ⟨?_, ?_⟩, ⟨?_, ?_, ?_⟩, ?_⟩
  · intro s q r heos
    rw [ConnClose.lower_connErr]
    exact ⟨fun h0 => pollNext_reset FS.frameDec s _ _ h0 heos, fun h0 => pollData_reset s _ _ h0 heos⟩
  · intro role H N st q r hs
    have hE : AtEnd st.src := ConnClose.atEnd_closed st.src q r hs
    refine ⟨⟨pollRecvData_atEnd N st hE, pollRecvData_never_panics N st⟩,
      ⟨pollRecvTrailersG_atEnd H st hE, pollRecvTrailersG_never_panics H st⟩,
      fun h0 => ⟨pollHead_atEnd role H st h0 hE, pollHead_never_panics role H st h0⟩, fun heos => ?_⟩
    rw [ConnClose.lower_connErr] at hs
    exact calls_on_error role H N st _ _ hs heos
  · intro cell q
    rw [ConnClose.ofCode_code _ (fun c h => by cases h)]
    cases cell <;> rfl
  · intro cell c hc
    have : ConnClose.TErr.ofCode c = .terminated c := ConnClose.ofCode_code (.terminated c) (fun c' h => by cases h; exact hc)
    rw [this]
    rfl
  · intro blocking cfg c gs ins g e he
    have h1 : (Control.pollControl blocking cfg c gs ins g).res = .err e := by
      cases ins <;> simp [Control.pollControl, he]
    refine ⟨h1, fun fuel => ?_⟩
    simp only [Control.drivePoll, h1]
  · intro todo sched e
    have h := H3.Props.C05.C05_no_lost_wakeup todo sched
    simp only at h ⊢
    refine ⟨h.1, fun hc hp mid₁ mid₂ => ?_⟩
    obtain ⟨h1, _, _, h4⟩ := h.2.2.2 e hc hp mid₁ mid₂
    exact ⟨h1, h4⟩
  · intro st c code hc
    simp [connErr, hc]
  · intro c hwf script out q more hp
    have h := WriteBuf.stagesE_ok c.stages (WriteBuf.stages_wf c hwf) [] script
    have hcall : WriteBuf.callE c script = WriteBuf.stagesE c.stages [] script := rfl
    rw [← hcall, hp] at h
    exact h.2.2.2 (.conn q) more

example : (Control.pollControl false { role := .server } { control := true, err := some 0x0100 } {}
    [.item (.frame (.settings []))] []).res = .err 0x0100 := by decide
example : (pollPhase .server okHdr 9 .head (initSt [.reset 0x10c])).1 = .errReset 0x10c := by decide +kernel
example : ErrCell.convert (.quic (.appClose 0x100)) = .remote (.appClose 0x100) ∧
    ErrCell.convert (.quic .timeout) = .timeout := by decide
-- the peer closes the connection (application close 0x100) while `recv_data` waits inside DATA(3): the call
-- pending on `[chunk …]` completes with the connection error once `connErr` is the transport's answer; the
-- chunk the transport still had queued BEHIND the close is never read
example : (pollRecvData fsSrc 9 (pollHead .client fsSrc okHdr
      (initSt (ConnClose.lower [.chunk [0x01, 0x01, 0xaa, 0x00, 0x03, 0xb1]]))).2).1 = .data [0xb1] ∧
    (pollRecvData fsSrc 9 (pollRecvData fsSrc 9 (pollHead .client fsSrc okHdr
      (initSt (ConnClose.lower [.chunk [0x01, 0x01, 0xaa, 0x00, 0x03, 0xb1]]))).2).2).1 = .pending ∧
    (pollRecvData fsSrc 9 (pollRecvData fsSrc 9 (pollHead .client fsSrc okHdr
      (initSt (ConnClose.lower [.chunk [0x01, 0x01, 0xaa, 0x00, 0x03, 0xb1], .connErr (.appClose 0x100), .chunk [0xb2]]))).2).2).1 =
      .errReset (ConnClose.TErr.code (.conn (.appClose 0x100))) := by decide +kernel
example : ConnClose.handleQuic none (ConnClose.TErr.ofCode (ConnClose.TErr.code (.conn .timeout))) =
    (.connection .timeout, some (.quic .timeout)) := by decide +kernel
example : ConnClose.handleQuic (some (.internal 0x0105 0)) (.conn (.appClose 7)) =
    (.connection (.localApp 0x0105 0), some (.internal 0x0105 0)) := by decide

/-! ## 7. The send side under the peer's flow control -/

/-- **Writing.**  What the peer controls on the send side is how many bytes the transport takes
    in each `poll_ready` (flow control; 0 = `Pending`; a STOP_SENDING ends the writing with the
    transport's error, which the call returns).  For every well-formed `WriteBuf` — every `From`
    conversion yields one (`C14_conversions`) — and every acceptance script, `stream::write`
    does not panic: `advance` is never asked for more than is left (`Bytes::advance`,
    `self.len - self.pos`, `buf[self.pos..self.len]`), and nothing is lost or written twice:
    what went out followed by what is left is the original content. -/
theorem C06_send_side (w : WriteBuf.WB) (hwf : w.WF) (script : List Nat) :
    WriteBuf.write (some w) script ≠ .panic ∧
    ∃ out w', w.drain script = some (out, w') ∧ w'.WF ∧ out ++ w'.view = w.view := by
  obtain ⟨o, w', hd, hwf', hv⟩ := WriteBuf.drain_spec w hwf script
  refine ⟨?_, o, w', hd, hwf', hv⟩
  simp only [WriteBuf.write, hd]
  split <;> simp

example : (match WriteBuf.write (WriteBuf.fromFrame (.data [9, 8, 7])) [1, 0, 2, 1] with
    | .pending out w => (out, w.view)
    | _ => ([], [])) = ([0x00, 0x03, 9], [8, 7]) := by decide +kernel

/-- **Completion of the send-side calls.**  `c` is any API call of the send side as the sequence of
    transport waits it makes (`SendCall`): client `send_request` = `poll_open_bidi` (waits for stream
    credit) + one `stream::write`; `send_response` / `send_data` / `send_trailers` = one
    `stream::write`; `finish` = the grease frame if one is due + `poll_finish`.  The transport's
    answers (`Acc`) are chosen by the peer: `take k` = flow control (`take 0` = `Pending`), `err e` =
    the call fails — `StreamTerminated{code}` once the peer's STOP_SENDING has arrived, a connection
    error once the peer closed the connection or it timed out.  For every call over well-formed
    `WriteBuf`s (every `From` conversion yields one, `C14_conversions`) and EVERY script:
    * no panic;
    * `Ok` ⇒ exactly the call's content went out;
    * `Err(e)` ⇒ `e` is the FIRST error answer of the script, what went out is a prefix of the
      content, and nothing that arrives later changes the outcome;
    * still `Pending` at the end of the script ⇒ the script contains NO error answer and fewer
      progress answers than the call needs (`need` = one per wait, one per byte: a crude but
      sufficient bound), a prefix of the content went out — and as soon as an error answer arrives
      (STOP_SENDING, close, timeout), whatever follows it, the call returns exactly that error;
    * hence: a script that contains an error answer, or enough acceptance, never leaves the call
      pending — it ends with `Ok` or with an error of the script;
    * the single write loop `writeE` (`stream::write`): the same, with the buffer that is left
      (`DrainOK`: well-formed, not empty, `out ++ left.view` = the original content). -/
theorem C06_send_completion (c : WriteBuf.SendCall) (hwf : ∀ w ∈ c.writes, w.WF) (script : List WriteBuf.Acc) :
    WriteBuf.callE c script ≠ .panic ∧
    (∀ out, WriteBuf.callE c script = .ok out → out = c.content) ∧
    (∀ out e, WriteBuf.callE c script = .failed out e →
      (∃ pre post, script = pre ++ .err e :: post ∧ WriteBuf.NoErr pre) ∧ (∃ t, out ++ t = c.content) ∧
      ∀ more, WriteBuf.callE c (script ++ more) = .failed out e) ∧
    (∀ out, WriteBuf.callE c script = .pending out →
      WriteBuf.NoErr script ∧ WriteBuf.posTakes script < c.need ∧ (∃ t, out ++ t = c.content) ∧
      ∀ e more, WriteBuf.callE c (script ++ .err e :: more) = .failed out e) ∧
    (((∃ e, WriteBuf.Acc.err e ∈ script) ∨ c.need ≤ WriteBuf.posTakes script) →
      (∃ out, WriteBuf.callE c script = .ok out) ∨
      ∃ out e, WriteBuf.callE c script = .failed out e ∧ WriteBuf.Acc.err e ∈ script) ∧
    (∀ w : WriteBuf.WB, w.WF → WriteBuf.DrainOK w [] script (WriteBuf.writeE (some w) script)) := by
  have h := WriteBuf.stagesE_ok c.stages (WriteBuf.stages_wf c hwf) [] script
  have hcall : WriteBuf.callE c script = WriteBuf.stagesE c.stages [] script := rfl
  have hcont : WriteBuf.content c.stages = c.content := rfl
  have hneed : WriteBuf.need c.stages = c.need := rfl
  rw [← hcall] at h
  refine ⟨?_, ?_, ?_, ?_, ?_, fun w hw => WriteBuf.drainE_ok w hw [] script⟩
  · intro hp; rw [hp] at h; exact h
  · intro out ho; rw [ho] at h; simpa [WriteBuf.CallOK, hcont] using h
  · intro out e ho
    rw [ho] at h
    obtain ⟨h1, ⟨t, ht⟩, h3⟩ := h
    exact ⟨h1, ⟨t, by rw [ht, hcont]; rfl⟩, h3⟩
  · intro out ho
    rw [ho] at h
    obtain ⟨h1, h2, ⟨t, ht⟩, h4⟩ := h
    exact ⟨h1, by rw [← hneed]; exact h2, ⟨t, by rw [ht, hcont]; rfl⟩, h4⟩
  · intro hyp
    cases ho : WriteBuf.callE c script with
    | ok out => exact Or.inl ⟨out, rfl⟩
    | failed out e =>
      rw [ho] at h
      obtain ⟨⟨pre, post, hs, _⟩, _, _⟩ := h
      exact Or.inr ⟨out, e, rfl, by rw [hs]; simp⟩
    | pending out =>
      rw [ho] at h
      obtain ⟨h1, h2, _, _⟩ := h
      rcases hyp with ⟨e, he⟩ | hn
      · exact (h1 e he).elim
      · rw [← hneed] at hn; omega
    | panic => rw [ho] at h; exact h.elim

-- non-vacuity.  `send_data(09 08 07)` (header 00 03, then the payload) gets one byte of write credit, then
-- none: pending; the peer's STOP_SENDING (code 7) ends the call with that error
example : (WriteBuf.fromFrame (.data [9, 8, 7])).map (fun w =>
    (WriteBuf.callE { writes := [w] } [.take 1, .take 0],
     WriteBuf.callE { writes := [w] } [.take 1, .take 0, .err (.terminated 7), .take 100])) =
    some (.pending [0x00], .failed [0x00] (.terminated 7)) := by decide +kernel
-- enough credit in pieces: header rest, then the payload
example : (WriteBuf.fromFrame (.data [9, 8, 7])).map (fun w =>
    WriteBuf.callE { writes := [w] } [.take 1, .take 0, .take 9, .take 2, .take 0, .take 1]) =
    some (.ok [0x00, 0x03, 9, 8, 7]) := by decide +kernel
-- client `send_request` waits for stream credit (`poll_open_bidi` Pending twice) when the connection times out;
-- with credit it opens, and is stopped in the middle of the HEADERS frame
example : (WriteBuf.fromFrame (.headers [0xd1, 0xd7])).map (fun w =>
    (WriteBuf.callE { opens := true, writes := [w] } [.take 0, .take 0, .err (.conn 1)],
     WriteBuf.callE { opens := true, writes := [w] } [.take 0, .take 1, .take 2, .take 1, .err (.terminated 0)])) =
    some (.failed [] (.conn 1), .failed [0x01, 0x02, 0xd1] (.terminated 0)) := by decide +kernel
-- `finish` with a grease frame due: the frame, then `poll_finish`, which waits until the peer closes
example : (WriteBuf.fromFrame (.grease 0x21)).map (fun w =>
    (WriteBuf.callE { writes := [w], finishes := true } [.take 100, .take 0],
     WriteBuf.callE { writes := [w], finishes := true } [.take 100, .take 0, .err (.conn 0)],
     WriteBuf.callE { writes := [w], finishes := true } [.take 100, .take 1])) =
    some (.pending [0x21, 0x06, 103, 114, 101, 97, 115, 101], .failed [0x21, 0x06, 103, 114, 101, 97, 115, 101] (.conn 0),
          .ok [0x21, 0x06, 103, 114, 101, 97, 115, 101]) := by decide +kernel

/-! ## 8. The setup of a connection against a transport that fails -/

section setup
open H3.Setup H3.ErrCell H3.Lemmas.Setup

/-- **`builder.build(conn)` against any transport.**  `T`/`tr` is an arbitrary state machine answering
    `poll_open_send`, `send_data`, `poll_ready` with `Pending`, `Ok` or any `StreamErrorIncoming`
    (every `ConnectionErrorIncoming` variant, `StreamTerminated`, `Unknown`) at any call, depending
    on everything that happened before; the future is polled any number of times.  (The model has
    no panic outcome: these paths contain no `unwrap`/`expect`/index.)  Whatever the transport does:
    * while the future is `Pending`, and when it returns `Ok`, `close` has not been called;
    * when it returns an error, `close` was called exactly when the error was detected locally,
      once, with exactly its code: `Local` with code `c` ⇒ `closes = [c]`, the transport's
      `InternalError` (reported as `Remote(InternalError)`) ⇒ `closes = [H3_INTERNAL_ERROR]`,
      `Timeout` / `Remote(ApplicationClose)` / `Remote(Undefined)` ⇒ no close; `Remote(Timeout)` never;
    * a local error of the setup has code H3_CLOSED_CRITICAL_STREAM (the control stream could not be
      opened, or was stopped / broke while SETTINGS were written) or H3_INTERNAL_ERROR (the
      transport's `InternalError` before the connection object exists). -/
theorem C06_setup_outcome {T : Type} (tr : Transport T) (fuel : Nat) (t : T) :
    match (buildRun tr fuel t {}).2 with
    | (s, none) => s.drv = {}
    | (s, some none) => s.drv = {}
    | (s, some (some e)) => OutcomeOK e s.drv.closes ∧
        ∀ c x, e = .localApp c x → c = 0x0104 ∨ c = 0x0102 := by
  have h := buildRun_ok tr fuel t {} rfl (by simp)
  unfold RunOK at h
  rcases hr : (buildRun tr fuel t {}).2 with ⟨s, r⟩
  rw [hr] at h
  cases r with
  | none => simpa using h
  | some r =>
    cases r with
    | none => simpa using h
    | some e => exact h

/-- **Only the control stream can fail the setup.**  If the calls on the control stream — opening
    it, `send_data` and `poll_ready` on it — never answer an error, `build` never returns one,
    whatever the calls on the two QPACK streams answer (failed openings: the streams are left out;
    failed writes: ignored). -/
theorem C06_setup_only_control_stream_fails {T : Type} (tr : Transport T) (h : CtlOk tr) (fuel : Nat) (t : T)
    (e : CErr) : (buildRun tr fuel t {}).2.2 ≠ some (some e) :=
  buildRun_ctlOk tr h fuel t {} (by simp [CtlClean]) e

/-- the control stream cannot be opened: the error of `handle_quic_error_raw` /
    `close_raw_connection_with_h3_error`, whatever the other two openings answered -/
theorem C06_setup_control_open_error {T : Type} (tr : Transport T) (t : T) (e : SErr) (rest : List (Option SErr)) :
    (afterOpens tr t {} (some e :: rest) false).res = some (some (openCtlErr e).1) ∧
    (afterOpens tr t {} (some e :: rest) false).st.drv.closes = (openCtlErr e).2.toList ∧
    openCtlErr (.conn .timeout) = (.timeout, none) ∧
    (∀ x, openCtlErr (.conn (.internal x)) = (.localApp 0x0102 x, some 0x0102)) ∧
    (∀ c, openCtlErr (.conn (.appClose c)) = (.remote (.appClose c), none)) ∧
    (∀ x, openCtlErr (.conn (.undefined x)) = (.remote (.undefined x), none)) ∧
    (∀ c, openCtlErr (.terminated c) = (.localApp 0x0104 0, some 0x0104)) ∧
    (∀ x, openCtlErr (.unknown x) = (.localApp 0x0104 1, some 0x0104)) := by
  refine ⟨by simp [afterOpens], by simp [afterOpens], rfl, fun _ => rfl, fun _ => rfl, fun _ => rfl,
    fun _ => rfl, fun _ => rfl⟩

/-- **`Pending` only while the transport says `Pending`.**  A poll of `build` that returns `Pending`
    has made a transport call that answered `Pending` in this very poll (so the transport holds the
    task's waker); and against a transport that answers every opening and every `poll_ready` at
    once — what a transport does once the connection has failed or was closed — a single poll
    finishes the setup, from whatever point it had reached. -/
theorem C06_setup_pending_only_on_transport {T : Type} (tr : Transport T) (t : T) (s : BSt) (hd : s.drv = {})
    (hp : s.phase ≠ .finished) :
    ((buildPoll tr t s).res = none → (buildPoll tr t s).sawPending = true) ∧
    (NoWait tr → (buildPoll tr t s).res ≠ none) := by
  refine ⟨fun hn => ?_, fun hw => buildPoll_completes tr hw t s hd hp⟩
  have h := buildPoll_ok tr t s hd hp
  simp only [ResOK, hn] at h
  exact h.2.2

-- non-vacuity, scripted transports (`scriptTr`: the answers to successive calls)
-- everything succeeds: three openings, then `send_data`/`poll_ready` of control, decoder, encoder
example : (buildRun scriptTr 1 [.ok, .ok, .ok, .ok, .ok, .ok, .ok, .ok, .ok] {}).2 =
    ({ phase := .finished }, some none) := by decide +kernel
-- the control stream cannot be opened: the transport's InternalError ⇒ Local H3_INTERNAL_ERROR, closed once
example : (buildRun scriptTr 1 [.err (.conn (.internal 7)), .err (.conn (.internal 7)), .err (.conn (.internal 7))] {}).2 =
    ({ phase := .finished, drv := { closes := [0x0102] } }, some (some (.localApp 0x0102 7))) := by decide +kernel
-- stream credit arrives late, then SETTINGS wait for write credit (two polls end `Pending`) until the
-- peer stops the control stream: Local H3_CLOSED_CRITICAL_STREAM, closed once
example : (buildRun scriptTr 2 [.ok, .pending, .ok, .ok, .ok, .pending, .ok, .ok, .ok, .ok, .err (.terminated 9)] {}).2.2 =
    none := by decide +kernel
example : (buildRun scriptTr 3 [.ok, .pending, .ok, .ok, .ok, .pending, .ok, .ok, .ok, .ok, .err (.terminated 9)] {}).2 =
    ({ phase := .finished, drv := { handled := some (.localApp 0x0104 0), closes := [0x0104] } },
     some (some (.localApp 0x0104 0))) := by decide +kernel
-- a QPACK stream that cannot be opened (`Unknown`) and one whose write fails: the setup succeeds
example : (buildRun scriptTr 1 [.ok, .err (.unknown 0), .ok, .ok, .ok, .err (.terminated 3)] {}).2 =
    ({ phase := .finished }, some none) := by decide +kernel
-- the connection times out while SETTINGS wait for write credit
example : (buildRun scriptTr 2 [.ok, .ok, .ok, .ok, .pending, .ok, .pending, .ok, .pending,
    .err (.conn .timeout), .err (.conn .timeout), .err (.conn .timeout)] {}).2 =
    ({ phase := .finished, drv := { handled := some .timeout } }, some (some .timeout)) := by decide +kernel

end setup

end H3.Props.C06
