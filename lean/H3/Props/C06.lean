/-! # C06 — no peer behaviour makes h3 panic or leaves a call pending for ever
    (theorems are assembled from the C02/C03/C04 machines; under construction) -/
namespace H3.Props.C06
end H3.Props.C06
