import H3.Lemmas.Iso
import H3.Lemmas.IsoLift
import H3.Lemmas.IsoPolled
import H3.Lemmas.IsoFault
import H3.Props.C03
/-! # C07 — faults confined to one request never harm the connection or other requests

Model: `H3.Iso` — the product of any number of request machines (receive half = the `H3.ReqRecv`
machine over the `FrameStream` model, unchanged; a small send half) with the ONE thing they share,
the connection error cell, plus the driver that closes the connection when it finds the cell filled.
A history is a list of `(stream, event)` pairs and driver polls in any order; an event is a peer
event (chunk / FIN / RESET c / STOP_SENDING c) or one poll of an application call on that stream's
handle.  Nothing bounds the number of streams or the length of the history.

Vocabulary.  `StreamScoped cfg hist`: no stream of the history is, run on its own, told a
connection-level error — the histories of the property: any subset of the streams may suffer
stream-scoped faults (RESET, STOP_SENDING, malformed message, oversized section, FIN before
HEADERS) at any point; excluded are only connection-level protocol violations (bad frame sequence,
bad frame encoding, QPACK failure), which are allowed — required — to close the connection.
`view j x`: what a run looks like from stream `j` — its final state and what its application saw.
A *valid message* (healthy stream) is a statement about the wire bytes through the reference automaton
of C02 (`msgToks`); `follows` = the application makes the calls of the documented receive pattern,
each polled again while it answers `Pending`; `digest` = its answers with `Pending` left out
(`H3/Lemmas/IsoLift.lean`, `IsoPolled*.lean`). -/
namespace H3.Props.C07
open H3.Iso H3.Gen.Consts
open H3.ReqRecv (Role Res St FSt Env fsSrc fsFuel first)

/-! ### the stream-scoped fault transitions -/

/-- the calls that write a frame on the stream -/
def isWrite : Call → Bool
  | .sendHead _ | .sendData _ | .sendTrailers _ => true
  | _ => false

/-- `FaultStep cfg r ev o`: in request state `r` the event `ev` is a stream-scoped fault transition,
    and `o` is what the application must be told.  `r` is ANY state of the request that fits the
    side condition: in the RESET cases `s` is any state of the frame stream — any buffered bytes,
    any position inside a frame header (`expected`), any position inside a DATA payload
    (`remaining`) — so the RESET comes at any point of the byte stream, with any code. -/
inductive FaultStep (cfg : Cfg) : Req → StreamEv → Obs → Prop
  /-- the peer's RESET_STREAM arrives -/
  | resetArrives (r : Req) (c : Nat) : FaultStep cfg r (.peer (.reset c)) .quiet
  /-- the peer's STOP_SENDING arrives -/
  | stopArrives (r : Req) (c : Nat) : FaultStep cfg r (.peer (.stop c)) .quiet
  /-- `resolve_request` / `recv_response` meets the RESET ⇒ `RemoteTerminate{c}` -/
  | resetHead (r : Req) (s : H3.FS.St) (c : Nat) (rest : List H3.FS.Ev) :
      r.rx.src = (s, .reset c :: rest) → s.eos = false → s.remaining = 0 → live cfg r .head →
      FaultStep cfg r (.call .head) (.ans (.res (.errReset c)))
  /-- `recv_data` meets the RESET, between frames or inside a DATA payload ⇒ `RemoteTerminate{c}` -/
  | resetData (r : Req) (s : H3.FS.St) (c : Nat) (rest : List H3.FS.Ev) :
      r.rx.src = (s, .reset c :: rest) → s.eos = false → live cfg r .data →
      FaultStep cfg r (.call .data) (.ans (.res (.errReset c)))
  /-- `recv_trailers` meets the RESET — reading the trailers' frame, or (trailer block already in
      hand) looking at what follows it ⇒ `RemoteTerminate{c}` -/
  | resetTrailers (r : Req) (s : H3.FS.St) (c : Nat) (rest : List H3.FS.Ev) :
      r.rx.src = (s, .reset c :: rest) → s.eos = false → s.remaining = 0 → live cfg r .trailers →
      FaultStep cfg r (.call .trailers) (.ans (.res (.errReset c)))
  /-- the documented body loop meets the RESET in `recv_data` -/
  | resetBody (r : Req) (s : H3.FS.St) (c : Nat) (rest : List H3.FS.Ev) (fuel : Nat) :
      r.rx.src = (s, .reset c :: rest) → s.eos = false → r.atTrailers = false → live cfg r (.body (fuel + 1)) →
      FaultStep cfg r (.call (.body (fuel + 1))) (.body [.errReset c] none)
  /-- the documented body loop, arrived at `recv_trailers`, suffers whatever `recv_trailers` suffers -/
  | bodyAtTrailers (r : Req) (a : Ans) (fuel : Nat) :
      FaultStep cfg r (.call .trailers) (.ans a) → r.atTrailers = true → live cfg r (.body fuel) →
      FaultStep cfg r (.call (.body fuel)) (.body [] (some a))
  /-- `send_response` / `send_data` / `send_trailers` after the peer's STOP_SENDING ⇒
      `RemoteTerminate{c}` -/
  | stopSend (r : Req) (c : Nat) (call : Call) :
      r.snd.stopped = some c → r.snd.fin = false → isWrite call = true → live cfg r call →
      FaultStep cfg r (.call call) (.ans (.res (.errReset c)))
  /-- the head is validly encoded but the message is malformed ⇒ stream error H3_MESSAGE_ERROR -/
  | malformedHead (r : Req) (enc : Bytes) (s' : FSt) :
      fsSrc.pollNext r.rx.src = (.frame (.headers enc), s') → cfg.hdr.head enc = .malformed →
      live cfg r .head →
      FaultStep cfg r (.call .head) (.ans (.res (.errStream CODE_H3_MESSAGE_ERROR)))
  /-- the trailer section (remembered by `recv_data`, stream at its end) is malformed ⇒
      H3_MESSAGE_ERROR -/
  | malformedTrailers (r : Req) (enc : Bytes) :
      r.rx.trailers = some enc → fsSrc.isEos r.rx.src = true → cfg.hdr.trailer enc = .malformed →
      live cfg r .trailers →
      FaultStep cfg r (.call .trailers) (.ans (.res (.errStream CODE_H3_MESSAGE_ERROR)))
  /-- the same when the end of the stream is only found by the look at the frame after the trailers -/
  | malformedTrailersFin (r : Req) (enc : Bytes) (s' : FSt) :
      r.rx.trailers = some enc → fsSrc.isEos r.rx.src = false → fsSrc.pollNext r.rx.src = (.none, s') →
      cfg.hdr.trailer enc = .malformed → live cfg r .trailers →
      FaultStep cfg r (.call .trailers) (.ans (.res (.errStream CODE_H3_MESSAGE_ERROR)))
  /-- client: the response head is over the limit ⇒ header-too-big -/
  | tooBigHeadClient (r : Req) (enc : Bytes) (s' : FSt) :
      cfg.role = .client → fsSrc.pollNext r.rx.src = (.frame (.headers enc), s') →
      cfg.hdr.head enc = .tooBig → live cfg r .head →
      FaultStep cfg r (.call .head) (.ans .tooBig)
  /-- server: the request head is over the limit, the 431 is written ⇒ header-too-big -/
  | tooBigHeadServer (r : Req) (enc : Bytes) (s' : FSt) (fs : Bytes) (w : H3.WriteBuf.WB) :
      cfg.role = .server → fsSrc.pollNext r.rx.src = (.frame (.headers enc), s') →
      cfg.hdr.head enc = .tooBig → cfg.resp431 = some fs → H3.WriteBuf.fromFrame (.headers fs) = some w →
      r.snd.stopped = none → r.snd.fin = false → r.snd.writing = none → live cfg r .head →
      FaultStep cfg r (.call .head) (.ans .tooBig)
  /-- server: over the limit, and the 431 itself exceeds the client's limit ⇒ header-too-big -/
  | tooBigHeadServerRefused (r : Req) (enc : Bytes) (s' : FSt) :
      cfg.role = .server → fsSrc.pollNext r.rx.src = (.frame (.headers enc), s') →
      cfg.hdr.head enc = .tooBig → cfg.resp431 = none → live cfg r .head →
      FaultStep cfg r (.call .head) (.ans .tooBig)
  /-- server: over the limit, and the peer has stopped the stream: `send_response(431).await?`
      returns the send error `RemoteTerminate{c}` -/
  | tooBigHeadServerStopped (r : Req) (enc : Bytes) (s' : FSt) (fs : Bytes) (c : Nat) :
      cfg.role = .server → fsSrc.pollNext r.rx.src = (.frame (.headers enc), s') →
      cfg.hdr.head enc = .tooBig → cfg.resp431 = some fs → r.snd.stopped = some c → r.snd.fin = false →
      live cfg r .head →
      FaultStep cfg r (.call .head) (.ans (.res (.errReset c)))
  /-- the trailer section is over the limit ⇒ header-too-big -/
  | tooBigTrailers (r : Req) (enc : Bytes) :
      r.rx.trailers = some enc → fsSrc.isEos r.rx.src = true → cfg.hdr.trailer enc = .tooBig →
      live cfg r .trailers →
      FaultStep cfg r (.call .trailers) (.ans .tooBig)
  | tooBigTrailersFin (r : Req) (enc : Bytes) (s' : FSt) :
      r.rx.trailers = some enc → fsSrc.isEos r.rx.src = false → fsSrc.pollNext r.rx.src = (.none, s') →
      cfg.hdr.trailer enc = .tooBig → live cfg r .trailers →
      FaultStep cfg r (.call .trailers) (.ans .tooBig)
  /-- server: the stream ends before any HEADERS ⇒ stream error H3_REQUEST_INCOMPLETE -/
  | finFirst (r : Req) (s' : FSt) :
      cfg.role = .server → fsSrc.pollNext r.rx.src = (.none, s') → live cfg r .head →
      FaultStep cfg r (.call .head) (.ans (.res (.errStream CODE_H3_REQUEST_INCOMPLETE)))
  /-- client: the response stream ends before any HEADERS ⇒ stream error H3_MESSAGE_ERROR (the
      response is missing: "an invalid sequence of HTTP messages", RFC 9114 §4.1.2; repaired by
      6945722 — before, the connection error H3_FRAME_UNEXPECTED: finding D-07a) -/
  | finFirstClient (r : Req) (s' : FSt) :
      cfg.role = .client → fsSrc.pollNext r.rx.src = (.none, s') → live cfg r .head →
      FaultStep cfg r (.call .head) (.ans (.res (.errStream CODE_H3_MESSAGE_ERROR)))

/-- what a fault transition does, as a step of the request: the demanded answer, the cell as found -/
theorem fault_step (cfg : Cfg) (r : Req) (ev : StreamEv) (o : Obs) (hf : FaultStep cfg r ev o)
    (cell : Option Nat) : (Req.step cfg cell r ev).2 = (cell, o) := by
  induction hf with
  | resetArrives c => rfl
  | stopArrives c => rfl
  | resetBody s c rest fuel hsrc he hat hl =>
    rw [Req.step_live cfg cell r _ hl]
    show (stepBody cfg (fuel + 1) cell r).2 = _
    rw [stepBody_reset cfg fuel cell r s c rest hat hsrc he]
  | bodyAtTrailers a fuel hft hat hl ih =>
    have hlt : live cfg r .trailers := by
      unfold live accepts at hl ⊢
      cases hr : cfg.role <;> cases hres : r.resolved <;> simp_all
    rw [Req.step_live cfg cell r _ hlt] at ih
    rw [Req.step_live cfg cell r _ hl]
    show (stepBody cfg fuel cell r).2 = _
    rw [stepBody_atTrailers cfg fuel cell r hat]
    have h1 : (stepTrailers cfg cell r).2.1 = cell := congrArg Prod.fst ih
    have h2 : (stepTrailers cfg cell r).2.2 = .ans a := congrArg Prod.snd ih
    rw [stepTrailers_obs] at h2
    simp only [Obs.ans.injEq] at h2
    rw [h1, h2]
  | resetHead s c rest hsrc he hr hl =>
    rw [Req.step_live cfg cell r _ hl, stepHead_reset cfg cell r c (s, .reset c :: rest)
      (by rw [hsrc]; exact fs_next_reset s c rest he hr)]
  | resetData s c rest hsrc he hl =>
    rw [Req.step_live cfg cell r _ hl]
    by_cases hr : s.remaining = 0
    · rw [stepData_reset_next cell r c (s, .reset c :: rest) (by rw [hsrc]; simp [fsSrc, hr])
        (by rw [hsrc]; exact fs_next_reset s c rest he hr)]
    · rw [stepData_reset_data cell r c (s, .reset c :: rest) (by rw [hsrc]; simp [fsSrc, hr])
        (by rw [hsrc]; exact fs_data_reset s c rest he hr)]
  | resetTrailers s c rest hsrc he hr hl =>
    rw [Req.step_live cfg cell r _ hl]
    cases ht : r.rx.trailers with
    | none =>
      rw [stepTrailers_reset cfg cell r c (s, .reset c :: rest) ht
        (by rw [hsrc]; exact fs_next_reset s c rest he hr)]
    | some enc =>
      rw [stepTrailers_reset_check cfg cell r enc c (s, .reset c :: rest) ht
        (by rw [hsrc]; exact fs_isEos_false s _ he) (by rw [hsrc]; exact fs_next_reset s c rest he hr)]
  | stopSend c call hs hfin hw hl =>
    rw [Req.step_live cfg cell r _ hl]
    cases call <;> simp [isWrite] at hw <;> simp [stepSend, write_stopped _ _ _ c hs hfin]
  | malformedHead enc s' hn hm hl =>
    rw [Req.step_live cfg cell r _ hl, stepHead_malformed cfg cell r enc s' hn hm]
  | malformedTrailers enc ht he hm hl =>
    rw [Req.step_live cfg cell r _ hl, stepTrailers_malformed cfg cell r enc ht he hm]
  | tooBigHeadClient enc s' hrole hn hm hl =>
    rw [Req.step_live cfg cell r _ hl, stepHead_tooBig_client cfg cell r enc s' hrole hn hm]
  | tooBigHeadServer enc s' fs w hrole hn hm h431 hw hs hfin hw0 hl =>
    rw [Req.step_live cfg cell r _ hl, stepHead_tooBig_server cfg cell r enc s' hrole hn hm]
    simp [tooBigServer, h431, write_ok _ _ w hs hfin hw0 hw]
  | tooBigHeadServerRefused enc s' hrole hn hm h431 hl =>
    rw [Req.step_live cfg cell r _ hl, stepHead_tooBig_server cfg cell r enc s' hrole hn hm]
    simp [tooBigServer, h431]
  | tooBigHeadServerStopped enc s' fs c hrole hn hm h431 hs hfin hl =>
    rw [Req.step_live cfg cell r _ hl, stepHead_tooBig_server cfg cell r enc s' hrole hn hm]
    simp [tooBigServer, h431, write_stopped _ _ _ c hs hfin]
  | tooBigTrailers enc ht he hm hl =>
    rw [Req.step_live cfg cell r _ hl, stepTrailers_tooBig cfg cell r enc ht he hm]
  | malformedTrailersFin enc s' ht he hn hm hl =>
    rw [Req.step_live cfg cell r _ hl, stepTrailers_malformed_fin cfg cell r enc s' ht he hn hm]
  | tooBigTrailersFin enc s' ht he hn hm hl =>
    rw [Req.step_live cfg cell r _ hl, stepTrailers_tooBig_fin cfg cell r enc s' ht he hn hm]
  | finFirst s' hrole hn hl =>
    rw [Req.step_live cfg cell r _ hl, stepHead_finFirst cfg cell r s' hrole hn]
  | finFirstClient s' hrole hn hl =>
    rw [Req.step_live cfg cell r _ hl, stepHead_finFirst_client cfg cell r s' hrole hn]

theorem fault_not_conn (cfg : Cfg) (r : Req) (ev : StreamEv) (o : Obs) (hf : FaultStep cfg r ev o) :
    o.isConn = false := by
  induction hf with
  | bodyAtTrailers a fuel hft hat hl ih => simpa [Obs.isConn, optConn] using ih
  | _ => rfl

/-- **C07, per transition.** Every stream-scoped fault transition — the peer's RESET with any code
    arriving, and being met at any point of the byte stream by `resolve_request`/`recv_response`,
    `recv_data` or `recv_trailers`; STOP_SENDING with any code arriving, and being met by a send
    call; a validly encoded but malformed head or trailer section; a head or trailer section over
    the limit (server: with the 431 written, refused, or stopped); FIN before HEADERS on a server —
    taken on stream `i` of ANY connection state: tells the application of stream `i` exactly the
    fitting stream-level error (`RemoteTerminate{c}` / H3_MESSAGE_ERROR / header-too-big /
    H3_REQUEST_INCOMPLETE), never a connection error; leaves the error cell exactly as it was (so
    empty stays empty); calls `close` neither in the step nor in a driver poll following it; and
    leaves the state of every other stream untouched. -/
theorem C07_stream_fault_is_local (cfg : Cfg) (c : Conn) (i : Nat) (ev : StreamEv) (o : Obs)
    (hf : FaultStep cfg (c.get i) ev o) :
    (step cfg c (i, ev)).2 = o ∧ o.isConn = false ∧
    (step cfg c (i, ev)).1.cell = c.cell ∧
    (step cfg c (i, ev)).1.closed = c.closed ∧
    (c.cell = none → (drive (step cfg c (i, ev)).1).closed = c.closed) ∧
    ∀ j, j ≠ i → (step cfg c (i, ev)).1.get j = c.get j := by
  have h := fault_step cfg (c.get i) ev o hf c.cell
  have hcell : (step cfg c (i, ev)).1.cell = c.cell := by rw [step_cell, h]
  refine ⟨by rw [step_obs, h], ?_, hcell, rfl, ?_, fun j hj => step_other cfg c i j ev hj⟩
  · exact fault_not_conn cfg _ ev o hf
  · intro hc
    rw [drive_of_empty _ (by rw [hcell, hc])]
    rfl

/-- **What h3 does on the faulted stream itself** (as the code does): a malformed head ⇒
    STOP_SENDING(H3_MESSAGE_ERROR), and on a server also RESET_STREAM(H3_MESSAGE_ERROR) and the
    resolver is gone; FIN before HEADERS ⇒ on a server RESET_STREAM(H3_REQUEST_INCOMPLETE), on a client
    nothing is sent (the receive side is over) and the handle stays; an oversized response
    ⇒ STOP_SENDING(H3_REQUEST_CANCELLED); an oversized request ⇒ the 431 HEADERS frame appended to
    what was written on THAT stream, no reset; a RESET met by a call, a STOP_SENDING met by a send
    call ⇒ nothing is sent, nothing written, a write that was waiting for credit is dropped (`first old c` =
    `c` unless one was sent before). -/
theorem C07_fault_reaction (cfg : Cfg) (cell : Option Nat) (r : Req) :
    (∀ enc s', fsSrc.pollNext r.rx.src = (.frame (.headers enc), s') → cfg.hdr.head enc = .malformed →
      live cfg r .head →
      let r' := (Req.step cfg cell r (.call .head)).1
      r'.rx.env.stop = first r.rx.env.stop CODE_H3_MESSAGE_ERROR ∧
      r'.rx.env.rst = (if cfg.role = .server then first r.rx.env.rst CODE_H3_MESSAGE_ERROR else r.rx.env.rst) ∧
      r'.snd = r.snd ∧ r'.gone = (cfg.role == .server)) ∧
    (∀ s', cfg.role = .server → fsSrc.pollNext r.rx.src = (.none, s') → live cfg r .head →
      let r' := (Req.step cfg cell r (.call .head)).1
      r'.rx.env.rst = first r.rx.env.rst CODE_H3_REQUEST_INCOMPLETE ∧ r'.rx.env.stop = r.rx.env.stop ∧
      r'.snd = r.snd ∧ r'.gone = true) ∧
    (∀ s', cfg.role = .client → fsSrc.pollNext r.rx.src = (.none, s') → live cfg r .head →
      let r' := (Req.step cfg cell r (.call .head)).1
      r'.rx.env.rst = r.rx.env.rst ∧ r'.rx.env.stop = r.rx.env.stop ∧ r'.snd = r.snd ∧ r'.gone = false) ∧
    (∀ enc s', cfg.role = .client → fsSrc.pollNext r.rx.src = (.frame (.headers enc), s') →
      cfg.hdr.head enc = .tooBig → live cfg r .head →
      let r' := (Req.step cfg cell r (.call .head)).1
      r'.rx.env.stop = first r.rx.env.stop CODE_H3_REQUEST_CANCELLED ∧ r'.rx.env.rst = r.rx.env.rst ∧
      r'.snd = r.snd) ∧
    (∀ enc s' fs w, cfg.role = .server → fsSrc.pollNext r.rx.src = (.frame (.headers enc), s') →
      cfg.hdr.head enc = .tooBig → cfg.resp431 = some fs → H3.WriteBuf.fromFrame (.headers fs) = some w →
      r.snd.stopped = none → r.snd.fin = false → r.snd.writing = none → live cfg r .head →
      let r' := (Req.step cfg cell r (.call .head)).1
      r'.snd.tx = r.snd.tx ++ w.view ∧ r'.rx.env.rst = r.rx.env.rst ∧ r'.rx.env.stop = r.rx.env.stop ∧
      r'.gone = true) ∧
    (∀ s c rest, r.rx.src = (s, .reset c :: rest) → s.eos = false → live cfg r .data →
      let r' := (Req.step cfg cell r (.call .data)).1
      r'.rx.env.rst = r.rx.env.rst ∧ r'.rx.env.stop = r.rx.env.stop ∧ r'.snd = r.snd) ∧
    (∀ c call, r.snd.stopped = some c → r.snd.fin = false → isWrite call = true → live cfg r call →
      (Req.step cfg cell r (.call call)).1 = { r with snd := { r.snd with writing := none } }) := by
  refine ⟨?_, ?_, ?_, ?_, ?_, ?_, ?_⟩
  · intro enc s' hn hm hl
    rw [Req.step_live cfg cell r _ hl, stepHead_malformed cfg cell r enc s' hn hm]
    exact ⟨rfl, rfl, rfl, rfl⟩
  · intro s' hrole hn hl
    rw [Req.step_live cfg cell r _ hl, stepHead_finFirst cfg cell r s' hrole hn]
    exact ⟨rfl, rfl, rfl, rfl⟩
  · intro s' hrole hn hl
    rw [Req.step_live cfg cell r _ hl, stepHead_finFirst_client cfg cell r s' hrole hn]
    exact ⟨rfl, rfl, rfl, rfl⟩
  · intro enc s' hrole hn hm hl
    rw [Req.step_live cfg cell r _ hl, stepHead_tooBig_client cfg cell r enc s' hrole hn hm]
    exact ⟨rfl, rfl, rfl⟩
  · intro enc s' fs w hrole hn hm h431 hw hs hfin hw0 hl
    rw [Req.step_live cfg cell r _ hl, stepHead_tooBig_server cfg cell r enc s' hrole hn hm]
    simp [tooBigServer, h431, write_ok _ _ w hs hfin hw0 hw, unload]
  · intro s c rest hsrc he hl
    rw [Req.step_live cfg cell r _ hl]
    by_cases hr : s.remaining = 0
    · rw [stepData_reset_next cell r c (s, .reset c :: rest) (by rw [hsrc]; simp [fsSrc, hr])
        (by rw [hsrc]; exact fs_next_reset s c rest he hr)]
      exact ⟨rfl, rfl, rfl⟩
    · rw [stepData_reset_data cell r c (s, .reset c :: rest) (by rw [hsrc]; simp [fsSrc, hr])
        (by rw [hsrc]; exact fs_data_reset s c rest he hr)]
      exact ⟨rfl, rfl, rfl⟩
  · intro c call hs hfin hw hl
    rw [Req.step_live cfg cell r _ hl]
    cases call <;> simp [isWrite] at hw <;> simp [stepSend, write_stopped _ _ _ c hs hfin]

/-- **Only a connection-level answer writes the cell.** Whatever the state, whatever the event:
    if the step on stream `i` does not tell its application `StreamError::ConnectionError`, the
    shared cell is exactly as before; and a step never touches another stream, never calls `close`. -/
theorem C07_only_connection_errors_write_cell (cfg : Cfg) (c : Conn) (i : Nat) (ev : StreamEv) :
    ((step cfg c (i, ev)).2.isConn = false → (step cfg c (i, ev)).1.cell = c.cell) ∧
    (step cfg c (i, ev)).1.closed = c.closed ∧
    ∀ j, j ≠ i → (step cfg c (i, ev)).1.get j = c.get j :=
  ⟨fun h => by rw [step_cell]; exact Req.step_cell_ok cfg c.cell (c.get i) ev (by rwa [step_obs] at h),
   rfl, fun j hj => step_other cfg c i j ev hj⟩

/-! ### histories -/

/-- No stream of the history is, run on its own, told a connection-level error. -/
def StreamScoped (cfg : Cfg) (hist : List HEv) : Prop :=
  ∀ i ∈ sidsOf hist, ∀ o ∈ (Req.run cfg none {} (proj i hist)).2.2, o.isConn = false

instance (cfg : Cfg) (hist : List HEv) : Decidable (StreamScoped cfg hist) := by
  unfold StreamScoped; exact inferInstance

theorem quiet_of_streamScoped (cfg : Cfg) (hist : List HEv) (hs : StreamScoped cfg hist) :
    QuietHist cfg {} hist := by
  intro i
  by_cases hi : i ∈ sidsOf hist
  · exact quiet_of_no_connErr cfg _ _ (hs i hi)
  · rw [proj_nil_of_not_mem i hist hi]; trivial

/-- **C07, non-interference.** In every history of any length over any number of streams in which
    no stream is told a connection-level error — whatever stream-scoped faults hit whichever
    streams, at whatever points, under whatever interleaving of all tasks and deliveries — what the
    run looks like from ANY stream `j` (its final state, everything its application saw, in order)
    (a) is the run of `j`'s own events alone, a function of `j`'s own events only; (b) is what `j`
    sees in the history that contains nothing but `j`'s events; (c) is the same with and without the
    faulted streams: for every set `F` of streams not containing `j`, removing the streams of `F`
    from the history altogether changes nothing for `j`; (d) is the same with and without the
    faults: any other such history with the same events on `j` — different faults, other streams,
    another interleaving — looks the same from `j`. -/
theorem C07_neighbours_unaffected (cfg : Cfg) (hist : List HEv) (hs : StreamScoped cfg hist) (j : Nat) :
    view j (run cfg {} hist) =
      ((Req.run cfg none {} (proj j hist)).1, (Req.run cfg none {} (proj j hist)).2.2) ∧
    view j (run cfg {} hist) = view j (run cfg {} (only j hist)) ∧
    (∀ F : Nat → Bool, F j = false → view j (run cfg {} hist) = view j (run cfg {} (without F hist))) ∧
    (∀ hist', StreamScoped cfg hist' → proj j hist' = proj j hist →
      view j (run cfg {} hist') = view j (run cfg {} hist)) := by
  have hq := quiet_of_streamScoped cfg hist hs
  have main : ∀ h', QuietHist cfg {} h' → proj j h' = proj j hist →
      view j (run cfg {} h') = view j (run cfg {} hist) := by
    intro h' hq' hp
    rw [((run_decomposes cfg h' {} rfl rfl hq').2.2 j).1, ((run_decomposes cfg hist {} rfl rfl hq).2.2 j).1, hp]
  refine ⟨((run_decomposes cfg hist {} rfl rfl hq).2.2 j).1, ?_, ?_, ?_⟩
  · refine (main (only j hist) ?_ ?_).symm
    · intro i
      rw [proj_only]
      by_cases hi : j = i
      · subst hi; rw [if_pos rfl]; exact hq j
      · rw [if_neg hi]; trivial
    · rw [proj_only, if_pos rfl]
  · intro F hF
    refine (main (without F hist) ?_ ?_).symm
    · intro i
      rw [proj_without]
      by_cases hi : F i = true
      · rw [if_pos hi]; trivial
      · rw [if_neg hi]; exact hq i
    · rw [proj_without, hF]; rfl
  · intro h' hs' hp
    exact main h' (quiet_of_streamScoped cfg h' hs') hp

/-- **C07, every interleaving.** Two histories with the same events per stream in the same
    per-stream order — i.e. any two interleavings of the same tasks and deliveries, in particular
    any permutation of a history that keeps each stream's own order — look the same from every
    stream, leave the same cell and the same `close` calls.  (Steps of different streams commute
    because none of them writes the cell and each touches only its own stream's state.) -/
theorem C07_interleaving_irrelevant (cfg : Cfg) (h₁ h₂ : List HEv) (hs : StreamScoped cfg h₁)
    (hp : ∀ j, proj j h₁ = proj j h₂) :
    (∀ j, view j (run cfg {} h₁) = view j (run cfg {} h₂)) ∧
    (run cfg {} h₁).1.cell = (run cfg {} h₂).1.cell ∧
    (run cfg {} h₁).1.closed = (run cfg {} h₂).1.closed := by
  have hq₁ := quiet_of_streamScoped cfg h₁ hs
  have hq₂ := quietHist_congr cfg {} h₁ h₂ hp hq₁
  obtain ⟨a1, a2, a3⟩ := run_decomposes cfg h₁ {} rfl rfl hq₁
  obtain ⟨b1, b2, b3⟩ := run_decomposes cfg h₂ {} rfl rfl hq₂
  refine ⟨fun j => ?_, by rw [a1, b1], by rw [a2, b2]⟩
  rw [(a3 j).1, (b3 j).1, hp j]

/-- the generator of those permutations: swapping two adjacent events of different streams (or an
    event and a driver poll) anywhere in a history changes nothing for any stream -/
theorem C07_adjacent_swap (cfg : Cfg) (a b : List HEv) (x y : HEv) (hxy : independent x y = true)
    (hs : StreamScoped cfg (a ++ x :: y :: b)) (j : Nat) :
    view j (run cfg {} (a ++ x :: y :: b)) = view j (run cfg {} (a ++ y :: x :: b)) :=
  (C07_interleaving_irrelevant cfg _ _ hs (fun k => proj_swap k x y hxy a b)).1 j

/-- **C07, the connection stays open.** In such a history, at every point of it (after every
    prefix, driver polls included wherever they fall), the error cell is empty and `close` has
    never been called. -/
theorem C07_connection_stays_open (cfg : Cfg) (hist : List HEv) (hs : StreamScoped cfg hist)
    (pre suf : List HEv) (hsplit : hist = pre ++ suf) :
    (run cfg {} pre).1.cell = none ∧ (run cfg {} pre).1.closed = [] := by
  have hq := quiet_of_streamScoped cfg hist hs
  rw [hsplit] at hq
  obtain ⟨h1, h2, _⟩ := run_decomposes cfg pre {} rfl rfl (quietHist_prefix cfg {} pre suf hq)
  exact ⟨h1, h2⟩

/-! ### whole histories of the property's quantifier are `StreamScoped`

`StreamScoped` is a statement about the model's own run.  The property quantifies over INPUTS: what the
peer does to each request and which calls the application makes.  `DocStream cfg evs` says of the events
`evs` of one request stream, without looking at any answer but to know where the documented call
pattern stands:

* transport (`DelivR`): non-empty chunks carrying a prefix of the bytes `w` of a validly framed message
  — `Wire w T`: the reference automaton of C02 reads `w` as complete frames, tokens `T = msgToks h ds tr`
  (`U* H (U|D)* (H U*)?`: head block `h`, DATA payloads `ds`, trailer block `tr`) or `T = []` (nothing
  but frames of unknown type: the stream is abandoned before its headers); then nothing yet, or FIN —
  only with all of `w` delivered, i.e. on the last frame boundary of the message —, or RESET with ANY
  code after ANY prefix (any byte offset); STOP_SENDING with any code and credit grants anywhere;
* header oracle: for the head block and for the trailer block any answer but a QPACK decoding failure —
  well-formed, validly encoded but malformed, over the size limit (positional: the head block is judged
  as a head, the trailer block as trailers);
* calls (`obeys`, reading R-07): `resolve_request` / `recv_response` polled until it answers, then
  `recv_data` (call by call, or as the body task) until it answers something else than data, then after
  a clean end `recv_trailers`; every call polled again while it answers `Pending`; NO receive call after
  one has answered an error — the documented pattern ends there; `send_response` / `send_data` /
  `send_trailers` / `finish` at any time, before and after any fault.

This covers every fault class of the property: RESET (any code, any offset, before / between / inside /
after the calls), STOP_SENDING (any code, any time), malformed or oversized head or trailers, FIN before
HEADERS (bare, or behind unknown frames), and the healthy stream; at most one receive-side fault can
manifest per stream because the pattern ends with the first error (a STOP_SENDING may come on top). -/

section Documented
open H3.ReqRecv

/-- a request stream of the property's quantifier: a statement about its input -/
def DocStream (cfg : Cfg) (evs : List StreamEv) : Prop :=
  ∃ (w : FS.Bytes) (T : List RefTok) (h : ReqRecv.Bytes) (ds : List ReqRecv.Bytes) (tr : Option ReqRecv.Bytes),
    Wire w T ∧ (T = [] ∨ T = msgToks h ds tr) ∧
    cfg.hdr.head h ≠ .qpack ∧ (∀ t, tr = some t → cfg.hdr.trailer t ≠ .qpack) ∧
    DelivR w (fsScript (peersOf evs)) ∧ obeys cfg .head none {} evs = true

/-- a stream carrying (a prefix of) a message with a head -/
theorem docStream_of_message (cfg : Cfg) (evs : List StreamEv) (w : FS.Bytes) (h : ReqRecv.Bytes)
    (ds : List ReqRecv.Bytes) (tr : Option ReqRecv.Bytes)
    (hrun : H3.FS.run H3.FS.frameDec (.hdr []) w = (.hdr [], msgToks h ds tr))
    (hlen : ∀ d ∈ ds, d.length < H3.FS.USIZE_MAX)
    (hh : cfg.hdr.head h ≠ .qpack) (htr : ∀ t, tr = some t → cfg.hdr.trailer t ≠ .qpack)
    (hdel : DelivR w (fsScript (peersOf evs))) (hob : obeys cfg .head none {} evs = true) : DocStream cfg evs :=
  ⟨w, msgToks h ds tr, h, ds, tr, ⟨hrun, noRaw_of_msgToks w _ h ds tr hrun hlen⟩, Or.inr rfl, hh, htr, hdel, hob⟩

/-- a stream carrying frames of unknown type only (abandoned before its headers) -/
theorem docStream_of_unknown (cfg : Cfg) (evs : List StreamEv) (w : FS.Bytes)
    (hrun : H3.FS.run H3.FS.frameDec (.hdr []) w = (.hdr [], []))
    (hdel : DelivR w (fsScript (peersOf evs))) (hob : obeys cfg .head none {} evs = true)
    (hh : cfg.hdr.head [] ≠ .qpack) : DocStream cfg evs :=
  ⟨w, [], [], [], none, ⟨hrun, fun f hf => by rw [hrun] at hf; cases hf⟩, Or.inl rfl, hh,
    (fun t ht => by cases ht), hdel, hob⟩

/-- **C07, one stream of the quantifier.**  Whatever the peer does to the stream within the property's
    fault classes, at whatever point, and whenever the application's documented calls are polled: no
    call on the stream ever answers a connection-level error — every fault is reported as a
    stream-level error (`C07_stream_fault_is_local` names the code) or not at all. -/
theorem C07_documented_stream_never_told_connection_error (cfg : Cfg) (evs : List StreamEv)
    (hd : DocStream cfg evs) : ∀ o ∈ (Req.run cfg none {} evs).2.2, o.isConn = false := by
  obtain ⟨w, T, h, ds, tr, hw, hT, hh, htr, hdel, hob⟩ := hd
  have hfirst : ∀ f, [FS.Tok.frame f] <+: T → f = .headers h := by
    intro f hp
    rcases hT with rfl | rfl
    · simpa using hp.length_le
    · exact first_frame_is_head hp
  have hbody : T ≠ [] → T = msgToks h ds tr := by
    intro hne
    rcases hT with rfl | rfl
    · exact absurd rfl hne
    · rfl
  exact robust_run hw hfirst hbody cfg hh htr evs .head [] {} (rinvR_init w T h ds tr)
    (by rw [List.nil_append]; exact hdel) hob

/-- **C07, whole histories.**  A history — any number of streams, any length, any interleaving of all
    tasks, deliveries and driver polls — every stream of which is a stream of the property's quantifier
    (`DocStream`: a hypothesis about the input only) IS `StreamScoped`. -/
theorem C07_documented_histories_are_stream_scoped (cfg : Cfg) (hist : List HEv)
    (hd : ∀ i ∈ sidsOf hist, DocStream cfg (proj i hist)) : StreamScoped cfg hist :=
  fun i hi => C07_documented_stream_never_told_connection_error cfg (proj i hist) (hd i hi)

/-- **C07, unconditionally on the property's quantifier: the connection stays open.**  After every prefix
    of such a history the error cell is empty and `close` has never been called. -/
theorem C07_connection_stays_open_documented (cfg : Cfg) (hist : List HEv)
    (hd : ∀ i ∈ sidsOf hist, DocStream cfg (proj i hist)) (pre suf : List HEv) (hsplit : hist = pre ++ suf) :
    (run cfg {} pre).1.cell = none ∧ (run cfg {} pre).1.closed = [] :=
  C07_connection_stays_open cfg hist (C07_documented_histories_are_stream_scoped cfg hist hd) pre suf hsplit

/-- **C07, unconditionally on the property's quantifier: the neighbours are unaffected.**  What such a
    history looks like from any stream `j` is the run of `j`'s own events alone; it is the same with any
    set of other streams (the faulted ones, say) removed from the history; and the same in any other such
    history with the same events on `j`. -/
theorem C07_neighbours_unaffected_documented (cfg : Cfg) (hist : List HEv)
    (hd : ∀ i ∈ sidsOf hist, DocStream cfg (proj i hist)) (j : Nat) :
    view j (run cfg {} hist) =
      ((Req.run cfg none {} (proj j hist)).1, (Req.run cfg none {} (proj j hist)).2.2) ∧
    (∀ F : Nat → Bool, F j = false → view j (run cfg {} hist) = view j (run cfg {} (without F hist))) ∧
    (∀ hist', (∀ i ∈ sidsOf hist', DocStream cfg (proj i hist')) → proj j hist' = proj j hist →
      view j (run cfg {} hist') = view j (run cfg {} hist)) := by
  have h := C07_neighbours_unaffected cfg hist (C07_documented_histories_are_stream_scoped cfg hist hd) j
  exact ⟨h.1, h.2.2.1, fun hist' hd' hp =>
    h.2.2.2 hist' (C07_documented_histories_are_stream_scoped cfg hist' hd') hp⟩

end Documented

/-! ### a healthy stream delivers exactly its own bytes -/

section Healthy
open H3.ReqRecv H3.Props.C03

/-- From the outcome of the documented pattern over stream `j`'s own transport script (a statement
    about `ReqRecv.documented`, C03's subject) to what `j`'s application observes inside the product,
    under arbitrary interleaving with all other streams. -/
theorem healthy_of_outcome (cfg : Cfg) (hist : List HEv) (hs : StreamScoped cfg hist) (j : Nat)
    (ps : List Peer) (fuel : Nat)
    (hj : proj j hist = ps.map .peer ++ [.call .head, .call (.body fuel)])
    (h body : ReqRecv.Bytes) (tr : Option ReqRecv.Bytes)
    (hdel : observe (documented cfg.role fsSrc cfg.hdr.base fuel { src := ({}, fsScript ps) }) =
      { calls := [.head h, .body body, .bodyEnd, trObs tr], connError := none, streamReset := none })
    (hh : cfg.hdr.head h ≠ .tooBig) (htr : ∀ t, tr = some t → cfg.hdr.trailer t ≠ .tooBig) :
    ∃ rs : List Res,
      obsOf j (run cfg {} hist).2 =
        List.replicate ps.length .quiet ++
          [.ans (.res (.head h)),
           .body rs (some (.res (trRes tr)))] ∧
      bodyBytes rs = body ∧ rs.getLast? = some .end_ ∧
      ((run cfg {} hist).1.get j).rx.env.rst = none ∧
      (run cfg {} hist).1.cell = none ∧ (run cfg {} hist).1.closed = [] := by
  have hq := quiet_of_streamScoped cfg hist hs
  obtain ⟨hcell, hclosed, hview⟩ := run_decomposes cfg hist {} rfl rfl hq
  have hv := (hview j).1
  have hg : ({} : Conn).get j = ({} : Req) := rfl
  rw [hg] at hv
  obtain ⟨t1, t2, t3, t4, t5, t6⟩ := observe_delivered _ h body tr hdel
  -- the product's run of stream j alone is that trace
  have hdoc := run_documented cfg ps fuel h t1 hh (by
    intro t ht
    rw [t4] at ht
    cases tr with
    | none => simp [trRes] at ht
    | some x =>
      simp only [trRes, Option.some.injEq, Res.trailers.injEq] at ht
      subst ht
      exact htr x rfl)
  simp only at hdoc
  obtain ⟨d1, _, d3⟩ := hdoc
  rw [← hj] at d1 d3
  simp only [view, Prod.mk.injEq] at hv
  refine ⟨_, ?_, t2, t3, ?_, hcell, hclosed⟩
  · rw [hv.2, d1, t4]; rfl
  · have : ((run cfg {} hist).1.get j) = _ := hv.1
    rw [this, d3]
    exact t6

/-- **C07 composed with C03, the frame-layer hypothesis gone.**  A healthy stream `j` of ANY
    history in which no stream is told a connection-level error.  Its own transport events are: the
    bytes `w = cs.flatten` of a valid message cut into non-empty chunks `cs` in ANY way, then FIN;
    its application then runs the documented receive pattern (head, then the body loop and the
    trailers).  "Valid message" is a statement about the wire bytes alone, through the reference
    automaton of C02: over `w` it ends on a frame boundary and emits HEADERS `h`, DATA frames with
    payloads `ds` (any number, any lengths, zero included), HEADERS `t` iff there are trailers
    (`msgToks`; frames of unknown type anywhere leave no token).  Then — whatever happens on the
    other streams (resets, STOP_SENDING, malformed or oversized messages, abandoned streams), in
    whatever interleaving with them and with the driver's polls — `j`'s application is given: the
    head `h`; as body exactly `ds.flatten`, the concatenation of the DATA payloads of ITS stream,
    in order, each byte once; then the end of the body; then the trailers iff present; h3 resets
    nothing on it; the cell is empty and `close` was never called.

    Hypotheses that remain (none about the frame layer: `FrameSim` is discharged by
    `C03_frame_layer_simulation`/`lift_exists` for every script): chunks are non-empty (`ScriptOK`,
    a QUIC read never returns zero bytes); no DATA frame announces `usize::MAX` bytes (`NoRaw`; a
    varint cannot); the header oracle accepts the head block as a head and the trailer block as
    trailers, within the limit (positional, as C03's `HdrsOk`: nothing is asked of a block in the
    other position); the loop bound of the `body` call is at least the model's own `fsFuel`.
    Still inherited from C03's `documented`: within stream `j` itself the deliveries precede the
    polls — `C07_healthy_stream_delivers_polled` removes that. -/
theorem C07_healthy_stream_delivers (cfg : Cfg) (hist : List HEv) (hs : StreamScoped cfg hist) (j : Nat)
    (cs : List ReqRecv.Bytes) (fuel : Nat) (h : ReqRecv.Bytes) (ds : List ReqRecv.Bytes) (tr : Option ReqRecv.Bytes)
    (hj : proj j hist = (cs.map Peer.chunk ++ [Peer.fin]).map StreamEv.peer ++ [.call .head, .call (.body fuel)])
    (hne : ∀ b ∈ cs, b ≠ [])
    (hmsg : H3.FS.run H3.FS.frameDec (.hdr []) cs.flatten = (.hdr [], msgToks h ds tr))
    (hlen : ∀ d ∈ ds, d.length < H3.FS.USIZE_MAX)
    (hh : cfg.hdr.head h = .ok) (hT : ∀ t, tr = some t → cfg.hdr.trailer t = .ok)
    (hfuel : fsFuel ({}, cs.map H3.FS.Ev.chunk ++ [H3.FS.Ev.fin]) ≤ fuel) :
    ∃ rs : List Res,
      obsOf j (run cfg {} hist).2 =
        List.replicate (cs.length + 1) .quiet ++
          [.ans (.res (.head h)),
           .body rs (some (.res (trRes tr)))] ∧
      bodyBytes rs = ds.flatten ∧ rs.getLast? = some .end_ ∧
      ((run cfg {} hist).1.get j).rx.env.rst = none ∧
      (run cfg {} hist).1.cell = none ∧ (run cfg {} hist).1.closed = [] := by
  have hb : FS.evBytes (cs.map H3.FS.Ev.chunk) = cs.flatten := evBytes_chunks cs
  have hacc := chunked_outcome_fin_fuel cfg.role cfg.hdr.base (cs.map H3.FS.Ev.chunk) [] fuel
    (onlyChunks_map cs) (scriptOK_chunks_fin cs hne)
    (by rw [hb]; exact noRaw_of_msgToks _ _ h ds tr hmsg hlen)
    (by
      rw [hb, hmsg, kindsOf_msgToks]
      exact hdrsOkK_msgKinds _ h ds tr (by simp [Hdr.base, hh, HClass.base])
        (fun t ht => by simp [Hdr.base, hT t ht, HClass.base]))
    (by rw [hb, hmsg]) hfuel
  rw [hb, hmsg, kindsOf_msgToks, spec_msgKinds] at hacc
  simp only [H3.Spec.ReqSeq.Expect.accepts, List.mem_singleton] at hacc
  rw [← fsScript_chunks_fin] at hacc
  have hres := healthy_of_outcome cfg hist hs j (cs.map Peer.chunk ++ [Peer.fin]) fuel hj h ds.flatten tr hacc
    (by rw [hh]; simp)
    (by intro t ht; rw [hT t ht]; simp)
  simpa using hres

/-- **C07 composed with C03** (`_partial`: kept for the record; superseded by
    `C07_healthy_stream_delivers`, which needs no hypothesis about the frame layer).  A healthy
    stream `j` of such a history — its own events are: the peer delivers `ps` (any chunking), then
    the application runs the documented receive pattern (head, then the body loop and the trailers)
    — where the bytes delivered are, for the frame layer, a frame sequence `toks` ended by FIN that
    is a valid message `U* H (U|D)* (H U*)?` within the size limit: stream `j`'s application is
    given the head, then as body exactly the concatenation of the DATA payloads of ITS stream, in
    order, each byte once, then the end of the body, then the trailers iff present; h3 resets
    nothing on it; the cell is empty and `close` was never called — whatever happened on the other
    streams, in whatever interleaving with them.

    Gaps against the full statement: (1) `FrameSim` — that the `FrameStream` model hands the request
    layer the frames of the bytes — is a hypothesis here (closed in `C07_healthy_stream_delivers`);
    (2) within stream `j` itself the deliveries precede the polls (closed in
    `C07_healthy_stream_delivers_polled`). -/
theorem C07_healthy_stream_delivers_partial (cfg : Cfg) (hist : List HEv) (hs : StreamScoped cfg hist) (j : Nat)
    (ps : List Peer) (fuel : Nat)
    (hj : proj j hist = ps.map .peer ++ [.call .head, .call (.body fuel)])
    {R : FSt → TS → Prop} (sim : FrameSim fsSrc tokSrc R) (toks : List Tok)
    (hR : R ({}, fsScript ps) (TS.ofToks toks .fin))
    (pre mid post : List Tok) (h : ReqRecv.Bytes) (tr : Option ReqRecv.Bytes)
    (hpre : ∀ t ∈ pre, isU t = true) (hmid : ∀ t ∈ mid, isUD t = true) (hpost : ∀ t ∈ post, isU t = true)
    (htoks : toks = pre ++ .headers h :: (mid ++ (match tr with | none => [] | some t => .headers t :: post)))
    (hwf : ∀ tok ∈ toks, TokWF tok ∧ HdrOk cfg.hdr.base tok) (hfuel : answers toks .fin + 2 ≤ fuel)
    (hh : cfg.hdr.head h ≠ .tooBig) (htr : ∀ t, tr = some t → cfg.hdr.trailer t ≠ .tooBig) :
    ∃ rs : List Res,
      obsOf j (run cfg {} hist).2 =
        List.replicate ps.length .quiet ++
          [.ans (.res (.head h)),
           .body rs (some (.res (trRes tr)))] ∧
      bodyBytes rs = payloads mid ∧ rs.getLast? = some .end_ ∧
      ((run cfg {} hist).1.get j).rx.env.rst = none ∧
      (run cfg {} hist).1.cell = none ∧ (run cfg {} hist).1.closed = [] := by
  -- C03: the documented pattern over the chunks is the one over the frames, which delivers
  have hwf1 : ∀ tok ∈ toks, TokWF tok := fun t ht => (hwf t ht).1
  have hlift := (C03_lifted_to_chunks fsSrc R sim cfg.role cfg.hdr.base ({}, fsScript ps) toks .fin fuel hR hwf1
    (hdrsOk_of_hdrOk _ _ (fun t ht => (hwf t ht).2)) hfuel).1
  have hdel := C03_valid_message_delivered cfg.role cfg.hdr.base pre mid post h tr fuel hpre hmid hpost toks htoks
    hwf1 (hwf (.headers h) (by rw [htoks]; simp)).2.1
    (fun t ht => (hwf (.headers t) (by rw [htoks, ht]; simp)).2.2) hfuel
  rw [← hlift] at hdel
  have hdel' : observe (documented cfg.role fsSrc cfg.hdr.base fuel { src := ({}, fsScript ps) }) =
      { calls := [.head h, .body (payloads mid), .bodyEnd, trObs tr]
        connError := none, streamReset := none } := by
    cases tr <;> exact hdel
  exact healthy_of_outcome cfg hist hs j ps fuel hj h (payloads mid) tr hdel' hh htr

/-! #### the stream's own polls interleaved with its own deliveries

The realistic schedule: the application's task is polled, answers `Pending`, more bytes arrive, it
is polled again.  `follows cfg fuel .head none {} evs` (decidable): every call among the events
`evs` of the stream is the one the documented pattern makes at that point, given what the
application has been answered so far — `resolve_request`/`recv_response` polled until it answers,
then the body task (`recv_data` until it answers something else than data, `recv_trailers` after a
clean end) polled until it completes, nothing after —, peer events anywhere in between.
`digest obs`: what the application has been given, the `Pending` answers left out. -/

/-- **C07, a healthy stream under every schedule of its own task** (hypothesis (2) of
    `C07_healthy_stream_delivers` gone).  A healthy stream `j` of ANY history in which no stream is
    told a connection-level error: its transport events are the bytes of a valid message cut into
    non-empty chunks `cs` in any way, then FIN; its application follows the documented receive
    pattern, every call polled again while it answers `Pending`; deliveries and polls of `j` are
    interleaved in ANY way (and with every other stream's events, faults and driver polls); the last
    poll of the body task comes after FIN.  Then, the `Pending` answers left out, `j`'s application
    has been given: the head `h`, once; by the `recv_data` calls pieces `ps` with
    `ps.flatten = ds.flatten` — exactly the DATA payloads of ITS stream, in order, each byte once —
    then the end of the body, once; by `recv_trailers` the trailers iff present; no error; h3 has
    neither reset nor stopped the stream; the cell is empty, `close` was never called.  This is the
    digest of the run with all deliveries first (`C07_healthy_stream_delivers`), for every schedule.

    Hypotheses that remain: chunks non-empty; no DATA frame of `usize::MAX` bytes; the oracle accepts
    the head block as a head and the trailer block as trailers, within the limit (nothing is asked
    about the blocks in the other position); the loop bound of a `body` poll exceeds the number of
    frame-layer tokens of the message. -/
theorem C07_healthy_stream_delivers_polled (cfg : Cfg) (hist : List HEv) (hs : StreamScoped cfg hist) (j : Nat)
    (cs : List ReqRecv.Bytes) (fuel : Nat) (h : ReqRecv.Bytes) (ds : List ReqRecv.Bytes) (tr : Option ReqRecv.Bytes)
    (hpeers : peersOf (proj j hist) = cs.map Peer.chunk ++ [Peer.fin])
    (hfollow : follows cfg fuel .head none {} (proj j hist) = true)
    (hlast : (proj j hist).getLast? = some (.call (.body fuel)))
    (hne : ∀ b ∈ cs, b ≠ [])
    (hmsg : H3.FS.run H3.FS.frameDec (.hdr []) cs.flatten = (.hdr [], msgToks h ds tr))
    (hlen : ∀ d ∈ ds, d.length < H3.FS.USIZE_MAX)
    (hh : cfg.hdr.head h = .ok) (hT : ∀ t, tr = some t → cfg.hdr.trailer t = .ok)
    (hfuel : (msgToks h ds tr).length < fuel) :
    ∃ ps : List ReqRecv.Bytes, ps.flatten = ds.flatten ∧
      (digest (obsOf j (run cfg {} hist).2)).heads = [.res (.head h)] ∧
      (digest (obsOf j (run cfg {} hist).2)).body = ps.map .data ++ [.end_] ∧
      (digest (obsOf j (run cfg {} hist).2)).trailers = [.res (trRes tr)] ∧
      ((run cfg {} hist).1.get j).rx.env = {} ∧
      (run cfg {} hist).1.cell = none ∧ (run cfg {} hist).1.closed = [] := by
  have hq := quiet_of_streamScoped cfg hist hs
  obtain ⟨hcell, hclosed, hview⟩ := run_decomposes cfg hist {} rfl rfl hq
  have hv := (hview j).1
  have hg : ({} : Conn).get j = ({} : Req) := rfl
  rw [hg] at hv
  simp only [view, Prod.mk.injEq] at hv
  have hw : Wire cs.flatten (msgToks h ds tr) := ⟨hmsg, noRaw_of_msgToks _ _ h ds tr hmsg hlen⟩
  have hscript : fsScript (peersOf (proj j hist)) = cs.map H3.FS.Ev.chunk ++ [H3.FS.Ev.fin] := by
    rw [hpeers, fsScript_chunks_fin]
  obtain ⟨ph', b', _, hr, hgok, hdone⟩ := polled_run hw cfg hh hT fuel hfuel cs hne rfl (proj j hist) .head [] [] {} {}
    (rinv_init _ h ds tr) rfl (by rw [List.nil_append, hscript]; exact List.prefix_refl _) hfollow
  have hph : ph' = .done := hdone (by rw [List.nil_append, hscript]; simp) hlast
  subst hph
  obtain ⟨h1, ⟨ps, h2, h3⟩, h4⟩ := hgok
  rw [hv.1, hv.2]
  exact ⟨ps, h3, h1, h2, h4, hr.2.1, hcell, hclosed⟩

/-- **... and at every point before that**: whatever part of the stream's events has arrived (`cs`
    is the whole cutting; the events of `j` in `hist` carry a prefix of it, FIN or not), whatever the
    application's task has been polled so far: it has been given nothing, or the head `h` and pieces
    `ps` whose concatenation is a PREFIX of the stream's own DATA payloads `ds.flatten`; the end of
    the body has been reported only with all of them handed over; trailers only after that, and only
    the stream's own; never an error; nothing reset or stopped on `j`; connection open. -/
theorem C07_healthy_stream_prefix_polled (cfg : Cfg) (hist : List HEv) (hs : StreamScoped cfg hist) (j : Nat)
    (cs : List ReqRecv.Bytes) (fuel : Nat) (h : ReqRecv.Bytes) (ds : List ReqRecv.Bytes) (tr : Option ReqRecv.Bytes)
    (hpeers : fsScript (peersOf (proj j hist)) <+: cs.map H3.FS.Ev.chunk ++ [H3.FS.Ev.fin])
    (hfollow : follows cfg fuel .head none {} (proj j hist) = true)
    (hne : ∀ b ∈ cs, b ≠ [])
    (hmsg : H3.FS.run H3.FS.frameDec (.hdr []) cs.flatten = (.hdr [], msgToks h ds tr))
    (hlen : ∀ d ∈ ds, d.length < H3.FS.USIZE_MAX)
    (hh : cfg.hdr.head h = .ok) (hT : ∀ t, tr = some t → cfg.hdr.trailer t = .ok)
    (hfuel : (msgToks h ds tr).length < fuel) :
    let g := digest (obsOf j (run cfg {} hist).2)
    (∃ ps : List ReqRecv.Bytes, ps.flatten <+: ds.flatten ∧
      ((g.heads = [] ∧ g.body = [] ∧ g.trailers = []) ∨
       (g.heads = [.res (.head h)] ∧ g.body = ps.map .data ∧ g.trailers = []) ∨
       (g.heads = [.res (.head h)] ∧ g.body = ps.map .data ++ [.end_] ∧ ps.flatten = ds.flatten ∧
          (g.trailers = [] ∨ g.trailers = [.res (trRes tr)])))) ∧
    ((run cfg {} hist).1.get j).rx.env = {} ∧
    (run cfg {} hist).1.cell = none ∧ (run cfg {} hist).1.closed = [] := by
  intro g
  have hq := quiet_of_streamScoped cfg hist hs
  obtain ⟨hcell, hclosed, hview⟩ := run_decomposes cfg hist {} rfl rfl hq
  have hv := (hview j).1
  have hg : ({} : Conn).get j = ({} : Req) := rfl
  rw [hg] at hv
  simp only [view, Prod.mk.injEq] at hv
  have hw : Wire cs.flatten (msgToks h ds tr) := ⟨hmsg, noRaw_of_msgToks _ _ h ds tr hmsg hlen⟩
  obtain ⟨ph', b', _, hr, hgok, _⟩ := polled_run hw cfg hh hT fuel hfuel cs hne rfl (proj j hist) .head [] [] {} {}
    (rinv_init _ h ds tr) rfl (by rw [List.nil_append]; exact hpeers) hfollow
  have hpre := rinv_prefix hw hr
  have hgd : g = List.foldl Dig.add {} (Req.run cfg none {} (proj j hist)).2.2 := by
    show digest _ = _
    rw [hv.2]; rfl
  rw [hv.1]
  refine ⟨?_, hr.2.1, hcell, hclosed⟩
  rw [hgd]
  cases ph' with
  | head =>
    simp only [GOK] at hgok
    rw [hgok]
    exact ⟨[], List.nil_prefix, Or.inl ⟨rfl, rfl, rfl⟩⟩
  | body =>
    obtain ⟨h1, ⟨ps, h2, h3⟩, h4⟩ := hgok
    exact ⟨ps, by rw [h3]; exact hpre, Or.inr (Or.inl ⟨h1, h2, h4⟩)⟩
  | trailers =>
    obtain ⟨h1, ⟨ps, h2, h3⟩, h4⟩ := hgok
    exact ⟨ps, by rw [h3]; exact List.prefix_refl _, Or.inr (Or.inr ⟨h1, h2, h3, Or.inl h4⟩)⟩
  | done =>
    obtain ⟨h1, ⟨ps, h2, h3⟩, h4⟩ := hgok
    exact ⟨ps, by rw [h3]; exact List.prefix_refl _, Or.inr (Or.inr ⟨h1, h2, h3, Or.inr h4⟩)⟩

/-- **Neither the cutting nor the schedule of its own task matters.**  Two runs of a healthy stream
    carrying the same message bytes — in different histories, on different stream ids, with
    different neighbours and faults, the bytes cut differently, the task polled at different moments
    (in particular: polled only after everything has arrived, as in `C07_healthy_stream_delivers`,
    versus polled after every chunk) — give the application the same head, the same body bytes and
    the same trailers. -/
theorem C07_healthy_stream_schedule_irrelevant (cfg : Cfg) (hist₁ hist₂ : List HEv)
    (hs₁ : StreamScoped cfg hist₁) (hs₂ : StreamScoped cfg hist₂) (j₁ j₂ : Nat)
    (cs₁ cs₂ : List ReqRecv.Bytes) (fuel₁ fuel₂ : Nat) (h : ReqRecv.Bytes) (ds : List ReqRecv.Bytes) (tr : Option ReqRecv.Bytes)
    (hbytes : cs₂.flatten = cs₁.flatten)
    (hp₁ : peersOf (proj j₁ hist₁) = cs₁.map Peer.chunk ++ [Peer.fin])
    (hp₂ : peersOf (proj j₂ hist₂) = cs₂.map Peer.chunk ++ [Peer.fin])
    (hf₁ : follows cfg fuel₁ .head none {} (proj j₁ hist₁) = true)
    (hf₂ : follows cfg fuel₂ .head none {} (proj j₂ hist₂) = true)
    (hl₁ : (proj j₁ hist₁).getLast? = some (.call (.body fuel₁)))
    (hl₂ : (proj j₂ hist₂).getLast? = some (.call (.body fuel₂)))
    (hne₁ : ∀ b ∈ cs₁, b ≠ []) (hne₂ : ∀ b ∈ cs₂, b ≠ [])
    (hmsg : H3.FS.run H3.FS.frameDec (.hdr []) cs₁.flatten = (.hdr [], msgToks h ds tr))
    (hlen : ∀ d ∈ ds, d.length < H3.FS.USIZE_MAX)
    (hh : cfg.hdr.head h = .ok) (hT : ∀ t, tr = some t → cfg.hdr.trailer t = .ok)
    (hfuel₁ : (msgToks h ds tr).length < fuel₁) (hfuel₂ : (msgToks h ds tr).length < fuel₂) :
    let g₁ := digest (obsOf j₁ (run cfg {} hist₁).2)
    let g₂ := digest (obsOf j₂ (run cfg {} hist₂).2)
    g₁.heads = g₂.heads ∧ bodyBytes g₁.body = bodyBytes g₂.body ∧ g₁.trailers = g₂.trailers := by
  intro g₁ g₂
  obtain ⟨ps₁, a1, a2, a3, a4, _⟩ := C07_healthy_stream_delivers_polled cfg hist₁ hs₁ j₁ cs₁ fuel₁ h ds tr hp₁ hf₁ hl₁
    hne₁ hmsg hlen hh hT hfuel₁
  obtain ⟨ps₂, b1, b2, b3, b4, _⟩ := C07_healthy_stream_delivers_polled cfg hist₂ hs₂ j₂ cs₂ fuel₂ h ds tr hp₂ hf₂ hl₂
    hne₂ (by rw [hbytes]; exact hmsg) hlen hh hT hfuel₂
  refine ⟨a2.trans b2.symm, ?_, a4.trans b4.symm⟩
  show bodyBytes (digest _).body = bodyBytes (digest _).body
  rw [a3, b3, bodyBytes_data_append, bodyBytes_data_append, a1, b1]

/-- **Polled again after every `Pending` = everything delivered first.**  Stream `j₁` of `hist₁`:
    deliveries and polls of the documented pattern interleaved in ANY way (as in
    `C07_healthy_stream_delivers_polled`).  Stream `j₂` of `hist₂`: the same bytes (cut the same way or
    another), all delivered before the head call and the body task are polled once each (the schedule
    of `C07_healthy_stream_delivers`; that it follows the pattern is `follows_delivered_first`: with
    FIN there the head call answers at once).  The two applications are given the same head, the same
    body bytes, the same trailers. -/
theorem C07_healthy_stream_polled_as_delivered_first (cfg : Cfg) (hist₁ hist₂ : List HEv)
    (hs₁ : StreamScoped cfg hist₁) (hs₂ : StreamScoped cfg hist₂) (j₁ j₂ : Nat)
    (cs₁ cs₂ : List ReqRecv.Bytes) (fuel₁ fuel₂ : Nat) (h : ReqRecv.Bytes) (ds : List ReqRecv.Bytes) (tr : Option ReqRecv.Bytes)
    (hbytes : cs₂.flatten = cs₁.flatten)
    (hp₁ : peersOf (proj j₁ hist₁) = cs₁.map Peer.chunk ++ [Peer.fin])
    (hf₁ : follows cfg fuel₁ .head none {} (proj j₁ hist₁) = true)
    (hl₁ : (proj j₁ hist₁).getLast? = some (.call (.body fuel₁)))
    (hj₂ : proj j₂ hist₂ =
      (cs₂.map Peer.chunk ++ [Peer.fin]).map StreamEv.peer ++ [.call .head, .call (.body fuel₂)])
    (hne₁ : ∀ b ∈ cs₁, b ≠ []) (hne₂ : ∀ b ∈ cs₂, b ≠ [])
    (hmsg : H3.FS.run H3.FS.frameDec (.hdr []) cs₁.flatten = (.hdr [], msgToks h ds tr))
    (hlen : ∀ d ∈ ds, d.length < H3.FS.USIZE_MAX)
    (hh : cfg.hdr.head h = .ok) (hT : ∀ t, tr = some t → cfg.hdr.trailer t = .ok)
    (hfuel₁ : (msgToks h ds tr).length < fuel₁) (hfuel₂ : (msgToks h ds tr).length < fuel₂) :
    let g₁ := digest (obsOf j₁ (run cfg {} hist₁).2)
    let g₂ := digest (obsOf j₂ (run cfg {} hist₂).2)
    g₁.heads = g₂.heads ∧ bodyBytes g₁.body = bodyBytes g₂.body ∧ g₁.trailers = g₂.trailers := by
  have hw₂ : Wire cs₂.flatten (msgToks h ds tr) := by
    rw [hbytes]; exact ⟨hmsg, noRaw_of_msgToks _ _ h ds tr hmsg hlen⟩
  have hcalls : [StreamEv.call Call.head, StreamEv.call (Call.body fuel₂)] = [Call.head, Call.body fuel₂].map StreamEv.call :=
    rfl
  exact C07_healthy_stream_schedule_irrelevant cfg hist₁ hist₂ hs₁ hs₂ j₁ j₂ cs₁ cs₂ fuel₁ fuel₂ h ds tr hbytes hp₁
    (by rw [hj₂, hcalls]; exact peersOf_peers_calls _ _) hf₁
    (by rw [hj₂]; exact follows_delivered_first hw₂ cfg hh fuel₂ cs₂ hne₂ rfl) hl₁
    (by rw [hj₂]; simp) hne₁ hne₂ hmsg hlen hh hT hfuel₁ hfuel₂

end Healthy

/-! ### non-vacuity: three concurrent requests, one RESET, one malformed, interleaved -/

/-- header oracle of the examples: block `ee` is a validly encoded malformed message, `ff` is over
    the limit, `fe` does not decode; everything else is fine -/
def hdr₃ : Hdr where
  head := fun b => if b = [0xee] then .malformed else if b = [0xff] then .tooBig else if b = [0xfe] then .qpack else .ok
  trailer := fun b => if b = [0xee] then .malformed else if b = [0xff] then .tooBig else .ok

def srv : Cfg := { role := .server, hdr := hdr₃ }
def cli : Cfg := { role := .client, hdr := hdr₃ }

def on (sid : Nat) (ev : StreamEv) : HEv := .on sid ev
def chunk (sid : Nat) (b : Bytes) : HEv := .on sid (.peer (.chunk b))

/-- stream 0 healthy (the message of C03's `script₁`: HEADERS aa bb, DATA(0), DATA c1 c2 cut in two,
    a grease frame, FIN), stream 4 reset with code 7 inside its second DATA payload after the
    application has begun to read, stream 8 a malformed head; events interleaved, driver polls in
    between -/
def hist₃ : List HEv :=
  [ chunk 0 [0x01, 0x02, 0xaa, 0xbb, 0x00, 0x00, 0x00],
    chunk 4 [0x01, 0x02, 0xaa, 0xbb, 0x00, 0x01, 0x31, 0x00, 0x05, 0x32],
    chunk 8 [0x01, 0x01],
    on 4 (.call .head),
    .drive,
    chunk 0 [0x02, 0xc1],
    on 8 (.call .head),
    on 4 (.call (.body 20)),
    chunk 8 [0xee, 0x00, 0x01, 0x55],
    on 8 (.peer .fin),
    on 4 (.peer (.reset 7)),
    chunk 0 [0xc2, 0x21, 0x00],
    on 8 (.call .head),
    on 4 (.call (.body 20)),
    .drive,
    on 0 (.peer .fin),
    on 8 (.call .data),
    on 0 (.call .head),
    on 4 (.call (.sendHead [0x00, 0x00, 0xd9])),
    on 0 (.call (.body 20)),
    on 0 (.call (.sendHead [0x00, 0x00, 0xd9])),
    on 0 (.call (.sendData [0x68, 0x69])),
    on 0 (.call .finish),
    .drive ]

example : StreamScoped srv hist₃ := by decide +kernel

-- the healthy stream: head, the two body bytes of ITS stream, end, no trailers; its reply written
example : obsOf 0 (run srv {} hist₃).2 =
    [.quiet, .quiet, .quiet, .quiet, .ans (.res (.head [0xaa, 0xbb])),
     .body [.data [0xc1], .data [0xc2], .end_] (some (.res .noTrailers)), .ok, .ok, .ok] := by decide +kernel
example : ((run srv {} hist₃).1.get 0).snd =
    { tx := [0x01, 0x03, 0x00, 0x00, 0xd9, 0x00, 0x02, 0x68, 0x69], stopped := none, fin := true } := by
  decide +kernel
-- the reset stream: what it had read, then RemoteTerminate{7}; nothing sent against it
example : obsOf 4 (run srv {} hist₃).2 =
    [.quiet, .ans (.res (.head [0xaa, 0xbb])), .body [.data [0x31], .data [0x32], .pending] none, .quiet,
     .body [.errReset 7] none, .ok] := by decide +kernel
example : ((run srv {} hist₃).1.get 4).rx.env = {} := by decide +kernel
-- the malformed stream: pending, then H3_MESSAGE_ERROR, reset and stop with that code, handle gone
example : obsOf 8 (run srv {} hist₃).2 =
    [.quiet, .ans (.res .pending), .quiet, .quiet, .ans (.res (.errStream 270)), .noHandle] := by decide +kernel
example : ((run srv {} hist₃).1.get 8).rx.env = { cell := none, rst := some 270, stop := some 270 } := by
  decide +kernel
-- the connection
example : (run srv {} hist₃).1.cell = none ∧ (run srv {} hist₃).1.closed = [] := by decide +kernel
-- … and from stream 0 the run looks like the one without streams 4 and 8
example : view 0 (run srv {} hist₃) = view 0 (run srv {} (without (fun s => s == 4 || s == 8) hist₃)) :=
  (C07_neighbours_unaffected srv hist₃ (by decide +kernel) 0).2.2.1 _ rfl

/-! every interleaving: the same events, the streams served one after the other instead -/
def hist₃seq : List HEv :=
  (only 8 hist₃ ++ [.drive] ++ only 0 hist₃ ++ only 4 hist₃)

example : hist₃seq ≠ hist₃ := by decide +kernel
example : ∀ j ∈ [0, 4, 8, 12], view j (run srv {} hist₃) = view j (run srv {} hist₃seq) := by decide +kernel
example (j : Nat) : view j (run srv {} hist₃) = view j (run srv {} hist₃seq) :=
  (C07_interleaving_irrelevant srv hist₃ hist₃seq (by decide +kernel) (fun k => by
    simp only [hist₃seq, proj_append, proj_only, proj]
    by_cases h8 : 8 = k
    · subst h8; simp
    · by_cases h0 : 0 = k
      · subst h0; simp
      · by_cases h4 : 4 = k
        · subst h4; simp
        · simp [h8, h0, h4, proj_nil_of_not_mem k hist₃ (by
            simp only [hist₃, sidsOf, on, chunk, List.mem_cons, List.not_mem_nil, or_false, not_or]
            omega)])).1 j
-- at every point of the history the connection is open
example : ∀ n ∈ List.range 25, (run srv {} (hist₃.take n)).1.cell = none ∧ (run srv {} (hist₃.take n)).1.closed = [] := by
  decide +kernel
example : (run srv {} (hist₃.take 13)).1.closed = [] :=
  (C07_connection_stays_open srv hist₃ (by decide +kernel) (hist₃.take 13) (hist₃.drop 13)
    (List.take_append_drop 13 hist₃).symm).2

/-! the fault transitions are transitions of reachable states -/

/-- after the RESET has arrived on stream 4 (the body task has read `31 32` and is waiting inside
    the second DATA payload) -/
def c₁ : Conn := (run srv {} (hist₃.take 11)).1

example : FaultStep srv (c₁.get 4) (.call .data) (.ans (.res (.errReset 7))) :=
  .resetData _ (c₁.get 4).rx.src.1 7 [] (by decide +kernel) (by decide +kernel) (by decide +kernel)
example : (c₁.get 4).rx.src.1.remaining = 4 := by decide +kernel
example : FaultStep srv (c₁.get 8) (.call .head) (.ans (.res (.errStream 270))) :=
  .malformedHead _ [0xee] (fsSrc.pollNext (c₁.get 8).rx.src).2 (by decide +kernel) (by decide +kernel)
    (by decide +kernel)
example : (step srv c₁ (8, .call .head)).2 = .ans (.res (.errStream 270)) ∧
    (step srv c₁ (8, .call .head)).1.cell = none ∧ (step srv c₁ (8, .call .head)).1.get 0 = c₁.get 0 :=
  let h := C07_stream_fault_is_local srv c₁ 8 (.call .head) _
    (.malformedHead _ [0xee] (fsSrc.pollNext (c₁.get 8).rx.src).2 (by decide +kernel) (by decide +kernel)
      (by decide +kernel))
  ⟨h.1, h.2.2.1.trans (by decide +kernel), h.2.2.2.2.2 0 (by decide)⟩

-- the same RESET met by the documented body loop
example : FaultStep srv (c₁.get 4) (.call (.body 20)) (.body [.errReset 7] none) :=
  .resetBody _ (c₁.get 4).rx.src.1 7 [] 19 (by decide +kernel) (by decide +kernel) (by decide +kernel)
    (by decide +kernel)

/-- a RESET after the trailers' frame, met by the body task waiting inside `recv_trailers` -/
def c₃ : Conn :=
  (run srv {} [chunk 20 [0x01, 0x01, 0xaa, 0x01, 0x01, 0xab], on 20 (.call .head), on 20 (.call (.body 9)),
               on 20 (.peer (.reset 3))]).1

example : (c₃.get 20).atTrailers = true ∧ (c₃.get 20).rx.trailers = some [0xab] := by decide +kernel
example : FaultStep srv (c₃.get 20) (.call (.body 9)) (.body [] (some (.res (.errReset 3)))) :=
  .bodyAtTrailers _ _ 9
    (.resetTrailers _ (c₃.get 20).rx.src.1 3 [] (by decide +kernel) (by decide +kernel) (by decide +kernel)
      (by decide +kernel))
    (by decide +kernel) (by decide +kernel)
example : (step srv c₃ (20, .call (.body 9))).2 = .body [] (some (.res (.errReset 3))) := by decide +kernel

/-- malformed trailers (block `ee`), met by the body task inside `recv_trailers` once FIN arrives -/
def c₄ : Conn :=
  (run srv {} [chunk 24 [0x01, 0x01, 0xaa, 0x01, 0x01, 0xee], on 24 (.call .head), on 24 (.call (.body 9)),
               on 24 (.peer .fin)]).1

example : FaultStep srv (c₄.get 24) (.call (.body 9)) (.body [] (some (.res (.errStream 270)))) :=
  .bodyAtTrailers _ _ 9
    (.malformedTrailersFin _ [0xee] (fsSrc.pollNext (c₄.get 24).rx.src).2 (by decide +kernel) (by decide +kernel)
      (by decide +kernel) (by decide +kernel) (by decide +kernel))
    (by decide +kernel) (by decide +kernel)
example : ((step srv c₄ (24, .call (.body 9))).1.get 24).rx.env = { cell := none, rst := none, stop := some 270 } := by
  decide +kernel

/-- FIN before HEADERS; an oversized request; STOP_SENDING (client) -/
def c₂ : Conn := (run srv {} [on 12 (.peer .fin), chunk 16 [0x01, 0x01, 0xff, 0x00]]).1

example : FaultStep srv (c₂.get 12) (.call .head) (.ans (.res (.errStream 269))) :=
  .finFirst _ (fsSrc.pollNext (c₂.get 12).rx.src).2 rfl (by decide +kernel) (by decide +kernel)
example : FaultStep srv (c₂.get 16) (.call .head) (.ans .tooBig) :=
  .tooBigHeadServer _ [0xff] (fsSrc.pollNext (c₂.get 16).rx.src).2 _ _ rfl (by decide +kernel) (by decide +kernel)
    rfl rfl (by decide +kernel) (by decide +kernel) (by decide +kernel) (by decide +kernel)
example : (run srv c₂ [on 12 (.call .head), on 16 (.call .head), .drive]).2 =
    [(12, .ans (.res (.errStream 269))), (16, .ans .tooBig)] := by decide +kernel
example : ((run srv c₂ [on 12 (.call .head), on 16 (.call .head), .drive]).1.get 16).snd.tx =
    [0x01, 0x08, 0x00, 0x00, 0x5f, 0x09, 0x83, 0x69, 0x90, 0xff] := by decide +kernel
example : ((run srv c₂ [on 12 (.call .head), on 16 (.call .head), .drive]).1.get 12).rx.env.rst = some 269 := by
  decide +kernel
example : (run srv c₂ [on 12 (.call .head), on 16 (.call .head), .drive]).1.closed = [] := by decide +kernel

def histC : List HEv :=
  [ on 0 (.call (.sendHead [0x00, 0x00, 0xd1])), on 4 (.call (.sendHead [0x00, 0x00, 0xd1])),
    on 4 (.peer (.stop 9)), chunk 0 [0x01, 0x01, 0xff], on 4 (.call (.sendData [1, 2, 3])),
    chunk 4 [0x01, 0x01, 0xaa, 0x00, 0x01, 0x07], on 0 (.call .head), on 4 (.peer .fin), on 4 (.call .head),
    on 4 (.call (.body 9)), on 4 (.call .finish), .drive ]
example : StreamScoped cli histC := by decide +kernel
example : (run cli {} histC).2 =
    [(0, .ok), (4, .ok), (4, .quiet), (0, .quiet), (4, .ans (.res (.errReset 9))), (4, .quiet), (0, .ans .tooBig),
     (4, .quiet), (4, .ans (.res (.head [0xaa]))), (4, .body [.data [7], .end_] (some (.res .noTrailers))), (4, .ok)] := by
  decide +kernel
example : ((run cli {} histC).1.get 0).rx.env.stop = some 268 := by decide +kernel
example : FaultStep cli ((run cli {} (histC.take 4)).1.get 4) (.call (.sendData [1, 2, 3])) (.ans (.res (.errReset 9))) :=
  .stopSend _ 9 _ (by decide +kernel) (by decide +kernel) rfl (by decide +kernel)

/-- client: the response stream of request 0 ends before any HEADERS while request 4 is answered -/
def histF : List HEv :=
  [ on 0 (.call (.sendHead [0x00, 0x00, 0xd1])), on 4 (.call (.sendHead [0x00, 0x00, 0xd1])), on 0 (.peer .fin),
    chunk 4 [0x01, 0x01, 0xaa, 0x00, 0x01, 0x07], on 0 (.call .head), .drive, on 4 (.peer .fin), on 4 (.call .head),
    on 4 (.call (.body 9)), .drive ]
example : FaultStep cli ((run cli {} (histF.take 4)).1.get 0) (.call .head) (.ans (.res (.errStream 270))) :=
  .finFirstClient _ (fsSrc.pollNext ((run cli {} (histF.take 4)).1.get 0).rx.src).2 rfl (by decide +kernel)
    (by decide +kernel)
example : StreamScoped cli histF := by decide +kernel
example : (run cli {} histF).2 =
    [(0, .ok), (4, .ok), (0, .quiet), (4, .quiet), (0, .ans (.res (.errStream 270))), (4, .quiet),
     (4, .ans (.res (.head [0xaa]))), (4, .body [.data [7], .end_] (some (.res .noTrailers)))] := by decide +kernel
example : ((run cli {} histF).1.get 0).rx.env = {} ∧ (run cli {} histF).1.closed = [] := by decide +kernel

/-! the contrast: a connection-level protocol violation (DATA before HEADERS) is NOT stream-scoped:
    the cell is written and the driver closes the connection with H3_FRAME_UNEXPECTED (the
    neighbour's calls still answer from its own stream; it goes down with the connection) -/
def histBad : List HEv :=
  [ chunk 0 [0x01, 0x02, 0xaa, 0xbb], chunk 4 [0x00, 0x01, 0x31], on 4 (.call .head), .drive, on 0 (.call .head),
    on 0 (.call .data) ]
example : ¬ StreamScoped srv histBad := by decide +kernel
example : (run srv {} histBad).2 =
    [(0, .quiet), (4, .quiet), (4, .ans (.res (.errConn 261))), (0, .ans (.res (.head [0xaa, 0xbb]))),
     (0, .ans (.res .pending))] := by decide +kernel
example : (run srv {} histBad).1.cell = some 261 ∧ (run srv {} histBad).1.closed = [261] := by decide +kernel

/-! `C07_healthy_stream_delivers_partial` applies: stream 0 of `hist₃` up to its `body` call carries C03's
    `script₁`, for which the frame-layer interface is established (`C03.simS`) -/
section
open H3.ReqRecv H3.Props.C03
def ps₀ : List Peer :=
  [.chunk [0x01, 0x02, 0xaa, 0xbb, 0x00, 0x00, 0x00], .chunk [0x02, 0xc1], .chunk [0xc2, 0x21, 0x00], .fin]

example : ∃ rs : List Res,
    obsOf 0 (run srv {} (hist₃.take 20)).2 =
      List.replicate 4 .quiet ++ [.ans (.res (.head [0xaa, 0xbb])), .body rs (some (.res .noTrailers))] ∧
    bodyBytes rs = [0xc1, 0xc2] ∧ rs.getLast? = some .end_ ∧
    ((run srv {} (hist₃.take 20)).1.get 0).rx.env.rst = none ∧
    (run srv {} (hist₃.take 20)).1.cell = none ∧ (run srv {} (hist₃.take 20)).1.closed = [] :=
  C07_healthy_stream_delivers_partial srv (hist₃.take 20) (by decide +kernel) 0 ps₀ 20 (by decide +kernel) simS toksS
    (by decide +kernel) [] [.data 0 [], .data 2 [[0xc1], [0xc2]], .unknown 0x21 []] [] [0xaa, 0xbb] none
    (by simp) (by decide) (by simp) rfl (by simp [toksS, TokWF, HdrOk, Hdr.base, srv, hdr₃, HClass.base])
    (by decide) (by decide) (by simp)
end

/-! `C07_healthy_stream_delivers` applies to stream 0 of the same three-stream history (stream 4 RESET
    with code 7 inside a DATA payload, stream 8 a malformed head, driver polls in between): every
    hypothesis is a decidable statement about stream 0's own twelve bytes — no frame-layer interface
    is assumed.  `cs₀` is ONE cutting of these bytes; the theorem holds for every cutting. -/
section
open H3.ReqRecv
def cs₀ : List ReqRecv.Bytes := [[0x01, 0x02, 0xaa, 0xbb, 0x00, 0x00, 0x00], [0x02, 0xc1], [0xc2, 0x21, 0x00]]

example : H3.FS.run H3.FS.frameDec (.hdr []) cs₀.flatten = (.hdr [], msgToks [0xaa, 0xbb] [[], [0xc1, 0xc2]] none) := by
  decide +kernel

example : ∃ rs : List Res,
    obsOf 0 (run srv {} (hist₃.take 20)).2 =
      List.replicate 4 .quiet ++ [.ans (.res (.head [0xaa, 0xbb])), .body rs (some (.res .noTrailers))] ∧
    bodyBytes rs = [0xc1, 0xc2] ∧ rs.getLast? = some .end_ ∧
    ((run srv {} (hist₃.take 20)).1.get 0).rx.env.rst = none ∧
    (run srv {} (hist₃.take 20)).1.cell = none ∧ (run srv {} (hist₃.take 20)).1.closed = [] :=
  C07_healthy_stream_delivers srv (hist₃.take 20) (by decide +kernel) 0 cs₀ 20 [0xaa, 0xbb] [[], [0xc1, 0xc2]] none
    (by decide +kernel) (by decide) (by decide +kernel) (by decide)
    (by decide) (by intro t ht; cases ht)
    (by decide)

/-- the same bytes cut per byte on stream 0, with trailers `[0xab]` appended, neighbours as before -/
def hist₄ : List HEv :=
  [ chunk 4 [0x01, 0x02, 0xaa, 0xbb, 0x00, 0x05, 0x32], chunk 0 [0x01], chunk 8 [0x01, 0x01, 0xee], chunk 0 [0x02],
    on 4 (.call .head), chunk 0 [0xaa], on 8 (.call .head), chunk 0 [0xbb], .drive, on 4 (.peer (.reset 7)),
    chunk 0 [0x00], chunk 0 [0x02], on 4 (.call (.body 9)), chunk 0 [0xc1], chunk 0 [0xc2], chunk 0 [0x01], chunk 0 [0x01],
    chunk 0 [0xab], on 0 (.peer .fin), .drive, on 0 (.call .head), on 8 (.call .data), on 0 (.call (.body 40)) ]

example : ∃ rs : List Res,
    obsOf 0 (run srv {} hist₄).2 =
      List.replicate 12 .quiet ++ [.ans (.res (.head [0xaa, 0xbb])), .body rs (some (.res (.trailers [0xab])))] ∧
    bodyBytes rs = [0xc1, 0xc2] ∧ rs.getLast? = some .end_ ∧
    ((run srv {} hist₄).1.get 0).rx.env.rst = none ∧
    (run srv {} hist₄).1.cell = none ∧ (run srv {} hist₄).1.closed = [] :=
  C07_healthy_stream_delivers srv hist₄ (by decide +kernel) 0
    [[0x01], [0x02], [0xaa], [0xbb], [0x00], [0x02], [0xc1], [0xc2], [0x01], [0x01], [0xab]] 40 [0xaa, 0xbb]
    [[0xc1, 0xc2]] (some [0xab])
    (by decide +kernel) (by decide) (by decide +kernel) (by decide)
    (by decide) (by intro t ht; simp only [Option.some.injEq] at ht; subst ht; decide)
    (by decide)
example : obsOf 4 (run srv {} hist₄).2 =
    [.quiet, .ans (.res (.head [0xaa, 0xbb])), .quiet, .body [.errReset 7] none] := by decide +kernel
example : obsOf 8 (run srv {} hist₄).2 = [.quiet, .ans (.res (.errStream 270)), .noHandle] := by decide +kernel

/-! `C07_healthy_stream_delivers_polled`: stream 0's task is polled BETWEEN its deliveries — the head
    call answers `Pending` on a cut frame header, the body task answers `Pending` three times (on a
    cut DATA header, inside a DATA payload, at the grease frame waiting for FIN) — while stream 4 is
    reset inside a DATA payload and stream 8 carries a malformed head. -/
def hist₅ : List HEv :=
  [ chunk 0 [0x01],
    on 0 (.call .head),
    chunk 4 [0x01, 0x02, 0xaa, 0xbb, 0x00, 0x05, 0x32],
    chunk 8 [0x01, 0x01],
    chunk 0 [0x02, 0xaa, 0xbb, 0x00, 0x00, 0x00],
    on 4 (.call .head),
    on 0 (.call .head),
    .drive,
    on 0 (.call (.body 20)),
    chunk 0 [0x02, 0xc1],
    on 8 (.call .head),
    on 0 (.call (.body 20)),
    on 4 (.peer (.reset 7)),
    chunk 0 [0xc2, 0x21, 0x00],
    on 0 (.call (.body 20)),
    chunk 8 [0xee],
    on 8 (.peer .fin),
    on 8 (.call .head),
    on 4 (.call (.body 20)),
    on 0 (.peer .fin),
    .drive,
    on 0 (.call (.body 20)) ]

def cs₅ : List ReqRecv.Bytes := [[0x01], [0x02, 0xaa, 0xbb, 0x00, 0x00, 0x00], [0x02, 0xc1], [0xc2, 0x21, 0x00]]

-- what stream 0's application sees, `Pending` answers included
example : obsOf 0 (run srv {} hist₅).2 =
    [.quiet, .ans (.res .pending), .quiet, .ans (.res (.head [0xaa, 0xbb])), .body [.pending] none, .quiet,
     .body [.data [0xc1], .pending] none, .quiet, .body [.data [0xc2], .pending] none, .quiet,
     .body [.end_] (some (.res .noTrailers))] := by decide +kernel
example : follows srv 20 .head none {} (proj 0 hist₅) = true := by decide +kernel
example : obsOf 4 (run srv {} hist₅).2 =
    [.quiet, .ans (.res (.head [0xaa, 0xbb])), .quiet, .body [.errReset 7] none] := by decide +kernel
example : obsOf 8 (run srv {} hist₅).2 = [.quiet, .ans (.res .pending), .quiet, .quiet, .ans (.res (.errStream 270))] := by
  decide +kernel

example : ∃ ps : List ReqRecv.Bytes, ps.flatten = [0xc1, 0xc2] ∧
    (digest (obsOf 0 (run srv {} hist₅).2)).heads = [.res (.head [0xaa, 0xbb])] ∧
    (digest (obsOf 0 (run srv {} hist₅).2)).body = ps.map .data ++ [.end_] ∧
    (digest (obsOf 0 (run srv {} hist₅).2)).trailers = [.res .noTrailers] ∧
    ((run srv {} hist₅).1.get 0).rx.env = {} ∧
    (run srv {} hist₅).1.cell = none ∧ (run srv {} hist₅).1.closed = [] :=
  C07_healthy_stream_delivers_polled srv hist₅ (by decide +kernel) 0 cs₅ 20 [0xaa, 0xbb] [[], [0xc1, 0xc2]] none
    (by decide +kernel) (by decide +kernel) (by decide +kernel) (by decide) (by decide +kernel) (by decide)
    (by decide) (by intro t ht; cases ht) (by decide)

-- ... and after every prefix of that history (FIN not there yet, the task in the middle of the body)
example : ∀ n ∈ List.range 23, follows srv 20 .head none {} (proj 0 (hist₅.take n)) = true ∧
    StreamScoped srv (hist₅.take n) := by decide +kernel
example : (digest (obsOf 0 (run srv {} (hist₅.take 15)).2)).body = [.data [0xc1], .data [0xc2]] := by decide +kernel
example :
    let g := digest (obsOf 0 (run srv {} (hist₅.take 15)).2)
    (∃ ps : List ReqRecv.Bytes, ps.flatten <+: [0xc1, 0xc2] ∧
      ((g.heads = [] ∧ g.body = [] ∧ g.trailers = []) ∨
       (g.heads = [.res (.head [0xaa, 0xbb])] ∧ g.body = ps.map .data ∧ g.trailers = []) ∨
       (g.heads = [.res (.head [0xaa, 0xbb])] ∧ g.body = ps.map .data ++ [.end_] ∧ ps.flatten = [0xc1, 0xc2] ∧
          (g.trailers = [] ∨ g.trailers = [.res .noTrailers])))) ∧
    ((run srv {} (hist₅.take 15)).1.get 0).rx.env = {} ∧
    (run srv {} (hist₅.take 15)).1.cell = none ∧ (run srv {} (hist₅.take 15)).1.closed = [] :=
  C07_healthy_stream_prefix_polled srv (hist₅.take 15) (by decide +kernel) 0 cs₅ 20 [0xaa, 0xbb] [[], [0xc1, 0xc2]] none
    (by decide +kernel) (by decide +kernel) (by decide) (by decide +kernel) (by decide)
    (by decide) (by intro t ht; cases ht) (by decide)

-- the polled run of `hist₅` and the deliveries-first run of `hist₃` (another cutting): the same head, body, trailers
example :
    (digest (obsOf 0 (run srv {} (hist₃.take 20)).2)).heads = (digest (obsOf 0 (run srv {} hist₅).2)).heads ∧
    bodyBytes (digest (obsOf 0 (run srv {} (hist₃.take 20)).2)).body = bodyBytes (digest (obsOf 0 (run srv {} hist₅).2)).body ∧
    (digest (obsOf 0 (run srv {} (hist₃.take 20)).2)).trailers = (digest (obsOf 0 (run srv {} hist₅).2)).trailers :=
  C07_healthy_stream_schedule_irrelevant srv (hist₃.take 20) hist₅ (by decide +kernel) (by decide +kernel) 0 0 cs₀ cs₅ 20 20
    [0xaa, 0xbb] [[], [0xc1, 0xc2]] none (by decide) (by decide +kernel) (by decide +kernel) (by decide +kernel)
    (by decide +kernel) (by decide +kernel) (by decide +kernel) (by decide) (by decide) (by decide +kernel) (by decide)
    (by decide) (by intro t ht; cases ht) (by decide) (by decide)

example :
    (digest (obsOf 0 (run srv {} hist₅).2)).heads = (digest (obsOf 0 (run srv {} (hist₃.take 20)).2)).heads ∧
    bodyBytes (digest (obsOf 0 (run srv {} hist₅).2)).body = bodyBytes (digest (obsOf 0 (run srv {} (hist₃.take 20)).2)).body ∧
    (digest (obsOf 0 (run srv {} hist₅).2)).trailers = (digest (obsOf 0 (run srv {} (hist₃.take 20)).2)).trailers :=
  C07_healthy_stream_polled_as_delivered_first srv hist₅ (hist₃.take 20) (by decide +kernel) (by decide +kernel) 0 0 cs₅ cs₀ 20 20
    [0xaa, 0xbb] [[], [0xc1, 0xc2]] none (by decide) (by decide +kernel) (by decide +kernel) (by decide +kernel)
    (by decide +kernel) (by decide) (by decide) (by decide +kernel) (by decide)
    (by decide) (by intro t ht; cases ht) (by decide) (by decide)

/-! the whole-history theorems apply to `hist₅` with NO hypothesis about the run: each of its three streams
    is a stream of the quantifier — stream 0 a valid message polled between its deliveries, stream 4 RESET
    with code 7 inside its DATA payload (`w` = what was delivered plus the four payload bytes that never
    came), stream 8 a validly encoded malformed head -/
theorem doc₅_0 : DocStream srv (proj 0 hist₅) :=
  docStream_of_message srv _ cs₅.flatten [0xaa, 0xbb] [[], [0xc1, 0xc2]] none (by decide +kernel) (by decide) (by decide)
    (by intro t ht; cases ht) (Or.inl ⟨cs₅, by decide, Or.inr ⟨by decide +kernel, rfl⟩⟩) (by decide +kernel)

theorem doc₅_4 : DocStream srv (proj 4 hist₅) :=
  docStream_of_message srv _ [0x01, 0x02, 0xaa, 0xbb, 0x00, 0x05, 0x32, 0, 0, 0, 0] [0xaa, 0xbb] [[0x32, 0, 0, 0, 0]] none
    (by decide +kernel) (by decide) (by decide) (by intro t ht; cases ht)
    (Or.inr ⟨7, [[0x01, 0x02, 0xaa, 0xbb, 0x00, 0x05, 0x32]], by decide, by decide +kernel, by decide +kernel⟩)
    (by decide +kernel)

theorem doc₅_8 : DocStream srv (proj 8 hist₅) :=
  docStream_of_message srv _ [0x01, 0x01, 0xee] [0xee] [] none (by decide +kernel) (by decide) (by decide)
    (by intro t ht; cases ht) (Or.inl ⟨[[0x01, 0x01], [0xee]], by decide, Or.inr ⟨by decide +kernel, rfl⟩⟩)
    (by decide +kernel)

theorem hist₅_documented : ∀ i ∈ sidsOf hist₅, DocStream srv (proj i hist₅) := by
  intro i hi
  have h3 : i = 0 ∨ i = 4 ∨ i = 8 := by
    simp only [hist₅, sidsOf, on, chunk, List.mem_cons, List.not_mem_nil, or_false] at hi
    omega
  rcases h3 with rfl | rfl | rfl
  · exact doc₅_0
  · exact doc₅_4
  · exact doc₅_8

example : ∀ o ∈ (Req.run srv none {} (proj 4 hist₅)).2.2, o.isConn = false :=
  C07_documented_stream_never_told_connection_error srv _ doc₅_4
example : StreamScoped srv hist₅ := C07_documented_histories_are_stream_scoped srv hist₅ hist₅_documented
example : (run srv {} (hist₅.take 19)).1.cell = none ∧ (run srv {} (hist₅.take 19)).1.closed = [] :=
  C07_connection_stays_open_documented srv hist₅ hist₅_documented (hist₅.take 19) (hist₅.drop 19)
    (List.take_append_drop 19 hist₅).symm
example : view 0 (run srv {} hist₅) = view 0 (run srv {} (without (fun s => s == 4 || s == 8) hist₅)) :=
  (C07_neighbours_unaffected_documented srv hist₅ hist₅_documented 0).2.1 _ rfl

/-! R-07 in the hypothesis: `hist₃` is `StreamScoped` too, but its stream 8 is not a documented stream —
    its application calls `recv_data` after `resolve_request` has failed (`on 8 (.call .data)`) -/
example : obeys srv .head none {} (proj 8 hist₃) = false := by decide +kernel
example : obeys srv .head none {} (proj 8 (hist₃.take 16)) = true := by decide +kernel

/-- a client stream under write back-pressure (4 bytes of credit): the request head waits for credit and
    is polled again after the grant; the response is read call by call (`recv_data`, `recv_trailers`); the
    peer asks to stop sending and the next `send_data` reports it; a response stream that ends before
    any HEADERS (stream 4, `T = []`) -/
def cliW : Cfg := { role := .client, hdr := hdr₃, wc := some 4 }
def histG : List HEv :=
  [ on 0 (.call (.sendHead [0x00, 0x00, 0xd1])), on 4 (.call (.sendHead [0x00, 0x00, 0xd1])), on 0 (.peer (.grant 9)),
    on 0 (.call (.sendHead [0x00, 0x00, 0xd1])), chunk 0 [0x01, 0x01, 0xaa, 0x00], on 0 (.call .head), on 0 (.call .data),
    on 4 (.peer (.grant 1)), on 4 (.call (.sendHead [0x00, 0x00, 0xd1])), chunk 4 [0x21, 0x02, 0x07], on 4 (.call .head),
    chunk 0 [0x02, 0xc1], on 0 (.call .data), on 0 (.call .data), chunk 0 [0xc2], on 0 (.peer (.stop 9)),
    on 0 (.call .data), chunk 4 [0x08], on 4 (.peer .fin), on 0 (.peer .fin), on 0 (.call .data), on 4 (.call .head),
    on 0 (.call .trailers), on 0 (.call (.sendData [1])), .drive ]
example : (run cliW {} histG).2 =
    [(0, .ans (.res .pending)), (4, .ans (.res .pending)), (0, .quiet), (0, .ok), (0, .quiet), (0, .ans (.res (.head [0xaa]))),
     (0, .ans (.res .pending)), (4, .quiet), (4, .ok), (4, .quiet), (4, .ans (.res .pending)), (0, .quiet),
     (0, .ans (.res (.data [0xc1]))), (0, .ans (.res .pending)), (0, .quiet), (0, .quiet), (0, .ans (.res (.data [0xc2]))),
     (4, .quiet), (4, .quiet), (0, .quiet), (0, .ans (.res .end_)), (4, .ans (.res (.errStream 270))),
     (0, .ans (.res .noTrailers)), (0, .ans (.res (.errReset 9)))] := by decide +kernel
example : ((run cliW {} (histG.take 2)).1.get 0).snd =
    { tx := [0x01, 0x03, 0x00, 0x00], granted := 0, writing := some [0xd1] } := by decide +kernel
theorem docG_0 : DocStream cliW (proj 0 histG) :=
  docStream_of_message cliW _ [0x01, 0x01, 0xaa, 0x00, 0x02, 0xc1, 0xc2] [0xaa] [[0xc1, 0xc2]] none (by decide +kernel)
    (by decide) (by decide) (by intro t ht; cases ht)
    (Or.inl ⟨[[0x01, 0x01, 0xaa, 0x00], [0x02, 0xc1], [0xc2]], by decide, Or.inr ⟨by decide +kernel, rfl⟩⟩)
    (by decide +kernel)
theorem docG_4 : DocStream cliW (proj 4 histG) :=
  docStream_of_unknown cliW _ [0x21, 0x02, 0x07, 0x08] (by decide +kernel)
    (Or.inl ⟨[[0x21, 0x02, 0x07], [0x08]], by decide, Or.inr ⟨by decide +kernel, rfl⟩⟩) (by decide +kernel) (by decide)
example : StreamScoped cliW histG :=
  C07_documented_histories_are_stream_scoped cliW histG (by
    intro i hi
    have h2 : i = 0 ∨ i = 4 := by
      simp only [histG, sidsOf, on, chunk, List.mem_cons, List.not_mem_nil, or_false] at hi
      omega
    rcases h2 with rfl | rfl
    · exact docG_0
    · exact docG_4)

-- trailers, per-byte cutting, a poll after every byte; the block is remembered while `recv_trailers` waits for FIN
def hist₆ : List HEv :=
  ([0x01, 0x02, 0xaa, 0xbb].flatMap fun b => [chunk 0 [b], on 0 (.call .head)]) ++
  [ chunk 4 [0x01, 0x01, 0xee], on 4 (.call .head) ] ++
  ([0x00, 0x02, 0xc1, 0xc2, 0x01, 0x01, 0xab].flatMap fun b => [chunk 0 [b], on 0 (.call (.body 9)), .drive]) ++
  [ on 0 (.peer .fin), on 0 (.call (.body 9)) ]

example : obsOf 0 (run cli {} hist₆).2 =
    [.quiet, .ans (.res .pending), .quiet, .ans (.res .pending), .quiet, .ans (.res .pending), .quiet,
     .ans (.res (.head [0xaa, 0xbb])),
     .quiet, .body [.pending] none, .quiet, .body [.pending] none, .quiet, .body [.data [0xc1], .pending] none,
     .quiet, .body [.data [0xc2], .pending] none, .quiet, .body [.pending] none, .quiet, .body [.pending] none,
     .quiet, .body [.end_] (some (.res .pending)), .quiet, .body [] (some (.res (.trailers [0xab])))] := by
  decide +kernel

example : ∃ ps : List ReqRecv.Bytes, ps.flatten = [0xc1, 0xc2] ∧
    (digest (obsOf 0 (run cli {} hist₆).2)).heads = [.res (.head [0xaa, 0xbb])] ∧
    (digest (obsOf 0 (run cli {} hist₆).2)).body = ps.map .data ++ [.end_] ∧
    (digest (obsOf 0 (run cli {} hist₆).2)).trailers = [.res (.trailers [0xab])] ∧
    ((run cli {} hist₆).1.get 0).rx.env = {} ∧
    (run cli {} hist₆).1.cell = none ∧ (run cli {} hist₆).1.closed = [] :=
  C07_healthy_stream_delivers_polled cli hist₆ (by decide +kernel) 0
    [[0x01], [0x02], [0xaa], [0xbb], [0x00], [0x02], [0xc1], [0xc2], [0x01], [0x01], [0xab]] 9 [0xaa, 0xbb]
    [[0xc1, 0xc2]] (some [0xab])
    (by decide +kernel) (by decide +kernel) (by decide +kernel) (by decide) (by decide +kernel) (by decide)
    (by decide) (by intro t ht; cases ht; decide) (by decide)
end

end H3.Props.C07
