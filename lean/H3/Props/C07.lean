/-! # C07 — faults confined to one request never harm the connection or other requests
    (product-machine theorems; under construction) -/
namespace H3.Props.C07
end H3.Props.C07
