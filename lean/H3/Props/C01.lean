/-! # C01 — end-to-end message fidelity (composition theorem; under construction) -/
namespace H3.Props.C01
end H3.Props.C01
