import H3.Lemmas.E2ECompose
import H3.Lemmas.E2ESplit
import H3.Lemmas.E2EInter
import H3.Lemmas.E2EPolls
import H3.Props.C12
import H3.Props.C14
/-! # C01 — end-to-end message fidelity (composition theorem)

Property theorems only.  Glue: `H3.E2E` (`Model/E2E.lean`) — `Message`, `wire`, `sendAll`,
`recvPattern`, `deliver` — composing the component models `H3.Headers` (C12), `H3.Qpack` (C10/C11),
`H3.WriteBuf`/`H3.SendSide` (C14), `H3.FS` (C02) and `H3.ReqRecv` (C03).  What is composed:

* C14 (`polls_spec` = `C14_writebuf_is_header_then_payload` per poll, `C14_frame_header_valid`):
  header ++ payload, each byte once, under every acceptance script;
* C02 (`C02_frame_decode_is_segment`, the invariant `Inv` with `pollNextLoop_spec`/`pollData_spec`
  behind `C02_chunking_independent`): frames and payload bytes are a function of the bytes;
* C03: the request layer of `H3.ReqRecv`; the lifting to chunks is NOT taken from
  `C03_lifted_to_chunks` (conditional on `FrameSim`, and a `FrameSim` with the token source cannot
  hold for scripts with `pend`): `recvPattern_valid` proves the chunk-level statement of
  `C03_valid_message_delivered` directly from the C02 invariant, for every script, every call
  awaited;
* C10/C11 (`C10_own_encoding_exact_closed`, `C11_encode_then_rfc_decode_closed`): h3's decoder reads
  h3's encoding back as the same field list iff the size fits the limit;
* C12 (`C12_sent_order`, `wireFields_eq`): wire fields = pseudo list ++ map iteration; the
  completeness direction (own wire fields are accepted, with the same parts) is proved here
  (`recvRequest_sent`, `recvResponse_sent`, `recvTrailers_sent`).

* C07 (`H3.Iso`: the product of request machines sharing the error cell, deliveries and polls as
  events of one history, the driver's error side; `run_decomposes`, `polled_run` behind
  `C07_healthy_stream_delivers_polled`): `C01_end_to_end_interleaved`;
* `split()` (`Model/Split.lean`): `C01_split_anywhere`.

Assumptions that stay (each explicit in the statements): the `http` crate parameter `H` with the
laws `HttpLaws` (C12) and `HttpRoundTrip` — from which `HeadOk`/`PseudoBack` ("the head survives the
trip") are DERIVED for heads made of values of the crate (`HeadValues`, `C01_head_survives`); R-14 (calls
awaited: `Awaited`); R-T (transport chunks non-empty, a delivery that arrives after a poll shows as
`pend` in the script); the receiver's `max_field_section_size` (C10); a message the sender's own
`http::HeaderMap` can hold (`Holdable`: at most 24576 distinct names, any number of values — the
receiver's map has the same limit, `C01_field_count_refused`; the number of fields is no limit any
more: D-01, repaired). -/
namespace H3.Props.C01
open H3.E2E H3.Headers H3.FS H3.ReqRecv H3.WriteBuf H3.SendSide H3.Gen.WriteBuf
open H3.Spec.Framing (observe Ending)


/-! ## 1. what the sender puts on the stream -/

/-- **`wire_of_send`.**  For every well-formed message, whether or not this handle owes the
    connection's grease frame (`g`, draw `gN`), and for EVERY family of write-acceptance scripts —
    partial writes of any size, `Pending` (0) anywhere — under which each call completes before the
    next is made (R-14): after `send_request`/`send_response`, one `send_data` per piece,
    `send_trailers` if any, and `finish()`, the transport of the request stream has been handed
    exactly `wire m` (then the grease frame if owed), and the stream is finished.  `wire m` is a
    function of the message and the piece boundaries only.  The block of each HEADERS frame is what
    the send site writes when the section fits the peer's limit (C10 `sendSite`). -/
theorem C01_wire_of_send (m : Message) (h : Header) (hwf : WellFormed m h) (g : Bool) (gN : Nat)
    (hg : gN < GREASE_RANGE_END) (scripts : List (List Nat))
    (haw : Awaited (freshStream g) (callsOf (framesOf m h) gN scripts)) (applied : Option Nat)
    (hlim : sectionSize h.wireFields ≤ Qpack.peerLimit applied) :
    (sendAll (freshStream g) (callsOf (framesOf m h) gN scripts)).log =
      streamBytes m (if g then some gN else none) ∧
    (sendAll (freshStream g) (callsOf (framesOf m h) gN scripts)).fin = true ∧
    (sendAll (freshStream g) (callsOf (framesOf m h) gN scripts)).cur = none ∧
    Qpack.sendSite applied (qfields h.wireFields) = .written (fieldSection h) := by
  obtain ⟨a, b, c⟩ := sendAll_message (framesOf m h) (frames_sendable m h hwf) g gN hg scripts haw
  refine ⟨?_, b, c, ?_⟩
  · rw [a, streamBytes, wire_eq m h hwf.header]
  · have hfs : ∀ f ∈ qfields h.wireFields, H3.Qpack.Lemmas.Encodable f := by
      intro f hf
      simp only [qfields, List.mem_map] at hf
      obtain ⟨x, hx, rfl⟩ := hf
      exact hwf.encodable x hx
    obtain ⟨h1, _⟩ := H3.Props.C11.C11_encode_then_rfc_decode_closed _ (fun f hf => (hfs f hf).writable)
    have h2 := (H3.Props.C11.C10_own_encoding_exact_closed _ hfs 0).1
    unfold Qpack.sendSite
    rw [h1]
    simp only
    rw [h2, if_neg (by unfold sectionSize at hlim; omega)]
    rfl

/-! ## 2. the wire is a valid message -/

/-- what the RFC 9114 §7.1 oracle must see of a body: per piece a DATA frame and, unless it is
    empty, its payload -/
def bodyObs : List (List Nat) → List Spec.Framing.Tok
  | [] => []
  | p :: r =>
    if p = [] then .frame (.data 0) :: bodyObs r else .frame (.data p.length) :: .data p :: bodyObs r

/-- **`wire_is_valid_message`.**  The stream bytes of a well-formed message (with or without the
    trailing grease frame), read by the RFC 9114 §7.1/§7.2 oracle `observe` and ended by FIN, are
    exactly: a HEADERS frame whose payload is the field section of head + fields, one DATA frame per
    piece with that piece as payload, the trailing HEADERS frame iff trailers were sent, and a clean
    end (`none_`) — nothing else, nothing truncated.  The field sections read back under the RFC
    9204 decoder as the field list the `Header` iterates, which is the pseudo-header fields followed
    by the map in iteration order (C11, C12). -/
theorem C01_wire_is_valid_message (m : Message) (h : Header) (hwf : WellFormed m h) (g : Option Nat)
    (hg : ∀ n, g = some n → n < GREASE_RANGE_END) :
    observe ((streamBytes m g).length + 1) (streamBytes m g) .fin =
      .frame (.headers (fieldSection h)) ::
        (bodyObs m.pieces ++
          (match m.trailers with
           | none => []
           | some t => [.frame (.headers (trailerSection t))]) ++ [.none_]) ∧
    Spec.Qpack.specDecode (fieldSection h) = .ok (H3.Qpack.Lemmas.pairs (qfields h.wireFields)) ∧
    h.wireFields = H3.Headers.pseudoList h.pseudo ++ hmIter h.fields ∧
    (∀ t, m.trailers = some t →
      Spec.Qpack.specDecode (trailerSection t) =
        .ok (H3.Qpack.Lemmas.pairs (qfields (hmIter (mapOf t))))) := by
  have hpl := all_plain m h hwf g hg
  have hobs := observe_wireOf .fin _ hpl ((streamBytes m g).length + 1) (by
    rw [streamBytes_eq m h hwf.header g]
    have := wireOf_length_ge _ hpl
    omega)
  rw [← streamBytes_eq m h hwf.header g] at hobs
  refine ⟨?_, ?_, (H3.Props.C12.C12_sent_order h).1, ?_⟩
  · rw [hobs]
    have hbody : ∀ (ps : List (List Nat)) (r : List SFrame), obsToks (ps.map .data ++ r) = bodyObs ps ++ obsToks r := by
      intro ps r
      induction ps with
      | nil => rfl
      | cons p ps ih =>
        by_cases hp : p = [] <;> simp [obsToks, bodyObs, hp, ih]
    have hgr : obsToks (greaseFrames g) = [] := by cases g <;> rfl
    simp only [framesOf, List.cons_append, List.append_assoc, obsToks, hbody]
    cases m.trailers with
    | none => simp [hgr, Spec.Framing.endTok]
    | some t => simp [obsToks, hgr, Spec.Framing.endTok]
  · have hfs : ∀ f ∈ qfields h.wireFields, H3.Qpack.Lemmas.Encodable f := by
      intro f hf
      simp only [qfields, List.mem_map] at hf
      obtain ⟨x, hx, rfl⟩ := hf
      exact hwf.encodable x hx
    exact (H3.Props.C11.C11_encode_then_rfc_decode_closed _ (fun f hf => (hfs f hf).writable)).2.1
  · intro t ht
    have hfs : ∀ f ∈ qfields (Header.trailer (mapOf t)).wireFields, H3.Qpack.Lemmas.Encodable f := by
      intro f hf
      simp only [qfields, List.mem_map] at hf
      obtain ⟨x, hx, rfl⟩ := hf
      exact hwf.trailersEncodable t ht x hx
    have := (H3.Props.C11.C11_encode_then_rfc_decode_closed _ (fun f hf => (hfs f hf).writable)).2.1
    rw [(H3.Props.C12.C12_sent_response_trailer_values 0 (mapOf t)).2] at this
    unfold trailerSection fieldSection
    rw [(H3.Props.C12.C12_sent_response_trailer_values 0 (mapOf t)).2]
    exact this

/-! ## 3. every chunking of the wire is delivered exactly -/

/-- **`recv_of_wire`.**  Let `m` be a well-formed message — which includes that the sending
    application could hold its fields in an `http::HeaderMap` at all (`WellFormed.holdable`) — whose
    head survives the trip (`HeadOk`: the `http` round-trip assumptions, with `out` the head the
    application must get), within the receiver's `max_field_section_size = L` (`Fits`).  For EVERY
    transport script that carries exactly the stream bytes of `m` before its first FIN — cut into
    non-empty chunks in any way, `pend` (a poll that found nothing) anywhere, no reset — the
    documented receive pattern with every call awaited (`resolve_request` / `recv_response`;
    `recv_data` until `None`; `recv_trailers`) delivers: the head `out`; as body exactly the
    concatenation of the pieces sent; exactly one clean end of body (`ends = 1`, and it is the
    last answer of `recv_data`); the trailers as the map the sender filled, or `None` when none
    were sent; the error cell empty, nothing reset, nothing stopped.  The number of fields of a
    section is not limited (D-01, repaired). -/
theorem C01_recv_of_wire (H : Http) (role : Role) (m : Message) (h : Header) (out : HeadOut)
    (L : Nat) (hwf : WellFormed m h) (hfit : Fits m h L) (hhead : HeadOk H role m out)
    (g : Option Nat) (hg : ∀ n, g = some n → n < GREASE_RANGE_END)
    (script : List Ev) (hsc : ScriptOK script) (hnr : NoReset script) (hfin : hasFin script = true)
    (hbytes : evBytes (upToFin script) = streamBytes m g) :
    deliver H role L script =
      { head := some out, body := m.pieces.flatten, cleanEnd := true, ends := 1,
        trailers := some (m.trailers.map mapOf), env := {} } :=
  deliver_streamBytes H role m h out L hwf hfit hhead g hg script hsc hnr hfin hbytes

/-- The one limit that remains is `http::HeaderMap`'s, and it is the same on both sides: fields with
    more than 24576 distinct names (`ns`) cannot be held by the sending application's own map
    (`Holdable` fails, whatever the order of its `append`s), and a section that carries them as
    regular fields is refused by the receiver's `Header::try_from` (a `HeaderError`:
    H3_MESSAGE_ERROR on the stream, no panic) — so no message the property speaks of is lost to it.
    (Before the repair of D-01 the receiver refused every section of more than 24576 *fields*.) -/
theorem C01_field_count_refused (H : Http) (ns : List (List Nat)) (hnd : ns.Nodup)
    (hlen : hmMaxEntries < ns.length) :
    (∀ l : List FieldLine, (∀ n ∈ ns, ∃ v, (n, v) ∈ l) → ¬ Holdable l) ∧
    (∀ fs : List FieldLine, (∀ n ∈ ns, ¬ H3.Spec.Headers.IsPseudo n ∧ ∃ v, (n, v) ∈ fs) →
      (∃ e, recvRequest H fs = .err e) ∧ (∃ e, recvResponse H fs = .err e) ∧
      (∃ e, recvTrailers H fs = .err e)) := by
  refine ⟨?_, fun fs hocc => (H3.Props.C12.C12_map_capacity H fs).2.2.2 ns hnd hlen hocc⟩
  intro l hocc hhold
  obtain ⟨_, hc⟩ := holdable_tight hhold
  have hsub : ∀ n ∈ ns, n ∈ (mapOf l).map (·.1) := by
    intro n hn
    obtain ⟨v, hv⟩ := hocc n hn
    apply Classical.byContradiction
    intro hnot
    have hg := hmGroup_foldl n l []
    rw [← mapOf_eq, hmGroup_nil_of_not_mem _ _ hnot] at hg
    have : v ∈ (l.filter (fun f => f.1 = n)).map (·.2) :=
      List.mem_map.mpr ⟨(n, v), by simp [List.mem_filter, hv], rfl⟩
    simp only [hmGroup, List.nil_append] at hg
    rw [← hg] at this
    cases this
  have := nodup_subset_length ns _ hnd hsub
  simp only [List.length_map] at this
  omega

/-- **Same method, scheme, authority and path; same values in the same per-name order.**  What
    `HeadOk` hands over, spelled out.  Requests: the method is the sender's; under the round-trip
    law `uri_parts` of the `http` crate the URI has the scheme the sender put in `:scheme` (the
    URI's own, `https` when it has none; none for a plain CONNECT), the authority the sender put in
    `:authority` (or `Host`), the path the sender put in `:path`; the `Protocol` is the sender's.
    Responses: the status is the sender's.  In both directions the header map is the map the
    application filled, and for every name its values are the submitted ones in the submitted
    order (repeated names included); the same holds for the trailers. -/
theorem C01_delivered_parts (H : Http) (R : HttpRoundTrip H) (role : Role) (m : Message) (out : HeadOut)
    (hhead : HeadOk H role m out) :
    (∀ p, out = .request p → ∃ method uri ext, m.head = .request method uri ext ∧
      p.method = method ∧
      p.uri.scheme = (Pseudo.request method uri ext).scheme ∧
      p.uri.authority = some (effAuthority uri.authority (hmGet (mapOf m.headers) nHost)) ∧
      p.uri.path = (Pseudo.request method uri ext).path ∧
      p.protocol = (Pseudo.request method uri ext).protocol ∧ p.headers = mapOf m.headers) ∧
    (∀ st hm, out = .response st hm → m.head = .response st ∧ hm = mapOf m.headers) ∧
    (∀ n, (hmIter (mapOf m.headers)).filter (fun f => f.1 = n) = m.headers.filter (fun f => f.1 = n)) ∧
    (∀ t n, m.trailers = some t →
      (hmIter (mapOf t)).filter (fun f => f.1 = n) = t.filter (fun f => f.1 = n)) := by
  refine ⟨?_, ?_, fun n => hmIter_mapOf_filter m.headers n, fun t n _ => hmIter_mapOf_filter t n⟩
  · intro p hp
    cases hhead with
    | request m method uri ext u hm hpb hb _ =>
      cases hp
      have hu := R.uri_parts _ _ _ _ hb
      refine ⟨method, uri, ext, hm, rfl, ?_, ?_, ?_, rfl, rfl⟩ <;> simp only [hu]
    | response m status hm h1 h2 => cases hp
  · intro st hmap hp
    cases hhead with
    | request m method uri ext u hm hpb hb _ => cases hp
    | response m status hm h1 h2 => cases hp; exact ⟨hm, rfl⟩

/-- the crate's own values satisfy `PseudoBack` for a request: from the round-trip laws, when the
    URI parts are values the crate's parsers produced (`∃ w, parse w = some v`) and — the caller's part
    since the D-12g fix: the crate's `Uri` accepts more than RFC 3986 — the target's scheme is an
    RFC 3986 scheme and its authority has at most one `@` and a numeric port (`hss`, `has`; that a
    `PathAndQuery` holds no `#` is a law of the crate, `HttpRoundTrip.path_print_no_fragment`) -/
theorem C01_pseudo_back_of_laws (H : Http) (L : HttpLaws H) (R : HttpRoundTrip H) (method : List Nat)
    (uri : UriParts) (ext : Option (List Nat)) (hm : validMethod method = true)
    (hs : ∀ s, (Pseudo.request method uri ext).scheme = some s → ∃ w, H.parseScheme w = some s)
    (ha : ∀ a, uri.authority = some a → ∃ w, H.parseAuthority w = some a)
    (hp : ∀ x, (Pseudo.request method uri ext).path = some x → ∃ w, H.parsePath w = some x)
    (hx : ∀ x, (Pseudo.request method uri ext).protocol = some x → parseProtocol x = some x)
    (hss : ∀ s, uri.scheme = some s → schemeSyntax s = true)
    (has : ∀ a, uri.authority = some a → authoritySyntax a = true) :
    PseudoBack H (Pseudo.request method uri ext) :=
  pseudoBack_of_laws H L R method uri ext hm hs ha hp hx hss has

/-- **The head survives the trip — from the laws of the `http` crate, not as a hypothesis.**  Let the
    head of `m` be made of values of the crate (`HeadValues`: a token as method; scheme, authority,
    path-and-query that the crate's own parsers produced; a `Protocol` h3 knows; `Host` values that
    agree; a status 100…999), and let the sender accept `m` (`headerOf m = ok`).  Under `HttpLaws`
    (C12) and `HttpRoundTrip` — parse-of-print is the identity for the crate's `Scheme`, `Authority`,
    `PathAndQuery`; scheme + authority + path always build, an authority alone builds (the
    authority-form target of a plain CONNECT); a built `Uri` has the parts it was built from —
    `HeadOk` holds, and what the receiving application is handed is `expectedHead m`: the same
    method, `:scheme` / `:authority` / `:path` as sent (`C01_delivered_parts`), the same `Protocol`,
    the header map the sender filled; resp. the same status. -/
theorem C01_head_survives (H : Http) (L : HttpLaws H) (R : HttpRoundTrip H) (role : Role) (m : Message)
    (h : Header) (hh : headerOf m = .ok h) (hv : HeadValues H role m) :
    HeadOk H role m (expectedHead m) :=
  headOk_of_values H L R role m h hh hv

/-! ## 4. end to end -/

/-- **`end_to_end`** (requests: `role = server`, the message head is a request; responses:
    `role = client`, the head is a status — `HeadValues` ties the two).  The sender submits `m` through
    awaited calls under ANY write-acceptance scripts; the transport carries what the sender's stream
    was handed, cut into ANY non-empty chunks, with `pend` anywhere, then FIN; the receiver follows
    the documented pattern.  Then the receiving application is handed the head `expectedHead m` (same
    method, scheme, authority, path / same status: `C01_delivered_parts`), the header values in the
    same per-name order, the identical body byte sequence, the same trailers, and exactly one clean
    end; no error is recorded on either side.  That the head survives is derived from the laws of
    the `http` crate (`C01_head_survives`); no hypothesis speaks about the receiver's parsers. -/
theorem C01_end_to_end (H : Http) (L' : HttpLaws H) (R : HttpRoundTrip H) (role : Role) (m : Message)
    (h : Header) (L : Nat) (hwf : WellFormed m h) (hfit : Fits m h L) (hv : HeadValues H role m)
    (g : Bool) (gN : Nat) (hg : gN < GREASE_RANGE_END) (scripts : List (List Nat))
    (haw : Awaited (freshStream g) (callsOf (framesOf m h) gN scripts))
    (script : List Ev) (hsc : ScriptOK script) (hnr : NoReset script) (hfin : hasFin script = true)
    (hbytes : evBytes (upToFin script) =
      (sendAll (freshStream g) (callsOf (framesOf m h) gN scripts)).log) :
    (sendAll (freshStream g) (callsOf (framesOf m h) gN scripts)).fin = true ∧
    deliver H role L script =
      { head := some (expectedHead m), body := m.pieces.flatten, cleanEnd := true, ends := 1,
        trailers := some (m.trailers.map mapOf), env := {} } := by
  obtain ⟨a, b, _⟩ := sendAll_message (framesOf m h) (frames_sendable m h hwf) g gN hg scripts haw
  refine ⟨b, ?_⟩
  have hb' : evBytes (upToFin script) = streamBytes m (if g then some gN else none) := by
    rw [hbytes, a, streamBytes, wire_eq m h hwf.header]
  refine deliver_streamBytes H role m h _ L hwf hfit (headOk_of_values H L' R role m h hwf.header hv) _ ?_
    script hsc hnr hfin hb'
  intro n hn
  cases g with
  | false => simp at hn
  | true => simp only [if_true, Option.some.injEq] at hn; subst hn; exact hg

/-! ## 5. interleavings -/

/-  Full statement of the design (`interleaving_irrelevant`): every interleaving of client task,
    server task, drivers and deliveries is equivalent to a sequential one.  What is proved:
    `C01_interleaving_irrelevant_partial` (the machines' projections and commutations),
    `C01_split_anywhere` (split streams) and `C01_end_to_end_interleaved` (the link to delivery: in ANY
    interleaving each receiver's digest is its own message).  What really remains, hence `_partial`:
    (1) of the connection driver only the error side is a component of the product
    (`H3.Iso.HEv.drive`: it closes the connection when it finds the error cell filled — which never
    happens in these runs); its other work — control stream, SETTINGS (here the parameters `L` /
    `applied`, write-once), GOAWAY and the closing flag (C08/C09), accepting streams (C04) — is
    modelled in those properties' machines, not in this product; (2) real tokio/Quinn scheduling is
    not modelled: the granularity is one poll of one task or one transport event, wakers are not
    modelled (a task that is `Pending` is polled again by the schedule, R-T). -/

/-- **`interleaving_irrelevant`.**
    (a) Send side, the connection machine of C14 (`H3.SendSide.step`: API calls of any stream,
    GOAWAY, grease stream, transport polls of any stream, in any order): the record — byte log,
    buffer in flight, FIN — of request stream `sid` after ANY run is the result of the steps that
    address `sid`, in their order; so two runs with the same steps for `sid` give it the same log,
    whatever else is interleaved.
    (b) Receive side with scripted transports (a delivery that arrives after a poll is a `pend` in the
    stream's script), any number of request streams sharing the connection error cell: for ANY
    schedule of polls of their calls, if each stream run alone answers no connection error, then in
    the interleaved run each stream gets exactly the answers, and ends in exactly the state, of its
    isolated run, and the cell is untouched; two polls of different streams commute.  (The link to
    delivery, with deliveries as events of the history, is `C01_end_to_end_interleaved`.)
    (c) One request stream, whole or split (`H3.E2E.Handle`): a step of the task that owns the send
    side and a poll of the task that owns the receive side commute — same answer, same state of the
    receive machine (buffer, decoder, `remaining_data`, remembered trailers, error cell, events to
    come), same state of the send machine (bytes taken, buffer in flight, FIN, grease flag); for the
    split itself see `C01_split_anywhere`. -/
theorem C01_interleaving_irrelevant_partial :
    (∀ (st : State) (steps : List Step) (sid : Nat) (s : Stream), sid % 4 = 0 →
      getStream st.streams sid = some s →
      getStream (run st steps).streams sid = some (runS s (steps.filterMap (proj sid)))) ∧
    (∀ (st : State) (steps steps' : List Step) (sid : Nat) (s : Stream), sid % 4 = 0 →
      getStream st.streams sid = some s → steps.filterMap (proj sid) = steps'.filterMap (proj sid) →
      getStream (run st steps).streams sid = getStream (run st steps').streams sid) ∧
    (∀ (H : Nat → Hdr) (σ : List (Nat × RCall)) (k : Conn),
      (∀ i, ∀ a ∈ (isolated (H i) k.cell (k.comps i) (callsFor σ i)).1, isErrConn a = false) →
      (∀ i, answersFor (Conn.run H k σ).1 i = (isolated (H i) k.cell (k.comps i) (callsFor σ i)).1 ∧
        (Conn.run H k σ).2.comps i = (isolated (H i) k.cell (k.comps i) (callsFor σ i)).2.2) ∧
      (Conn.run H k σ).2.cell = k.cell) ∧
    (∀ (H : Nat → Hdr) (k : Conn) (i j : Nat), i ≠ j → ∀ (ci cj : RCall),
      isErrConn (k.poll H i ci).1 = false → isErrConn (k.poll H j cj).1 = false →
      ((k.poll H i ci).2.poll H j cj).1 = (k.poll H j cj).1 ∧
      ((k.poll H j cj).2.poll H i ci).1 = (k.poll H i ci).1 ∧
      ((k.poll H i ci).2.poll H j cj).2.cell = ((k.poll H j cj).2.poll H i ci).2.cell ∧
      ∀ x, ((k.poll H i ci).2.poll H j cj).2.comps x = ((k.poll H j cj).2.poll H i ci).2.comps x) ∧
    (∀ (HL : Nat → Hdr) (h : Handle) (op : SOp) (call : RCall),
      ((h.sendOp op).recvPoll HL call).1 = (h.recvPoll HL call).1 ∧
      ((h.sendOp op).recvPoll HL call).2.rx = ((h.recvPoll HL call).2.sendOp op).rx ∧
      ((h.sendOp op).recvPoll HL call).2.tx = ((h.recvPoll HL call).2.sendOp op).tx ∧
      ((h.sendOp op).recvPoll HL call).2.rx = (h.recvPoll HL call).2.rx ∧
      ((h.sendOp op).recvPoll HL call).2.tx = op.apply h.tx) := by
  refine ⟨fun st steps sid s hs h => getStream_run steps st sid s hs h, ?_,
    fun H σ k hk => conn_run_projects H σ k hk,
    fun H k i j hij ci cj hi hj => conn_polls_commute H k i j hij ci cj hi hj, ?_⟩
  · intro st steps steps' sid s hs h heq
    rw [getStream_run steps st sid s hs h, getStream_run steps' st sid s hs h, heq]
  · intro HL h op call
    obtain ⟨a, b⟩ := send_recv_commute HL h op call
    refine ⟨a, b.rx, b.tx, ?_, ?_⟩
    · rw [b.rx, Handle.sendOp_rx]
    · rw [Handle.recvPoll_tx, Handle.sendOp_tx]

/-- (a) applied to a message: in ANY run of the sender's connection machine whose steps for
    stream `sid` are the awaited calls of `m` with their transport polls — other streams' calls and
    polls, GOAWAY, the grease stream interleaved at will — the stream's log is `wire m` (+ grease)
    and it is finished. -/
theorem C01_wire_of_send_in_any_run (m : Message) (h : Header) (hwf : WellFormed m h) (g : Bool)
    (gN : Nat) (hg : gN < GREASE_RANGE_END) (scripts : List (List Nat))
    (haw : Awaited (freshStream g) (callsOf (framesOf m h) gN scripts))
    (st : State) (sid : Nat) (hsid : sid % 4 = 0)
    (hfresh : getStream st.streams sid = some (freshStream g)) (steps : List Step)
    (hproj : steps.filterMap (proj sid) = opsOf (callsOf (framesOf m h) gN scripts)) :
    ∃ s, getStream (run st steps).streams sid = some s ∧
      s.log = streamBytes m (if g then some gN else none) ∧ s.fin = true := by
  obtain ⟨a, b, _⟩ := sendAll_message (framesOf m h) (frames_sendable m h hwf) g gN hg scripts haw
  refine ⟨_, getStream_run steps st sid _ hsid hfresh, ?_, ?_⟩
  · rw [hproj, ← sendAll_eq_runS, a, streamBytes, wire_eq m h hwf.header]
  · rw [hproj, ← sendAll_eq_runS, b]

/-- **(b) linked to delivery: `recvPattern` inside any schedule of single polls.**  The receive side
    of a connection as in (b) — any number of request streams sharing the error cell, scripted
    transports — under ANY schedule `σ` of single polls of single calls.  Every stream that is
    scheduled at all carries a well-formed message (`Carries`: fresh component; a script with the
    stream bytes of `m` in any non-empty chunks, `pend` anywhere, FIN; within the limit; the head
    survives) and the polls scheduled for it are the polls the documented pattern makes
    (`patternCalls`: each call polled again while it answers `Pending` and events are left — `await`
    taken apart into its single polls).  Then for every such stream, in the interleaved run, the
    answers it got — the `Pending` ones dropped — are exactly the answers of `recvPattern` on its own
    script: the head, pieces of data, one `Ok(None)`, the trailers or `None`; decoded
    (`deliver`), that is its own message; and the error cell is untouched.  No hypothesis about
    errors: that no stream answers a connection error follows from the messages being well-formed
    (`recvPattern_valid`), which discharges the hypothesis of `conn_run_projects`. -/
theorem C01_recv_of_wire_in_any_schedule (H : Http) (role : Role) (L : Nat) (σ : List (Nat × RCall))
    (k : Conn) (hcell : k.cell = none)
    (hσ : ∀ i, callsFor σ i = [] ∨ ∃ m h out g script, Carries H role L k σ i m h out g script) :
    (∀ i m h out g script, Carries H role L k σ i m h out g script →
      settled (answersFor (Conn.run (fun _ => hdrOf H role L) k σ).1 i) =
        traceAnswers (recvPattern role (hdrOf H role L) script) ∧
      deliver H role L script =
        { head := some out, body := m.pieces.flatten, cleanEnd := true, ends := 1,
          trailers := some (m.trailers.map mapOf), env := {} }) ∧
    (Conn.run (fun _ => hdrOf H role L) k σ).2.cell = none := by
  have hno : ∀ i, ∀ a ∈ (isolated (hdrOf H role L) k.cell (k.comps i) (callsFor σ i)).1, isErrConn a = false := by
    intro i a ha
    rcases hσ i with h0 | ⟨m, h, out, g, script, c⟩
    · rw [h0] at ha; cases ha
    · exact (c.isolated hcell).2 a ha
  obtain ⟨hall, hc⟩ := conn_run_projects (fun _ => hdrOf H role L) σ k hno
  refine ⟨?_, by rw [hc, hcell]⟩
  intro i m h out g script c
  refine ⟨?_, deliver_streamBytes H role m h out L c.wf c.fits c.head g c.grease script c.scriptOK c.noReset
    c.fin c.bytes⟩
  rw [(hall i).1]
  exact (c.isolated hcell).1

/-! ## 6. split streams -/

/-- **`split_anywhere`.**  `split()` is modelled (`Model/Split.lean`): it consumes the whole stream
    object and builds two — the receive half is handed the buffered chunks, the end-of-stream flag,
    the decoder's memo, `remaining_data`, the remembered trailers and the size limit; the send half
    the send side, and fresh receive fields.  Then:
    (a) the documented receive pattern (head call, `recv_data` until `None`, `recv_trailers`; every call
    awaited = polled again after `Pending`), for both roles, on a handle that the application splits
    just before its `k`-th call — ANY `k`: before the head call, between two `recv_data` calls in the
    middle of a DATA frame, after the body's end with the trailers put aside, or never — answers what
    the pattern answers on the unsplit stream and leaves the receive machine in the same state; the
    send side is not touched;
    (b) on a stream just opened that is `recvPattern` — so every theorem about `recvPattern` /
    `deliver` (`C01_recv_of_wire`, `C01_end_to_end`) holds verbatim with a split anywhere;
    (c) ANY interleaving of receive polls, send steps (calls and transport polls) and `split()`s: the
    receive polls are answered, and leave the receive machine, as if made alone on the stream as it
    was; the send side is what the send steps alone make of it — the two tasks of a split stream
    are independent, and so are the two uses of a whole one;
    (d) `split()` itself commutes with a receive poll and with a send step. -/
theorem C01_split_anywhere :
    (∀ (role : Role) (HL : Nat → Hdr) (k : Option Nat) (h : Handle),
      (recvPatternH role HL k h).1 = (recvPatternFrom role (HL h.maxSize) h.rx).1 ∧
      (recvPatternH role HL k h).2.rx = (recvPatternFrom role (HL h.maxSize) h.rx).2 ∧
      (recvPatternH role HL k h).2.tx = h.tx) ∧
    (∀ (role : Role) (HL : Nat → Hdr) (k : Option Nat) (script : List Ev) (L : Nat) (tx : Stream),
      (recvPatternH role HL k (.whole (Whole.fresh script L tx))).1 = recvPattern role (HL L) script) ∧
    (∀ (HL : Nat → Hdr) (acts : List Act) (h : Handle),
      (Handle.run HL h acts).1 = (pollsRun (HL h.maxSize) h.rx (acts.filterMap Act.recv?)).1 ∧
      (Handle.run HL h acts).2.rx = (pollsRun (HL h.maxSize) h.rx (acts.filterMap Act.recv?)).2 ∧
      (Handle.run HL h acts).2.tx = runS h.tx (acts.filterMap Act.send?)) ∧
    (∀ (HL : Nat → Hdr) (h : Handle) (call : RCall) (op : SOp),
      (h.split.recvPoll HL call).1 = (h.recvPoll HL call).1 ∧
      (h.split.recvPoll HL call).2.rx = (h.recvPoll HL call).2.split.rx ∧
      (h.split.recvPoll HL call).2.tx = (h.recvPoll HL call).2.split.tx ∧
      (h.split.sendOp op).rx = (h.sendOp op).split.rx ∧ (h.split.sendOp op).tx = (h.sendOp op).split.tx) := by
  refine ⟨?_, ?_, ?_, ?_⟩
  · intro role HL k h
    obtain ⟨a, b, _, d⟩ := recvPatternH_sim role HL k h
    exact ⟨a, b, d⟩
  · intro role HL k script L tx
    rw [(recvPatternH_sim role HL k _).1]
    exact recvPatternFrom_fresh role (HL L) script
  · intro HL acts h
    obtain ⟨a, b, _, d⟩ := Handle.run_projects HL acts h
    exact ⟨a, b, d⟩
  · intro HL h call op
    obtain ⟨a, b⟩ := split_recv_commute HL h call
    have c := split_send_commute h op
    exact ⟨a, b.rx, b.tx, c.rx, c.tx⟩

/-- `C01_recv_of_wire` with a `split()` anywhere: the receiving application splits its stream just
    before ANY of its calls (or never); what it is handed is the message all the same. -/
theorem C01_recv_of_wire_split (H : Http) (role : Role) (m : Message) (h : Header) (out : HeadOut)
    (L : Nat) (hwf : WellFormed m h) (hfit : Fits m h L) (hhead : HeadOk H role m out)
    (g : Option Nat) (hg : ∀ n, g = some n → n < GREASE_RANGE_END)
    (script : List Ev) (hsc : ScriptOK script) (hnr : NoReset script) (hfin : hasFin script = true)
    (hbytes : evBytes (upToFin script) = streamBytes m g) (k : Option Nat) (tx : Stream) :
    deliverOf H role L (recvPatternH role (hdrOf H role) k (.whole (Whole.fresh script L tx))).1 =
      { head := some out, body := m.pieces.flatten, cleanEnd := true, ends := 1,
        trailers := some (m.trailers.map mapOf), env := {} } := by
  rw [C01_split_anywhere.2.1 role (hdrOf H role) k script L tx]
  exact deliver_streamBytes H role m h out L hwf hfit hhead g hg script hsc hnr hfin hbytes

/-! ## 7. end to end, interleaved -/

/-- **`end_to_end_interleaved`.**  One connection, seen from both ends, run through ONE interleaved
    sequence `evs` of: steps of the sending endpoint's connection machine (C14: API calls and
    transport polls of any stream under any acceptance pattern, GOAWAY, the grease stream) and
    events of the receiving endpoint (C07's product: deliveries on, and polls of the calls of, any
    request stream; polls of its driver) — in ANY order.  `xs`: any number of exchanges
    (`Exchange.Ok`): a well-formed message within the receiver's limit, its head made of values of the
    `http` crate; among the sender's steps those of its stream are the awaited calls of the message
    with their transport polls (any acceptance scripts, R-14); the receiver's stream is delivered
    the bytes the sender's transport was handed, cut into non-empty chunks in ANY way, then FIN;
    the receiving application follows the documented pattern, every call polled again after
    `Pending`, its last poll after FIN; deliveries and polls interleaved at will with each other,
    with the other streams and with the sender's steps.  Every other stream of the receiver's
    history is such an exchange too, or at least is not told a connection-level error when run alone
    (any stream-scoped fault is allowed on it: C07).

    Then for EVERY exchange: the sender's stream has been handed exactly the stream bytes of its
    message and is finished; the receiving application's digest — ALL answers of ALL its polls, the
    `Pending` ones left out — is its own message: exactly one answer of the head call, the expected
    head (`expectedHead`: same method, scheme, authority, path, protocol / status, header values in
    per-name order); the body bytes handed out are the concatenation of the pieces sent; EXACTLY ONE
    `Ok(None)` among all `recv_data` answers (`ends = 1` is the count of `end_` in the digest), and it
    is the last; exactly one answer of `recv_trailers`, the trailers sent or `None`; h3 has reset and
    stopped nothing on the stream.  This is what `deliver` (the awaited `recvPattern`) reports for ANY
    scripted transport carrying the same bytes.  The error cell is empty and `close` was never called.

    No hypothesis about errors on the exchanges' streams (that they never write the error cell is
    proved: `healthy_quiet`), none about the receiver's parsers (`C01_head_survives`). -/
theorem C01_end_to_end_interleaved (H : Http) (L' : HttpLaws H) (R : HttpRoundTrip H) (role : Role)
    (L fuel : Nat) (xs : List Exchange) (st : State) (evs : List GEv)
    (hx : ∀ x ∈ xs, x.Ok H role L fuel st (sndOf evs) (rcvOf evs))
    (hothers : ∀ j ∈ Iso.sidsOf (rcvOf evs), (∃ x ∈ xs, x.sid = j) ∨
      ∀ o ∈ (Iso.Req.run (isoCfg H role L) none {} (Iso.proj j (rcvOf evs))).2.2, o.isConn = false) :
    (∀ x ∈ xs,
      (∃ s, getStream (grun (isoCfg H role L) st {} evs).1.streams x.sid = some s ∧
        s.log = streamBytes x.m (if x.g then some x.gN else none) ∧ s.fin = true) ∧
      deliveredOf H role L (Iso.digest (Iso.obsOf x.sid (grun (isoCfg H role L) st {} evs).2.2))
          (((grun (isoCfg H role L) st {} evs).2.1.get x.sid).rx.env) =
        { head := some (expectedHead x.m), body := x.m.pieces.flatten, cleanEnd := true, ends := 1,
          trailers := some (x.m.trailers.map mapOf), env := {} } ∧
      (Iso.digest (Iso.obsOf x.sid (grun (isoCfg H role L) st {} evs).2.2)).heads.length = 1 ∧
      (Iso.digest (Iso.obsOf x.sid (grun (isoCfg H role L) st {} evs).2.2)).trailers.length = 1 ∧
      (∀ script : List Ev, ScriptOK script → NoReset script → hasFin script = true →
        evBytes (upToFin script) = x.cs.flatten →
        deliver H role L script =
          deliveredOf H role L (Iso.digest (Iso.obsOf x.sid (grun (isoCfg H role L) st {} evs).2.2))
            (((grun (isoCfg H role L) st {} evs).2.1.get x.sid).rx.env))) ∧
    (grun (isoCfg H role L) st {} evs).2.1.cell = none ∧
    (grun (isoCfg H role L) st {} evs).2.1.closed = [] := by
  rw [grun_eq]
  simp only
  -- no stream of the history writes the cell
  have hq : Iso.QuietHist (isoCfg H role L) {} (rcvOf evs) := by
    intro i
    by_cases hi : i ∈ Iso.sidsOf (rcvOf evs)
    · rcases hothers i hi with ⟨x, hxm, rfl⟩ | ho
      · exact (hx x hxm).quiet L' R
      · exact Iso.quiet_of_no_connErr _ _ _ ho
    · rw [Iso.proj_nil_of_not_mem i _ hi]; trivial
  obtain ⟨hcell, hclosed, _⟩ := Iso.run_decomposes (isoCfg H role L) (rcvOf evs) {} rfl rfl hq
  refine ⟨fun x hxm => ?_, hcell, hclosed⟩
  have ok := hx x hxm
  obtain ⟨hd, h1, h2⟩ := ok.delivered_in L' R hq
  refine ⟨ok.sent, hd, h1, h2, ?_⟩
  intro script hsc hnr hfin hbytes
  rw [hd]
  obtain ⟨s, hs, hlog, _⟩ := ok.sent
  exact deliver_streamBytes H role x.m x.h _ L ok.wf ok.fits (ok.headOk L' R) _ ok.grease_ok script hsc hnr hfin
    (by rw [hbytes, ok.carried s hs, hlog])

/-! ## non-vacuity

A request with a repeated header name, a body handed over in two pieces (and an empty `send_data`
in between) and trailers; a response without body.  The `http` parameter is C12's `toy`. -/
section examples
open H3.Props.C12 (toy toy_laws GET aCom)

/-- `GET https://a.com/`, `x: 1`, `y: 2`, `x: 3`; body `01 02 03` · (empty) · `04 05`; trailers `z: 9` -/
def m₁ : Message :=
  { head := .request GET ⟨some sHttps, some aCom, some slash⟩ none
    headers := [([120], [49]), ([121], [50]), ([120], [51])]
    pieces := [[1, 2, 3], [], [4, 5]]
    trailers := some [([122], [57])] }

def h₁ : Header :=
  { pseudo := Pseudo.request GET ⟨some sHttps, some aCom, some slash⟩ none
    fields := [([120], [[49], [51]]), ([121], [[50]])] }

def out₁ : HeadOut :=
  .request { method := GET, uri := { scheme := some sHttps, authority := some aCom, path := some slash },
             protocol := none, headers := [([120], [[49], [51]]), ([121], [[50]])] }

def want₁ : Delivered :=
  { head := some out₁, body := [1, 2, 3, 4, 5], cleanEnd := true, ends := 1,
    trailers := some (some [([122], [[57]])]), env := {} }

/-- HEADERS(23 octets: `00 00`, `:method GET`, `:scheme https` static-indexed, three literals with
    static/literal names), DATA(3), DATA(0), DATA(2), HEADERS(6 octets) -/
example : wire m₁ =
    [1, 23, 0, 0, 209, 215, 80, 132, 26, 228, 61, 63, 193, 41, 243, 129, 15, 41, 243, 129, 103, 41, 245,
     129, 23, 0, 3, 1, 2, 3, 0, 0, 0, 2, 4, 5, 1, 6, 0, 0, 41, 247, 129, 127] := by decide +kernel

/-- one byte per chunk -/
example : deliver toy .server 1000 (chunked 1 (wire m₁)) = want₁ := by decide +kernel
/-- chunks cutting the HEADERS frame header, the field section, a DATA header and a payload; polls
    that find nothing before, between and after them -/
example : deliver toy .server 1000
    [.pend, .chunk ((wire m₁).take 1), .pend, .pend, .chunk (((wire m₁).drop 1).take 10),
     .chunk (((wire m₁).drop 11).take 17), .pend, .chunk ((wire m₁).drop 28), .pend, .fin] = want₁ := by
  decide +kernel
/-- the handle owed the grease frame (draw 5: type `0x40bc`): it follows the trailers and is skipped -/
example : deliver toy .server 1000 (chunked 7 (streamBytes m₁ (some 5))) = want₁ := by decide +kernel
/-- the receiver's limit is exact (C10): the head section has size 7·32 + 49 = 273; with a limit one
    less the request is refused and nothing is delivered (`classifyBlock` files `HeaderTooLong`
    under the stream-level refusals; its exact codes are C10's `recvSite`) -/
example : (deliver toy .server 272 (chunked 7 (wire m₁))).head = none ∧
    (deliver toy .server 272 (chunked 7 (wire m₁))).body = [] ∧
    (deliver toy .server 273 (chunked 7 (wire m₁))).head = some out₁ := by decide +kernel

/-- a response: 204 with one field, no body, no trailers -/
def m₂ : Message := { head := .response 204, headers := [([120], [49])], pieces := [], trailers := none }

example : deliver toy .client 1000 (chunked 2 (wire m₂)) =
    { head := some (.response 204 [([120], [[49]])]), body := [], cleanEnd := true, ends := 1,
      trailers := some none, env := {} } := by decide +kernel

/-- several identical `Host` values survive the trip, in order; differing ones do not: the sender
    (`Header::request` compares only the first one with the URI's authority) submits them, the
    receiving h3 refuses the request (D-12e: every `Host` value must be the authority) — the
    hypothesis of `HeadOk.request` on the submitted `Host` values cannot be dropped -/
def m₃ : Message :=
  { head := .request GET ⟨some sHttps, some aCom, some slash⟩ none
    headers := [(nHost, aCom), ([120], [49]), (nHost, aCom)]
    pieces := []
    trailers := none }
def m₄ : Message :=
  { head := .request GET ⟨some sHttps, some aCom, some slash⟩ none
    headers := [(nHost, aCom), ([120], [49]), (nHost, [98])]
    pieces := []
    trailers := none }

example : (deliver toy .server 1000 (chunked 3 (wire m₃))).head =
    some (.request { method := GET, uri := { scheme := some sHttps, authority := some aCom, path := some slash },
                     protocol := none, headers := [(nHost, [aCom, aCom]), ([120], [[49]])] }) := by decide +kernel
def h₄ : Header :=
  { pseudo := Pseudo.request GET ⟨some sHttps, some aCom, some slash⟩ none
    fields := [(nHost, [aCom, [98]]), ([120], [[49]])] }
example : headerOf m₄ = .ok h₄ ∧
    (deliver toy .server 1000 (chunked 3 (wire m₄))).head = none := by decide +kernel

/-- the sender: HEADERS trickles out one byte at a time with `Pending` in between, the rest in
    bigger bites; the log is `wire m₁` and the stream is finished -/
example : (sendAll (freshStream false) (callsOf (framesOf m₁ h₁) 0
      [[1, 0, 1, 0, 0, 2, 3, 100], [5, 5], [0, 2], [1, 1, 1, 1], [3, 3, 3], []])).log = wire m₁ ∧
    (sendAll (freshStream false) (callsOf (framesOf m₁ h₁) 0
      [[1, 0, 1, 0, 0, 2, 3, 100], [5, 5], [0, 2], [1, 1, 1, 1], [3, 3, 3], []])).fin = true := by
  decide +kernel

instance (f : FieldLine) : Decidable (RegularOk f) := by unfold RegularOk; infer_instance
instance (f : Qpack.Field) : Decidable (H3.Qpack.Lemmas.Encodable f) := by
  unfold H3.Qpack.Lemmas.Encodable; infer_instance
instance (l : List FieldLine) : Decidable (FieldsEncodable l) := by unfold FieldsEncodable; infer_instance
instance (l : List FieldLine) : Decidable (Holdable l) := by unfold Holdable; infer_instance

/-- any number of values under one name can be held (and is delivered): the limit is on names -/
example (k : Nat) : Holdable (List.replicate (k + 1) ([120], [49])) := by
  have key : ∀ (k : Nat) (vs : List (List Nat)),
      (fillFrom [([120], vs)] (List.replicate k ([120], [49]))).isSome = true := by
    intro k
    induction k with
    | zero => intro vs; rfl
    | succ k ih =>
      intro vs
      have h1 : ([([120], vs)] : HeaderMap).length < hmMaxEntries := by simp [hmMaxEntries]
      simp only [List.replicate_succ, fillFrom, hmTryAppend, if_pos h1, hmAppend, if_true]
      exact ih _
  have h0 : ([] : HeaderMap).length < hmMaxEntries := by decide
  simp only [Holdable, List.replicate_succ, fillFrom, hmTryAppend, if_pos h0, hmAppend]
  exact key k _

/-- the hypotheses of the theorems are satisfiable: `m₁` is well-formed, fits, its head survives -/
theorem wf₁ : WellFormed m₁ h₁ where
  header := by decide +kernel
  regular := by decide +kernel
  trailersRegular := by intro t ht; cases ht; decide +kernel
  holdable := by decide +kernel
  trailersHoldable := by intro t ht; cases ht; decide +kernel
  encodable := by decide +kernel
  trailersEncodable := by intro t ht; cases ht; decide +kernel
  pieces := by
    intro p hp
    simp only [m₁, List.mem_cons, List.mem_nil_iff, or_false] at hp
    rcases hp with rfl | rfl | rfl <;> exact ⟨by decide, by intro b hb; revert b; decide⟩
  blockLen := by decide +kernel
  trailerLen := by intro t ht; cases ht; decide +kernel

theorem fits₁ : Fits m₁ h₁ 273 where
  size := by decide +kernel
  trailerSize := by intro t ht; cases ht; decide +kernel

theorem headOk₁ : HeadOk toy .server m₁ out₁ := by
  refine HeadOk.request m₁ GET ⟨some sHttps, some aCom, some slash⟩ none _ rfl ?_ (by decide) (by decide)
  exact ⟨(by intro m h; cases h; decide), (by intro s h; cases h; decide),
    (by intro a h; cases h; decide), (by intro x h; cases h; decide), (by intro st h; cases h),
    (by intro x h; cases h), (by intro s h; cases h; decide), (by intro a h; cases h; decide),
    (by intro x h; cases h; decide)⟩

/-- the theorem applied: every script carrying `wire m₁` — here 5-byte chunks — delivers `want₁` -/
example : deliver toy .server 273 (chunked 5 (wire m₁)) = want₁ := by
  obtain ⟨a, b, c, d⟩ := chunked_spec 5 (wire m₁)
  exact C01_recv_of_wire toy .server m₁ h₁ out₁ 273 wf₁ fits₁ headOk₁ none (by intro n h; cases h)
    _ a b c (by rw [d]; simp [streamBytes, greaseBytes])

/-! ### the head from the laws; CONNECT -/

theorem toy_rt : HttpRoundTrip toy where
  scheme_print_parse := by
    intro w v h
    simp only [toy] at h ⊢
    split at h
    · rename_i hc; cases h; rw [if_pos hc]
    · cases h
  path_print_parse := by
    intro w v h
    simp only [toy] at h ⊢
    split at h
    · rename_i hc; cases h; rw [if_pos hc]
    · cases h
  path_print_no_fragment := by
    intro w v h
    simp only [toy] at h
    split at h
    · rename_i hc; cases h; simpa [pathSyntax] using hc.2
    · cases h
  uri_parts := by
    intro s a p u h
    simp only [toy] at h
    split at h
    · split at h
      · cases h; rfl
      · cases h
    · cases h
  uri_builds := by
    intro s a p _ ha _
    simp only [toy] at ha ⊢
    split at ha
    · rename_i hc; rw [if_pos hc]; rfl
    · cases ha
  uri_builds_authority := by
    intro a ha
    simp only [toy] at ha ⊢
    split at ha
    · rename_i hc; rw [if_pos hc]; rfl
    · cases ha

theorem values₁ : HeadValues toy .server m₁ :=
  HeadValues.request m₁ GET ⟨some sHttps, some aCom, some slash⟩ none rfl (by decide)
    (by intro s h; cases h; exact ⟨sHttps, by decide⟩) (by intro a h; cases h; exact ⟨aCom, by decide⟩)
    (by intro x h; cases h; exact ⟨slash, by decide⟩) (by intro x h; cases h) (by intro h; cases h) (by decide)
    (by intro s h; cases h <;> decide) (by intro a h; cases h <;> decide)

/-- `HeadOk` for `m₁` is a consequence of the laws; what arrives is `out₁` -/
example : HeadOk toy .server m₁ out₁ := C01_head_survives toy toy_laws toy_rt .server m₁ h₁ wf₁.header values₁

/-- a plain CONNECT: authority-form target `a.com:443`, neither `:scheme` nor `:path` on the wire; the
    receiving application is handed method, authority and nothing else of a URI -/
def aPort : List Nat := [97, 46, 99, 111, 109, 58, 52, 52, 51]
def m₅ : Message :=
  { head := .request mCONNECT ⟨none, some aPort, none⟩ none
    headers := [([120], [49])], pieces := [[9, 8], [7]], trailers := none }

example : expectedHead m₅ =
    .request { method := mCONNECT, uri := { scheme := none, authority := some aPort, path := none },
               protocol := none, headers := [([120], [[49]])] } := by decide +kernel

example : deliver toy .server 1000 (chunked 3 (wire m₅)) =
    { head := some (expectedHead m₅), body := [9, 8, 7], cleanEnd := true, ends := 1,
      trailers := some none, env := {} } := by decide +kernel

/-- ... and the hypotheses of `C01_head_survives` hold for it -/
example : HeadValues toy .server m₅ :=
  HeadValues.request m₅ mCONNECT ⟨none, some aPort, none⟩ none rfl (by decide)
    (by intro s h; cases h) (by intro a h; cases h; exact ⟨aPort, by decide⟩)
    (by intro x h; cases h) (by intro x h; cases h) (by intro h; cases h) (by decide)
    (by intro s h; cases h <;> decide) (by intro a h; cases h <;> decide)

/-! ### split() -/

/-- the transport delivers `wire m₁` so that the first DATA frame (`00 03 01 02 03`) is cut after its
    first payload byte; the application splits just before its 2nd call (`k = some 1`: after the
    head, before the first `recv_data`), its 3rd call (`some 2`: between two `recv_data` calls, one
    payload byte handed out, `remaining_data = 2`, the rest of the frame not yet arrived), its last
    call (`some 5`: after `recv_data` answered `None` and put the trailers aside) or never — the
    answers are the same, and what is decoded from them is `want₁` -/
def script₁ : List Ev :=
  [.chunk ((wire m₁).take 28), .pend, .chunk (((wire m₁).drop 28).take 3), .chunk ((wire m₁).drop 31), .pend, .fin]

example : ∀ k ∈ [none, some 1, some 2, some 3, some 5, some 6],
    (recvPatternH .server (hdrOf toy .server) k (.whole (Whole.fresh script₁ 1000 (freshStream false)))).1 =
      recvPattern .server (hdrOf toy .server 1000) script₁ ∧
    deliverOf toy .server 1000
      (recvPatternH .server (hdrOf toy .server) k (.whole (Whole.fresh script₁ 1000 (freshStream false)))).1 = want₁ := by
  decide +kernel

/-- the stream in the middle of that DATA frame: one payload byte handed out, two to come, one of
    them buffered -/
def mid₁ : Whole :=
  { fs := { buf := [[2]], remaining := 2 }, script := [.chunk [3, 0, 0], .fin], maxSize := 1000,
    tx := freshStream false }

/-- after `split()` the receive half goes on inside the payload ... -/
example : ((Handle.whole mid₁).split.recvPoll (hdrOf toy .server) .data).1 = .data [2] ∧
    ((Handle.whole mid₁).recvPoll (hdrOf toy .server) .data).1 = .data [2] := by decide +kernel

/-- ... which is a property of `Whole.split`, not of the shape of the records: a `split` that starts the
    receive half with `remaining_data = 0` (`FrameStream::new`, as in the seeded change) reads the
    payload byte `02` as a frame type and the call fails -/
example : (Handle.recvPoll (hdrOf toy .server) .data
      (.halves mid₁.split.1 { mid₁.split.2 with fs := { mid₁.split.2.fs with remaining := 0 } })).1 ≠ .data [2] := by
  decide +kernel

/-- the send half and the receive half at work in any order: three interleavings of the same send
    steps and the same receive polls around a `split()` -/
example :
    let acts₁ : List Act := [.recv .data, .split, .send (.data [7]), .send (.poll 2), .recv .data, .send (.poll 9)]
    let acts₂ : List Act := [.send (.data [7]), .recv .data, .send (.poll 2), .send (.poll 9), .recv .data, .split]
    let acts₃ : List Act := [.split, .send (.data [7]), .send (.poll 2), .send (.poll 9), .recv .data, .recv .data]
    let h₀ := Handle.whole mid₁
    (Handle.run (hdrOf toy .server) h₀ acts₁).1 = [.data [2], .data [3]] ∧
    (Handle.run (hdrOf toy .server) h₀ acts₂).1 = [.data [2], .data [3]] ∧
    (Handle.run (hdrOf toy .server) h₀ acts₃).1 = [.data [2], .data [3]] ∧
    (Handle.run (hdrOf toy .server) h₀ acts₁).2.tx.log = [0, 1, 7] ∧
    (Handle.run (hdrOf toy .server) h₀ acts₂).2.tx.log = [0, 1, 7] ∧
    (Handle.run (hdrOf toy .server) h₀ acts₃).2.tx.log = [0, 1, 7] := by decide +kernel

/-! ### two exchanges on one connection, everything interleaved -/

/-- two lists taken in turn -/
def zip2 {α : Type} : List α → List α → List α
  | [], b => b
  | a, [] => a
  | x :: a, y :: b => x :: y :: zip2 a b

def decAwaited : ∀ (s : Stream) (calls : List (SOp × List Nat)), Decidable (Awaited s calls)
  | _, [] => isTrue trivial
  | s, c :: r =>
    have := decAwaited (callS s c) r
    inferInstanceAs (Decidable (_ ∧ _))
instance (s : Stream) (calls : List (SOp × List Nat)) : Decidable (Awaited s calls) := decAwaited s calls

/-- the step of the connection machine that a step of stream `sid`'s program is -/
def stepOf (sid : Nat) : SOp → Step
  | .headers fs => .sendHeaders sid fs
  | .data b => .sendData sid b
  | .finish gN => .finish sid gN
  | .poll k => .poll sid k

/-- `w` in pieces of `k` bytes -/
def cut (k : Nat) : Nat → List Nat → List (List Nat)
  | 0, _ => []
  | _, [] => []
  | fuel+1, w => w.take (max k 1) :: cut k fuel (w.drop (max k 1))

/-- a task that is polled after every delivery on its stream: the call it polls is the one the
    documented pattern is at (`H3.Iso.APhase`), given what it has been answered so far -/
def sched (cfg : Iso.Cfg) (fuel : Nat) : Iso.APhase → Option Nat → Iso.Req → List Iso.Peer → List Iso.StreamEv
  | _, _, _, [] => []
  | .head, cell, r, p :: ps =>
    .peer p :: .call .head ::
      sched cfg fuel (Iso.APhase.after .head (Iso.Req.step cfg cell (r.deliver p) (.call .head)).2.2)
        (Iso.Req.step cfg cell (r.deliver p) (.call .head)).2.1
        (Iso.Req.step cfg cell (r.deliver p) (.call .head)).1 ps
  | .body, cell, r, p :: ps =>
    .peer p :: .call (.body fuel) ::
      sched cfg fuel (Iso.APhase.after .body (Iso.Req.step cfg cell (r.deliver p) (.call (.body fuel))).2.2)
        (Iso.Req.step cfg cell (r.deliver p) (.call (.body fuel))).2.1
        (Iso.Req.step cfg cell (r.deliver p) (.call (.body fuel))).1 ps
  | .done, cell, r, p :: ps => .peer p :: sched cfg fuel .done cell (r.deliver p) ps

/-- a second request: `POST`-less, one body byte, no trailers -/
def m₆ : Message :=
  { head := .request GET ⟨some sHttps, some aCom, some slash⟩ none
    headers := [([121], [50])], pieces := [[7]], trailers := none }
def h₆ : Header :=
  { pseudo := Pseudo.request GET ⟨some sHttps, some aCom, some slash⟩ none, fields := [([121], [[50]])] }

/-- stream 0: `m₁`, the handle owes the grease frame (draw 5), HEADERS trickles out byte by byte with
    `Pending`s in between, the transport cuts the stream into 5-byte chunks; stream 4: `m₆`, written
    at once, cut into 3-byte chunks -/
def x₀ : Exchange :=
  { sid := 0, m := m₁, h := h₁, g := true, gN := 5
    scripts := [[1, 0, 1, 0, 0, 2, 3, 100], [5, 5], [0, 2], [1, 1, 1, 1], [3, 3, 3], [2, 0, 100]]
    cs := cut 5 100 (streamBytes m₁ (some 5)) }
def x₄ : Exchange :=
  { sid := 4, m := m₆, h := h₆, g := false, gN := 0, scripts := [[100, 100], [100, 100], []]
    cs := cut 3 100 (streamBytes m₆ none) }

def st₀ : State :=
  { server := false, cfg := { grease := true, mfs := 0, wt := false, ec := false, dg := false, wts := 0 }
    streams := [(0, freshStream true), (4, freshStream false)]
    built := true, connGrease := false, greaseStreamFlag := false }

def cfg₀ : Iso.Cfg := isoCfg toy .server 1000

/-- the sender's steps: the two programs taken in turn, a GOAWAY in between -/
def steps₀ : List Step :=
  zip2 ((opsOf x₀.calls).map (stepOf 0)) (.goaway 0 :: (opsOf x₄.calls).map (stepOf 4))

/-- the receiver's history: each stream's task polled after each of its deliveries; the two streams
    taken in turn; driver polls at both ends -/
def hist₀ : List Iso.HEv :=
  .drive :: zip2 ((sched cfg₀ 100 .head none {} (x₀.cs.map Iso.Peer.chunk ++ [.fin])).map (.on 0))
    ((sched cfg₀ 100 .head none {} (x₄.cs.map Iso.Peer.chunk ++ [.fin])).map (.on 4)) ++ [.drive]

/-- both ends in one sequence, taken in turn: chunks are delivered while the sender is still writing
    other parts of the message -/
def evs₀ : List GEv := zip2 (steps₀.map .snd) (hist₀.map .rcv)

theorem wf₆ : WellFormed m₆ h₆ where
  header := by decide +kernel
  regular := by decide +kernel
  trailersRegular := by intro t ht; cases ht
  holdable := by decide +kernel
  trailersHoldable := by intro t ht; cases ht
  encodable := by decide +kernel
  trailersEncodable := by intro t ht; cases ht
  pieces := by
    intro p hp
    simp only [m₆, List.mem_cons, List.mem_nil_iff, or_false] at hp
    subst hp
    exact ⟨by decide, by intro b hb; revert b; decide⟩
  blockLen := by decide +kernel
  trailerLen := by intro t ht; cases ht

theorem values₆ : HeadValues toy .server m₆ :=
  HeadValues.request m₆ GET ⟨some sHttps, some aCom, some slash⟩ none rfl (by decide)
    (by intro s h; cases h; exact ⟨sHttps, by decide⟩) (by intro a h; cases h; exact ⟨aCom, by decide⟩)
    (by intro x h; cases h; exact ⟨slash, by decide⟩) (by intro x h; cases h) (by intro h; cases h) (by decide)
    (by intro s h; cases h <;> decide) (by intro a h; cases h <;> decide)

theorem ok₀ : x₀.Ok toy .server 1000 100 st₀ (sndOf evs₀) (rcvOf evs₀) where
  wf := wf₁
  fits := ⟨by decide +kernel, by intro t ht; cases ht; decide +kernel⟩
  values := values₁
  draw := by decide
  sid := by decide
  fresh := by decide +kernel
  awaited := by decide +kernel
  mine := by decide +kernel
  chunks := by decide +kernel
  carried := by
    intro s hs
    have h0 : getStream (SendSide.run st₀ (sndOf evs₀)).streams x₀.sid =
        some (runS (freshStream true) ((sndOf evs₀).filterMap (proj 0))) :=
      getStream_run _ st₀ 0 _ (by decide) (by decide +kernel)
    rw [h0] at hs
    cases hs
    decide +kernel
  delivered := by decide +kernel
  follows := by decide +kernel
  last := by decide +kernel
  bound := by decide +kernel

theorem ok₄ : x₄.Ok toy .server 1000 100 st₀ (sndOf evs₀) (rcvOf evs₀) where
  wf := wf₆
  fits := ⟨by decide +kernel, by intro t ht; cases ht⟩
  values := HeadValues.request m₆ GET ⟨some sHttps, some aCom, some slash⟩ none rfl (by decide)
    (by intro s h; cases h; exact ⟨sHttps, by decide⟩) (by intro a h; cases h; exact ⟨aCom, by decide⟩)
    (by intro x h; cases h; exact ⟨slash, by decide⟩) (by intro x h; cases h) (by intro h; cases h) (by decide)
    (by intro s h; cases h <;> decide) (by intro a h; cases h <;> decide)
  draw := by decide
  sid := by decide
  fresh := by decide +kernel
  awaited := by decide +kernel
  mine := by decide +kernel
  chunks := by decide +kernel
  carried := by
    intro s hs
    have h0 : getStream (SendSide.run st₀ (sndOf evs₀)).streams x₄.sid =
        some (runS (freshStream false) ((sndOf evs₀).filterMap (proj 4))) :=
      getStream_run _ st₀ 4 _ (by decide) (by decide +kernel)
    rw [h0] at hs
    cases hs
    decide +kernel
  delivered := by decide +kernel
  follows := by decide +kernel
  last := by decide +kernel
  bound := by decide +kernel

/-- the theorem applied to the two exchanges: the digest of stream 0 is `want₁`, stream 4 is handed
    its own message; the cell is empty, nothing was closed -/
example :
    deliveredOf toy .server 1000 (Iso.digest (Iso.obsOf 0 (grun cfg₀ st₀ {} evs₀).2.2))
      (((grun cfg₀ st₀ {} evs₀).2.1.get 0).rx.env) = want₁ ∧
    (deliveredOf toy .server 1000 (Iso.digest (Iso.obsOf 4 (grun cfg₀ st₀ {} evs₀).2.2))
      (((grun cfg₀ st₀ {} evs₀).2.1.get 4).rx.env)).body = [7] ∧
    (grun cfg₀ st₀ {} evs₀).2.1.cell = none ∧ (grun cfg₀ st₀ {} evs₀).2.1.closed = [] := by
  have h := C01_end_to_end_interleaved toy toy_laws toy_rt .server 1000 100 [x₀, x₄] st₀ evs₀
    (by
      intro x hx
      simp only [List.mem_cons, List.mem_nil_iff, or_false] at hx
      rcases hx with rfl | rfl
      · exact ok₀
      · exact ok₄)
    (by
      have hs : ∀ j ∈ Iso.sidsOf (rcvOf evs₀), j = 0 ∨ j = 4 := by decide +kernel
      intro j hj
      rcases hs j hj with rfl | rfl
      · exact Or.inl ⟨x₀, by simp, rfl⟩
      · exact Or.inl ⟨x₄, by simp, rfl⟩)
  refine ⟨(h.1 x₀ (by simp)).2.1.trans (by decide +kernel), ?_, h.2.1, h.2.2⟩
  have h4 : deliveredOf toy .server 1000 (Iso.digest (Iso.obsOf 4 (grun cfg₀ st₀ {} evs₀).2.2))
      (((grun cfg₀ st₀ {} evs₀).2.1.get 4).rx.env) = _ := (h.1 x₄ (by simp)).2.1
  rw [h4]
  decide +kernel

/-- the history is not a sequential one: the head call of stream 0 answers `Pending` four times
    before it answers (the HEADERS frame arrives in five chunks), the body task is polled seven times -/
def isPendingAns : Iso.Obs → Bool
  | .ans (.res .pending) => true
  | _ => false
def isBodyPoll : Iso.Obs → Bool
  | .body _ _ => true
  | _ => false
example : ((Iso.obsOf 0 (grun cfg₀ st₀ {} evs₀).2.2).filter isPendingAns).length = 4 ∧
    ((Iso.obsOf 0 (grun cfg₀ st₀ {} evs₀).2.2).filter isBodyPoll).length = 7 ∧ evs₀.length = 78 := by
  decide +kernel

/-! ### two streams polled call by call in one schedule -/


theorem scriptOK_of_all (sc : List Ev)
    (h : sc.all (fun e => match e with | .chunk b => !b.isEmpty | _ => true) = true) : ScriptOK sc := by
  intro b hb hne
  subst hne
  have := List.all_eq_true.mp h _ hb
  simp at this

theorem noReset_of_all (sc : List Ev)
    (h : sc.all (fun e => match e with | .reset _ => false | _ => true) = true) : NoReset sc := by
  intro c hc
  have := List.all_eq_true.mp h _ hc
  simp at this

/-- `wire m₆` in 3-byte chunks with polls that find nothing in between -/
def script₆ : List Ev :=
  [.pend, .chunk ((wire m₆).take 3), .pend, .chunk (((wire m₆).drop 3).take 3), .chunk ((wire m₆).drop 6), .pend, .fin]

def hd₀ : Hdr := hdrOf toy .server 1000

/-- the schedule: the single polls of the two streams' patterns, taken in turn -/
def σ₀ : List (Nat × RCall) :=
  zip2 ((patternCalls .server hd₀ { src := ({}, script₁) }).map (fun c => (0, c)))
    ((patternCalls .server hd₀ { src := ({}, script₆) }).map (fun c => (4, c)))

def k₀ : Conn :=
  { cell := none
    comps := fun i => if i = 0 then { src := ({}, script₁) } else if i = 4 then { src := ({}, script₆) }
      else { src := ({}, []) } }

theorem carries₀ : Carries toy .server 1000 k₀ σ₀ 0 m₁ h₁ out₁ none script₁ where
  wf := wf₁
  fits := ⟨by decide +kernel, by intro t ht; cases ht; decide +kernel⟩
  head := C01_head_survives toy toy_laws toy_rt .server m₁ h₁ wf₁.header values₁
  grease := by intro n h; cases h
  scriptOK := scriptOK_of_all _ (by decide +kernel)
  noReset := noReset_of_all _ (by decide +kernel)
  fin := by decide +kernel
  bytes := by decide +kernel
  comp := rfl
  calls := by decide +kernel

theorem carries₄ : Carries toy .server 1000 k₀ σ₀ 4 m₆ h₆ (expectedHead m₆) none script₆ where
  wf := wf₆
  fits := ⟨by decide +kernel, by intro t ht; cases ht⟩
  head := C01_head_survives toy toy_laws toy_rt .server m₆ h₆ wf₆.header values₆
  grease := by intro n h; cases h
  scriptOK := scriptOK_of_all _ (by decide +kernel)
  noReset := noReset_of_all _ (by decide +kernel)
  fin := by decide +kernel
  bytes := by decide +kernel
  comp := rfl
  calls := by decide +kernel

/-- `C01_recv_of_wire_in_any_schedule` applied: 12 single polls of two streams in turn; stream 0 is
    answered head, `01`, `02 03`, `04 05`, `None`, trailers; stream 4 is answered `Pending` twice (its
    script begins with a poll that finds nothing, and another follows the first chunk), then its
    head, `07`, `None`, no trailers -/
example :
    settled (answersFor (Conn.run (fun _ => hd₀) k₀ σ₀).1 0) =
      [.head (fieldSection h₁), .data [1], .data [2, 3], .data [4, 5], .end_, .trailers (trailerSection [([122], [57])])] ∧
    settled (answersFor (Conn.run (fun _ => hd₀) k₀ σ₀).1 4) =
      [.head (fieldSection h₆), .data [7], .end_, .noTrailers] ∧
    answersFor (Conn.run (fun _ => hd₀) k₀ σ₀).1 4 =
      [.pending, .pending, .head (fieldSection h₆), .data [7], .end_, .noTrailers] ∧ σ₀.length = 12 := by
  have hσ : ∀ i, callsFor σ₀ i = [] ∨ ∃ m h out g script, Carries toy .server 1000 k₀ σ₀ i m h out g script := by
    intro i
    by_cases h0 : i = 0
    · subst h0; exact Or.inr ⟨_, _, _, _, _, carries₀⟩
    · by_cases h4 : i = 4
      · subst h4; exact Or.inr ⟨_, _, _, _, _, carries₄⟩
      · left
        have hall : ∀ e ∈ σ₀, e.1 = 0 ∨ e.1 = 4 := by decide +kernel
        unfold callsFor
        rw [List.map_eq_nil_iff, List.filter_eq_nil_iff]
        intro e he
        rcases hall e he with h | h <;> simp [h, Ne.symm h0, Ne.symm h4]
  have h := (C01_recv_of_wire_in_any_schedule toy .server 1000 σ₀ k₀ rfl hσ).1 0 m₁ h₁ out₁ none script₁ carries₀
  have h' := (C01_recv_of_wire_in_any_schedule toy .server 1000 σ₀ k₀ rfl hσ).1 4 m₆ h₆ _ none script₆ carries₄
  exact ⟨h.1.trans (by decide +kernel), h'.1.trans (by decide +kernel), by decide +kernel, by decide +kernel⟩

end examples

end H3.Props.C01
