import H3.Model.ErrCell
import H3.Lemmas.ErrCell
import H3.Model.Setup
/-! # C05 — one connection error, seen everywhere, never lost between tasks

All theorems are about `run registerFirst (init todo) sched`: an ARBITRARY number of stream
handles (`todo` gives, per handle, the errors its successive calls raise), an ARBITRARY schedule
(`List TaskId`: every interleaving, at the granularity of single operations on the shared state,
of driver polls/calls with the handles' calls), proved by invariants over the step relation and
induction over the schedule.  `registerFirst = true` is the model of the source tree with the
fix for D-05 (`register` before `get`), `false` of the tree before it.

PARTIAL (stated in the evidence): `OnceLock` and `AtomicWaker` are taken with their documented
linearizable semantics; their internals and weak-memory effects are not modelled. -/
namespace H3.Props.C05
open H3.ErrCell

/-- The cell changes at most once; every value returned to any handle, by any call, at any
    later time, is the cell's (the caller sees `convert` of it); every error the driver returns
    is `convert cell` and equals `handled`; `handled`, once set, stays for ever. `sched` is the
    history up to an arbitrary point, `later` everything that happens afterwards. -/
theorem C05_first_error_wins (rf : Bool) (todo : List (List Err)) (sched later : List TaskId) :
    let s := run rf (init todo) sched
    let s' := run rf (init todo) (sched ++ later)
    (∀ e, s.cell = some e → s'.cell = some e) ∧
    (∀ h, s.handled = some h → s'.handled = some h) ∧
    (∀ t ∈ s'.tasks, (∀ r ∈ t.rets, s'.cell = some r) ∧ (∀ r, t.mid = some r → s'.cell = some r)) ∧
    (∀ h ∈ s'.drets, s'.handled = some h ∧ ∃ e, s'.cell = some e ∧ h = convert e) ∧
    (∀ e, s.cell = some e →
      (∀ t ∈ s'.tasks, ∀ r ∈ t.rets, r = e) ∧ (∀ h ∈ s'.drets, h = convert e) ∧
      (∀ h, s'.handled = some h → h = convert e)) := by
  intro s s'
  have hs : InvW s := invW_run (invW_init todo) rf sched
  have hs' : InvW s' := invW_run (invW_init todo) rf (sched ++ later)
  have hrun : s' = run rf s later := run_append rf (init todo) sched later
  have hcell : ∀ e, s.cell = some e → s'.cell = some e := fun e h => by
    rw [hrun]; exact cell_run h rf later
  refine ⟨hcell, ?_, hs'.tasks_cell, ?_, ?_⟩
  · intro h hh; rw [hrun]; exact handled_run hs hh rf later
  · intro h hm
    have hh := hs'.drets_handled h hm
    obtain ⟨e, hc, he, _⟩ := hs'.handled_cell h hh
    exact ⟨hh, e, hc, he⟩
  · intro e he
    have hc' := hcell e he
    refine ⟨?_, ?_, ?_⟩
    · intro t ht r hr
      have := (hs'.tasks_cell t ht).1 r hr
      rw [hc'] at this; exact (Option.some.inj this).symm
    · intro h hm
      obtain ⟨e', hc, hh, _⟩ := hs'.handled_cell h (hs'.drets_handled h hm)
      rw [hc'] at hc; cases hc; exact hh
    · intro h hh
      obtain ⟨e', hc, hh', _⟩ := hs'.handled_cell h hh
      rw [hc'] at hc; cases hc; exact hh'

example :
    let s := run true (init [[.internal 261 1], [.quic .timeout]])
      [.str 1, .drv .poll, .str 0, .drv .pce, .str 0, .str 1, .drv .pce]
    s.cell = some (.quic .timeout) ∧ s.handled = some .timeout ∧ s.drets = [.timeout] ∧
    s.tasks.map (·.rets) = [[.quic .timeout], [.quic .timeout]] := by decide

/-- *First* error: while the cell is empty no step but a raise changes it, and the first raise
    (a handle's store, or the driver detecting an error itself) installs exactly its own
    error. -/
theorem C05_first_raise_installs (rf : Bool) (s : State) (hc : s.cell = none) :
    (∀ i t e rest, s.tasks[i]? = some t → t.mid = none → t.todo = e :: rest →
      (step rf s (.str i)).cell = some e) ∧
    (∀ e, s.handled = none → (s.pc = .started ∨ s.pc = .armed) →
      let s' := step rf s (.drv (.det e))
      s'.cell = some e ∧ s'.handled = some (convert e) ∧ s'.drets = convert e :: s.drets ∧
      s'.closes = s.closes ++ (closeOf e).toList) ∧
    (∀ op, (∀ e, op ≠ .det e) → (∀ r, op ≠ .bidi r) → (step rf s (.drv op)).cell = none) := by
  refine ⟨?_, ?_, ?_⟩
  · intro i t e rest ht hm htodo
    simp [step, sstep, ht, hm, htodo, sset, hc]
  · intro e hn hp
    rcases hp with hp | hp <;> simp [step, dstep, hp, detect, hn, hc, observe]
  · intro op hop hop'
    cases op with
    | det e => exact absurd rfl (hop e)
    | bidi r => exact absurd rfl (hop' r)
    | shut =>
      simp only [step, dstep]; split
      · unfold checkErr; split
        · exact hc
        · simp [hc]
      · exact hc
    | poll => simp only [step, dstep]; split <;> simp_all
    | park => simp only [step, dstep]; split <;> simp_all
    | pce =>
      simp only [step, dstep]
      split
      · unfold pceFirst; split
        · exact hc
        · split
          · exact hc
          · simp [chk, hc]
      · unfold pceFirst; split
        · exact hc
        · split
          · exact hc
          · simp [chk, hc]
      · unfold pceSecond; split
        · simp [chk, hc]
        · exact hc
      · exact hc

example :
    (step true (run true (init [[.internal 261 1], [.quic .timeout]]) [.drv .poll]) (.str 1)).cell
      = some (.quic .timeout) := by decide

example :
    let s := run false (init [[.internal 261 1]])
      [.drv .poll, .drv .pce, .drv .pce, .drv (.det (.quic (.internal 3))), .str 0, .str 0]
    -- the driver's own detection came first: the handle's later raise reports the driver's error
    s.cell = some (.quic (.internal 3)) ∧ s.closes = [(258, 3)] ∧
    s.tasks.map (·.rets) = [[.quic (.internal 3)]] := by decide

/-- Once `handled` is set, every later call of the driver returns that error at once (it is
    never `Pending` again). -/
theorem C05_driver_reports_on_every_later_call (rf : Bool) (todo : List (List Err))
    (sched : List TaskId) (h : CErr) :
    let s := run rf (init todo) sched
    s.handled = some h → (s.pc = .started ∨ s.pc = .armed) →
    (∀ op, op = .pce ∨ (∃ e, op = .det e) →
      let s' := step rf s (.drv op)
      s'.drets = h :: s.drets ∧ s'.pc = .idle ∧ s'.closes = s.closes ∧ s'.cell = s.cell) := by
  intro s hh hp op hop
  rcases hop with rfl | ⟨e, rfl⟩ <;> rcases hp with hp | hp <;>
    simp [step, dstep, hp, pceFirst, detect, hh, retHandled]

example :
    let s := run true (init [[.quic .timeout]])
      [.str 0, .str 0, .drv .poll, .drv .pce, .drv .pce, .drv .poll, .drv .pce,
       .drv .poll, .drv (.det (.internal 257 2))]
    s.drets = [.timeout, .timeout, .timeout] ∧ s.closes = [] ∧ s.pc = .idle ∧
    s.cell = some (.quic .timeout) := by decide

/-- `close` is called at most once, only for a winner that was detected locally (an h3
    `InternalConnectionError`, closed with its own code, or an `InternalError` of the QUIC trait
    implementation, closed with H3_INTERNAL_ERROR), with exactly that code and reason — and it
    *is* called exactly then once the driver has seen the error; the call is never repeated or
    retracted later. -/
theorem C05_close_once_right_code (rf : Bool) (todo : List (List Err)) (sched later : List TaskId) :
    let s := run rf (init todo) sched
    let s' := run rf (init todo) (sched ++ later)
    s.closes.length ≤ 1 ∧
    (∀ c ∈ s.closes, ∃ e, s.cell = some e ∧ closeOf e = some c ∧ s.handled = some (convert e)) ∧
    (∀ h, s.handled = some h → ∃ e, s.cell = some e ∧ h = convert e ∧ s.closes = (closeOf e).toList) ∧
    (s.handled = none → s.closes = []) ∧
    (s.handled ≠ none → s'.closes = s.closes) ∧
    ((∀ code tag, closeOf (.internal code tag) = some (code, tag)) ∧
     (∀ tag, closeOf (.quic (.internal tag)) = some (H3.Gen.Consts.CODE_H3_INTERNAL_ERROR, tag)) ∧
     H3.Gen.Consts.CODE_H3_INTERNAL_ERROR = 0x0102 ∧
     (∀ code, closeOf (.quic (.appClose code)) = none) ∧ closeOf (.quic .timeout) = none ∧
     (∀ tag, closeOf (.quic (.undefined tag)) = none)) := by
  intro s s'
  have hs : InvW s := invW_run (invW_init todo) rf sched
  have hs' : InvW s' := invW_run (invW_init todo) rf (sched ++ later)
  have hrun : s' = run rf s later := run_append rf (init todo) sched later
  refine ⟨?_, ?_, hs.handled_cell, hs.handled_none, ?_, ?_⟩
  · cases hh : s.handled with
    | none => simp [hs.handled_none hh]
    | some h =>
      obtain ⟨e, _, _, hcl⟩ := hs.handled_cell h hh
      rw [hcl]; cases closeOf e <;> simp
  · intro c hc
    cases hh : s.handled with
    | none => rw [hs.handled_none hh] at hc; cases hc
    | some h =>
      obtain ⟨e, hce, he, hcl⟩ := hs.handled_cell h hh
      refine ⟨e, hce, ?_, by rw [he]⟩
      rw [hcl] at hc
      cases hco : closeOf e with
      | none => rw [hco] at hc; cases hc
      | some c' => rw [hco] at hc; simp at hc; rw [hc]
  · intro hne
    cases hh : s.handled with
    | none => exact absurd hh hne
    | some h =>
      obtain ⟨e, hce, _, hcl⟩ := hs.handled_cell h hh
      have hh' : s'.handled = some h := by rw [hrun]; exact handled_run hs hh rf later
      have hce' : s'.cell = some e := by rw [hrun]; exact cell_run hce rf later
      obtain ⟨e', hce'', _, hcl'⟩ := hs'.handled_cell h hh'
      rw [hce'] at hce''; cases hce''
      rw [hcl, hcl']
  · exact ⟨fun _ _ => rfl, fun _ => rfl, rfl, fun _ => rfl, rfl, fun _ => rfl⟩

example :
    let s := run true (init [[.quic (.internal 7)], [.internal 261 1]])
      [.drv .poll, .drv .pce, .drv .pce, .drv .park, .str 0, .str 1, .str 1, .str 0,
       .drv .poll, .drv .pce, .drv .pce, .drv .poll, .drv .pce, .drv (.det (.internal 262 9))]
    s.closes = [(258, 7)] ∧ s.handled = some (.remote (.internal 7)) ∧
    s.drets = [.remote (.internal 7), .remote (.internal 7)] := by decide

example :
    let s := run true (init [[.quic (.appClose 256)], [.internal 261 1]])
      [.str 0, .str 1, .drv .poll, .drv .pce, .drv .pce, .str 0, .str 1]
    s.closes = [] ∧ s.handled = some (.remote (.appClose 256)) := by decide

/-- No lost wake-up, for the order `register; get` (the source after the fix for D-05): in every
    reachable state in which every task is at a yield point (the driver is not inside a poll, no
    handle is between its store and its wake) and the cell is set, a parked driver has a
    notification pending (`woken`), i.e. an executor will poll it again — and such a poll
    returns the error (second part: from any reachable state with the cell set, a poll that runs
    one `poll_connection_error` call to completion, however the handles' steps `mid₁`, `mid₂`
    are interleaved with it, ends with the driver having reported the error). -/
theorem C05_no_lost_wakeup (todo : List (List Err)) (sched : List TaskId) :
    let s := run true (init todo) sched
    lostWakeup s = false ∧
    (quiescent s = true → s.cell ≠ none → s.parked = true → s.woken = true) ∧
    (s.parked = true → s.handled = none ∧ s.pc = .idle) ∧
    (∀ e, s.cell = some e → s.pc = .idle → ∀ mid₁ mid₂ : List Nat,
      let s' := run true s ([.drv .poll] ++ mid₁.map .str ++ [.drv .pce] ++ mid₂.map .str ++ [.drv .pce])
      s'.handled = some (convert e) ∧ s'.pc = .idle ∧ s'.parked = false ∧
      ∃ rest, s'.drets = convert e :: rest) := by
  intro s
  have hw : InvW s := invW_run (invW_init todo) true sched
  have ht : InvT s := invT_run (invT_init todo) sched
  have hl := invT_not_lost ht
  refine ⟨hl, ?_, ?_, ?_⟩
  · intro hq hc hp
    cases hwk : s.woken with
    | true => rfl
    | false =>
      have hcs : s.cell.isSome = true := by cases h : s.cell <;> simp_all
      simp [lostWakeup, hq, hcs, hp, hwk] at hl
  · intro hp
    have hidle := ht.parked_idle hp
    refine ⟨?_, hidle⟩
    -- a parked driver has not handled an error: `park` is only reachable from `armed`
    exact ((invP_run (invW_init todo) (invP_init todo) true sched) hp).2
  · intro e hc hidle mid₁ mid₂
    exact poll_reports hw hc hidle mid₁ mid₂

example :
    let s := run true (init [[.internal 261 1]])
      [.drv .poll, .drv .pce, .str 0, .str 0, .drv .pce, .drv .park]
    -- the D-05 interleaving on the fixed order: the check comes after the store, the driver
    -- reports the error instead of parking
    s.handled = some (.localApp 261 1) ∧ s.parked = false ∧ s.closes = [(261, 1)] := by decide

example :
    let s := run true (init [[.internal 261 1]])
      [.drv .poll, .drv .pce, .drv .pce, .drv .park, .str 0, .str 0]
    -- parked first, error afterwards: the wake finds the registered waker
    quiescent s = true ∧ s.parked = true ∧ s.cell ≠ none ∧ s.woken = true := by decide

/-- For the order `get; register` (the source before the fix, D-05) the property is false: after
    the poll has started, the five steps  check (empty) · store · wake (no waker registered) ·
    register · return `Pending`  leave every task at a yield point, the cell set, the driver
    parked and nothing to wake it. -/
theorem C05_lost_wakeup_witness :
    let s := run false (init [[.internal 261 1]])
      [.drv .poll, .drv .pce, .str 0, .str 0, .drv .pce, .drv .park]
    lostWakeup s = true ∧ quiescent s = true ∧ s.cell = some (.internal 261 1) ∧
    s.parked = true ∧ s.woken = false ∧ s.handled = none ∧ s.closes = [] ∧ s.drets = [] ∧
    s.tasks.map (·.rets) = [[.internal 261 1]] := by decide

/-! ## the client's driver: the tail of `poll_close` -/

/-- **The end of a poll of client `poll_close` / `wait_idle`.**  Its last act is
    `if poll_accept_bi(cx).is_ready() { return handle_connection_error(H3_STREAM_CREATION_ERROR) }`,
    and `poll_accept_bi` is also `Ready` when the transport failed (it has then raised the transport's
    error itself) — `DOp.bidi r`, `clientTail`.  In every reachable state (any handles, errors,
    schedule, either order of register/check) in which the driver is inside a poll, that step ends
    the poll (never parked) with the connection's single error `w`: the error already in the cell if
    there is one — whoever stored it, a handle between the driver's last check and this point
    included: neither the transport's error nor H3_STREAM_CREATION_ERROR replaces it —, otherwise
    the transport's error, otherwise H3_STREAM_CREATION_ERROR; the call returns `convert w`,
    `handled` is that, and the close calls are exactly `closeOf w` (so at most one, with the
    winner's code, none for an error of the peer/transport); an error handled before stays and
    nothing more is closed. -/
theorem C05_client_poll_close_tail (rf : Bool) (todo : List (List Err)) (sched : List TaskId)
    (r : Option QErr) :
    let s := run rf (init todo) sched
    let s' := step rf s (.drv (.bidi r))
    (s.pc = .started ∨ s.pc = .armed) →
    s'.pc = .idle ∧ s'.parked = false ∧
    ∃ w, s'.cell = some w ∧ s'.handled = some (convert w) ∧ s'.closes = (closeOf w).toList ∧
      (∃ rest, s'.drets = convert w :: rest) ∧
      (∀ e, s.cell = some e → w = e) ∧
      (s.cell = none → w = match r with | some q => .quic q | none => clientBidiErr) ∧
      (∀ h, s.handled = some h → h = convert w ∧ s'.closes = s.closes) := by
  intro s s' hp
  have hw : InvW s := invW_run (invW_init todo) rf sched
  have hP : InvP s := invP_run (invW_init todo) (invP_init todo) rf sched
  have hw' : InvW s' := invW_step hw rf _
  have hs' : s' = clientTail s r := by
    show step rf s (.drv (.bidi r)) = _
    rcases hp with hp | hp <;> simp [step, dstep, hp]
  have hnp : s.parked = false := not_parked_of_pc hP (by rcases hp with hp | hp <;> rw [hp] <;> simp)
  have hidle := clientTail_idle s r
  -- the last `handle_connection_error` leaves `handled` set and returns it
  have hret : ∀ (u : State) (e : Err), ∃ h, (detect u e).handled = some h ∧
      ∃ rest, (detect u e).drets = h :: rest := by
    intro u e
    unfold detect
    split
    · rename_i h hh; exact ⟨h, hh, u.drets, rfl⟩
    · exact ⟨_, rfl, u.drets, rfl⟩
  have hh' : ∃ h, s'.handled = some h ∧ ∃ rest, s'.drets = h :: rest := by
    rw [hs']; unfold clientTail; exact hret _ _
  obtain ⟨h, hh, rest, hd⟩ := hh'
  obtain ⟨w, hcw, hhw, hclw⟩ := hw'.handled_cell h hh
  refine ⟨by rw [hs']; exact hidle.1, by rw [hs', hidle.2]; exact hnp, w, hcw, by rw [hh, hhw], hclw,
    ⟨rest, by rw [hd, hhw]⟩, ?_, ?_, ?_⟩
  · intro e he
    have := cell_step he rf (.drv (.bidi r))
    change s'.cell = some e at this
    rw [hcw] at this; exact Option.some.inj this
  · intro hn
    have hhn : s.handled = none := by
      cases hx : s.handled with
      | none => rfl
      | some h0 => obtain ⟨e0, hc0, _⟩ := hw.handled_cell h0 hx; rw [hn] at hc0; cases hc0
    rw [hs'] at hcw
    cases r with
    | none =>
      simp [clientTail, detect, hhn, hn, observe] at hcw
      exact hcw.symm
    | some q =>
      simp [clientTail, detect, hhn, hn, observe, retHandled] at hcw
      exact hcw.symm
  · intro h0 hh0
    obtain ⟨e0, hc0, hhe0, hcl0⟩ := hw.handled_cell h0 hh0
    have hc0' := cell_step hc0 rf (.drv (.bidi r))
    change s'.cell = some e0 at hc0'
    rw [hcw] at hc0'; cases hc0'
    exact ⟨hhe0, by rw [hclw, hcl0]⟩

-- a handle stores its error after the driver's last check of the poll and before the client is
-- handed a server-initiated stream: the handle's error is the outcome, closed with ITS code
example :
    let s := run true (init [[.internal 261 1]])
      [.drv .poll, .drv .pce, .drv .pce, .str 0, .drv (.bidi none), .str 0, .drv .poll, .drv .pce]
    s.cell = some (.internal 261 1) ∧ s.closes = [(261, 1)] ∧
    s.drets = [.localApp 261 1, .localApp 261 1] ∧ s.tasks.map (·.rets) = [[.internal 261 1]] := by decide
-- nothing before: the transport's error wins over the H3_STREAM_CREATION_ERROR raised behind it
-- (two `handle_connection_error` calls, one outcome, no close for a peer's close); a stream: 0x0103
example :
    let s := run true (init [[]]) [.drv .poll, .drv .pce, .drv .pce, .drv (.bidi (some (.appClose 256)))]
    s.cell = some (.quic (.appClose 256)) ∧ s.closes = [] ∧
    s.drets = [.remote (.appClose 256), .remote (.appClose 256)] := by decide
example :
    let s := run true (init [[]]) [.drv .poll, .drv .pce, .drv .pce, .drv (.bidi none)]
    s.cell = some (.internal 259 0) ∧ s.closes = [(259, 0)] ∧ s.drets = [.localApp 259 0] := by decide

/-! ## the application drops the driver (reading R-05) -/

/-- **`Drop` never touches the first close call.**  `Drop for server::Connection` calls
    `close(H3_NO_ERROR)` unconditionally (`H3.Setup.dropConn`).  The property's "the QUIC connection
    is closed with exactly that error's code" speaks about the call that closes the connection, the
    first one (reading R-05: a `close` on a closed QUIC connection changes nothing the peer sees).
    Whatever the driver's error state: the drop appends at most one call (H3_NO_ERROR = 0x0100, server
    only — the client's driver has no `Drop`) and leaves `handled` alone; a first close call there
    was stays the first; and once the driver has acted on an error `e` (`raise` on a driver that had
    none), the calls are `closeCode e` followed by the drop's — so for an error detected locally the
    first call, the one that closes the connection, carries exactly that error's code, and for an
    error of the peer / the transport the drop's call is the only one. -/
theorem C05_drop_keeps_first_close (server : Bool) (d : H3.Setup.Drv) :
    (H3.Setup.dropConn server d).closes = d.closes ++ (if server then [0x0100] else []) ∧
    (H3.Setup.dropConn server d).handled = d.handled ∧
    (∀ c, d.closes.head? = some c → (H3.Setup.dropConn server d).closes.head? = some c) ∧
    (∀ e, d.handled = none → d.closes = [] →
      (H3.Setup.dropConn server (H3.Setup.raise d e).1).closes
        = H3.Setup.closeCode e ++ (if server then [0x0100] else []) ∧
      (∀ c t, closeOf e = some (c, t) →
        (H3.Setup.dropConn server (H3.Setup.raise d e).1).closes.head? = some c)) := by
  refine ⟨?_, ?_, ?_, ?_⟩
  · cases server <;> simp [H3.Setup.dropConn, H3.Gen.Consts.CODE_H3_NO_ERROR]
  · cases server <;> simp [H3.Setup.dropConn]
  · intro c hc
    cases hcl : d.closes with
    | nil => rw [hcl] at hc; cases hc
    | cons a r => rw [hcl] at hc; cases server <;> simp_all [H3.Setup.dropConn]
  · intro e hn hcl
    refine ⟨?_, ?_⟩
    · cases server <;> simp [H3.Setup.dropConn, H3.Setup.raise, hn, hcl, H3.Gen.Consts.CODE_H3_NO_ERROR]
    · intro c t hce
      cases server <;> simp [H3.Setup.dropConn, H3.Setup.raise, hn, hcl, H3.Setup.closeCode, hce]

-- the witness of R-05 on the model: H3_FRAME_UNEXPECTED handled, then the server object is dropped:
-- `closed=[261,256]`; a peer's close, then the drop: `[256]`; a client: nothing added
example : (H3.Setup.dropConn true (H3.Setup.raise {} (.internal 261 0)).1).closes = [261, 256] ∧
    (H3.Setup.dropConn true (H3.Setup.raise {} (.quic (.appClose 256))).1).closes = [256] ∧
    (H3.Setup.dropConn false (H3.Setup.raise {} (.internal 259 0)).1).closes = [259] := by decide

/-! ## `shutdown` (D-05s, repaired): the driver's remaining entry point reports the error too -/

/-- **`shutdown` reports the connection's error.**  `ConnectionInner::shutdown` starts with
    `check_connection_error` (`H3.Setup.checkError`).  In every state the system can reach — any
    number of handles, any errors, any schedule — with the cell holding `e` (whoever stored it: the
    driver or a request handle on another task, handled by the driver already or not):
    the check answers `convert e`, the error every other call reports; afterwards `handled` is
    that error, the cell is unchanged, and the close calls are exactly `closeOf e` — one call with
    the error's code if it was detected locally, none otherwise, never a second one.  With the
    cell empty the check answers nothing and changes nothing. -/
theorem C05_shutdown_reports_error (rf : Bool) (todo : List (List Err)) (sched : List TaskId) :
    let s := run rf (init todo) sched
    (∀ e, s.cell = some e →
      (H3.Setup.checkError s).2 = some (convert e) ∧
      (H3.Setup.checkError s).1.handled = some (convert e) ∧
      (H3.Setup.checkError s).1.closes = (closeOf e).toList ∧
      (H3.Setup.checkError s).1.cell = some e) ∧
    (s.cell = none → H3.Setup.checkError s = (s, none)) := by
  intro s
  have hs : InvW s := invW_run (invW_init todo) rf sched
  refine ⟨fun e hc => ?_, fun hc => ?_⟩
  · cases hh : s.handled with
    | some h =>
      obtain ⟨e', hc', hh', hcl⟩ := hs.handled_cell h hh
      rw [hc] at hc'; cases hc'
      simp [H3.Setup.checkError, hh, hh', hcl, hc]
    | none =>
      simp [H3.Setup.checkError, hh, hc, hs.handled_none hh]
  · cases hh : s.handled with
    | some h =>
      obtain ⟨e', hc', _, _⟩ := hs.handled_cell h hh
      rw [hc] at hc'; cases hc'
    | none => simp [H3.Setup.checkError, hh, hc]

/-- **The executable `shutdown` step is that check.**  `DOp.shut` — the label `D.shut` of engine
    `cell`, where the harness calls the real `shutdown()` (modes `acc`/`clo`/`idl`) resp. the real
    `check_connection_error` (mode `pce`) — changes the shared state exactly as `H3.Setup.checkError`
    says, in *every* state in which the driver is not inside a poll (reachable or not): same cell,
    same `handled`, same close calls, the answer is what the call returns, nothing else that other
    tasks can see (tasks, waker, notification) is touched.  So `C05_shutdown_reports_error` is a
    statement about the step the correspondence run executes. -/
theorem C05_shutdown_step_is_the_check (rf : Bool) (s : State) (hp : s.pc = .idle) :
    let s' := step rf s (.drv .shut)
    s'.cell = (H3.Setup.checkError s).1.cell ∧ s'.handled = (H3.Setup.checkError s).1.handled ∧
    s'.closes = (H3.Setup.checkError s).1.closes ∧
    s'.drets = (H3.Setup.checkError s).2.toList ++ s.drets ∧
    s'.tasks = s.tasks ∧ s'.waker = s.waker ∧ s'.woken = s.woken ∧ s'.pc = .idle ∧
    ((H3.Setup.checkError s).2 = none → s' = s) := by
  simp only [step, dstep, hp, checkErr, H3.Setup.checkError]
  cases hh : s.handled with
  | some h => simp [retHandled]
  | none =>
    cases hc : s.cell with
    | some e => simp [observe, hc]
    | none => simp [hp]

/-- a driver that shares the error state with nobody: no handle exists, so whatever is in the cell
    was put there by the driver itself and has been handled -/
theorem cell_handled_alone (rf : Bool) (sched : List TaskId) :
    let s := run rf (init []) sched
    s.tasks = [] ∧ (s.cell = none ∨ s.handled ≠ none) := by
  suffices h : ∀ s : State, (s.tasks = [] ∧ (s.cell = none ∨ s.handled ≠ none)) →
      ∀ l, ((step rf s l).tasks = [] ∧ ((step rf s l).cell = none ∨ (step rf s l).handled ≠ none)) by
    intro s
    have : ∀ (sched : List TaskId) (s0 : State), (s0.tasks = [] ∧ (s0.cell = none ∨ s0.handled ≠ none)) →
        ((run rf s0 sched).tasks = [] ∧ ((run rf s0 sched).cell = none ∨ (run rf s0 sched).handled ≠ none)) := by
      intro sched
      induction sched with
      | nil => intro s0 h0; exact h0
      | cons l ls ih => intro s0 h0; exact ih _ (h s0 h0 l)
    exact this sched (init []) ⟨rfl, Or.inl rfl⟩
  intro s ⟨ht, hch⟩ l
  cases l with
  | str i => simp [step, sstep, ht]; exact hch
  | drv op =>
    cases op with
    | poll => simp only [step, dstep]; split <;> simp_all
    | park => simp only [step, dstep]; split <;> simp_all
    | det e =>
      simp only [step, dstep]
      split <;> first | exact ⟨ht, hch⟩ | (unfold detect; split <;> simp_all [retHandled, observe])
    | bidi r =>
      simp only [step, dstep]
      split <;> first | exact ⟨ht, hch⟩ |
        (unfold clientTail; cases r <;> simp only [] <;> unfold detect <;>
          (repeat' split) <;> simp_all [retHandled, observe])
    | shut =>
      simp only [step, dstep]
      split <;> first | exact ⟨ht, hch⟩ | (unfold checkErr; (repeat' split) <;> simp_all [retHandled, observe])
    | pce =>
      simp only [step, dstep]
      split <;> first | exact ⟨ht, hch⟩ |
        (unfold pceFirst; (repeat' split) <;> simp_all [retHandled, observe, reg, chk] <;> (repeat' split) <;> simp_all) |
        (unfold pceSecond; (repeat' split) <;> simp_all [retHandled, observe, reg, chk] <;> (repeat' split) <;> simp_all)

/-- **`shutdownPlan` (engine `flt5`) decides with the same check.**  The whole-connection model of
    `flt` / `flt5` keeps only the driver's part of the error state (`H3.Setup.Drv`: `handled`, close
    codes) and lets `shutdownPlan` look at `handled` alone.  That is `check_connection_error` on every
    state such a connection can reach: with no request handle on the shared state (any driver calls,
    any detections, either order) the cell is empty or handled, so the plan made from the shared
    state's check (`shutdownPlanShared`: cell AND handled — what engine `hnd5` uses, where real
    request handles write the cell) is the plan made from `handled`. -/
theorem C05_shutdownPlan_is_the_check (rf : Bool) (sched : List TaskId) (keeps : Bool) :
    let s := run rf (init []) sched
    H3.Setup.shutdownPlanShared s keeps =
      H3.Setup.shutdownPlan { handled := s.handled, closes := s.closes.map (·.1) } keeps := by
  intro s
  have h := (cell_handled_alone rf sched).2
  simp only [H3.Setup.shutdownPlanShared, H3.Setup.shutdownPlan, H3.Setup.checkError]
  cases hh : s.handled with
  | some x => rfl
  | none =>
    rcases h with h | h
    · have hc : s.cell = none := h
      simp [hc]
    · exact absurd hh h

-- a handle has stored, the driver has not looked: the shared check reports, `handled` alone would not
example :
    let s := run true (init [[.internal 261 1]]) [.str 0, .str 0]
    H3.Setup.shutdownPlanShared s false = .report (.localApp 261 1) ∧
    H3.Setup.shutdownPlan { handled := s.handled, closes := [] } false = .write ∧
    (step true s (.drv .shut)).drets = [.localApp 261 1] ∧ (step true s (.drv .shut)).closes = [(261, 1)] := by
  decide

/-- **… and then does nothing else.**  Once the driver has handled an error `h`, `shutdown` answers
    `h` whatever GOAWAY was or was not sent before and whatever the transport would answer: it
    decides `report h` before it looks at `sent_closing` or touches the control stream — no GOAWAY
    is written to a connection that has failed, no further close call is made.  Without an error:
    `Ok(())` at once if an identifier that is not larger was announced before, else the write. -/
theorem C05_shutdown_after_error_writes_nothing (d : H3.Setup.Drv) (h : CErr) (keeps : Bool)
    (w : Option H3.Setup.SErr) (hd : d.handled = some h) :
    H3.Setup.shutdownPlan d keeps = .report h ∧ H3.Setup.shutdownEntry d keeps w = (d, some h) ∧
    (∀ d' : H3.Setup.Drv, d'.handled = none →
      H3.Setup.shutdownPlan d' true = .nothing ∧ H3.Setup.shutdownPlan d' false = .write) := by
  refine ⟨by simp [H3.Setup.shutdownPlan, H3.Setup.shutdownPlanOf, hd],
    by simp [H3.Setup.shutdownEntry, H3.Setup.shutdownPlan, H3.Setup.shutdownPlanOf, hd], ?_⟩
  intro d' hd'
  simp [H3.Setup.shutdownPlan, H3.Setup.shutdownPlanOf, hd']

-- the D-05s witnesses on the models, now reporting the error: a handle stored a timeout, `accept`
-- has not looked yet — `shutdown` reports it (nothing to close); h3 closed with H3_FRAME_UNEXPECTED
-- — `shutdown` answers that error, before and after a GOAWAY was announced
example :
    let s := run true (init [[.quic .timeout]]) [.str 0, .str 0]
    (H3.Setup.checkError s).2 = some .timeout ∧ (H3.Setup.checkError s).1.closes = [] := by decide
example :
    let s := run true (init [[.internal 261 1]]) [.drv .poll, .drv .pce, .str 0, .str 0, .drv .pce]
    (H3.Setup.checkError s).2 = some (.localApp 261 1) ∧ (H3.Setup.checkError s).1.closes = [(261, 1)] := by decide
example : H3.Setup.shutdownEntry { handled := some (.localApp 0x0105 0), closes := [0x0105] } false none =
    ({ handled := some (.localApp 0x0105 0), closes := [0x0105] }, some (.localApp 0x0105 0)) ∧
    H3.Setup.shutdownEntry { handled := some .timeout } true none = ({ handled := some .timeout }, some .timeout) := by
  decide

end H3.Props.C05
