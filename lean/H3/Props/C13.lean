import H3.Model.Settings
import H3.Model.Config
import H3.Spec.Settings
import H3.Lemmas.Settings
import H3.Lemmas.WriteBuf
import H3.Gen.CtlArms
/-! # C13 — SETTINGS are sent, parsed and applied exactly, for every configuration

Property theorems only.  Models: `H3.Settings` (`proto/frame.rs`: `Settings`, `SettingId`,
`SettingsError`; the control-stream `WriteBuf`), `H3.Config` (`config.rs`, the conversion-error
path of `connection.rs`, the settings cell of `shared_state.rs`).  Oracle: `H3.Spec.Settings`
(RFC 9114 §7.2.4, §7.2.4.1, §7.2.4.2, §11.2.2; RFC 9297 §2.1.1, RFC 8441 §3).  The models describe the tree
with the D-13 repair (`Settings::insert` refuses identifiers and values ≥ 2^62) and with the D-13b repair
(`Settings::decode` refuses H3_DATAGRAM / ENABLE_CONNECT_PROTOCOL above 1; the list of such identifiers is the
translator's `booleanIds`, proved equal to the specification's `boolean01`). -/
namespace H3.Props.C13
open H3.Varint (Bytes WF writeVar)
open H3.Settings H3.Config H3.Gen.Consts H3.Gen.Settings
open H3.Spec.Settings (parse reserved known hasReserved repeatsKnown numeric FlagOk FlagExact hasBadFlag boolean01
  demand Demand unlimited expectedSent isGrease
  MAX_FIELD_SECTION_SIZE ENABLE_CONNECT_PROTOCOL H3_DATAGRAM ENABLE_WEBTRANSPORT WEBTRANSPORT_MAX_SESSIONS
  H3_SETTINGS_ERROR)

/-- Every draw of `SettingId::grease()` (`N < GREASE_N_BOUND`) is a grease identifier that fits a
    varint, and no grease identifier — whatever `N` — is an identifier h3 understands or an
    HTTP/2-reserved one (arithmetic modulo 31). -/
theorem C13_grease_distinct (n : Nat) :
    (n < GREASE_N_BOUND → greaseId n < 2^62) ∧ isGrease (greaseId n) ∧
    greaseId n ∉ known ∧ greaseId n ∉ reserved ∧ isSupported (greaseId n) = false ∧
    isForbidden (greaseId n) = false := by
  have e : greaseId n = 0x1f * n + 0x21 := by simp [greaseId, GREASE_MUL, GREASE_ADD, Nat.mul_comm]
  have hk : greaseId n ∉ known := by
    rw [e]
    simp only [known, MAX_FIELD_SECTION_SIZE, H3.Spec.Settings.QPACK_MAX_TABLE_CAPACITY,
      H3.Spec.Settings.QPACK_BLOCKED_STREAMS, ENABLE_CONNECT_PROTOCOL, H3_DATAGRAM, ENABLE_WEBTRANSPORT,
      WEBTRANSPORT_MAX_SESSIONS, List.mem_cons, List.not_mem_nil, or_false]
    omega
  have hr : greaseId n ∉ reserved := by
    rw [e]; simp only [reserved, List.mem_cons, List.not_mem_nil, or_false]; omega
  refine ⟨?_, ⟨n, e⟩, hk, hr, ?_, ?_⟩
  · intro h; rw [e]; simp only [GREASE_N_BOUND] at h; omega
  · cases h : isSupported (greaseId n)
    · rfl
    · exact absurd ((supported_iff_known _).mp h) hk
  · cases h : isForbidden (greaseId n)
    · rfl
    · exfalso; apply hr; rw [← forbidden_eq_reserved]; simpa [isForbidden] using h

example : greaseId 1337 = 41480 ∧ isSupported 41480 = false := by decide

/-- **Sent SETTINGS.**  For every configuration whose two numbers fit a varint and every grease
    draw: the conversion and the encoding succeed (no panic, no error), the peer sees
    `00 04 len payload` on the control stream with `len = |payload|` (a one-byte length), at most
    42 bytes in all, which fits the `WRITE_BUF_ENCODE_SIZE` array; the payload consists of bytes and
    its RFC parse is exactly the configured values (plus the grease pair iff grease is on); no
    identifier occurs twice and none is HTTP/2-reserved. -/
theorem C13_sent_settings (c : Config) (n : Nat)
    (hm : c.settings.mfs < 2^62) (hw : c.settings.wts < 2^62) (hg : greaseId n < 2^62) :
    ∃ payload : Bytes,
      setup c n = .sent ([0x00, 0x04, payload.length] ++ payload) ∧
      payload.length < 64 ∧
      ([0x00, 0x04, payload.length] ++ payload).length ≤ 42 ∧ 42 ≤ WRITE_BUF_ENCODE_SIZE ∧
      WF payload ∧
      parse payload = some (expectedSent c.grease n c.settings.mfs c.settings.ec c.settings.wt
        c.settings.dg c.settings.wts) ∧
      ((expectedSent c.grease n c.settings.mfs c.settings.ec c.settings.wt c.settings.dg
        c.settings.wts).map (·.1)).Nodup ∧
      (∀ p ∈ expectedSent c.grease n c.settings.mfs c.settings.ec c.settings.wt c.settings.dg
        c.settings.wts, p.1 ∉ reserved) := by
  have hf := entriesOf_fits c n hm hw hg
  have hs := entriesOf_size c n
  have hlen := encPairs_length _ hf
  refine ⟨encPairs (entriesOf c n), ?_, by omega, by simp; omega, by decide, encPairs_wf _ hf, ?_, ?_, ?_⟩
  · unfold setup
    rw [toSettings_ok c n hm hw hg]
    simp only
    rw [controlHeader_entriesOf c n hm hw hg]
    rfl
  · rw [← entriesOf_eq_expected]; exact parse_encPairs _ hf
  · rw [← entriesOf_eq_expected]; exact entriesOf_nodup c n
  · rw [← entriesOf_eq_expected]
    obtain ⟨_, _, _, _, _, _, _, g8⟩ := grease_distinct n
    rw [← forbidden_eq_reserved]
    intro p hp
    unfold entriesOf at hp
    rcases List.mem_append.mp hp with h | h
    · cases hgr : c.grease
      · rw [hgr] at h; simp at h
      · rw [hgr] at h; simp at h; subst h; exact g8
    · simp only [List.mem_cons, List.not_mem_nil, or_false] at h
      rcases h with rfl | rfl | rfl | rfl | rfl <;> (simp only; decide)

example : setup ⟨true, ⟨5, true, false, true, 16384⟩⟩ 0 =
    .sent [0x00, 0x04, 0x15, 0x21, 0x00, 0x06, 0x05, 0x08, 0x00, 0xab, 0x60, 0x37, 0x42, 0x01, 0x33, 0x01,
           0xab, 0x60, 0x37, 0x43, 0x80, 0x00, 0x40, 0x00] := by decide
example : parse [0x21, 0x00, 0x06, 0x05, 0x08, 0x00, 0xab, 0x60, 0x37, 0x42, 0x01, 0x33, 0x01,
    0xab, 0x60, 0x37, 0x43, 0x80, 0x00, 0x40, 0x00] =
    some (expectedSent true 0 5 false true true 16384) := by decide

/-- **Numbers that do not fit a varint** (D-13, repaired): the conversion returns an error, so
    `build` returns the `H3_INTERNAL_ERROR` connection error; nothing is encoded or written and
    nothing panics. -/
theorem C13_sent_settings_big (c : Config) (n : Nat) (hg : greaseId n < 2^62)
    (hbig : 2^62 ≤ c.settings.mfs ∨ 2^62 ≤ c.settings.wts) :
    (∃ id v, toSettings c n = .error (.invalidSettingValue id v) ∧ 2^62 ≤ v) ∧
    setup c n = .refused CODE_H3_INTERNAL_ERROR := by
  obtain ⟨id, v, h, hv⟩ := toSettings_big c n hg (by omega)
  refine ⟨⟨id, v, h, by omega⟩, ?_⟩
  unfold setup; rw [h]

example : setup ⟨false, ⟨2^62, false, false, false, 0⟩⟩ 0 = .refused 258 := by decide
example : setup ⟨true, ⟨0, true, true, true, 2^64 - 1⟩⟩ 7 = .refused 258 := by decide

/-- **Which configurations setup accepts.**  Setup never panics; it completes (the peer sees the
    control-stream header) exactly when both configured numbers fit a varint, and is refused with
    a connection error otherwise — "the builder accepts" = the conversion succeeds. -/
theorem C13_setup_total (c : Config) (n : Nat) (hg : greaseId n < 2^62) :
    setup c n ≠ .panic ∧
    ((∃ b, setup c n = .sent b) ↔ (c.settings.mfs < 2^62 ∧ c.settings.wts < 2^62)) ∧
    ((∃ code, setup c n = .refused code) ↔ (2^62 ≤ c.settings.mfs ∨ 2^62 ≤ c.settings.wts)) := by
  by_cases h : c.settings.mfs < 2^62 ∧ c.settings.wts < 2^62
  · obtain ⟨p, hp, _⟩ := C13_sent_settings c n h.1 h.2 hg
    rw [hp]
    refine ⟨by simp, ⟨fun _ => h, fun _ => ⟨_, rfl⟩⟩, ⟨?_, fun hb => by omega⟩⟩
    rintro ⟨code, hc⟩; cases hc
  · have hb : 2^62 ≤ c.settings.mfs ∨ 2^62 ≤ c.settings.wts := by omega
    rw [(C13_sent_settings_big c n hg hb).2]
    refine ⟨by simp, ⟨?_, fun h' => absurd h' h⟩, ⟨fun _ => hb, fun _ => ⟨_, rfl⟩⟩⟩
    rintro ⟨b, hc⟩; cases hc

example : setup ⟨true, ⟨2^62 - 1, true, true, true, 2^62 - 1⟩⟩ (GREASE_N_BOUND - 1) ≠ .panic := by decide

/-- Why the repair sits in `insert`: `Settings::len`/`encode` panic (`unwrap` on
    `VarInt::from_u64`) on any stored identifier or value ≥ 2^62 — the unrepaired conversion stored
    the configured number unchecked and `build` panicked here. -/
theorem C13_encode_panics_unchecked (s : Settings)
    (h : ∃ p ∈ s.entries, 2^62 ≤ p.1 ∨ 2^62 ≤ p.2) : encode? s = none ∧ controlHeader? s = none := by
  have hnf : ¬ Fits s.entries := by
    intro hf
    obtain ⟨p, hp, hb⟩ := h
    have := hf p hp
    omega
  have he := encode?_panic s hnf
  refine ⟨he, ?_⟩
  unfold controlHeader?
  rw [he]
  cases writeVar STREAM_CONTROL <;> rfl

example : controlHeader? ⟨[(6, 2^62)]⟩ = none := by decide

/-- **Received SETTINGS.**  For every payload (any bytes): a truncated entry is a connection error;
    a reserved identifier is H3_SETTINGS_ERROR; a repeated understood identifier is
    H3_SETTINGS_ERROR; H3_DATAGRAM or ENABLE_CONNECT_PROTOCOL with a value other than 0 and 1 is
    H3_SETTINGS_ERROR (reading R-13b, the repair of D-13b); otherwise the payload is accepted, exactly the
    understood pairs are stored (unknown ones ignored, repeated or not — reading R-13), and
    `From<&Settings>` reports for each setting the single value carried, or its default when absent
    (H3_DATAGRAM / ENABLE_CONNECT_PROTOCOL exactly: on iff the value 1 is carried; ENABLE_WEBTRANSPORT: off
    for 0, on for 1).  The only errors are Malformed / InvalidSettingId(reserved) / Repeated(understood) /
    InvalidSettingValue(0/1 setting, value > 1) — never Exceeded — and every one of them closes the
    connection with H3_SETTINGS_ERROR. -/
theorem C13_recv_settings (bs : Bytes) (hwf : WF bs) :
    (parse bs = none → ∃ e, decode bs = .error e) ∧
    (∀ ps, parse bs = some ps →
      (hasReserved ps = true → ∃ e, decode bs = .error e) ∧
      (repeatsKnown ps = true → ∃ e, decode bs = .error e) ∧
      (hasBadFlag ps = true → ∃ e, decode bs = .error e) ∧
      (hasReserved ps = false → repeatsKnown ps = false → hasBadFlag ps = false →
        ∃ s, decode bs = .ok s ∧
          s.entries = ps.filter (fun p => known.contains p.1) ∧
          (fromSettings s).mfs = numeric ps MAX_FIELD_SECTION_SIZE unlimited ∧
          (fromSettings s).wts = numeric ps WEBTRANSPORT_MAX_SESSIONS 0 ∧
          FlagExact ps ENABLE_CONNECT_PROTOCOL (fromSettings s).ec ∧
          FlagExact ps H3_DATAGRAM (fromSettings s).dg ∧
          FlagOk ps ENABLE_WEBTRANSPORT (fromSettings s).wt)) ∧
    (∀ e, decode bs = .error e →
      connCode e = H3_SETTINGS_ERROR ∧
      (e = .malformed ∨ (∃ id ∈ reserved, e = .invalidSettingId id) ∨ (∃ id ∈ known, e = .repeated id) ∨
        (∃ id ∈ boolean01, ∃ v, 1 < v ∧ e = .invalidSettingValue id v))) ∧
    decode bs ≠ .error .exceeded := by
  have hspec := decode_spec bs hwf
  have kindOf : ∀ e, ErrKind e →
      (e = .malformed ∨ (∃ id ∈ reserved, e = .invalidSettingId id) ∨ (∃ id ∈ known, e = .repeated id) ∨
        (∃ id ∈ boolean01, ∃ v, 1 < v ∧ e = .invalidSettingValue id v)) := by
    intro e he
    rcases he with h | ⟨id, h, hf⟩ | ⟨id, h, hs⟩ | ⟨id, v, h, _, hb⟩
    · exact Or.inl h
    · refine Or.inr (Or.inl ⟨id, ?_, h⟩)
      rw [← forbidden_eq_reserved]; simpa [isForbidden] using hf
    · exact Or.inr (Or.inr (Or.inl ⟨id, (supported_iff_known id).mp hs, h⟩))
    · rw [badValue_eq] at hb
      simp only [Bool.and_eq_true, decide_eq_true_eq, List.contains_eq_mem] at hb
      exact Or.inr (Or.inr (Or.inr ⟨id, hb.1, v, hb.2, h⟩))
  -- every error the decoder can produce here has one of the three kinds
  have allErr : ∀ e, decode bs = .error e → ErrKind e := by
    intro e he
    cases hp : parse bs with
    | none =>
      rw [hp] at hspec
      obtain ⟨e', h1, h2⟩ := hspec
      rw [h1] at he; cases he; exact h2
    | some ps =>
      rw [hp] at hspec
      obtain ⟨hf, hd⟩ := hspec
      by_cases hbad : (∃ p ∈ ps, isForbidden p.1 = true) ∨ ¬ ((empty.entries ++ kept ps).map (·.1)).Nodup ∨
          (∃ p ∈ ps, isSupported p.1 = true ∧ badValue p.1 p.2 = true)
      · obtain ⟨e', h1, h2⟩ := foldPairs_err empty ps inv_empty hf hbad
        rw [hd, h1] at he; cases he; exact h2
      · have h1 : ∀ p ∈ ps, isForbidden p.1 = false := by
          intro p hp'
          cases h : isForbidden p.1
          · rfl
          · exact absurd (Or.inl ⟨p, hp', h⟩) hbad
        have h2 : ((empty.entries ++ kept ps).map (·.1)).Nodup := by
          apply Classical.byContradiction; intro h; exact hbad (Or.inr (Or.inl h))
        have h3 : ∀ p ∈ ps, isSupported p.1 = true → badValue p.1 p.2 = false := by
          intro p hp' hs
          cases h : badValue p.1 p.2
          · rfl
          · exact absurd (Or.inr (Or.inr ⟨p, hp', hs, h⟩)) hbad
        rw [hd, foldPairs_ok empty ps inv_empty hf h1 h3 h2] at he
        cases he
  refine ⟨?_, ?_, ?_, ?_⟩
  · intro hp
    rw [hp] at hspec
    obtain ⟨e, h1, _⟩ := hspec
    exact ⟨e, h1⟩
  · intro ps hp
    rw [hp] at hspec
    obtain ⟨hf, hd⟩ := hspec
    refine ⟨?_, ?_, ?_, ?_⟩
    · intro hr
      obtain ⟨e, h1, _⟩ := foldPairs_err empty ps inv_empty hf (Or.inl ((hasReserved_iff ps).mp hr))
      exact ⟨e, by rw [hd, h1]⟩
    · intro hr
      have hnn : ¬ ((kept ps).map (·.1)).Nodup := by
        intro h
        rw [(repeatsKnown_false_iff ps).mpr h] at hr; cases hr
      obtain ⟨e, h1, _⟩ := foldPairs_err empty ps inv_empty hf (Or.inr (Or.inl (by simpa [empty] using hnn)))
      exact ⟨e, by rw [hd, h1]⟩
    · intro hb
      obtain ⟨e, h1, _⟩ := foldPairs_err empty ps inv_empty hf (Or.inr (Or.inr ((hasBadFlag_iff ps).mp hb)))
      exact ⟨e, by rw [hd, h1]⟩
    · intro hr hk hbf
      have h1 : ∀ p ∈ ps, isForbidden p.1 = false := by
        intro p hp'
        cases h : isForbidden p.1
        · rfl
        · rw [(hasReserved_iff ps).mpr ⟨p, hp', h⟩] at hr; cases hr
      have h2 := (repeatsKnown_false_iff ps).mp hk
      have h3 : ∀ p ∈ ps, isSupported p.1 = true → badValue p.1 p.2 = false := by
        intro p hp' hs
        cases h : badValue p.1 p.2
        · rfl
        · rw [(hasBadFlag_iff ps).mpr ⟨p, hp', hs, h⟩] at hbf; cases hbf
      have hok := foldPairs_ok empty ps inv_empty hf h1 h3 (by simpa [empty] using h2)
      refine ⟨⟨kept ps⟩, by rw [hd, hok]; simp [empty], ?_, ?_⟩
      · unfold kept
        apply List.filter_congr
        intro p _
        cases h : isSupported p.1
        · cases h' : known.contains p.1
          · rfl
          · rw [(supported_iff_known p.1).mpr (by simpa using h')] at h; cases h
        · have := (supported_iff_known p.1).mp h
          simp [this]
      · rw [fromSettings_kept]
        exact ⟨rfl, rfl, flagExact_lookup ps _ (by decide) hbf, flagExact_lookup ps _ (by decide) hbf,
          flagOk_lookup ps _⟩
  · intro e he
    exact ⟨rfl, kindOf e (allErr e he)⟩
  · intro he
    exact errKind_ne_exceeded (allErr _ he) rfl

example : decode [0x06, 0x05, 0x21, 0x07, 0x08, 0x01] = .ok ⟨[(6, 5), (8, 1)]⟩ := by decide
example : fromSettings ⟨[(6, 5), (8, 1)]⟩ = ⟨5, false, true, false, 0⟩ := by decide
example : decode [0x06, 0x05, 0x06, 0x05] = .error (.repeated 6) := by decide
example : decode [0x21, 0x00, 0x21, 0x01] = .ok ⟨[]⟩ := by decide          -- repeated grease id: ignored
example : decode [0x06, 0x01, 0x04, 0x00] = .error (.invalidSettingId 4) := by decide
example : decode [0x06, 0x40] = .error .malformed := by decide
example : parse [0x06, 0x40] = none := by decide
example : decode [0x33, 0x02] = .error (.invalidSettingValue 0x33 2) := by decide    -- D-13b, repaired
example : decode [0x08, 0x02] = .error (.invalidSettingValue 0x08 2) := by decide
example : hasBadFlag [(0x33, 2)] = true ∧ hasBadFlag [(0x33, 1), (0x08, 0), (0x2b603742, 2)] = false := by decide
example : decode [0x33, 0x01, 0x08, 0x00] = .ok ⟨[(0x33, 1), (0x08, 0)]⟩ := by decide

/-- The `Frame::decode` wrapper around a complete SETTINGS frame hands the payload to
    `Settings::decode` and consumes the frame; every `SettingsError` travels
    `FrameError::Settings` → `FrameProtocolError::Settings` → `H3_SETTINGS_ERROR`; at connection
    level an error leaves the settings cell untouched and a success stores `From<&Settings>`. -/
theorem C13_frame_wrapper (payload : Bytes) (hl : payload.length < 2^62) (c : Cell) :
    frameDecode ([FRAME_SETTINGS] ++ Varint.encode payload.length ++ payload) = some (decode payload, []) ∧
    (∀ e, connCode e = H3_SETTINGS_ERROR) ∧
    (∀ e, decode payload = .error e → receive c payload = (c, some H3_SETTINGS_ERROR)) ∧
    (∀ s, decode payload = .ok s → receive c payload = (c.set (fromSettings s), none)) := by
  refine ⟨frameDecode_frame payload hl, fun _ => rfl, ?_, ?_⟩
  · intro e he; unfold receive; rw [he]; rfl
  · intro s hs; unfold receive; rw [hs]

example : frameDecode [0x04, 0x02, 0x06, 0x05, 0xff] = some (.ok ⟨[(6, 5)]⟩, [0xff]) := by decide

/-- **Defaults until arrival, first value for ever.**  `settings()` reports the protocol
    defaults (unlimited field section size, everything else off/0) until the first
    `set_settings`; after any sequence of writes it reports the first one. -/
theorem C13_defaults_until_arrival (rs : List Record) :
    Cell.new.get = Record.default ∧
    Record.default = ⟨unlimited, false, false, false, 0⟩ ∧
    (rs.foldl Cell.set Cell.new).get = rs.head?.getD Record.default ∧
    (∀ r c, (Cell.set ⟨some r⟩ c) = ⟨some r⟩) := by
  have stick : ∀ (l : List Record) (r : Record), l.foldl Cell.set ⟨some r⟩ = ⟨some r⟩ := by
    intro l
    induction l with
    | nil => intro r; rfl
    | cons a t ih => intro r; simp only [List.foldl_cons, Cell.set]; exact ih r
  refine ⟨rfl, by decide, ?_, fun _ _ => rfl⟩
  cases rs with
  | nil => rfl
  | cons a t =>
    simp only [List.foldl_cons, List.head?_cons, Option.getD_some]
    show (t.foldl Cell.set ⟨some a⟩).get = a
    rw [stick t a]; rfl

example : (([⟨1, true, false, false, 0⟩, ⟨2, false, false, false, 0⟩] : List Record).foldl Cell.set Cell.new).get
    = ⟨1, true, false, false, 0⟩ := by decide

/-- **decode ∘ encode.**  For every `Settings` value reachable by `insert`s from `default()`
    that holds no reserved identifier and no 0/1 setting of RFC 9297 / RFC 8441 with another value (what
    `TryFrom<Config>` and `decode` produce), `encode` writes `04 len payload` without panicking and
    decoding that frame gives back the understood entries, in order; a value holding only
    understood identifiers (what `decode` itself produces) comes back unchanged. -/
theorem C13_decode_encode (s : Settings) (hr : Reachable s)
    (hnf : ∀ e ∈ s.entries, isForbidden e.1 = false)
    (hnb : ∀ e ∈ s.entries, e.1 ∈ boolean01 → e.2 ≤ 1) :
    ∃ payload : Bytes,
      encode? s = some ([FRAME_SETTINGS] ++ Varint.encode payload.length ++ payload) ∧
      frameDecode ([FRAME_SETTINGS] ++ Varint.encode payload.length ++ payload) =
        some (.ok ⟨s.entries.filter (fun e => isSupported e.1)⟩, []) ∧
      ((∀ e ∈ s.entries, isSupported e.1 = true) → decode payload = .ok s) := by
  obtain ⟨hlen, hf, _⟩ := reachable_inv hr
  have hsz : sizePairs s.entries < 2^62 := by
    have := sizePairs_le s.entries
    simp only [SETTINGS_LEN] at hlen
    omega
  have hl := encPairs_length _ hf
  have hnb' : ∀ e ∈ s.entries, isSupported e.1 = true → badValue e.1 e.2 = false := by
    intro e he _
    rw [badValue_eq]
    cases hc : boolean01.contains e.1
    · rfl
    · have := hnb e he (by simpa using hc)
      simp only [Bool.true_and, decide_eq_false_iff_not]; omega
  refine ⟨encPairs s.entries, ?_, ?_, ?_⟩
  · rw [hl]; exact encode?_eq s hf hsz
  · rw [frameDecode_frame _ (by omega), decode_encPairs s hr hnf hnb']; rfl
  · intro hs
    rw [decode_encPairs s hr hnf hnb', kept_eq_self hs]

example : Reachable ⟨[(6, 5), (8, 1)]⟩ :=
  .insert (.insert .default (by decide : insert empty 6 5 = .ok ⟨[(6, 5)]⟩))
    (by decide : insert ⟨[(6, 5)]⟩ 8 1 = .ok ⟨[(6, 5), (8, 1)]⟩)
example : encode? ⟨[(6, 5), (8, 1)]⟩ = some [0x04, 0x04, 0x06, 0x05, 0x08, 0x01] := by decide

/-- **Sent SETTINGS under back-pressure.**  The control stream header goes through a `WriteBuf`
    (`H3.WriteBuf`, the model C14 proves `Buf`-correct) that the transport empties in pieces of its own
    choosing: `ks` = how many bytes it is willing to take at each `poll_ready` (0 = `Pending`).  For
    every configuration setup accepts, every grease draw and EVERY acceptance script: nothing panics;
    what has reached the peer so far followed by what is still in the buffer is the header of
    `C13_sent_settings` (so the peer sees a prefix of it, never a byte twice or out of place); when
    `write` returns, the peer has exactly the header; and it does return as soon as the script has as
    many non-zero entries as the header has bytes.  (`drain_spec` / `drain_complete` of
    `Lemmas/WriteBuf.lean` applied to the header array.) -/
theorem C13_sent_settings_any_acceptance (c : Config) (n : Nat)
    (hm : c.settings.mfs < 2^62) (hw : c.settings.wts < 2^62) (hg : greaseId n < 2^62) (ks : List Nat) :
    ∃ (hdr : Bytes) (w : H3.WriteBuf.WB),
      setup c n = .sent hdr ∧
      (H3.WriteBuf.WB.new none).putOpt (some hdr) = some w ∧
      (∃ o w', w.drain ks = some (o, w') ∧ o ++ w'.view = hdr) ∧
      H3.WriteBuf.write (some w) ks ≠ .panic ∧
      (∀ out, H3.WriteBuf.write (some w) ks = .ready out → out = hdr) ∧
      (hdr.length ≤ (ks.filter (0 < ·)).length → H3.WriteBuf.write (some w) ks = .ready hdr) := by
  obtain ⟨payload, hs, _, h42, hsz, _⟩ := C13_sent_settings c n hm hw hg
  have hle : ([0x00, 0x04, payload.length] ++ payload).length ≤ WRITE_BUF_ENCODE_SIZE := by omega
  obtain ⟨w, hw'⟩ := H3.WriteBuf.putOpt_new_some none _ hle
  obtain ⟨bs, hbs, _, hwf, _, _, _, hview⟩ := H3.WriteBuf.putOpt_new hw'
  have hbs' : bs = [0x00, 0x04, payload.length] ++ payload := (Option.some.inj hbs).symm
  have hv : w.view = [0x00, 0x04, payload.length] ++ payload := by rw [hview, hbs']; simp
  obtain ⟨o, w1, hd, hwf1, hov⟩ := H3.WriteBuf.drain_spec w hwf ks
  refine ⟨_, w, hs, hw', ⟨o, w1, hd, by rw [hov, hv]⟩, ?_, ?_, ?_⟩
  · simp only [H3.WriteBuf.write, hd]; split <;> simp
  · intro out hout
    simp only [H3.WriteBuf.write, hd] at hout
    split at hout
    · rename_i h0
      have hnil : w1.view = [] := by
        apply List.eq_nil_of_length_eq_zero
        rw [← H3.WriteBuf.remaining_eq_view w1 hwf1]; exact h0
      have : o = out := by simpa using hout
      rw [← this, ← hv, ← hov, hnil]; simp
    · cases hout
  · intro hlen
    obtain ⟨o2, w2, hd2, hv2, ho2⟩ := H3.WriteBuf.drain_complete w hwf ks (by rw [hv]; exact hlen)
    have h0 : w2.remaining = 0 := by
      have hwf2 : w2.WF := by
        obtain ⟨o3, w3, hd3, hwf3, _⟩ := H3.WriteBuf.drain_spec w hwf ks
        rw [hd2] at hd3; cases hd3; exact hwf3
      rw [H3.WriteBuf.remaining_eq_view w2 hwf2, hv2]; rfl
    simp only [H3.WriteBuf.write, hd2, h0, if_true]
    rw [ho2, hv]

example : ∃ w, (H3.WriteBuf.WB.new none).putOpt (some [0x00, 0x04, 0x02, 0x06, 0x05]) = some w ∧
    H3.WriteBuf.write (some w) [2, 0, 1, 1, 7] = .ready [0x00, 0x04, 0x02, 0x06, 0x05] ∧
    H3.WriteBuf.write (some w) [2, 0, 1] = .pending [0x00, 0x04, 0x02] { w with pos := 3 } :=
  ⟨_, rfl, by decide, by decide⟩

/-- a stream in front of the control stream that does not end the pass over `pending_recv_streams`: its header
    is still incomplete, or it resolved to something `poll_accept_recv` keeps / drops / stops without an error -/
def Harmless : Waiting → Prop
  | .header => True
  | .foreign none => True
  | _ => False

/-- **SETTINGS behind other streams.**  Unidirectional streams that were accepted BEFORE the peer's control
    stream — with a header that is still incomplete (`poll_type` = `Pending`), or resolved to a QPACK stream, a
    WebTransport stream, an unknown / grease type (STOP_SENDING) — do not keep the control stream from being
    looked at: whatever their number and order, one poll of the driver applies the SETTINGS exactly as if the
    control stream were alone (`receive`, characterised by `C13_recv_settings` / `C13_frame_wrapper` /
    `C13_received_settings_agree_with_oracle`); without a control stream nothing changes; and a stream in front
    that IS a connection error (a second QPACK encoder stream, C04) ends the poll with that error, the cell
    untouched. -/
theorem C13_settings_behind_waiting_streams (c : Cell) (pre : List Waiting) (hpre : ∀ w ∈ pre, Harmless w)
    (p : Bytes) (rest : List Waiting) (e : Nat) :
    receiveScan c (pre ++ .control p :: rest) = receive c p ∧
    receiveScan c pre = (c, none) ∧
    receiveScan c (pre ++ .foreign (some e) :: rest) = (c, some e) := by
  have h : ∀ tail, scan (pre ++ tail) = scan tail := by
    intro tail
    induction pre with
    | nil => rfl
    | cons w r ih =>
      have hr : ∀ w ∈ r, Harmless w := fun w hw => hpre w (List.mem_cons_of_mem _ hw)
      have hw := hpre w (List.mem_cons_self ..)
      match w, hw with
      | .header, _ => simpa [scan] using ih hr
      | .foreign none, _ => simpa [scan] using ih hr
  have h1 := h (.control p :: rest)
  have h2 := h []
  have h3 := h (.foreign (some e) :: rest)
  simp only [List.append_nil] at h2
  exact ⟨by simp only [receiveScan, h1, scan], by simp only [receiveScan, h2, scan],
    by simp only [receiveScan, h3, scan]⟩

example : receiveScan Cell.new [.header, .foreign none, .header, .control [0x06, 0x05, 0x21, 0x07]] =
    (⟨some ⟨5, false, false, false, 0⟩⟩, none) := by decide
example : receiveScan Cell.new [.foreign none, .foreign (some 259), .control [0x06, 0x05]] = (Cell.new, some 259) := by
  decide

/-- **Received SETTINGS against the oracle, at connection level.**  For every payload (any bytes) and every
    state of the settings cell, what `poll_control` does with the peer's first control frame is what the
    specification's `demand` (RFC 9114 §7.2.4 / §7.2.4.1, RFC 9297 §2.1.1, RFC 8441 §3; readings R-13, R-13b)
    asks for: a truncated entry — a connection error, the cell untouched; a reserved identifier, a repeated
    understood one, H3_DATAGRAM / ENABLE_CONNECT_PROTOCOL with a value above 1 — H3_SETTINGS_ERROR, the cell
    untouched; otherwise no error, and the record offered to the write-once cell carries exactly what the
    payload says (numbers: the value or the default; the two RFC flags: on iff 1 is carried). -/
theorem C13_received_settings_agree_with_oracle (c : Cell) (bs : Bytes) (hwf : WF bs) :
    match demand bs with
    | .anyError => ∃ code, receive c bs = (c, some code)
    | .settingsError => receive c bs = (c, some H3_SETTINGS_ERROR)
    | .applyOrError ps | .apply ps =>
      ∃ r : Record, receive c bs = (c.set r, none) ∧
        r.mfs = numeric ps MAX_FIELD_SECTION_SIZE unlimited ∧ r.wts = numeric ps WEBTRANSPORT_MAX_SESSIONS 0 ∧
        FlagExact ps ENABLE_CONNECT_PROTOCOL r.ec ∧ FlagExact ps H3_DATAGRAM r.dg ∧
        FlagOk ps ENABLE_WEBTRANSPORT r.wt := by
  obtain ⟨h0, h1, _, _⟩ := C13_recv_settings bs hwf
  have herr : ∀ e, decode bs = .error e → receive c bs = (c, some H3_SETTINGS_ERROR) := by
    intro e he; unfold receive; rw [he]; rfl
  unfold demand
  cases hp : parse bs with
  | none =>
    obtain ⟨e, he⟩ := h0 hp
    exact ⟨_, herr e he⟩
  | some ps =>
    obtain ⟨hr, hk, hb, hok⟩ := h1 ps hp
    simp only
    by_cases hbad : (hasReserved ps || repeatsKnown ps || hasBadFlag ps) = true
    · rw [if_pos hbad]
      simp only [Bool.or_eq_true] at hbad
      rcases hbad with (h | h) | h
      · obtain ⟨e, he⟩ := hr h; exact herr e he
      · obtain ⟨e, he⟩ := hk h; exact herr e he
      · obtain ⟨e, he⟩ := hb h; exact herr e he
    · rw [if_neg hbad]
      simp only [Bool.or_eq_true, not_or, Bool.not_eq_true] at hbad
      obtain ⟨s, hs, _, a1, a2, a3, a4, a5⟩ := hok hbad.1.1 hbad.1.2 hbad.2
      have hrecv : receive c bs = (c.set (fromSettings s), none) := by unfold receive; rw [hs]
      by_cases hu : H3.Spec.Settings.repeatsUnknown ps = true
      · rw [if_pos hu]; exact ⟨_, hrecv, a1, a2, a3, a4, a5⟩
      · rw [if_neg hu]; exact ⟨_, hrecv, a1, a2, a3, a4, a5⟩

example : demand [0x33, 0x02] = .settingsError ∧ receive Cell.new [0x33, 0x02] = (Cell.new, some 0x0109) := by decide
example : demand [0x06, 0x05, 0x33, 0x01] = .apply [(6, 5), (0x33, 1)] ∧
    receive Cell.new [0x06, 0x05, 0x33, 0x01] = (⟨some ⟨5, false, false, true, 0⟩⟩, none) := by decide

/-- **The LOCAL configuration plays no part in what is received.**  The translator reads the SETTINGS arm of
    `poll_control` as exactly `self.got_peer_settings = true; self.set_settings((&settings).into())`
    (`H3.Gen.CtlArms`, action `applySettings`; any other statement in that arm — say, clamping the peer's
    `max_field_section_size` to the local one — is a refusal of the translator, and `Lemmas/GenAgreeCtl` is
    among this property's modules).  Accordingly the model of a connection with two different local
    configurations stores the same record / reports the same error for the same payload — namely what
    `receive` says, which `C13_received_settings_agree_with_oracle` ties to the specification — and the local
    configuration itself is left as it was.  The differential run generates the product local configuration ×
    received payload (`set apply*` with configuration keys). -/
theorem C13_received_settings_independent_of_local_config (cfg1 cfg2 : Config) (c : Cell) (p : Bytes) :
    H3.Gen.CtlArms.beforeSettings .settings = .applySettings ∧
    (Conn.receive ⟨cfg1, c⟩ p).1.cell = (Conn.receive ⟨cfg2, c⟩ p).1.cell ∧
    (Conn.receive ⟨cfg1, c⟩ p).2 = (Conn.receive ⟨cfg2, c⟩ p).2 ∧
    (Conn.receive ⟨cfg1, c⟩ p).1.config = cfg1 ∧
    ((Conn.receive ⟨cfg1, c⟩ p).1.cell, (Conn.receive ⟨cfg1, c⟩ p).2) = receive c p :=
  ⟨rfl, rfl, rfl, rfl, rfl⟩

example : (Conn.receive ⟨⟨false, ⟨0, false, false, false, 0⟩⟩, Cell.new⟩ [0x06, 0x40, 0x80]).1.cell.get.mfs = 128 ∧
    (Conn.receive ⟨⟨true, ⟨2^62 - 1, true, true, true, 9⟩⟩, Cell.new⟩ [0x06, 0x40, 0x80]).1.cell.get.mfs = 128 := by decide

end H3.Props.C13
