import H3.Model.WriteBuf
import H3.Model.SendSide
import H3.Spec.Output
import H3.Lemmas.WriteBuf
import H3.Lemmas.WriteBufChunks
import H3.Lemmas.SendFrames
import H3.Lemmas.SendSide
import H3.Lemmas.SendSideX
/-! # C14 — everything an h3 endpoint writes is valid HTTP/3, however the transport takes it

Property theorems only.  Models: `H3.WriteBuf` (`h3/src/stream.rs` `WriteBuf`, its `From`
conversions and `Buf` impl, `write()`; `h3/src/proto/frame.rs` `Frame::encode`), `H3.SendSide`
(which call writes what on which stream).  Specification: `H3.Spec.Output` (RFC 9114 §6.2,
§7.1, §7.2 over the RFC 9000 §16 decoder `rfcDecode`). -/
namespace H3.Props.C14
open H3.Varint H3.WriteBuf H3.SendSide H3.Spec.Output H3.Gen.WriteBuf

/-- For every frame whose header can be encoded (no `write_var` panic, fits the array) and
    every acceptance script — any pattern of partial `poll_write`s, one byte at a time,
    `Pending` (0) anywhere: the `WriteBuf` exists, `remaining()` is exact before and after,
    the bytes handed to the transport followed by what is still in the buffer are
    `encodeHeader f ++ payload f` (each byte once, in order), and as soon as the script has
    accepted enough, `write()` returns having handed over exactly those bytes. -/
theorem C14_writebuf_is_header_then_payload (f : SFrame) (hdr : Bytes)
    (he : encodeFrame f = some hdr) (hfit : hdr.length ≤ WRITE_BUF_ENCODE_SIZE)
    (script : List Nat) :
    ∃ w, fromFrame f = some w ∧
      w.remaining = (hdr ++ (framePayload f).getD []).length ∧
      (∃ out w', w.drain script = some (out, w') ∧
        out ++ w'.view = hdr ++ (framePayload f).getD [] ∧ w'.remaining = w'.view.length) ∧
      ((hdr ++ (framePayload f).getD []).length ≤ (script.filter (0 < ·)).length →
        write (fromFrame f) script = .ready (hdr ++ (framePayload f).getD [])) := by
  have hex : ∃ w, fromFrame f = some w := by
    unfold fromFrame; rw [he]; exact putOpt_new_some _ _ hfit
  obtain ⟨w, hw⟩ := hex
  obtain ⟨bs, hbs, _, hwf, _, _, _, hv⟩ := putOpt_new hw
  rw [he] at hbs
  cases hbs
  refine ⟨w, hw, by rw [remaining_eq_view w hwf, hv], ?_, ?_⟩
  · obtain ⟨o, w', hd, hwf', hov⟩ := drain_spec w hwf script
    exact ⟨o, w', hd, by rw [hov, hv], remaining_eq_view w' hwf'⟩
  · intro hlen
    obtain ⟨o, w', hd, hv0, ho⟩ := drain_complete w hwf script (by rw [hv]; exact hlen)
    obtain ⟨_, _, hd', hwf', _⟩ := drain_spec w hwf script
    rw [hd] at hd'
    cases hd'
    have hr : w'.remaining = 0 := by rw [remaining_eq_view w' hwf', hv0]; rfl
    simp only [write, hw, hd, hr, if_true]
    rw [ho, hv]

example : write (fromFrame (.data [0xaa, 0xbb, 0xcc])) [1, 0, 0, 2, 1, 0, 7] =
    .ready [0x00, 0x03, 0xaa, 0xbb, 0xcc] := by decide
example : write (fromFrame (.goaway 16384)) [1, 1, 1, 1, 1, 1] =
    .ready [0x07, 0x04, 0x80, 0x00, 0x40, 0x00] := by decide
-- a script that stops early leaves `write()` pending with the unsent rest in the buffer
example : (match write (fromFrame (.headers [1, 2, 3, 4])) [2, 1] with
    | .pending out w => (out, w.view)
    | _ => ([], [])) = ([0x01, 0x04, 1], [2, 3, 4]) := by decide

/-- The `Buf` view of *every* well-formed `WriteBuf` (all `From` conversions produce
    well-formed ones): `remaining` is the length of what is left; `chunk` is a prefix of it,
    non-empty while something is left; `advance(cnt)` with `cnt ≤ remaining` never panics and
    drops exactly `cnt` bytes — also when `cnt` exceeds the header part and continues in the
    payload; a frame without payload swallows any `cnt` silently. -/
theorem C14_buf_view (w : WB) (hwf : w.WF) :
    w.remaining = w.view.length ∧ (∃ t, w.view = w.chunk ++ t) ∧
    (w.view ≠ [] → w.chunk ≠ []) ∧
    (∀ cnt, cnt ≤ w.remaining →
      ∃ w', w.advance cnt = some w' ∧ w'.WF ∧ w'.view = w.view.drop cnt) ∧
    (w.payload = none → ∀ cnt, ∃ w', w.advance cnt = some w') :=
  ⟨remaining_eq_view w hwf, chunk_prefix w hwf, chunk_ne_nil w hwf,
   fun cnt h => advance_spec w hwf cnt h, fun hp cnt => advance_no_payload w hp cnt⟩

-- `advance` across the end of the header, and the payload's own panic beyond its end
example : ((fromFrame (.data [9, 8, 7])).bind (·.advance 3)).map (·.view) = some [8, 7] := by decide
example : ((fromFrame (.data [9, 8, 7])).bind (·.advance 6)) = none := by decide

/-- Chunking independence.  `Frame<B>` / `WriteBuf<B>` are generic in the payload `B: Buf`; for a
    payload handed over as ANY list of segments (a `Chain`, a deque of `Bytes`; segments may be
    empty, also the first) the DATA length field and the bytes handed to the transport depend only
    on the flattened payload: the conversion yields the `WriteBuf` of the flat payload with the
    payload left in segments (same header array: length = total of all segments, not of the first);
    `remaining()` is exact; under every acceptance script the run of the segmented buffer is a run
    of the FLAT buffer under a script of the same length (each poll accepting what was actually
    taken) — so every statement proved for all scripts about contiguous payloads
    (`C14_writebuf_is_header_then_payload`, `C14_program_output_valid`, whose `poll sid k` steps
    range over every `k`) covers segmented ones —, nothing is lost, repeated or reordered, and as
    soon as the script has accepted enough, `write()` returns having handed over exactly
    `header ++ flattened payload`. -/
theorem C14_payload_chunking_independent (segs : List Bytes) (hdr : Bytes)
    (he : encodeFrame (.data segs.flatten) = some hdr) (hfit : hdr.length ≤ WRITE_BUF_ENCODE_SIZE)
    (script : List Nat) :
    ∃ w, fromDataC segs = some w ∧ fromFrame (.data segs.flatten) = some w.flat ∧
      w.remaining = (hdr ++ segs.flatten).length ∧
      (∃ out w' script', w.drain script = some (out, w') ∧ script'.length = script.length ∧
        w.flat.drain script' = some (out, w'.flat) ∧
        out ++ w'.flat.view = hdr ++ segs.flatten ∧ w'.remaining = w'.flat.view.length) ∧
      ((hdr ++ segs.flatten).length ≤ (script.filter (0 < ·)).length →
        writeC (fromDataC segs) script = .ready (hdr ++ segs.flatten)) := by
  have hflat := fromDataC_flat segs
  have hex : ∃ wf, fromFrame (.data segs.flatten) = some wf := by
    unfold fromFrame; rw [he]; exact putOpt_new_some _ _ hfit
  obtain ⟨wf, hwf0⟩ := hex
  rw [hwf0] at hflat
  cases hc : fromDataC segs with
  | none => rw [hc] at hflat; cases hflat
  | some w =>
    rw [hc] at hflat
    simp only [Option.map_some, Option.some.injEq] at hflat
    subst hflat
    obtain ⟨bs, hbs, _, hwf, _, _, _, hv⟩ := putOpt_new hwf0
    rw [he] at hbs
    cases hbs
    simp only [framePayload, Option.getD_some] at hv
    refine ⟨w, rfl, hwf0, by rw [← flat_remaining, remaining_eq_view _ hwf, hv], ?_, ?_⟩
    · obtain ⟨o, w', ks', hd, hl, hfd, hwf', hov⟩ := drainC_sim w hwf script
      exact ⟨o, w', ks', hd, hl, hfd, by rw [hov, hv],
        by rw [← flat_remaining, remaining_eq_view _ hwf']⟩
    · intro hlen
      obtain ⟨o, w', hd, hv0, ho⟩ := drainC_complete w hwf script (by rw [hv]; exact hlen)
      obtain ⟨_, _, _, hd', _, _, hwf', _⟩ := drainC_sim w hwf script
      rw [hd] at hd'
      cases hd'
      have hr : w'.remaining = 0 := by
        rw [← flat_remaining, remaining_eq_view _ hwf', hv0]; rfl
      simp only [writeC, hd, hr, if_true]
      rw [ho, hv]

/-- One `poll_write` over a segmented payload is one `poll_write` over the flat payload that
    accepts exactly the bytes taken (the step relation of `H3.SendSide`'s `poll sid k`, `k` = the
    number of bytes taken); the same for `(StreamType, Frame::Data)` pairs. -/
theorem C14_chunked_poll_is_flat_poll (w : WBC) (hwf : w.flat.WF) (k : Nat) :
    ∃ o w', w.step k = some (o, w') ∧ w.flat.step o.length = some (o, w'.flat) ∧ w'.flat.WF ∧
      o.length ≤ k ∧ (0 < k → w.flat.view ≠ [] → o ≠ []) := by
  obtain ⟨o, w', h1, h2, h3, _, h5, h6⟩ := stepC_sim w hwf k
  exact ⟨o, w', h1, h2, h3, by omega, h6⟩

-- three segments, the first and the third empty: the length field counts all of them, the
-- transport gets header, then segment after segment; the same bytes as for the flat payload
example : writeC (fromDataC [[], [0xaa, 0xbb], [], [0xcc]]) [1, 0, 7, 7, 7] =
    .ready [0x00, 0x03, 0xaa, 0xbb, 0xcc] := by decide
example : (fromDataC [[0xaa], [0xbb, 0xcc]]).map (fun w => (w.remaining, w.chunk, (w.advance 3).map (·.chunk)))
    = some (5, [0x00, 0x03], some [0xbb, 0xcc]) := by decide
-- a script that stops inside the second segment
example : (match writeC (fromDataC [[1], [2, 3, 4]]) [2, 5, 2] with
    | .pending out w => (out, w.view)
    | _ => ([], [])) = ([0x00, 0x04, 1, 2, 3], [4]) := by decide
example : (fromPairDataC 0x21 [[], [7]]).map (·.flat.view) = some [0x21, 0x00, 0x01, 7] := by decide

/-- The stream-type prefix of `(StreamType, Frame)` pairs and of unidirectional stream headers
    precedes the frame: the view is `varint(type) ++ header ++ payload`, under every script. -/
theorem C14_pair_is_type_then_frame (ty : Nat) (f : SFrame) (w : WB)
    (h : fromPair ty f = some w) (script : List Nat) :
    ∃ hdr, ty < 2^62 ∧ encodeFrame f = some hdr ∧
      ∃ out w', w.drain script = some (out, w') ∧
        out ++ w'.view = encode ty ++ hdr ++ (framePayload f).getD [] := by
  obtain ⟨tb, hb, htb, hhb, _, hwf, _, hv⟩ := fromPair_spec h
  obtain ⟨hty, rfl⟩ := writeVar_some htb
  obtain ⟨o, w', hd, _, hov⟩ := drain_spec w hwf script
  exact ⟨hb, hty, hhb, o, w', hd, by rw [hov, hv]⟩

example : ((fromPair 0x21 (.grease 0x40)).map (·.view)) =
    some [0x21, 0x40, 0x40, 0x06, 103, 114, 101, 97, 115, 101] := by decide

/-- Every `From` conversion yields a well-formed `WriteBuf` (so `C14_buf_view` and the drain
    theorems apply to it) whose content is what the conversion is documented to encode: the
    stream type as a varint; a unidirectional header (`00` + SETTINGS frame, `02`, `03`,
    `0x54` + session id); the WebTransport bidirectional header `0x41` + session id; a frame
    header followed by the payload; stream type, frame header, payload.  A conversion that
    returns nothing is a panic (`write_var` ≥ 2^62 or the header array overflowing). -/
theorem C14_conversions (w : WB) :
    (∀ ty, fromStreamType ty = some w → w.WF ∧ ty < 2^62 ∧ w.view = encode ty) ∧
    (∀ h, fromUniHeader h = some w → w.WF ∧ encodeUniHeader h = some w.view) ∧
    (∀ sid, fromBidiHeader sid = some w → w.WF ∧ sid < 2^62 ∧ w.view = encode 0x41 ++ encode sid) ∧
    (∀ f, fromFrame f = some w →
      w.WF ∧ ∃ hdr, encodeFrame f = some hdr ∧ w.view = hdr ++ (framePayload f).getD []) ∧
    (∀ ty f, fromPair ty f = some w →
      w.WF ∧ ty < 2^62 ∧
      ∃ hdr, encodeFrame f = some hdr ∧ w.view = encode ty ++ hdr ++ (framePayload f).getD []) := by
  refine ⟨?_, ?_, ?_, ?_, ?_⟩
  · intro ty h
    obtain ⟨bs, hbs, _, hwf, _, _, _, hv⟩ := putOpt_new h
    obtain ⟨hty, rfl⟩ := writeVar_some hbs
    exact ⟨hwf, hty, by rw [hv]; simp⟩
  · intro h hh
    obtain ⟨bs, hbs, _, hwf, _, _, _, hv⟩ := putOpt_new hh
    exact ⟨hwf, by rw [hbs, hv]; simp⟩
  · intro sid h
    obtain ⟨bs, hbs, _, hwf, _, _, _, hv⟩ := putOpt_new h
    simp only [H3.Gen.Consts.STREAM_WEBTRANSPORT_BIDI] at hbs
    rw [writeVar_eq 65 (by decide)] at hbs
    simp only [Option.bind_eq_bind, Option.bind_some] at hbs
    cases hs : writeVar sid with
    | none => rw [hs] at hbs; simp at hbs
    | some sb =>
      rw [hs] at hbs
      simp only [Option.bind_some] at hbs
      cases hbs
      obtain ⟨hlt, rfl⟩ := writeVar_some hs
      exact ⟨hwf, hlt, by rw [hv]; simp⟩
  · intro f h
    obtain ⟨bs, hbs, _, hwf, _, _, _, hv⟩ := putOpt_new h
    exact ⟨hwf, bs, hbs, hv⟩
  · intro ty f h
    obtain ⟨tb, hb, htb, hhb, _, hwf, _, hv⟩ := fromPair_spec h
    obtain ⟨hty, rfl⟩ := writeVar_some htb
    exact ⟨hwf, hty, hb, hhb, hv⟩

example : (fromUniHeader (.webTransportUni 16384)).map (·.view) =
    some [0x40, 0x54, 0x80, 0x00, 0x40, 0x00] := by decide
example : fromStreamType (2^62) = none := by decide
-- nine maximal entries do not fit the 64-byte array: `WriteBuf::from` would panic; no
-- configuration produces such a `Settings` (`C14_setup_never_panics`)
example : fromFrame (.settings ((List.range 9).map (fun i => (2^61 + i, 2^61)))) = none := by
  decide +kernel

/-- `write_var` never panics on a frame all of whose integers are below 2^62, and for every
    frame with a length field (all but the WebTransport stream header; PUSH_PROMISE see below)
    the bytes written — header then payload — read back under the *specification's* decoder as
    the frame's type, then a length, then exactly that many bytes, whatever follows them. -/
theorem C14_frame_header_valid (f : SFrame) (hb : Bounded f) (hl : HasLength f) (rest : Bytes) :
    ∃ hdr p, encodeFrame f = some hdr ∧ hdr ++ (framePayload f).getD [] = wire (frameTypeOf f) p ∧
      rfcDecode (hdr ++ (framePayload f).getD [] ++ rest)
        = some (frameTypeOf f, encode p.length ++ p ++ rest) ∧
      rfcDecode (encode p.length ++ p ++ rest) = some (p.length, p ++ rest) ∧
      (p ++ rest).length = p.length + rest.length := by
  have hs := encodeFrame_total f hb
  cases he : encodeFrame f with
  | none => rw [he] at hs; cases hs
  | some hdr =>
    obtain ⟨p, hw, hty, hp⟩ := encodeFrame_wire f hdr he hl
    refine ⟨hdr, p, rfl, hw, ?_, ?_, by simp⟩
    · rw [hw, wire]
      have : encode (frameTypeOf f) ++ encode p.length ++ p ++ rest
          = encode (frameTypeOf f) ++ (encode p.length ++ p ++ rest) := by simp
      rw [this, rfcDecode_encode _ hty]
    · have : encode p.length ++ p ++ rest = encode p.length ++ (p ++ rest) := by simp
      rw [this, rfcDecode_encode _ hp]

example : rfcDecode [0x00, 0x03, 0xaa, 0xbb, 0xcc, 0x01] = some (0, [0x03, 0xaa, 0xbb, 0xcc, 0x01]) := by
  decide
example : encodeFrame (.goaway (2^62)) = none := by decide

/-- Latent (not reachable through the API: h3 never sends PUSH_PROMISE and offers no way to
    build one): `PushPromise::encode` copies the field section into the header array although
    `payload()` yields it as well, so the length field does not cover the bytes that follow. -/
theorem C14_push_promise_latent :
    (fromFrame (.pushPromise 134 [0xaa, 0xbb, 0xcc])).map (·.view)
      = some [0x05, 0x05, 0x40, 0x86, 0xaa, 0xbb, 0xcc, 0xaa, 0xbb, 0xcc] := by decide

/-- Connection setup cannot panic: for every configuration whose two numeric settings are
    representable (C13's domain) and every grease draw, the stream type and the SETTINGS frame
    fit the `WRITE_BUF_ENCODE_SIZE`-byte header array (at most 42 bytes) and the three initial
    `WriteBuf`s exist. -/
theorem C14_setup_never_panics (server : Bool) (cfg : Config) (gN : Nat) (hm : cfg.mfs < 2^62)
    (hw : cfg.wts < 2^62) (hg : gN < GREASE_RANGE_END) :
    (init server cfg gN).isSome = true ∧
    ∃ w, fromUniHeader (.control (configSettings cfg gN)) = some w ∧ w.view.length ≤ 42 :=
  ⟨init_isSome server cfg gN hm hw hg, control_header_fits cfg gN hm hw hg⟩

/-- For every role, every configuration, every grease draw and every run of the machine — any
    list of API calls (send_request / accept + send_response, send_data with any buffer
    including the empty one, send_trailers, finish, shutdown with any id, the grease stream)
    interleaved in any way with single transport polls that accept any number of bytes
    (0 = `Pending`): the byte log of every stream satisfies the output specification for its
    stream id — a prefix of valid output while the stream is open, a whole number of frames
    once it is finished.  In particular: unidirectional streams begin with a legal type; the
    control stream is `00`, SETTINGS (pairs, no HTTP/2 setting, nothing repeated, every
    non-defined id of the reserved form), then only GOAWAYs; request streams hold only
    HEADERS, DATA and reserved-type frames each followed by exactly `length` bytes; no
    HTTP/2 frame type anywhere; control and QPACK streams are never finished. -/
theorem C14_program_output_valid (server : Bool) (cfg : Config) (gN : Nat) (st0 : State)
    (h0 : init server cfg gN = some st0) (steps : List Step) :
    ∀ e ∈ (run st0 steps).streams,
      checkStream { server := server, wt := cfg.wt } e.1 e.2.log e.2.fin = none := by
  intro e he
  have hinv := run_inv st0 steps (init_inv server cfg gN st0 h0)
  have hcx : cxOf (run st0 steps) = { server := server, wt := cfg.wt } := by
    rw [run_cx, init_cx server cfg gN st0 h0]
  have := sinv_valid _ _ _ (hinv e he)
  rw [hcx] at this
  exact this

/-- The run theorem over the EXTENDED machine: besides the writing calls of
    `C14_program_output_valid`, in any order and number, `stop_stream(code)`, the peer's
    STOP_SENDING on any stream, a call abandoned in mid-write with its handle, `stop_sending`, the
    peer's RESET_STREAM, `split`, `SendRequest::clone` and requests through any clone (each with
    its own copy of the grease flag).  For every run: every stream still live satisfies the output
    specification as before; every stream whose send side was ended by one of these satisfies it
    as it stands — it may end inside a frame: a PREFIX of valid output, and a whole number of
    frames if it had been finished —; h3 resets request streams only (never a control or QPACK
    stream); and a live request stream on which no write is in flight holds a whole number of
    frames whether finished or not (the `length` field of its last DATA / HEADERS frame equals the
    bytes that follow). -/
theorem C14_program_output_valid_ext (server : Bool) (cfg : Config) (gN : Nat) (st0 : State)
    (h0 : init server cfg gN = some st0) (steps : List XStep) :
    (∀ e ∈ (xrun { st := st0 } steps).st.streams,
      checkStream { server := server, wt := cfg.wt } e.1 e.2.log e.2.fin = none ∧
      (e.2.kind = .request → e.2.cur = none → checkRequest e.2.log true = none)) ∧
    (∀ e ∈ (xrun { st := st0 } steps).frozen,
      checkStream { server := server, wt := cfg.wt } e.1 e.2.1.log e.2.1.fin = none ∧
      (e.2.2.isSome = true → e.1 % 4 = 0)) := by
  have hx0 : XInv { st := st0 } :=
    ⟨init_inv server cfg gN st0 h0, fun e he => by cases he⟩
  have hinv := xrun_inv _ steps hx0
  have hcx : cxOf (xrun { st := st0 } steps).st = { server := server, wt := cfg.wt } := by
    rw [xrun_cx]; exact init_cx server cfg gN st0 h0
  refine ⟨?_, ?_⟩
  · intro e he
    have hs := hinv.1 e he
    rw [hcx] at hs
    exact ⟨sinv_valid _ _ _ hs, sinv_idle_request_whole _ _ _ hs⟩
  · intro e he
    have := hinv.2 e he
    rw [hcx] at this
    exact this

/-- the machine of `C14_program_output_valid` is the extended one restricted to writing calls -/
theorem C14_ext_conservative (st : State) (steps : List Step) :
    (xrun { st := st } (steps.map .api)).st = run st steps ∧
    (xrun { st := st } (steps.map .api)).frozen = [] := by
  induction steps generalizing st with
  | nil => exact ⟨rfl, rfl⟩
  | cons s r ih =>
    have := ih (step st s)
    simpa [xrun, run, xstep, isFrozen] using this

/-- a concrete client run: the control header trickles out (3 bytes, `Pending`, the rest), a
    request with an empty and a two-byte DATA frame is sent one byte at a time and finished
    with a grease frame, GOAWAY follows on the control stream -/
def demoCfg : Config := { grease := true, mfs := 100, wt := false, ec := true, dg := false, wts := 0 }
def demoSteps : List Step :=
  [.poll 2 3, .poll 2 0, .poll 2 1000, .poll 6 1, .poll 10 1,
   .sendRequest 0 [0, 0, 0xd1], .poll 0 1, .poll 0 1, .poll 0 1, .poll 0 0, .poll 0 1, .poll 0 1,
   .sendData 0 [], .poll 0 1, .poll 0 1, .sendData 0 [7, 8], .poll 0 1000, .poll 0 1000,
   .finish 0 5, .poll 0 4, .goaway 0, .poll 2 2]

example : ((init false demoCfg 2).map (fun s => (run s demoSteps).streams.map
      (fun e => (e.1, e.2.log, e.2.fin, e.2.cur.isSome)))) =
    some [(2, [0x00, 0x04, 0x14, 0x40, 0x5f, 0x00, 0x06, 0x40, 0x64, 0x08, 0x01,
               0xab, 0x60, 0x37, 0x42, 0x00, 0x33, 0x00, 0xab, 0x60, 0x37, 0x43, 0x00,
               0x07, 0x01], false, true),
          (6, [0x02], false, false), (10, [0x03], false, false),
          (0, [0x01, 0x03, 0, 0, 0xd1, 0x00, 0x00, 0x00, 0x02, 7, 8, 0x40, 0xbc, 0x06, 103],
              false, true)] := by decide +kernel

-- the specification does reject what it should
example : checkStream ⟨true, false⟩ 3 [0x00, 0x04, 0x02, 0x02, 0x00] false = some (.h2Setting 2) := by
  decide
example : checkStream ⟨true, false⟩ 3 [0x00, 0x07, 0x01, 0x00] false = some (.missingSettings 7) := by
  decide
example : checkStream ⟨false, false⟩ 2 [0x00, 0x04, 0x00, 0x04, 0x00] false
    = some (.frameNotAllowed 4) := by decide
example : checkStream ⟨true, false⟩ 0 [0x01, 0x01, 0xaa, 0x06, 0x00] false = some (.h2Frame 6) := by
  decide
example : checkStream ⟨true, false⟩ 0 [0x00, 0x05, 0x01] true = some .truncated := by decide
example : checkStream ⟨true, false⟩ 0 [0x00, 0x05, 0x01] false = none := by decide
example : checkStream ⟨true, false⟩ 0 [0x22, 0x00] false = some (.frameNotAllowed 0x22) := by decide
example : checkStream ⟨true, false⟩ 7 [0x04] false = some (.badStreamType 4) := by decide
example : checkStream ⟨true, false⟩ 3 [0x00] true = some .criticalClosed := by decide

/-- Every identifier a `grease()` function can return — for every draw of
    `fastrand::u64(0..GREASE_RANGE_END)` — is computed without `u64` wrap, is of the form
    `0x1f * N + 0x21`, is below 2^62 (so `write_var` accepts it), and never equals a frame
    type, setting identifier or stream type that h3 defines, nor an HTTP/2-reserved frame type
    or setting. -/
theorem C14_grease_ids (n : Nat) (hn : n < GREASE_RANGE_END) :
    n * 0x1f + 0x21 < 2^64 ∧ greaseId n = 0x1f * n + 0x21 ∧ greaseId n < 2^62 ∧
    isReserved (greaseId n) = true ∧
    (∀ e ∈ H3.Gen.Consts.frameTypes, greaseId n ≠ e.2) ∧
    (∀ e ∈ H3.Gen.Consts.settingIds, greaseId n ≠ e.2) ∧
    (∀ t ∈ [H3.Gen.Consts.STREAM_CONTROL, H3.Gen.Consts.STREAM_PUSH, H3.Gen.Consts.STREAM_ENCODER,
            H3.Gen.Consts.STREAM_DECODER, H3.Gen.Consts.STREAM_WEBTRANSPORT_BIDI,
            H3.Gen.Consts.STREAM_WEBTRANSPORT_UNI], greaseId n ≠ t) ∧
    (∀ t ∈ H3.Spec.Framing.h2Types, greaseId n ≠ t) ∧
    (∀ t ∈ H3.Spec.Framing.h2Settings, greaseId n ≠ t) := by
  have hlt := greaseId_lt n hn
  have hres := greaseId_reserved n
  have hnot : ∀ x, isReserved x = false → greaseId n ≠ x := by
    intro x hx heq
    rw [heq, hx] at hres
    cases hres
  have f1 : ∀ e ∈ H3.Gen.Consts.frameTypes, isReserved e.2 = false := by decide
  have f2 : ∀ e ∈ H3.Gen.Consts.settingIds, isReserved e.2 = false := by decide
  have f3 : ∀ t ∈ [H3.Gen.Consts.STREAM_CONTROL, H3.Gen.Consts.STREAM_PUSH,
      H3.Gen.Consts.STREAM_ENCODER, H3.Gen.Consts.STREAM_DECODER,
      H3.Gen.Consts.STREAM_WEBTRANSPORT_BIDI, H3.Gen.Consts.STREAM_WEBTRANSPORT_UNI],
      isReserved t = false := by decide
  have f4 : ∀ t ∈ H3.Spec.Framing.h2Types, isReserved t = false := by decide
  have f5 : ∀ t ∈ H3.Spec.Framing.h2Settings, isReserved t = false := by decide
  refine ⟨?_, ?_, hlt, hres, fun e he => hnot _ (f1 e he), fun e he => hnot _ (f2 e he),
    fun t ht => hnot _ (f3 t ht), fun t ht => hnot _ (f4 t ht), fun t ht => hnot _ (f5 t ht)⟩
  · unfold GREASE_RANGE_END at hn; omega
  · unfold greaseId GREASE_MUL GREASE_ADD; omega

-- the largest draw
example : greaseId (GREASE_RANGE_END - 1) = 4611686018427387871 ∧
    writeVar (greaseId (GREASE_RANGE_END - 1)) = some [0xff, 0xff, 0xff, 0xff, 0xff, 0xff, 0xff, 0xdf] := by
  decide
example : isReserved 0x21 = true ∧ isReserved 0x41 = false ∧ isReserved 0x5f = true := by decide

-- a client: the request's DATA frame is cut by the peer's STOP_SENDING after 3 of its 5 bytes (the
-- stream stays a prefix of valid output and never moves again, later calls write nothing), a
-- second request through a clone made before the first request carries its own grease frame
def demoXSteps : List XStep :=
  [.api (.poll 2 1000), .api (.poll 6 1), .api (.poll 10 1),
   .cloneSender 0, .sendRequestVia 0 0 [0xd1], .api (.poll 0 100), .api (.poll 0 100),
   .api (.sendData 0 [7, 8, 9]), .api (.poll 0 100), .api (.poll 0 2), .peerStop 0 268,
   .api (.poll 0 100), .api (.sendData 0 [1]), .api (.finish 0 5),
   .sendRequestVia 1 4 [0xd1], .api (.poll 4 100), .api (.poll 4 100), .api (.finish 4 5),
   .api (.poll 4 100), .stopStream 4 268, .stopStream 2 1]

def demoX : Option XState := (init false demoCfg 2).map (fun s => xrun { st := s } demoXSteps)

example : demoX.map (fun x => x.st.streams.map (·.1)) = some [2, 6, 10] := by decide +kernel
example : demoX.map (fun x => x.frozen.map (fun e => (e.1, e.2.1.log))) =
    some [(0, [0x01, 0x01, 0xd1, 0x00, 0x03, 7, 8]),
          (4, [0x01, 0x01, 0xd1, 0x40, 0xbc, 0x06, 103, 114, 101, 97, 115, 101])] := by decide +kernel
example : demoX.map (fun x => x.frozen.map (fun e => (e.2.1.fin, e.2.2))) =
    some [(false, none), (true, some 268)] := by decide +kernel
example : demoX.map (·.handles) = some [false, false] := by decide +kernel

end H3.Props.C14
