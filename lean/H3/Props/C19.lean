import H3.Model.Session
import H3.Model.FrameStream
import H3.Props.C16
import H3.Props.C02
import H3.Props.C04
import H3.Lemmas.C19
import H3.Lemmas.VarintSpec
/-! # C19 — WebTransport streams stay attached to their session, bytes intact -/
namespace H3.Props.C19
open H3.Session H3.Varint H3.Gen.Consts

private theorem dec_enc (x : Nat) (hx : x < 2^62) (rest : Bytes) :
    Varint.decode (Varint.encode x ++ rest) = .ok x rest :=
  (H3.Props.C16.C16_decode_encode x hx rest).1

/-- The session id is the CONNECT stream's id: conversions are the identity on the number, the
    id reported for an accepted session is that stream id, and the header h3 writes at the start
    of every stream it opens for the session parses (RFC 9000 varints) to the WebTransport
    stream type followed by exactly that id — for every id, multi-byte varint ids included. -/
theorem C19_session_id_is_stream_id (id : Nat) (hid : id < 2^62) (rest : Bytes) :
    acceptedSessionId id = id ∧ toStream (ofStream id) = id ∧ ofStream (toStream id) = id ∧
    Varint.decode (bidiHeader id ++ rest) = .ok 0x41 (Varint.encode id ++ rest) ∧
    Varint.decode (Varint.encode id ++ rest) = .ok id rest ∧
    Varint.decode (uniHeader id ++ rest) = .ok 0x54 (Varint.encode id ++ rest) := by
  refine ⟨rfl, rfl, rfl, ?_, dec_enc id hid rest, ?_⟩
  · simp only [bidiHeader, List.append_assoc]
    exact dec_enc _ (by decide) _
  · simp only [uniHeader, List.append_assoc]
    exact dec_enc _ (by decide) _

example : bidiHeader 4 = [0x40, 0x41, 0x04] ∧ uniHeader 65536 = [0x40, 0x54, 0x80, 0x01, 0x00, 0x00] := by
  decide

/-- An incoming bidirectional stream that starts with the header for session `s` is decoded
    by the frame layer as the WebTransport frame carrying exactly `s`, consuming exactly the
    header, whatever payload follows. -/
theorem C19_bidi_header_decodes (s : Nat) (hs : s < 2^62) (payload : Bytes) :
    H3.Frame.decode (bidiHeader s ++ payload) =
      .frame (.webTransport s) (bidiHeader s).length := by
  have h1 : Varint.decode (bidiHeader s ++ payload) = .ok 0x41 (Varint.encode s ++ payload) :=
    (C19_session_id_is_stream_id s hs payload).2.2.2.1
  have h2 := dec_enc s hs payload
  unfold H3.Frame.decode
  rw [h1]
  simp only [FRAME_WEBTRANSPORT_BI_STREAM, if_true, h2]
  congr 1
  simp [bidiHeader]
  omega

example : H3.Frame.decode (bidiHeader 256 ++ [1, 2, 3]) = .frame (.webTransport 256) 4 := by decide

/-- WebTransport unidirectional streams are surfaced only when the extension is enabled. -/
theorem C19_gated (enabled : Bool) (ty : Nat) :
    (surfaceUni enabled ty = true ↔ (ty = 0x54 ∧ enabled = true)) ∧
    (enabled = false → surfaceUni enabled ty = false) := by
  unfold surfaceUni STREAM_WEBTRANSPORT_UNI
  constructor
  · constructor
    · intro h; simp at h; exact h
    · intro ⟨h1, h2⟩; simp [h1, h2]
  · intro h; simp [h]

/-- Reading after the header: the reader obtains the buffered remainder first, then what the
    transport delivers later, each byte once and in order. -/
theorem C19_read_after_header (buffered later : List (List Nat)) :
    readAll buffered later = buffered.flatten ++ later.flatten := by
  simp [readAll]

/-! ## The bytes after the header, for every chunking -/

section bidi
open H3.FS

/-- **Bidirectional streams, any encoding of the header.**  `hdr` is any byte string the frame
    decoder reads as the WebTransport header of session `sid` whatever follows it (the header
    `open_bi` writes, `C19_bidi_header_decodes`; but also one whose varints the peer wrote in a
    longer form than necessary).  The transport delivers `hdr ++ payload` cut in ANY way (`sc0`:
    header and payload in one chunk, cuts inside either varint, `Pending` anywhere).  `poll_next`
    is polled until it answers the WebTransport frame — any configuration of the `FrameStream`
    model in which exactly the token `frame (webTransport x)` has been handed out.  Then the frame
    carries the session id of the header, the stream is in raw mode (`remaining_data =
    usize::MAX`), and the bytes still buffered followed by the bytes the transport has still to
    deliver are exactly the payload: nothing of it was consumed with the header, nothing of the
    header is left (this is what `FrameStream::into_inner()` hands to the WebTransport stream). -/
theorem C19_payload_after_any_header (sid : Nat) (hdr payload : List Nat)
    (hdec : ∀ p, H3.Frame.decode (hdr ++ p) = .frame (.webTransport sid) hdr.length)
    (hlen : payload.length < 2^64) (sc0 : List Ev) (hsc : ScriptOK sc0)
    (hbytes : evBytes sc0 = hdr ++ payload)
    {x : Nat} {s : FS.St} {script : List Ev}
    (h : Reach frameDec sc0 [FS.Tok.frame (.webTransport x)] s script) :
    x = sid ∧ s.remaining = USIZE_MAX ∧ s.flat ++ evBytes script = payload := by
  obtain ⟨taken, hsc0, hI⟩ := H3.Props.C02.C02_chunking_independent frameDec frameDec_laws sc0 hsc h
  obtain ⟨consumed, hseen, hrun⟩ := hI.split
  have hdec' : ∀ p, frameDec.dec (hdr ++ p) = .frame (.webTransport sid) hdr.length := by
    intro p
    show liftRes (H3.Frame.decode (hdr ++ p)) = _
    rw [hdec p]
    rfl
  have hall : consumed ++ (s.flat ++ evBytes script) = hdr ++ payload := by
    rw [← hbytes, hsc0, evBytes_append, hseen, List.append_assoc]
  have hraw : payload.length ≤ (frameDec.kind (.webTransport sid)).rem := by
    show payload.length ≤ 2^64 - 1
    omega
  obtain ⟨hc, hx⟩ := run_raw_header_prefix frameDec frameDec_laws hdr payload consumed
    (s.flat ++ evBytes script) (.webTransport sid) (.webTransport x) hdec' hraw hall _ hrun
  have hx' : x = sid := by simpa using hx
  subst hc
  refine ⟨hx', ?_, List.append_cancel_left hall⟩
  have hd0 := hdec' []
  rw [List.append_nil] at hd0
  have hr := run_of_pos frameDec frameDec_laws consumed consumed.length (by rw [hd0]; rfl)
  rw [hd0] at hr
  simp only [DecRes.fed, List.drop_length, run] at hr
  rw [hr] at hrun
  simp only [Prod.mk.injEq] at hrun
  exact (PSt.ofRem_inj hrun.1).symm

/-- **Bidirectional streams.**  The same for the header h3 itself writes for session `sid`
    (`bidiHeader sid` = varint 0x41, varint `sid`), for every session id incl. multi-byte ones:
    for every cutting of `bidiHeader sid ++ payload`, once `poll_next` has answered the
    WebTransport frame, the frame carries `sid` and buffer ++ future = `payload`. -/
theorem C19_payload_after_header (sid : Nat) (hsid : sid < 2^62) (payload : List Nat)
    (hlen : payload.length < 2^64) (sc0 : List Ev) (hsc : ScriptOK sc0)
    (hbytes : evBytes sc0 = bidiHeader sid ++ payload)
    {x : Nat} {s : FS.St} {script : List Ev}
    (h : Reach frameDec sc0 [FS.Tok.frame (.webTransport x)] s script) :
    x = sid ∧ s.remaining = USIZE_MAX ∧ s.flat ++ evBytes script = payload :=
  C19_payload_after_any_header sid (bidiHeader sid) payload (C19_bidi_header_decodes sid hsid)
    hlen sc0 hsc hbytes h

/-- ... hence what a reader of the stream obtains after `into_inner()` — the buffered chunks first,
    then the chunks the transport delivers later (`readAll`) — is exactly the payload. -/
theorem C19_bidi_reader_obtains_payload (sid : Nat) (hsid : sid < 2^62) (payload : List Nat)
    (hlen : payload.length < 2^64) (sc0 : List Ev) (hsc : ScriptOK sc0)
    (hbytes : evBytes sc0 = bidiHeader sid ++ payload)
    {x : Nat} {s : FS.St} {script : List Ev}
    (h : Reach frameDec sc0 [FS.Tok.frame (.webTransport x)] s script) :
    readAll s.buf (evChunks script) = payload := by
  rw [C19_read_after_header, evChunks_flatten]
  exact (C19_payload_after_header sid hsid payload hlen sc0 hsc hbytes h).2.2

/-! non-vacuity: session 256 (`40 41 | 41 00`), payload `aa bb cc`, three cuttings of the same
    seven bytes: all in one chunk; cut inside the type varint, inside the id varint and inside the
    payload, with a `Pending` in between (three `poll_next` calls); header alone, FIN behind the
    payload. -/
example : bidiHeader 256 ++ [0xaa, 0xbb, 0xcc] = [0x40, 0x41, 0x41, 0x00, 0xaa, 0xbb, 0xcc] := by decide

example : Reach frameDec [.chunk [0x40, 0x41, 0x41, 0x00, 0xaa, 0xbb, 0xcc]]
    [FS.Tok.frame (.webTransport 256)] { buf := [[0xaa, 0xbb, 0xcc]], remaining := USIZE_MAX } [] :=
  Reach.next Reach.init (by decide +kernel :
    pollNext frameDec {} [.chunk [0x40, 0x41, 0x41, 0x00, 0xaa, 0xbb, 0xcc]] =
      (.frame (.webTransport 256), { buf := [[0xaa, 0xbb, 0xcc]], remaining := USIZE_MAX }, [])) rfl

example : readAll [[0xaa, 0xbb, 0xcc]] (evChunks []) = [0xaa, 0xbb, 0xcc] :=
  C19_bidi_reader_obtains_payload 256 (by decide) [0xaa, 0xbb, 0xcc] (by decide)
    [.chunk [0x40, 0x41, 0x41, 0x00, 0xaa, 0xbb, 0xcc]]
    (by intro b hb; simp at hb; subst hb; simp) (by decide)
    (x := 256) (s := { buf := [[0xaa, 0xbb, 0xcc]], remaining := USIZE_MAX }) (script := [])
    (Reach.next Reach.init (by decide +kernel :
      pollNext frameDec {} [.chunk [0x40, 0x41, 0x41, 0x00, 0xaa, 0xbb, 0xcc]] =
        (.frame (.webTransport 256), { buf := [[0xaa, 0xbb, 0xcc]], remaining := USIZE_MAX }, [])) rfl)

/-- a header whose session id the peer wrote in a longer form than necessary (`40 04` for 4) -/
theorem long_header_decodes (p : List Nat) :
    H3.Frame.decode ([0x40, 0x41, 0x40, 0x04] ++ p) =
      .frame (.webTransport 4) ([0x40, 0x41, 0x40, 0x04] : List Nat).length := by
  unfold H3.Frame.decode
  simp only [List.cons_append, List.nil_append]
  rw [decode2 _ _ _ (by decide)]
  simp only [FRAME_WEBTRANSPORT_BI_STREAM]
  rw [if_pos (by decide), decode2 _ _ _ (by decide)]
  simp
  omega

example : (4 = 4 ∧ USIZE_MAX = USIZE_MAX ∧ [] ++ evBytes [.pend, .chunk [0xaa], .fin] = [0xaa]) :=
  C19_payload_after_any_header 4 [0x40, 0x41, 0x40, 0x04] [0xaa] long_header_decodes (by decide)
    [.chunk [0x40, 0x41, 0x40], .chunk [0x04], .pend, .chunk [0xaa], .fin]
    (by intro b hb; simp at hb; rcases hb with rfl | rfl | rfl <;> simp) (by decide)
    (x := 4) (s := { buf := [], remaining := USIZE_MAX }) (script := [.pend, .chunk [0xaa], .fin])
    (Reach.next Reach.init (by decide +kernel :
      pollNext frameDec {} [.chunk [0x40, 0x41, 0x40], .chunk [0x04], .pend, .chunk [0xaa], .fin] =
        (.frame (.webTransport 4), { buf := [], remaining := USIZE_MAX }, [.pend, .chunk [0xaa], .fin])) rfl)

def cut₂ : List Ev := [.chunk [0x40], .pend, .chunk [0x41, 0x41], .pend, .chunk [0x00, 0xaa], .chunk [0xbb, 0xcc], .fin]

theorem reach_cut₂ : Reach frameDec cut₂ [FS.Tok.frame (.webTransport 256)]
    { buf := [[0xaa]], remaining := USIZE_MAX } [.chunk [0xbb, 0xcc], .fin] :=
  show Reach frameDec cut₂ ([] ++ Out.toks (.pending : FOut) ++ Out.toks (.pending : FOut) ++
      Out.toks (.frame (.webTransport 256) : FOut)) _ _ from
  Reach.next (o := .frame (.webTransport 256))
    (Reach.next (o := .pending)
      (Reach.next (o := .pending) Reach.init
        (by decide +kernel : pollNext frameDec {} cut₂ =
          (.pending, { buf := [[0x40]], expected := some 2 },
            [.chunk [0x41, 0x41], .pend, .chunk [0x00, 0xaa], .chunk [0xbb, 0xcc], .fin])) rfl)
      (by decide +kernel : pollNext frameDec { buf := [[0x40]], expected := some 2 }
          [.chunk [0x41, 0x41], .pend, .chunk [0x00, 0xaa], .chunk [0xbb, 0xcc], .fin] =
        (.pending, { buf := [[0x40], [0x41, 0x41]], expected := some 1 },
          [.chunk [0x00, 0xaa], .chunk [0xbb, 0xcc], .fin])) rfl)
    (by decide +kernel : pollNext frameDec { buf := [[0x40], [0x41, 0x41]], expected := some 1 }
        [.chunk [0x00, 0xaa], .chunk [0xbb, 0xcc], .fin] =
      (.frame (.webTransport 256), { buf := [[0xaa]], remaining := USIZE_MAX }, [.chunk [0xbb, 0xcc], .fin])) rfl

example : (256 = 256 ∧ (USIZE_MAX = USIZE_MAX) ∧ [0xaa] ++ evBytes [.chunk [0xbb, 0xcc], .fin] = [0xaa, 0xbb, 0xcc]) :=
  C19_payload_after_header 256 (by decide) [0xaa, 0xbb, 0xcc] (by decide) cut₂
    (by intro b hb; simp [cut₂] at hb; rcases hb with rfl | rfl | rfl | rfl <;> simp) (by decide) reach_cut₂

example : readAll [[0xaa]] (evChunks [.chunk [0xbb, 0xcc], .fin]) = [0xaa, 0xbb, 0xcc] :=
  C19_bidi_reader_obtains_payload 256 (by decide) [0xaa, 0xbb, 0xcc] (by decide) cut₂
    (by intro b hb; simp [cut₂] at hb; rcases hb with rfl | rfl | rfl | rfl <;> simp) (by decide) reach_cut₂

end bidi

section uni
open H3.UniAccept H3.Lemmas.C04
open H3.Spec.ControlRules (header)

/-- **Unidirectional streams.**  The peer opens a stream with the header for session `sid`
    (stream type 0x54, then the session id) followed by `payload`; for every script carrying
    these bytes before the end of the stream (ANY cutting, `Pending` anywhere, FIN or RESET behind
    the payload or still open) `poll_type`, polled until it is ready, resolves the stream: the type
    is the WebTransport stream type, the id attached is exactly `sid`, and the bytes still buffered
    followed by the bytes still to come are exactly the payload. -/
theorem C19_uni_payload_after_header (sid : Nat) (hsid : sid < 2^62) (payload : List Nat)
    (sc : List UniAccept.Ev) (hwf : ScriptWF sc) (hbytes : bytesOf sc = uniHeader sid ++ payload) :
    ∃ s r, resolve (sc.length + 1) {} sc = .resolved s r ∧
      s.ty = some 0x54 ∧ s.id = some sid ∧ s.buf ++ future s r = payload := by
  have hres := H3.Props.C04.C04_type_resolution sc hwf
  have hh : header (bytesOf sc) = .complete 0x54 (some sid) payload := by
    rw [hbytes]
    unfold header uniHeader
    rw [List.append_assoc, rfcDecode_encode _ (by decide)]
    simp only [STREAM_WEBTRANSPORT_UNI]
    simp only [show Spec.ControlRules.hasId 84 = true by decide, if_true, rfcDecode_encode sid hsid]
  rw [hh] at hres
  cases hr : resolve (sc.length + 1) {} sc with
  | resolved s r =>
    rw [hr] at hres
    exact ⟨s, r, rfl, hres⟩
  | dropped => rw [hr] at hres; exact hres.elim
  | internal => rw [hr] at hres; exact hres.elim
  | waiting s => rw [hr] at hres; exact hres.elim

/-- ... hence a reader of the resolved stream — the buffered remainder first, then the chunks the
    transport delivers before the stream ends (`readAll`) — obtains exactly the payload. -/
theorem C19_uni_reader_obtains_payload (sid : Nat) (hsid : sid < 2^62) (payload : List Nat)
    (sc : List UniAccept.Ev) (hwf : ScriptWF sc) (hbytes : bytesOf sc = uniHeader sid ++ payload) :
    ∃ s r, resolve (sc.length + 1) {} sc = .resolved s r ∧ s.id = some sid ∧
      readAll [s.buf] (futureChunks s r) = payload := by
  obtain ⟨s, r, h1, _, h3, h4⟩ := C19_uni_payload_after_header sid hsid payload sc hwf hbytes
  refine ⟨s, r, h1, h3, ?_⟩
  rw [C19_read_after_header, futureChunks_flatten]
  simpa using h4

/-! non-vacuity: session 65536 (`40 54 | 80 01 00 00`), payload `aa bb`: everything in one chunk
    with FIN behind; cut inside the type varint and inside the id varint with `Pending` between -/
example : uniHeader 65536 ++ [0xaa, 0xbb] = [0x40, 0x54, 0x80, 0x01, 0x00, 0x00, 0xaa, 0xbb] := by decide
example : resolve 3 {} [.chunk [0x40, 0x54, 0x80, 0x01, 0x00, 0x00, 0xaa, 0xbb], .fin] =
    .resolved { buf := [0xaa, 0xbb], ty := some 0x54, id := some 65536 } [.fin] := by decide +kernel
example : resolve 8 {} [.chunk [0x40], .pend, .chunk [0x54, 0x80], .pend, .chunk [0x01, 0x00], .chunk [0x00, 0xaa],
      .chunk [0xbb]] =
    .resolved { buf := [0xaa], ty := some 0x54, id := some 65536 } [.chunk [0xbb]] := by decide +kernel
example : ∃ s r, resolve 8 {} [.chunk [0x40], .pend, .chunk [0x54, 0x80], .pend, .chunk [0x01, 0x00],
      .chunk [0x00, 0xaa], .chunk [0xbb]] = .resolved s r ∧ s.id = some 65536 ∧
      readAll [s.buf] (futureChunks s r) = [0xaa, 0xbb] :=
  C19_uni_reader_obtains_payload 65536 (by decide) [0xaa, 0xbb]
    [.chunk [0x40], .pend, .chunk [0x54, 0x80], .pend, .chunk [0x01, 0x00], .chunk [0x00, 0xaa], .chunk [0xbb]]
    (by intro b hb; simp at hb; rcases hb with rfl | rfl | rfl | rfl | rfl <;> simp [WF]) (by decide)

end uni

end H3.Props.C19
