import H3.Model.Session
import H3.Model.FrameStream
import H3.Props.C16
/-! # C19 — WebTransport streams stay attached to their session, bytes intact -/
namespace H3.Props.C19
open H3.Session H3.Varint H3.Gen.Consts

private theorem dec_enc (x : Nat) (hx : x < 2^62) (rest : Bytes) :
    Varint.decode (Varint.encode x ++ rest) = .ok x rest :=
  (H3.Props.C16.C16_decode_encode x hx rest).1

/-- The session id is the CONNECT stream's id: conversions are the identity on the number, the
    id reported for an accepted session is that stream id, and the header h3 writes at the start
    of every stream it opens for the session parses (RFC 9000 varints) to the WebTransport
    stream type followed by exactly that id — for every id, multi-byte varint ids included. -/
theorem C19_session_id_is_stream_id (id : Nat) (hid : id < 2^62) (rest : Bytes) :
    acceptedSessionId id = id ∧ toStream (ofStream id) = id ∧ ofStream (toStream id) = id ∧
    Varint.decode (bidiHeader id ++ rest) = .ok 0x41 (Varint.encode id ++ rest) ∧
    Varint.decode (Varint.encode id ++ rest) = .ok id rest ∧
    Varint.decode (uniHeader id ++ rest) = .ok 0x54 (Varint.encode id ++ rest) := by
  refine ⟨rfl, rfl, rfl, ?_, dec_enc id hid rest, ?_⟩
  · simp only [bidiHeader, List.append_assoc]
    exact dec_enc _ (by decide) _
  · simp only [uniHeader, List.append_assoc]
    exact dec_enc _ (by decide) _

example : bidiHeader 4 = [0x40, 0x41, 0x04] ∧ uniHeader 65536 = [0x40, 0x54, 0x80, 0x01, 0x00, 0x00] := by
  decide

/-- An incoming bidirectional stream that starts with the header for session `s` is decoded
    by the frame layer as the WebTransport frame carrying exactly `s`, consuming exactly the
    header, whatever payload follows. -/
theorem C19_bidi_header_decodes (s : Nat) (hs : s < 2^62) (payload : Bytes) :
    H3.Frame.decode (bidiHeader s ++ payload) =
      .frame (.webTransport s) (bidiHeader s).length := by
  have h1 : Varint.decode (bidiHeader s ++ payload) = .ok 0x41 (Varint.encode s ++ payload) :=
    (C19_session_id_is_stream_id s hs payload).2.2.2.1
  have h2 := dec_enc s hs payload
  unfold H3.Frame.decode
  rw [h1]
  simp only [FRAME_WEBTRANSPORT_BI_STREAM, if_true, h2]
  congr 1
  simp [bidiHeader]
  omega

example : H3.Frame.decode (bidiHeader 256 ++ [1, 2, 3]) = .frame (.webTransport 256) 4 := by decide

/-- WebTransport unidirectional streams are surfaced only when the extension is enabled. -/
theorem C19_gated (enabled : Bool) (ty : Nat) :
    (surfaceUni enabled ty = true ↔ (ty = 0x54 ∧ enabled = true)) ∧
    (enabled = false → surfaceUni enabled ty = false) := by
  unfold surfaceUni STREAM_WEBTRANSPORT_UNI
  constructor
  · constructor
    · intro h; simp at h; exact h
    · intro ⟨h1, h2⟩; simp [h1, h2]
  · intro h; simp [h]

/-- Reading after the header: the reader obtains the buffered remainder first, then what the
    transport delivers later, each byte once and in order. -/
theorem C19_read_after_header (buffered later : List (List Nat)) :
    readAll buffered later = buffered.flatten ++ later.flatten := by
  simp [readAll]

end H3.Props.C19
