import H3.Model.Session
import H3.Model.FrameStream
import H3.Props.C16
import H3.Props.C02
import H3.Props.C04
import H3.Lemmas.C19
import H3.Lemmas.C19IO
import H3.Lemmas.C19Live
import H3.Lemmas.VarintSpec
/-! # C19 — WebTransport streams stay attached to their session, bytes intact -/
namespace H3.Props.C19
open H3.Session H3.Varint H3.Gen.Consts

private theorem dec_enc (x : Nat) (hx : x < 2^62) (rest : Bytes) :
    Varint.decode (Varint.encode x ++ rest) = .ok x rest :=
  (H3.Props.C16.C16_decode_encode x hx rest).1

/-- The session id is the CONNECT stream's id: conversions are the identity on the number, the
    id reported for an accepted session is that stream id, and the header h3 writes at the start
    of every stream it opens for the session parses (RFC 9000 varints) to the WebTransport
    stream type followed by exactly that id — for every id, multi-byte varint ids included. -/
theorem C19_session_id_is_stream_id (id : Nat) (hid : id < 2^62) (rest : Bytes) :
    acceptedSessionId id = id ∧ toStream (ofStream id) = id ∧ ofStream (toStream id) = id ∧
    Varint.decode (bidiHeader id ++ rest) = .ok 0x41 (Varint.encode id ++ rest) ∧
    Varint.decode (Varint.encode id ++ rest) = .ok id rest ∧
    Varint.decode (uniHeader id ++ rest) = .ok 0x54 (Varint.encode id ++ rest) := by
  refine ⟨rfl, rfl, rfl, ?_, dec_enc id hid rest, ?_⟩
  · simp only [bidiHeader, List.append_assoc]
    exact dec_enc _ (by decide) _
  · simp only [uniHeader, List.append_assoc]
    exact dec_enc _ (by decide) _

example : bidiHeader 4 = [0x40, 0x41, 0x04] ∧ uniHeader 65536 = [0x40, 0x54, 0x80, 0x01, 0x00, 0x00] := by
  decide

/-- An incoming bidirectional stream that starts with the header for session `s` is decoded
    by the frame layer as the WebTransport frame carrying exactly `s`, consuming exactly the
    header, whatever payload follows. -/
theorem C19_bidi_header_decodes (s : Nat) (hs : s < 2^62) (payload : Bytes) :
    H3.Frame.decode (bidiHeader s ++ payload) =
      .frame (.webTransport s) (bidiHeader s).length := by
  have h1 : Varint.decode (bidiHeader s ++ payload) = .ok 0x41 (Varint.encode s ++ payload) :=
    (C19_session_id_is_stream_id s hs payload).2.2.2.1
  have h2 := dec_enc s hs payload
  unfold H3.Frame.decode
  rw [h1]
  simp only [FRAME_WEBTRANSPORT_BI_STREAM, if_true, h2]
  congr 1
  simp [bidiHeader]
  omega

example : H3.Frame.decode (bidiHeader 256 ++ [1, 2, 3]) = .frame (.webTransport 256) 4 := by decide

private theorem uniFate_false (evs : List H3.FS.Ev) (id : Nat) (rd : Rd) (sc : List H3.FS.Ev) :
    uniFate false evs ≠ .surface id rd sc := by
  unfold uniFate
  split
  · split
    · simp
    · simp
  · simp
  · simp
  · simp

private theorem passOne_false_wt (acc : Accepted) (u : UniIn) :
    (Accepted.passOne false acc u).wt = acc.wt := by
  unfold Accepted.passOne
  split
  · rename_i id rd sc h
    exact absurd h (uniFate_false _ _ _ _)
  · rfl
  · rfl

private theorem fold_false_wt (l : List UniIn) (acc : Accepted) :
    (l.foldl (Accepted.passOne false) acc).wt = acc.wt := by
  induction l generalizing acc with
  | nil => rfl
  | cons u r ih => rw [List.foldl_cons, ih, passOne_false_wt]

private theorem pass_false_wt (a : Accepted) : (a.pass false).wt = a.wt := by
  unfold Accepted.pass
  rw [fold_false_wt]

private theorem runAccepts_false (ops : List AOp) :
    ∀ a : Accepted, a.wt = [] → (runAccepts false a ops).1 = [] ∧ (runAccepts false a ops).2.wt = [] := by
  induction ops with
  | nil => intro a h; exact ⟨rfl, h⟩
  | cons op r ih =>
    intro a h
    cases op with
    | arrive u =>
      simp only [runAccepts]
      exact ih (a.arrive u) (by simpa [Accepted.arrive] using h)
    | accept =>
      have hw : (a.pass false).wt = [] := by rw [pass_false_wt, h]
      have hacc : a.acceptUni false = (none, a.pass false) := by
        unfold Accepted.acceptUni
        rw [hw]
        rfl
      simp only [runAccepts, hacc]
      exact ih (a.pass false) hw

/-- **The gate, over the running model.**  With the extension disabled (`enable_webtransport =
    false`): (1) whatever a uni stream delivers, the pass of `poll_accept_recv` over it never takes
    the `WebTransportUni(id, s) if enable_webtransport` arm (`uniFate false` is never `surface`);
    (2) for EVERY sequence of arrivals (any streams, any events on them) and `accept_uni` polls, in
    any interleaving, starting from any state with an empty `wt_uni_streams`: no `accept_uni` ever
    surfaces a stream and nothing is ever pushed on `wt_uni_streams`.  (3) Conversely, with the
    extension enabled a stream is surfaced only if `poll_type` resolved it and `into_stream`
    classified it as the WebTransport uni type, with the session id it is surfaced under. -/
theorem C19_gated :
    (∀ evs id rd sc, uniFate false evs ≠ .surface id rd sc) ∧
    (∀ (a : Accepted) (ops : List AOp), a.wt = [] →
      (runAccepts false a ops).1 = [] ∧ (runAccepts false a ops).2.wt = []) ∧
    (∀ evs id rd sc, uniFate true evs = .surface id rd sc →
      ∃ s rest, UniAccept.resolve (evs.length + 1) {} evs = .resolved s rest ∧
        UniAccept.intoStream s = some (.wtUni id)) := by
  refine ⟨uniFate_false, fun a ops h => runAccepts_false ops a h, ?_⟩
  intro evs id rd sc h
  unfold uniFate at h
  split at h
  · rename_i s rest hres
    split at h
    · rename_i id' hi
      simp only [if_true, UniFate.surface.injEq] at h
      exact ⟨s, rest, hres, by rw [hi, h.1]⟩
    · cases h
  · cases h
  · cases h
  · cases h

/-! non-vacuity: two WebTransport uni streams (QUIC ids 6 and 10, sessions 4 and 8, the second with
    FIN behind its payload) arrive and `accept_uni` is polled three times: with the extension off
    nothing is surfaced and `wt_uni_streams` stays empty; with it on both are surfaced -/
example : (runAccepts false {} [.arrive ⟨6, [.chunk [0x40, 0x54, 0x04, 0xaa]]⟩, .accept,
      .arrive ⟨10, [.chunk [0x40, 0x54, 0x08, 0xbb], .fin]⟩, .accept, .accept]).1 = [] ∧
    (runAccepts false {} [.arrive ⟨6, [.chunk [0x40, 0x54, 0x04, 0xaa]]⟩, .accept,
      .arrive ⟨10, [.chunk [0x40, 0x54, 0x08, 0xbb], .fin]⟩, .accept, .accept]).2.wt = [] :=
  C19_gated.2.1 {} _ rfl
example : (runAccepts false {} [.arrive ⟨6, [.chunk [0x40, 0x54, 0x04, 0xaa]]⟩, .accept,
      .arrive ⟨10, [.chunk [0x40, 0x54, 0x08, 0xbb], .fin]⟩, .accept, .accept]) = ([], {}) := by decide +kernel
example : (runAccepts true {} [.arrive ⟨6, [.chunk [0x40, 0x54, 0x04, 0xaa]]⟩, .accept,
      .arrive ⟨10, [.chunk [0x40, 0x54, 0x08, 0xbb], .fin]⟩, .accept, .accept]).1.map
        (fun e => (e.stream, e.session)) = [(6, 4), (10, 8)] := by decide +kernel
example : uniFate true [.chunk [0x40, 0x54, 0x08, 0xbb], .fin] =
    .surface 8 { buf := [[0xbb]] } [.fin] := by decide +kernel

/-- Reading after the header: the reader obtains the buffered remainder first, then what the
    transport delivers later, each byte once and in order. -/
theorem C19_read_after_header (buffered later : List (List Nat)) :
    readAll buffered later = buffered.flatten ++ later.flatten := by
  simp [readAll]

/-! ## The bytes after the header, for every chunking -/

section bidi
open H3.FS

/-- **Bidirectional streams, any encoding of the header.**  `hdr` is any byte string the frame
    decoder reads as the WebTransport header of session `sid` whatever follows it (the header
    `open_bi` writes, `C19_bidi_header_decodes`; but also one whose varints the peer wrote in a
    longer form than necessary).  The transport delivers `hdr ++ payload` cut in ANY way (`sc0`:
    header and payload in one chunk, cuts inside either varint, `Pending` anywhere).  `poll_next`
    is polled until it answers the WebTransport frame — any configuration of the `FrameStream`
    model in which exactly the token `frame (webTransport x)` has been handed out.  Then the frame
    carries the session id of the header, the stream is in raw mode (`remaining_data =
    usize::MAX`), and the bytes still buffered followed by the bytes the transport has still to
    deliver are exactly the payload: nothing of it was consumed with the header, nothing of the
    header is left (this is what `FrameStream::into_inner()` hands to the WebTransport stream). -/
theorem C19_payload_after_any_header (sid : Nat) (hdr payload : List Nat)
    (hdec : ∀ p, H3.Frame.decode (hdr ++ p) = .frame (.webTransport sid) hdr.length)
    (hlen : payload.length < 2^64) (sc0 : List Ev) (hsc : ScriptOK sc0)
    (hbytes : evBytes sc0 = hdr ++ payload)
    {x : Nat} {s : FS.St} {script : List Ev}
    (h : Reach frameDec sc0 [FS.Tok.frame (.webTransport x)] s script) :
    x = sid ∧ s.remaining = USIZE_MAX ∧ s.flat ++ evBytes script = payload := by
  obtain ⟨taken, hsc0, hI⟩ := H3.Props.C02.C02_chunking_independent frameDec frameDec_laws sc0 hsc h
  obtain ⟨consumed, hseen, hrun⟩ := hI.split
  have hdec' : ∀ p, frameDec.dec (hdr ++ p) = .frame (.webTransport sid) hdr.length := by
    intro p
    show liftRes (H3.Frame.decode (hdr ++ p)) = _
    rw [hdec p]
    rfl
  have hall : consumed ++ (s.flat ++ evBytes script) = hdr ++ payload := by
    rw [← hbytes, hsc0, evBytes_append, hseen, List.append_assoc]
  have hraw : payload.length ≤ (frameDec.kind (.webTransport sid)).rem := by
    show payload.length ≤ 2^64 - 1
    omega
  obtain ⟨hc, hx⟩ := run_raw_header_prefix frameDec frameDec_laws hdr payload consumed
    (s.flat ++ evBytes script) (.webTransport sid) (.webTransport x) hdec' hraw hall _ hrun
  have hx' : x = sid := by simpa using hx
  subst hc
  refine ⟨hx', ?_, List.append_cancel_left hall⟩
  have hd0 := hdec' []
  rw [List.append_nil] at hd0
  have hr := run_of_pos frameDec frameDec_laws consumed consumed.length (by rw [hd0]; rfl)
  rw [hd0] at hr
  simp only [DecRes.fed, List.drop_length, run] at hr
  rw [hr] at hrun
  simp only [Prod.mk.injEq] at hrun
  exact (PSt.ofRem_inj hrun.1).symm

/-- **Bidirectional streams.**  The same for the header h3 itself writes for session `sid`
    (`bidiHeader sid` = varint 0x41, varint `sid`), for every session id incl. multi-byte ones:
    for every cutting of `bidiHeader sid ++ payload`, once `poll_next` has answered the
    WebTransport frame, the frame carries `sid` and buffer ++ future = `payload`. -/
theorem C19_payload_after_header (sid : Nat) (hsid : sid < 2^62) (payload : List Nat)
    (hlen : payload.length < 2^64) (sc0 : List Ev) (hsc : ScriptOK sc0)
    (hbytes : evBytes sc0 = bidiHeader sid ++ payload)
    {x : Nat} {s : FS.St} {script : List Ev}
    (h : Reach frameDec sc0 [FS.Tok.frame (.webTransport x)] s script) :
    x = sid ∧ s.remaining = USIZE_MAX ∧ s.flat ++ evBytes script = payload :=
  C19_payload_after_any_header sid (bidiHeader sid) payload (C19_bidi_header_decodes sid hsid)
    hlen sc0 hsc hbytes h

/-- ... hence what a reader of the stream obtains after `into_inner()` — the buffered chunks first,
    then the chunks the transport delivers later (`readAll`) — is exactly the payload. -/
theorem C19_bidi_reader_obtains_payload (sid : Nat) (hsid : sid < 2^62) (payload : List Nat)
    (hlen : payload.length < 2^64) (sc0 : List Ev) (hsc : ScriptOK sc0)
    (hbytes : evBytes sc0 = bidiHeader sid ++ payload)
    {x : Nat} {s : FS.St} {script : List Ev}
    (h : Reach frameDec sc0 [FS.Tok.frame (.webTransport x)] s script) :
    readAll s.buf (evChunks script) = payload := by
  rw [C19_read_after_header, evChunks_flatten]
  exact (C19_payload_after_header sid hsid payload hlen sc0 hsc hbytes h).2.2

/-! non-vacuity: session 256 (`40 41 | 41 00`), payload `aa bb cc`, three cuttings of the same
    seven bytes: all in one chunk; cut inside the type varint, inside the id varint and inside the
    payload, with a `Pending` in between (three `poll_next` calls); header alone, FIN behind the
    payload. -/
example : bidiHeader 256 ++ [0xaa, 0xbb, 0xcc] = [0x40, 0x41, 0x41, 0x00, 0xaa, 0xbb, 0xcc] := by decide

example : Reach frameDec [.chunk [0x40, 0x41, 0x41, 0x00, 0xaa, 0xbb, 0xcc]]
    [FS.Tok.frame (.webTransport 256)] { buf := [[0xaa, 0xbb, 0xcc]], remaining := USIZE_MAX } [] :=
  Reach.next Reach.init (by decide +kernel :
    pollNext frameDec {} [.chunk [0x40, 0x41, 0x41, 0x00, 0xaa, 0xbb, 0xcc]] =
      (.frame (.webTransport 256), { buf := [[0xaa, 0xbb, 0xcc]], remaining := USIZE_MAX }, [])) rfl

example : readAll [[0xaa, 0xbb, 0xcc]] (evChunks []) = [0xaa, 0xbb, 0xcc] :=
  C19_bidi_reader_obtains_payload 256 (by decide) [0xaa, 0xbb, 0xcc] (by decide)
    [.chunk [0x40, 0x41, 0x41, 0x00, 0xaa, 0xbb, 0xcc]]
    (by intro b hb; simp at hb; subst hb; simp) (by decide)
    (x := 256) (s := { buf := [[0xaa, 0xbb, 0xcc]], remaining := USIZE_MAX }) (script := [])
    (Reach.next Reach.init (by decide +kernel :
      pollNext frameDec {} [.chunk [0x40, 0x41, 0x41, 0x00, 0xaa, 0xbb, 0xcc]] =
        (.frame (.webTransport 256), { buf := [[0xaa, 0xbb, 0xcc]], remaining := USIZE_MAX }, [])) rfl)

/-- a header whose session id the peer wrote in a longer form than necessary (`40 04` for 4) -/
theorem long_header_decodes (p : List Nat) :
    H3.Frame.decode ([0x40, 0x41, 0x40, 0x04] ++ p) =
      .frame (.webTransport 4) ([0x40, 0x41, 0x40, 0x04] : List Nat).length := by
  unfold H3.Frame.decode
  simp only [List.cons_append, List.nil_append]
  rw [decode2 _ _ _ (by decide)]
  simp only [FRAME_WEBTRANSPORT_BI_STREAM]
  rw [if_pos (by decide), decode2 _ _ _ (by decide)]
  simp
  omega

example : (4 = 4 ∧ USIZE_MAX = USIZE_MAX ∧ [] ++ evBytes [.pend, .chunk [0xaa], .fin] = [0xaa]) :=
  C19_payload_after_any_header 4 [0x40, 0x41, 0x40, 0x04] [0xaa] long_header_decodes (by decide)
    [.chunk [0x40, 0x41, 0x40], .chunk [0x04], .pend, .chunk [0xaa], .fin]
    (by intro b hb; simp at hb; rcases hb with rfl | rfl | rfl <;> simp) (by decide)
    (x := 4) (s := { buf := [], remaining := USIZE_MAX }) (script := [.pend, .chunk [0xaa], .fin])
    (Reach.next Reach.init (by decide +kernel :
      pollNext frameDec {} [.chunk [0x40, 0x41, 0x40], .chunk [0x04], .pend, .chunk [0xaa], .fin] =
        (.frame (.webTransport 4), { buf := [], remaining := USIZE_MAX }, [.pend, .chunk [0xaa], .fin])) rfl)

def cut₂ : List Ev := [.chunk [0x40], .pend, .chunk [0x41, 0x41], .pend, .chunk [0x00, 0xaa], .chunk [0xbb, 0xcc], .fin]

theorem reach_cut₂ : Reach frameDec cut₂ [FS.Tok.frame (.webTransport 256)]
    { buf := [[0xaa]], remaining := USIZE_MAX } [.chunk [0xbb, 0xcc], .fin] :=
  show Reach frameDec cut₂ ([] ++ Out.toks (.pending : FOut) ++ Out.toks (.pending : FOut) ++
      Out.toks (.frame (.webTransport 256) : FOut)) _ _ from
  Reach.next (o := .frame (.webTransport 256))
    (Reach.next (o := .pending)
      (Reach.next (o := .pending) Reach.init
        (by decide +kernel : pollNext frameDec {} cut₂ =
          (.pending, { buf := [[0x40]], expected := some 2 },
            [.chunk [0x41, 0x41], .pend, .chunk [0x00, 0xaa], .chunk [0xbb, 0xcc], .fin])) rfl)
      (by decide +kernel : pollNext frameDec { buf := [[0x40]], expected := some 2 }
          [.chunk [0x41, 0x41], .pend, .chunk [0x00, 0xaa], .chunk [0xbb, 0xcc], .fin] =
        (.pending, { buf := [[0x40], [0x41, 0x41]], expected := some 1 },
          [.chunk [0x00, 0xaa], .chunk [0xbb, 0xcc], .fin])) rfl)
    (by decide +kernel : pollNext frameDec { buf := [[0x40], [0x41, 0x41]], expected := some 1 }
        [.chunk [0x00, 0xaa], .chunk [0xbb, 0xcc], .fin] =
      (.frame (.webTransport 256), { buf := [[0xaa]], remaining := USIZE_MAX }, [.chunk [0xbb, 0xcc], .fin])) rfl

example : (256 = 256 ∧ (USIZE_MAX = USIZE_MAX) ∧ [0xaa] ++ evBytes [.chunk [0xbb, 0xcc], .fin] = [0xaa, 0xbb, 0xcc]) :=
  C19_payload_after_header 256 (by decide) [0xaa, 0xbb, 0xcc] (by decide) cut₂
    (by intro b hb; simp [cut₂] at hb; rcases hb with rfl | rfl | rfl | rfl <;> simp) (by decide) reach_cut₂

example : readAll [[0xaa]] (evChunks [.chunk [0xbb, 0xcc], .fin]) = [0xaa, 0xbb, 0xcc] :=
  C19_bidi_reader_obtains_payload 256 (by decide) [0xaa, 0xbb, 0xcc] (by decide) cut₂
    (by intro b hb; simp [cut₂] at hb; rcases hb with rfl | rfl | rfl | rfl <;> simp) (by decide) reach_cut₂

end bidi

section uni
open H3.UniAccept H3.Lemmas.C04
open H3.Spec.ControlRules (header)

/-- the header `open_uni` writes for session `sid` is read by the RFC 9000 stream-header reader as
    type 0x54, id `sid`, whatever follows -/
theorem uniHeader_reads (sid : Nat) (hsid : sid < 2^62) (p : List Nat) :
    header (uniHeader sid ++ p) = .complete 0x54 (some sid) p := by
  unfold header uniHeader
  rw [List.append_assoc, rfcDecode_encode _ (by decide)]
  simp only [STREAM_WEBTRANSPORT_UNI]
  simp only [show Spec.ControlRules.hasId 84 = true by decide, if_true, rfcDecode_encode sid hsid]

/-- **Unidirectional streams, any encoding of the header.**  `hdr` is any byte string the RFC 9000
    stream-header reader reads as stream type 0x54 followed by the id `sid`, whatever follows it
    (the header `open_uni` writes, `uniHeader_reads`; but also one whose varints the peer wrote in
    a longer form than necessary).  For every script carrying `hdr ++ payload` before the end of
    the stream (ANY cutting, `Pending` anywhere, FIN or RESET behind the payload or still open)
    `poll_type`, polled until it is ready, resolves the stream: the type is the WebTransport
    stream type, the id attached is exactly `sid`, and the bytes still buffered followed by the
    bytes still to come are exactly the payload. -/
theorem C19_uni_payload_after_any_header (sid : Nat) (hdr payload : List Nat)
    (hh : ∀ p, header (hdr ++ p) = .complete 0x54 (some sid) p)
    (sc : List UniAccept.Ev) (hwf : ScriptWF sc) (hbytes : bytesOf sc = hdr ++ payload) :
    ∃ s r, resolve (sc.length + 1) {} sc = .resolved s r ∧
      s.ty = some 0x54 ∧ s.id = some sid ∧ s.buf ++ future s r = payload := by
  have hres := H3.Props.C04.C04_type_resolution sc hwf
  rw [hbytes, hh payload] at hres
  cases hr : resolve (sc.length + 1) {} sc with
  | resolved s r =>
    rw [hr] at hres
    exact ⟨s, r, rfl, hres⟩
  | dropped => rw [hr] at hres; exact hres.elim
  | internal => rw [hr] at hres; exact hres.elim
  | waiting s => rw [hr] at hres; exact hres.elim

/-- **Unidirectional streams.**  The same for the header h3 itself writes for session `sid`
    (`uniHeader sid` = varint 0x54, varint `sid`), for every session id incl. multi-byte ones. -/
theorem C19_uni_payload_after_header (sid : Nat) (hsid : sid < 2^62) (payload : List Nat)
    (sc : List UniAccept.Ev) (hwf : ScriptWF sc) (hbytes : bytesOf sc = uniHeader sid ++ payload) :
    ∃ s r, resolve (sc.length + 1) {} sc = .resolved s r ∧
      s.ty = some 0x54 ∧ s.id = some sid ∧ s.buf ++ future s r = payload :=
  C19_uni_payload_after_any_header sid (uniHeader sid) payload (uniHeader_reads sid hsid) sc hwf hbytes

/-- ... hence a reader of the resolved stream (any encoding of the header) obtains the payload. -/
theorem C19_uni_reader_after_any_header (sid : Nat) (hdr payload : List Nat)
    (hh : ∀ p, header (hdr ++ p) = .complete 0x54 (some sid) p)
    (sc : List UniAccept.Ev) (hwf : ScriptWF sc) (hbytes : bytesOf sc = hdr ++ payload) :
    ∃ s r, resolve (sc.length + 1) {} sc = .resolved s r ∧ s.id = some sid ∧
      readAll [s.buf] (futureChunks s r) = payload := by
  obtain ⟨s, r, h1, _, h3, h4⟩ := C19_uni_payload_after_any_header sid hdr payload hh sc hwf hbytes
  refine ⟨s, r, h1, h3, ?_⟩
  rw [C19_read_after_header, futureChunks_flatten]
  simpa using h4

/-- ... hence a reader of the resolved stream — the buffered remainder first, then the chunks the
    transport delivers before the stream ends (`readAll`) — obtains exactly the payload. -/
theorem C19_uni_reader_obtains_payload (sid : Nat) (hsid : sid < 2^62) (payload : List Nat)
    (sc : List UniAccept.Ev) (hwf : ScriptWF sc) (hbytes : bytesOf sc = uniHeader sid ++ payload) :
    ∃ s r, resolve (sc.length + 1) {} sc = .resolved s r ∧ s.id = some sid ∧
      readAll [s.buf] (futureChunks s r) = payload :=
  C19_uni_reader_after_any_header sid (uniHeader sid) payload (uniHeader_reads sid hsid) sc hwf hbytes

/-! non-vacuity: session 65536 (`40 54 | 80 01 00 00`), payload `aa bb`: everything in one chunk
    with FIN behind; cut inside the type varint and inside the id varint with `Pending` between -/
example : uniHeader 65536 ++ [0xaa, 0xbb] = [0x40, 0x54, 0x80, 0x01, 0x00, 0x00, 0xaa, 0xbb] := by decide
example : resolve 3 {} [.chunk [0x40, 0x54, 0x80, 0x01, 0x00, 0x00, 0xaa, 0xbb], .fin] =
    .resolved { buf := [0xaa, 0xbb], ty := some 0x54, id := some 65536 } [.fin] := by decide +kernel
example : resolve 8 {} [.chunk [0x40], .pend, .chunk [0x54, 0x80], .pend, .chunk [0x01, 0x00], .chunk [0x00, 0xaa],
      .chunk [0xbb]] =
    .resolved { buf := [0xaa], ty := some 0x54, id := some 65536 } [.chunk [0xbb]] := by decide +kernel
example : ∃ s r, resolve 8 {} [.chunk [0x40], .pend, .chunk [0x54, 0x80], .pend, .chunk [0x01, 0x00],
      .chunk [0x00, 0xaa], .chunk [0xbb]] = .resolved s r ∧ s.id = some 65536 ∧
      readAll [s.buf] (futureChunks s r) = [0xaa, 0xbb] :=
  C19_uni_reader_obtains_payload 65536 (by decide) [0xaa, 0xbb]
    [.chunk [0x40], .pend, .chunk [0x54, 0x80], .pend, .chunk [0x01, 0x00], .chunk [0x00, 0xaa], .chunk [0xbb]]
    (by intro b hb; simp at hb; rcases hb with rfl | rfl | rfl | rfl | rfl <;> simp [WF]) (by decide)

/-- a header whose type AND session id the peer wrote in a longer form than necessary
    (`40 54` for 0x54, `40 04` for 4) -/
theorem long_uni_header_reads (p : List Nat) :
    header ([0x40, 0x54, 0x40, 0x04] ++ p) = .complete 0x54 (some 4) p := by
  have h1 : Varint.rfcDecode ([0x40, 0x54, 0x40, 0x04] ++ p) = some (0x54, 0x40 :: 0x04 :: p) := by
    simp [Varint.rfcDecode, Varint.rfcLen, Varint.rfcValue, Varint.beVal]
  have h2 : Varint.rfcDecode (0x40 :: 0x04 :: p) = some (4, p) := by
    simp [Varint.rfcDecode, Varint.rfcLen, Varint.rfcValue, Varint.beVal]
  unfold header
  rw [h1]
  simp only [show Spec.ControlRules.hasId 0x54 = true by decide, if_true, h2]

-- `40 54 40 04 | aa bb`, cut inside both varints, `Pending` in between
example : resolve 7 {} [.chunk [0x40], .pend, .chunk [0x54, 0x40], .pend, .chunk [0x04, 0xaa], .chunk [0xbb]] =
    .resolved { buf := [0xaa], ty := some 0x54, id := some 4 } [.chunk [0xbb]] := by decide +kernel
example : ∃ s r, resolve 7 {} [.chunk [0x40], .pend, .chunk [0x54, 0x40], .pend, .chunk [0x04, 0xaa],
      .chunk [0xbb]] = .resolved s r ∧ s.ty = some 0x54 ∧ s.id = some 4 ∧ s.buf ++ future s r = [0xaa, 0xbb] :=
  C19_uni_payload_after_any_header 4 [0x40, 0x54, 0x40, 0x04] [0xaa, 0xbb] long_uni_header_reads
    [.chunk [0x40], .pend, .chunk [0x54, 0x40], .pend, .chunk [0x04, 0xaa], .chunk [0xbb]]
    (by intro b hb; simp at hb; rcases hb with rfl | rfl | rfl | rfl <;> simp [WF]) (by decide)

end uni

/-! ## Reading with caller-sized buffers (`AsyncRead::poll_read`, futures and tokio) -/

section limited
open H3.FS
open H3.Lemmas.C04 (bytesOf)

/-- **The buffer-limited reader, for every sequence of positive buffer sizes.**  A
    `BufRecvStream` holds the chunks `s.buf` (none empty) and the transport still answers `sc` (any
    cutting, `Pending` anywhere, FIN / RESET anywhere or not at all).  An application reads through
    `AsyncRead::poll_read` with buffers of sizes `sizes` — ANY list of positive numbers, one per
    completed call (1 byte, smaller than a chunk, larger than everything) — until a call reports
    0 bytes, an error, or the sizes are used up.  Then (`ReadOK`): what the calls reported ++
    what is still buffered ++ what the transport has still to deliver before the end = what was
    there at the start (nothing lost, nothing twice, order kept, wherever the loop stops); every
    completed call reports at least one byte and at most its buffer's size; if the loop ended
    for any reason other than running out of buffers, it ended the way the stream ends (`Ok(0)`
    ⇔ FIN is the next end event, the RESET's code, `Pending` if the stream is still open) and only
    after every byte delivered before that end had been handed out.  With more buffers than
    bytes the loop does end that way. -/
theorem C19_limited_reader (sizes : List Nat) (hpos : ∀ n ∈ sizes, 0 < n) (s : Rd)
    (hbuf : ∀ c ∈ s.buf, c ≠ []) (sc : List Ev) (hsc : ScriptOK sc) :
    ReadOK sizes s sc (readLim sizes s sc) ∧
    ((s.buf.flatten ++ bytesOf sc).length < sizes.length →
      (readLim sizes s sc).pieces.flatten = s.buf.flatten ++ bytesOf sc ∧
      (readLim sizes s sc).fin = endOf sc) :=
  ⟨readLim_ok sizes hpos s hbuf sc hsc, (readLim_ok sizes hpos s hbuf sc hsc).complete⟩

/-! non-vacuity: `aa bb cc` buffered, `dd ee` still to come behind a `Pending`, then FIN; buffers of
    2 bytes: four calls report `aa bb | cc | dd ee`, the fifth `Ok(0)`; buffers 1, 4, 1 run out before
    the end: `aa | bb cc | dd`, `ee` still buffered; a RESET instead of FIN is reported after `dd ee` -/
example : readLim [2, 2, 2, 2, 2] { buf := [[0xaa, 0xbb, 0xcc]] } [.pend, .chunk [0xdd, 0xee], .fin] =
    { pieces := [[0xaa, 0xbb], [0xcc], [0xdd, 0xee]], fin := .eof, s := { buf := [], eos := true },
      script := [.fin], left := [2] } := by decide
example : readLim [1, 4, 1] { buf := [[0xaa, 0xbb, 0xcc]] } [.pend, .chunk [0xdd, 0xee], .fin] =
    { pieces := [[0xaa], [0xbb, 0xcc], [0xdd]], fin := .more, s := { buf := [[0xee]] },
      script := [.fin], left := [] } := by decide
example : (readLim [5, 5, 5] { buf := [] } [.chunk [0xdd, 0xee], .reset 7]).fin = .err 7 ∧
    (readLim [5, 5, 5] { buf := [] } [.chunk [0xdd, 0xee], .reset 7]).pieces = [[0xdd, 0xee]] := by decide
example : (readLim [2, 2, 2, 2, 2, 2] { buf := [[0xaa, 0xbb, 0xcc]] } [.pend, .chunk [0xdd, 0xee], .fin]).pieces.flatten =
    [0xaa, 0xbb, 0xcc] ++ bytesOf [.pend, .chunk [0xdd, 0xee], .fin] ∧
    (readLim [2, 2, 2, 2, 2, 2] { buf := [[0xaa, 0xbb, 0xcc]] } [.pend, .chunk [0xdd, 0xee], .fin]).fin =
      endOf [.pend, .chunk [0xdd, 0xee], .fin] :=
  (C19_limited_reader [2, 2, 2, 2, 2, 2] (by decide) { buf := [[0xaa, 0xbb, 0xcc]] } (by decide)
    [.pend, .chunk [0xdd, 0xee], .fin]
    (by intro b hb; simp at hb; subst hb; simp)).2 (by decide)

/-- **Bidirectional streams, buffer-limited reader.**  As `C19_bidi_reader_obtains_payload`, but the
    application reads through `AsyncRead::poll_read` with ANY sequence of positive buffer sizes:
    for every session id, payload, cutting of `bidiHeader sid ++ payload` (nothing delivered behind
    FIN / RESET) and configuration reached when `poll_next` has answered the WebTransport frame,
    the bytes the calls report are, concatenated, a prefix of the payload — each call at least one
    byte and at most its buffer — and with more buffers than payload bytes they are exactly the
    payload, and the loop ends as the stream does (`Ok(0)` only behind the last byte). -/
theorem C19_bidi_limited_reader_obtains_payload (sid : Nat) (hsid : sid < 2^62) (payload : List Nat)
    (hlen : payload.length < 2^64) (sc0 : List Ev) (hsc : ScriptOK sc0)
    (hbytes : evBytes sc0 = bidiHeader sid ++ payload) (hend : EndLast sc0)
    {x : Nat} {s : FS.St} {script : List Ev}
    (h : Reach frameDec sc0 [FS.Tok.frame (.webTransport x)] s script)
    (sizes : List Nat) (hpos : ∀ n ∈ sizes, 0 < n) :
    (∃ rest, (readLim sizes (Rd.ofFS s) script).pieces.flatten ++ rest = payload) ∧
    (∀ p ∈ (readLim sizes (Rd.ofFS s) script).pieces, p ≠ []) ∧
    Fits (readLim sizes (Rd.ofFS s) script).pieces sizes ∧
    (payload.length < sizes.length →
      (readLim sizes (Rd.ofFS s) script).pieces.flatten = payload ∧
      (readLim sizes (Rd.ofFS s) script).fin = endOf script) := by
  obtain ⟨taken, hsc0, hI⟩ := H3.Props.C02.C02_chunking_independent frameDec frameDec_laws sc0 hsc h
  have hsc' : ScriptOK script := by rw [hsc0] at hsc; exact scriptOK_suffix hsc
  have hend' : EndLast script := by rw [hsc0] at hend; exact endLast_suffix taken script hend
  have hpay : (Rd.ofFS s).buf.flatten ++ bytesOf script = payload := by
    rw [bytesOf_eq_evBytes script hend']
    exact (C19_payload_after_header sid hsid payload hlen sc0 hsc hbytes h).2.2
  have hok := readLim_ok sizes hpos (Rd.ofFS s) hI.ne script hsc'
  refine ⟨?_, hok.nonempty, hok.fits, fun hl => ?_⟩
  · obtain ⟨rest, hr⟩ := hok.prefix
    exact ⟨rest, by rw [hr, hpay]⟩
  · have := hok.complete (by rw [hpay]; exact hl)
    rw [hpay] at this
    exact this

-- the cutting `cut₂` of `40 41 41 00 | aa bb cc` + FIN (cuts inside both varints and inside the payload),
-- read with 1-byte buffers, with 2-byte buffers, and with one large buffer per call
example : (readLim [1, 1, 1, 1] (Rd.ofFS { buf := [[0xaa]], remaining := USIZE_MAX }) [.chunk [0xbb, 0xcc], .fin]) =
    { pieces := [[0xaa], [0xbb], [0xcc]], fin := .eof, s := { buf := [], eos := true }, script := [.fin],
      left := [] } := by decide
example : (readLim [2, 2, 2, 2] (Rd.ofFS { buf := [[0xaa]], remaining := USIZE_MAX }) [.chunk [0xbb, 0xcc], .fin]).pieces =
    [[0xaa], [0xbb, 0xcc]] := by decide
example : (readLim [64, 64, 64, 64] (Rd.ofFS { buf := [[0xaa]], remaining := USIZE_MAX })
      [.chunk [0xbb, 0xcc], .fin]).pieces.flatten = [0xaa, 0xbb, 0xcc] ∧
    (readLim [64, 64, 64, 64] (Rd.ofFS { buf := [[0xaa]], remaining := USIZE_MAX })
      [.chunk [0xbb, 0xcc], .fin]).fin = endOf [.chunk [0xbb, 0xcc], .fin] :=
  (C19_bidi_limited_reader_obtains_payload 256 (by decide) [0xaa, 0xbb, 0xcc] (by decide) cut₂
    (by intro b hb; simp [cut₂] at hb; rcases hb with rfl | rfl | rfl | rfl <;> simp) (by decide)
    (by simp [cut₂, EndLast, evBytes]) reach_cut₂ [64, 64, 64, 64] (by decide)).2.2.2 (by decide)

end limited

/-! ## Liveness: the header IS answered -/

section live
open H3.FS

/-- **The WebTransport bidi header is answered, any encoding of the header.**  `hdr` is any byte
    string the frame decoder reads as the WebTransport header of session `sid` whatever follows
    (that a proper prefix of it is answered `Incomplete` follows from the decoder's laws,
    `frameDec_laws.minimal`).  The transport delivers `hdr ++ payload` (`payload` may be empty) cut
    in ANY way, `Pending` anywhere, nothing delivered behind FIN / RESET (`EndLast`: the header is
    delivered completely).  `poll_next` is polled from the initial state; every `Pending` answer is
    followed by another poll once the transport has more to say (`pollUntil`).  Then the polls end
    with the answer `frame (webTransport sid)` — never `Pending` with the script used up, never an
    error, never the end of the stream, never another frame — after at most one poll per script
    event, and the configuration they end in is one of those `C19_payload_after_any_header` speaks
    about (`Reach` with exactly that token handed out): its hypothesis is never vacuous. -/
theorem C19_any_bidi_header_is_answered (sid : Nat) (hdr payload : List Nat)
    (hdec : ∀ p, H3.Frame.decode (hdr ++ p) = .frame (.webTransport sid) hdr.length)
    (sc : List Ev) (hsc : ScriptOK sc) (hbytes : evBytes sc = hdr ++ payload) (hend : EndLast sc) :
    ∃ s rest, pollUntil frameDec (sc.length + 1) {} sc = (.frame (.webTransport sid), s, rest) ∧
      Reach frameDec sc [FS.Tok.frame (.webTransport sid)] s rest := by
  have hdec' : ∀ p, frameDec.dec (hdr ++ p) = .frame (.webTransport sid) hdr.length := by
    intro p
    show liftRes (H3.Frame.decode (hdr ++ p)) = _
    rw [hdec p]
    rfl
  exact pollUntil_answers frameDec frameDec_laws hdr payload (.webTransport sid) hdec' sc hsc hend hbytes
    (sc.length + 1) {} sc Reach.init (Or.inl rfl) rfl (Nat.lt_succ_self _)

/-- **The WebTransport bidi header is answered.**  The same for the header h3 itself writes for
    session `sid`, every `sid < 2^62`, every payload (also the empty one), every cutting. -/
theorem C19_bidi_header_is_answered (sid : Nat) (hsid : sid < 2^62) (payload : List Nat)
    (sc : List Ev) (hsc : ScriptOK sc) (hbytes : evBytes sc = bidiHeader sid ++ payload)
    (hend : EndLast sc) :
    ∃ s rest, pollUntil frameDec (sc.length + 1) {} sc = (.frame (.webTransport sid), s, rest) ∧
      Reach frameDec sc [FS.Tok.frame (.webTransport sid)] s rest :=
  C19_any_bidi_header_is_answered sid (bidiHeader sid) payload (C19_bidi_header_decodes sid hsid) sc hsc
    hbytes hend

/-- ... and then the payload: liveness composed with `C19_payload_after_any_header` /
    `C19_bidi_reader_obtains_payload`.  Re-polling `poll_next` ends with the WebTransport frame of
    session `sid`, the stream is then in raw mode, what is buffered followed by what the transport
    still delivers is exactly the payload, and that is what a reader obtains after `into_inner()`. -/
theorem C19_any_bidi_header_then_payload (sid : Nat) (hdr payload : List Nat)
    (hdec : ∀ p, H3.Frame.decode (hdr ++ p) = .frame (.webTransport sid) hdr.length)
    (hlen : payload.length < 2^64)
    (sc : List Ev) (hsc : ScriptOK sc) (hbytes : evBytes sc = hdr ++ payload) (hend : EndLast sc) :
    ∃ s rest, pollUntil frameDec (sc.length + 1) {} sc = (.frame (.webTransport sid), s, rest) ∧
      s.remaining = USIZE_MAX ∧ s.flat ++ evBytes rest = payload ∧
      readAll s.buf (evChunks rest) = payload := by
  obtain ⟨s, rest, hp, hR⟩ := C19_any_bidi_header_is_answered sid hdr payload hdec sc hsc hbytes hend
  obtain ⟨_, h2, h3⟩ := C19_payload_after_any_header sid hdr payload hdec hlen sc hsc hbytes hR
  refine ⟨s, rest, hp, h2, h3, ?_⟩
  rw [C19_read_after_header, evChunks_flatten]
  exact h3

theorem C19_bidi_header_then_payload (sid : Nat) (hsid : sid < 2^62) (payload : List Nat)
    (hlen : payload.length < 2^64)
    (sc : List Ev) (hsc : ScriptOK sc) (hbytes : evBytes sc = bidiHeader sid ++ payload)
    (hend : EndLast sc) :
    ∃ s rest, pollUntil frameDec (sc.length + 1) {} sc = (.frame (.webTransport sid), s, rest) ∧
      s.remaining = USIZE_MAX ∧ s.flat ++ evBytes rest = payload ∧
      readAll s.buf (evChunks rest) = payload :=
  C19_any_bidi_header_then_payload sid (bidiHeader sid) payload (C19_bidi_header_decodes sid hsid) hlen sc
    hsc hbytes hend

/-! non-vacuity: `cut₂` (`40 | Pending | 41 41 | Pending | 00 aa | bb cc | FIN`: cuts inside both
    varints and inside the payload): three polls, the third answers the frame; the theorem
    instantiated on it; the long header `40 41 40 04` with an EMPTY payload and a RESET behind it;
    and what the hypotheses exclude: a header that is not delivered completely is answered
    `Pending` (stream still open) or `UnexpectedEnd` (FIN inside the header) -/
example : pollUntil frameDec 8 {} cut₂ =
    (.frame (.webTransport 256), { buf := [[0xaa]], remaining := USIZE_MAX }, [.chunk [0xbb, 0xcc], .fin]) := by
  decide +kernel
example : ∃ s rest, pollUntil frameDec (cut₂.length + 1) {} cut₂ = (.frame (.webTransport 256), s, rest) ∧
    s.remaining = USIZE_MAX ∧ s.flat ++ evBytes rest = [0xaa, 0xbb, 0xcc] ∧
    readAll s.buf (evChunks rest) = [0xaa, 0xbb, 0xcc] :=
  C19_bidi_header_then_payload 256 (by decide) [0xaa, 0xbb, 0xcc] (by decide) cut₂
    (by intro b hb; simp [cut₂] at hb; rcases hb with rfl | rfl | rfl | rfl <;> simp) (by decide)
    (by simp [cut₂, EndLast, evBytes])
example : pollUntil frameDec 5 {} [.chunk [0x40, 0x41], .pend, .chunk [0x40, 0x04], .reset 7] =
    (.frame (.webTransport 4), { buf := [], remaining := USIZE_MAX }, [.reset 7]) := by decide +kernel
example : ∃ s rest, pollUntil frameDec 5 {} [.chunk [0x40, 0x41], .pend, .chunk [0x40, 0x04], .reset 7] =
      (.frame (.webTransport 4), s, rest) ∧
    Reach frameDec [.chunk [0x40, 0x41], .pend, .chunk [0x40, 0x04], .reset 7]
      [FS.Tok.frame (.webTransport 4)] s rest :=
  C19_any_bidi_header_is_answered 4 [0x40, 0x41, 0x40, 0x04] [] long_header_decodes
    [.chunk [0x40, 0x41], .pend, .chunk [0x40, 0x04], .reset 7]
    (by intro b hb; simp at hb; rcases hb with rfl | rfl <;> simp) (by decide) (by simp [EndLast, evBytes])
example : (pollUntil frameDec 4 {} [.chunk [0x40, 0x41], .pend, .chunk [0x41]]).1 = .pending ∧
    (pollUntil frameDec 4 {} [.chunk [0x40, 0x41], .pend, .chunk [0x41], .fin]).1 = .errEnd ∧
    (pollUntil frameDec 4 {} [.chunk [0x40, 0x41], .reset 7, .chunk [0x41, 0x00]]).1 = .errQuic 7 := by
  decide +kernel

end live

/-! ## The signal only at the very first bytes (finding D-19b) -/

section signalFirst
open H3.FS

/-- **The WebTransport signal is honoured only at the first bytes of the stream — partial.**
    draft-ietf-webtrans-http3 §4.2 allows the 0x41 signal only as the VERY FIRST bytes of a
    bidirectional stream.  The FULL statement would be: whenever re-polling `poll_next` from the
    initial state over a script `sc` answers the WebTransport frame of session `x` (`pollUntil
    frameDec (sc.length + 1) {} sc = (.frame (.webTransport x), s, rest)`, or, more generally, any
    configuration `Reach frameDec sc [Tok.frame (.webTransport x)] s rest`), the stream's first
    bytes are a 0x41 header for `x`: `∃ n, Frame.decode (evBytes sc) = .frame (.webTransport x) n`.
    That is FALSE for the code (finding D-19b, `C19_signal_only_at_first_bytes_full_fails`): the
    frame layer skips frames of unknown type and hands out `Frame::WebTransportStream` also behind
    them.  Proved here: the full conclusion under the one extra hypothesis `hfirst` that the first
    frame of the stream is not one the decoder skips as unknown (stated on the whole byte string
    the script carries; by the stability law of the decoder this is the same as saying it of any
    prefix long enough to be decoded).  Every other way to reach the token is excluded: a first
    frame of a known type would have been handed out first (the token list is exactly `[frame
    (webTransport x)]`), an error ends the stream. -/
theorem C19_signal_only_at_first_bytes_partial (sc : List Ev) (hsc : ScriptOK sc)
    {x : Nat} {s : FS.St} {rest : List Ev}
    (h : Reach frameDec sc [FS.Tok.frame (.webTransport x)] s rest)
    (hfirst : ∀ n, H3.Frame.decode (evBytes sc) ≠ .unknown n) :
    ∃ n, H3.Frame.decode (evBytes sc) = .frame (.webTransport x) n := by
  obtain ⟨taken, hsc0, hI⟩ := H3.Props.C02.C02_chunking_independent frameDec frameDec_laws sc hsc h
  obtain ⟨consumed, hseen, hrun⟩ := hI.split
  have hall : evBytes sc = consumed ++ (s.flat ++ evBytes rest) := by
    rw [hsc0, evBytes_append, hseen, List.append_assoc]
  have hun : ∀ n, frameDec.dec consumed ≠ .unknown n := by
    intro n hd
    have hst := frameDec_laws.stable consumed (s.flat ++ evBytes rest) (by rw [hd]; rfl)
    rw [← hall, hd] at hst
    apply hfirst n
    change liftRes (H3.Frame.decode (evBytes sc)) = .unknown n at hst
    cases hd' : H3.Frame.decode (evBytes sc) <;> rw [hd'] at hst <;> simp only [liftRes] at hst <;> cases hst
    rfl
  obtain ⟨n, hd⟩ := first_frame_of_run frameDec frameDec_laws consumed (.webTransport x) _ hrun hun
  have hst := frameDec_laws.stable consumed (s.flat ++ evBytes rest) (by rw [hd]; rfl)
  rw [← hall, hd] at hst
  change liftRes (H3.Frame.decode (evBytes sc)) = .frame (.webTransport x) n at hst
  refine ⟨n, ?_⟩
  cases hd' : H3.Frame.decode (evBytes sc) <;> rw [hd'] at hst <;> simp only [liftRes] at hst <;> cases hst
  rfl

/-- the partial theorem for the re-polling reader: if `poll_next`, polled again after every
    `Pending`, ends with the WebTransport frame of session `x`, and the first frame of the stream is
    not skipped as unknown, the stream starts with a WebTransport header for `x` -/
theorem C19_signal_only_at_first_bytes_polled_partial (sc : List Ev) (hsc : ScriptOK sc) (fuel : Nat)
    {x : Nat} {s : FS.St} {rest : List Ev}
    (h : pollUntil frameDec fuel {} sc = (.frame (.webTransport x), s, rest))
    (hfirst : ∀ n, H3.Frame.decode (evBytes sc) ≠ .unknown n) :
    ∃ n, H3.Frame.decode (evBytes sc) = .frame (.webTransport x) n :=
  C19_signal_only_at_first_bytes_partial sc hsc
    (pollUntil_reach frameDec sc fuel [] {} sc Reach.init _ _ _ h rfl) hfirst

/-- **The full statement fails (finding D-19b).**  Witness: the stream `21 00 | 40 41 00 | aa bb` + FIN —
    a GREASE frame (type 0x21) of length 0, then the 0x41 signal for session 0.  One `poll_next`
    (so also the re-polling reader) answers `frame (webTransport 0)` and enters raw mode with `aa bb`
    buffered, although the decoder reads the first bytes of the stream as an unknown frame of 2
    bytes, not as a WebTransport header; hence the full statement (for `Reach`, of which the
    `pollUntil` form is an instance by `pollUntil_reach`) is refuted. -/
theorem C19_signal_only_at_first_bytes_full_fails :
    pollUntil frameDec 3 {} [.chunk [0x21, 0x00, 0x40, 0x41, 0x00, 0xaa, 0xbb], .fin] =
      (.frame (.webTransport 0), { buf := [[0xaa, 0xbb]], remaining := USIZE_MAX }, [.fin]) ∧
    H3.Frame.decode [0x21, 0x00, 0x40, 0x41, 0x00, 0xaa, 0xbb] = .unknown 2 ∧
    ¬ (∀ (sc : List Ev) (x : Nat) (s : FS.St) (rest : List Ev), ScriptOK sc →
        Reach frameDec sc [FS.Tok.frame (.webTransport x)] s rest →
        ∃ n, H3.Frame.decode (evBytes sc) = .frame (.webTransport x) n) := by
  have hp : pollNext frameDec {} [.chunk [0x21, 0x00, 0x40, 0x41, 0x00, 0xaa, 0xbb], .fin] =
      (.frame (.webTransport 0), { buf := [[0xaa, 0xbb]], remaining := USIZE_MAX }, [.fin]) := by
    decide +kernel
  have hd : H3.Frame.decode [0x21, 0x00, 0x40, 0x41, 0x00, 0xaa, 0xbb] = .unknown 2 := by decide +kernel
  refine ⟨by decide +kernel, hd, fun hall => ?_⟩
  obtain ⟨n, hn⟩ := hall [.chunk [0x21, 0x00, 0x40, 0x41, 0x00, 0xaa, 0xbb], .fin] 0 _ _
    (by intro b hb; simp at hb; subst hb; simp) (Reach.next Reach.init hp rfl)
  have he : evBytes [.chunk [0x21, 0x00, 0x40, 0x41, 0x00, 0xaa, 0xbb], .fin] =
      [0x21, 0x00, 0x40, 0x41, 0x00, 0xaa, 0xbb] := by decide
  rw [he, hd] at hn
  cases hn

/-! non-vacuity of the partial theorem: `cut₂` (`40 41 41 00 | aa bb cc`, cut inside both varints):
    the configuration reached after three polls; the first frame is not unknown; the conclusion -/
example : H3.Frame.decode (evBytes cut₂) = .frame (.webTransport 256) 4 := by decide +kernel
example : ∃ n, H3.Frame.decode (evBytes cut₂) = .frame (.webTransport 256) n :=
  C19_signal_only_at_first_bytes_partial cut₂
    (by intro b hb; simp [cut₂] at hb; rcases hb with rfl | rfl | rfl | rfl <;> simp) reach_cut₂
    (by intro n; rw [show H3.Frame.decode (evBytes cut₂) = .frame (.webTransport 256) 4 by decide +kernel]
        intro h; cases h)

example : ∃ n, H3.Frame.decode (evBytes cut₂) = .frame (.webTransport 256) n :=
  C19_signal_only_at_first_bytes_polled_partial cut₂
    (by intro b hb; simp [cut₂] at hb; rcases hb with rfl | rfl | rfl | rfl <;> simp) 8
    (by decide +kernel : pollUntil frameDec 8 {} cut₂ =
      (.frame (.webTransport 256), { buf := [[0xaa]], remaining := USIZE_MAX }, [.chunk [0xbb, 0xcc], .fin]))
    (by intro n; rw [show H3.Frame.decode (evBytes cut₂) = .frame (.webTransport 256) 4 by decide +kernel]
        intro h; cases h)

end signalFirst

section limitedUni
open H3.UniAccept H3.Lemmas.C04
open H3.FS (ScriptOK)

/-- **Unidirectional streams, buffer-limited reader, any encoding of the header.**  As
    `C19_uni_reader_after_any_header`, with the application reading the resolved stream through
    `AsyncRead::poll_read` with ANY sequence of positive buffer sizes. -/
theorem C19_uni_limited_reader_after_any_header (sid : Nat) (hdr payload : List Nat)
    (hh : ∀ p, H3.Spec.ControlRules.header (hdr ++ p) = .complete 0x54 (some sid) p)
    (sc : List UniAccept.Ev) (hwf : ScriptWF sc) (hsc : ScriptOK sc)
    (hbytes : bytesOf sc = hdr ++ payload)
    (sizes : List Nat) (hpos : ∀ n ∈ sizes, 0 < n) :
    ∃ s r, resolve (sc.length + 1) {} sc = .resolved s r ∧ s.id = some sid ∧
      (∃ rest, (readLim sizes (Rd.ofUni s) (uniScript s r)).pieces.flatten ++ rest = payload) ∧
      (∀ p ∈ (readLim sizes (Rd.ofUni s) (uniScript s r)).pieces, p ≠ []) ∧
      Fits (readLim sizes (Rd.ofUni s) (uniScript s r)).pieces sizes ∧
      (payload.length < sizes.length →
        (readLim sizes (Rd.ofUni s) (uniScript s r)).pieces.flatten = payload ∧
        (readLim sizes (Rd.ofUni s) (uniScript s r)).fin = endOf (uniScript s r)) := by
  obtain ⟨s, r, h1, _, h3, h4⟩ := C19_uni_payload_after_any_header sid hdr payload hh sc hwf hbytes
  refine ⟨s, r, h1, h3, ?_⟩
  obtain ⟨pre, hpre⟩ := resolve_suffix _ _ _ _ _ h1
  have hr : ScriptOK r := by rw [hpre] at hsc; exact H3.FS.scriptOK_suffix hsc
  have hsc' : ScriptOK (uniScript s r) := by
    unfold uniScript
    split
    · exact hr
    · intro b hb; exact hr b (by simpa using hb)
    · intro b hb; exact hr b (by simpa using hb)
  have hbuf : BufOK (Rd.ofUni s).buf := by
    unfold Rd.ofUni
    by_cases hb : s.buf = []
    · simp [hb, BufOK]
    · simp only [if_neg hb]
      intro c hc
      simp at hc
      rw [hc]; exact hb
  have hflat : (Rd.ofUni s).buf.flatten = s.buf := by
    unfold Rd.ofUni
    by_cases hb : s.buf = []
    · simp [hb]
    · simp [if_neg hb]
  have hfut : bytesOf (uniScript s r) = future s r := by
    unfold uniScript future
    split
    · rename_i he; simp [he]
    · rename_i he; simp [he, bytesOf]
    · rename_i c he; simp [he, bytesOf]
  have hpay : (Rd.ofUni s).buf.flatten ++ bytesOf (uniScript s r) = payload := by
    rw [hflat, hfut]; exact h4
  have hok := readLim_ok sizes hpos (Rd.ofUni s) hbuf (uniScript s r) hsc'
  refine ⟨?_, hok.nonempty, hok.fits, fun hl => ?_⟩
  · obtain ⟨rest, hrr⟩ := hok.prefix
    exact ⟨rest, by rw [hrr, hpay]⟩
  · have := hok.complete (by rw [hpay]; exact hl)
    rw [hpay] at this
    exact this

/-- **Unidirectional streams, buffer-limited reader.**  The same for the header h3 itself writes
    (`uniHeader sid`), for every session id. -/
theorem C19_uni_limited_reader_obtains_payload (sid : Nat) (hsid : sid < 2^62) (payload : List Nat)
    (sc : List UniAccept.Ev) (hwf : ScriptWF sc) (hsc : ScriptOK sc)
    (hbytes : bytesOf sc = uniHeader sid ++ payload)
    (sizes : List Nat) (hpos : ∀ n ∈ sizes, 0 < n) :
    ∃ s r, resolve (sc.length + 1) {} sc = .resolved s r ∧ s.id = some sid ∧
      (∃ rest, (readLim sizes (Rd.ofUni s) (uniScript s r)).pieces.flatten ++ rest = payload) ∧
      (∀ p ∈ (readLim sizes (Rd.ofUni s) (uniScript s r)).pieces, p ≠ []) ∧
      Fits (readLim sizes (Rd.ofUni s) (uniScript s r)).pieces sizes ∧
      (payload.length < sizes.length →
        (readLim sizes (Rd.ofUni s) (uniScript s r)).pieces.flatten = payload ∧
        (readLim sizes (Rd.ofUni s) (uniScript s r)).fin = endOf (uniScript s r)) :=
  C19_uni_limited_reader_after_any_header sid (uniHeader sid) payload (uniHeader_reads sid hsid) sc hwf hsc
    hbytes sizes hpos

-- session 65536, payload `aa bb`, cut inside both varints; `aa` is buffered behind the header, `bb`
-- still to come: read with 1-byte buffers
example : readLim [1, 1, 1] (Rd.ofUni { buf := [0xaa], ty := some 0x54, id := some 65536 })
      (uniScript { buf := [0xaa], ty := some 0x54, id := some 65536 } [.chunk [0xbb]]) =
    { pieces := [[0xaa], [0xbb]], fin := .open_, s := { buf := [] }, script := [], left := [1] } := by decide
example : ∃ s r, resolve 9 {} [.chunk [0x40], .pend, .chunk [0x54, 0x80], .pend, .chunk [0x01, 0x00],
      .chunk [0x00, 0xaa], .chunk [0xbb], .fin] = .resolved s r ∧ s.id = some 65536 ∧
      (∃ rest, (readLim [1, 1, 1] (Rd.ofUni s) (uniScript s r)).pieces.flatten ++ rest = [0xaa, 0xbb]) ∧
      (∀ p ∈ (readLim [1, 1, 1] (Rd.ofUni s) (uniScript s r)).pieces, p ≠ []) ∧
      Fits (readLim [1, 1, 1] (Rd.ofUni s) (uniScript s r)).pieces [1, 1, 1] ∧
      (([0xaa, 0xbb] : List Nat).length < [1, 1, 1].length →
        (readLim [1, 1, 1] (Rd.ofUni s) (uniScript s r)).pieces.flatten = [0xaa, 0xbb] ∧
        (readLim [1, 1, 1] (Rd.ofUni s) (uniScript s r)).fin = endOf (uniScript s r)) :=
  C19_uni_limited_reader_obtains_payload 65536 (by decide) [0xaa, 0xbb]
    [.chunk [0x40], .pend, .chunk [0x54, 0x80], .pend, .chunk [0x01, 0x00], .chunk [0x00, 0xaa], .chunk [0xbb], .fin]
    (by intro b hb; simp at hb; rcases hb with rfl | rfl | rfl | rfl | rfl <;> simp [WF])
    (by intro b hb; simp at hb; rcases hb with rfl | rfl | rfl | rfl | rfl <;> simp) (by decide)
    [1, 1, 1] (by decide)

-- the long header `40 54 40 04` + `aa bb`, cut inside both varints, read with 1-byte buffers
example : ∃ s r, resolve 8 {} [.chunk [0x40], .pend, .chunk [0x54, 0x40], .pend, .chunk [0x04, 0xaa],
      .chunk [0xbb], .fin] = .resolved s r ∧ s.id = some 4 ∧
      (∃ rest, (readLim [1, 1, 1] (Rd.ofUni s) (uniScript s r)).pieces.flatten ++ rest = [0xaa, 0xbb]) ∧
      (∀ p ∈ (readLim [1, 1, 1] (Rd.ofUni s) (uniScript s r)).pieces, p ≠ []) ∧
      Fits (readLim [1, 1, 1] (Rd.ofUni s) (uniScript s r)).pieces [1, 1, 1] ∧
      (([0xaa, 0xbb] : List Nat).length < [1, 1, 1].length →
        (readLim [1, 1, 1] (Rd.ofUni s) (uniScript s r)).pieces.flatten = [0xaa, 0xbb] ∧
        (readLim [1, 1, 1] (Rd.ofUni s) (uniScript s r)).fin = endOf (uniScript s r)) :=
  C19_uni_limited_reader_after_any_header 4 [0x40, 0x54, 0x40, 0x04] [0xaa, 0xbb] long_uni_header_reads
    [.chunk [0x40], .pend, .chunk [0x54, 0x40], .pend, .chunk [0x04, 0xaa], .chunk [0xbb], .fin]
    (by intro b hb; simp at hb; rcases hb with rfl | rfl | rfl | rfl <;> simp [WF])
    (by intro b hb; simp at hb; rcases hb with rfl | rfl | rfl | rfl <;> simp) (by decide)
    [1, 1, 1] (by decide)

end limitedUni

/-! ## Several WebTransport uni streams buffered at once (`wt_uni_streams`) -/

section buffered
open H3.UniAccept H3.Lemmas.C04

/-- what the peer put on one uni stream: the QUIC stream id, the session id in its header, the
    payload behind the header, and how the transport delivers these bytes (any cutting, `Pending`
    anywhere, FIN / RESET behind them or not at all) -/
structure Sent where
  stream : Nat
  sid : Nat
  /-- the header bytes as the peer wrote them: any encoding the RFC 9000 reader reads as type 0x54,
      id `sid` (`Sent.OK`) — `uniHeader sid` or a longer form of either varint -/
  hdr : List Nat
  payload : List Nat
  sc : List UniAccept.Ev
deriving DecidableEq

def Sent.OK (x : Sent) : Prop :=
  (∀ p, H3.Spec.ControlRules.header (x.hdr ++ p) = .complete 0x54 (some x.sid) p) ∧ ScriptWF x.sc ∧
    bytesOf x.sc = x.hdr ++ x.payload

/-- a stream with the header h3 itself writes is `OK` -/
theorem Sent.ok_canonical (x : Sent) (hsid : x.sid < 2^62) (hh : x.hdr = uniHeader x.sid)
    (hwf : ScriptWF x.sc) (hb : bytesOf x.sc = uniHeader x.sid ++ x.payload) : x.OK :=
  ⟨by rw [hh]; exact uniHeader_reads x.sid hsid, hwf, by rw [hh]; exact hb⟩

def Sent.toIn (x : Sent) : UniIn := ⟨x.stream, x.sc⟩

/-- who a stream is: its QUIC id, its session id, its payload -/
def Sent.ident (x : Sent) : Nat × Nat × List Nat := (x.stream, x.sid, x.payload)

/-- who a buffered / surfaced entry claims to be: the stream it is, the session id reported with it,
    and the bytes a reader of its `BufRecvStream` can still obtain (buffered ++ to come) -/
def ident (e : WtUni) : Nat × Nat × List Nat := (e.stream, e.session, e.rd.buf.flatten ++ bytesOf e.script)

/-- arrivals and `accept_uni` polls, in any order -/
inductive Act where
  | arrive (x : Sent)
  | accept

def Act.op : Act → AOp
  | .arrive x => .arrive x.toIn
  | .accept => .accept

def arrived : List Act → List Sent
  | [] => []
  | .arrive x :: r => x :: arrived r
  | .accept :: r => arrived r

private theorem uniFate_ok (x : Sent) (hx : x.OK) :
    ∃ rd sc, uniFate true x.sc = .surface x.sid rd sc ∧ rd.buf.flatten ++ bytesOf sc = x.payload := by
  obtain ⟨hh, hwf, hbytes⟩ := hx
  obtain ⟨s, r, h1, h2, h3, h4⟩ := C19_uni_payload_after_any_header x.sid x.hdr x.payload hh x.sc hwf hbytes
  refine ⟨Rd.ofUni s, uniScript s r, ?_, ?_⟩
  · have hi : intoStream s = some (.wtUni x.sid) := by
      unfold intoStream
      rw [h2, h3]
      simp [STREAM_CONTROL, STREAM_PUSH, STREAM_ENCODER, STREAM_DECODER, STREAM_WEBTRANSPORT_UNI]
    unfold uniFate
    rw [h1]
    simp only [hi, if_true]
  · have hflat : (Rd.ofUni s).buf.flatten = s.buf := by
      unfold Rd.ofUni
      by_cases hb : s.buf = []
      · simp [hb]
      · simp [if_neg hb]
    have hfut : bytesOf (uniScript s r) = future s r := by
      unfold uniScript future
      split
      · rename_i he; simp [he]
      · rename_i he; simp [he, bytesOf]
      · rename_i c he; simp [he, bytesOf]
    rw [hflat, hfut]; exact h4

/-- one `poll_accept_recv` over pending streams that all carry a complete WebTransport header:
    every one of them is pushed, with its own identity, in the order of `pending_recv_streams` -/
private theorem pass_fold (P : List Sent) (hP : ∀ x ∈ P, x.OK) (acc : Accepted) :
    ∃ es : List WtUni, (P.map Sent.toIn).foldl (Accepted.passOne true) acc = { acc with wt := acc.wt ++ es } ∧
      es.map ident = P.map Sent.ident := by
  induction P generalizing acc with
  | nil => exact ⟨[], by simp, rfl⟩
  | cons x r ih =>
    obtain ⟨rd, sc, hf, hb⟩ := uniFate_ok x (hP x (by simp))
    obtain ⟨es, he, hi⟩ := ih (fun y hy => hP y (by simp [hy])) { acc with wt := acc.wt ++ [⟨x.stream, x.sid, rd, sc⟩] }
    refine ⟨⟨x.stream, x.sid, rd, sc⟩ :: es, ?_, ?_⟩
    · simp only [List.map_cons, List.foldl_cons]
      have : Accepted.passOne true acc x.toIn = { acc with wt := acc.wt ++ [⟨x.stream, x.sid, rd, sc⟩] } := by
        unfold Accepted.passOne
        simp only [Sent.toIn, hf]
      rw [this, he]
      simp
    · simp only [List.map_cons, hi]
      congr 1
      simp only [ident, Sent.ident, hb]

private theorem pass_ok (a : Accepted) (P : List Sent) (hp : a.pending = P.map Sent.toIn) (hP : ∀ x ∈ P, x.OK) :
    (a.pass true).pending = [] ∧ (a.pass true).wt.map ident = a.wt.map ident ++ P.map Sent.ident := by
  obtain ⟨es, he, hi⟩ := pass_fold P hP { pending := [], wt := a.wt }
  unfold Accepted.pass
  rw [hp, he]
  simp [hi]

private theorem popLast_none {α} (l : List α) (h : popLast l = none) : l = [] := by
  unfold popLast at h
  cases hr : l.reverse with
  | nil => simpa using hr
  | cons x r => rw [hr] at h; simp at h

private theorem popLast_some {α} (l : List α) (x : α) (r : List α) (h : popLast l = some (x, r)) : l = r ++ [x] := by
  unfold popLast at h
  cases hr : l.reverse with
  | nil => rw [hr] at h; simp at h
  | cons y t =>
    rw [hr] at h
    simp at h
    obtain ⟨rfl, rfl⟩ := h
    have := congrArg List.reverse hr
    simpa using this

private theorem keep_identity_aux (acts : List Act) :
    ∀ (a : Accepted) (P : List Sent), a.pending = P.map Sent.toIn → (∀ x ∈ P, x.OK) → (∀ x ∈ arrived acts, x.OK) →
      List.Perm ((runAccepts true a (acts.map Act.op)).1.map ident ++
                 ((runAccepts true a (acts.map Act.op)).2.pass true).wt.map ident)
                (a.wt.map ident ++ (P ++ arrived acts).map Sent.ident) ∧
      ((runAccepts true a (acts.map Act.op)).2.pass true).pending = [] := by
  induction acts with
  | nil =>
    intro a P hp hP _
    obtain ⟨h1, h2⟩ := pass_ok a P hp hP
    simp only [List.map_nil, runAccepts, List.nil_append, arrived, List.append_nil]
    exact ⟨by rw [h2], h1⟩
  | cons act rest ih =>
    intro a P hp hP hA
    cases act with
    | arrive x =>
      have hx : x.OK := hA x (by simp [arrived])
      have := ih (a.arrive x.toIn) (P ++ [x]) (by simp [Accepted.arrive, hp])
        (by intro y hy; rcases List.mem_append.mp hy with h | h
            · exact hP y h
            · simp at h; rw [h]; exact hx)
        (fun y hy => hA y (by simp [arrived, hy]))
      simpa [runAccepts, Act.op, arrived, Accepted.arrive, List.append_assoc] using this
    | accept =>
      obtain ⟨h1, h2⟩ := pass_ok a P hp hP
      have hA' : ∀ x ∈ arrived rest, x.OK := fun y hy => hA y (by simpa [arrived] using hy)
      simp only [List.map_cons, Act.op, runAccepts, arrived]
      unfold Accepted.acceptUni
      cases hpop : popLast (a.pass true).wt with
      | none =>
        have hnil := popLast_none _ hpop
        have := ih (a.pass true) [] (by simp [h1]) (by simp) hA'
        simp only [List.nil_append] at this
        rw [hnil] at h2
        simp only [List.map_nil] at h2
        have h3 : a.wt.map ident ++ (P ++ arrived rest).map Sent.ident = [] ++ (arrived rest).map Sent.ident := by
          rw [List.map_append, ← List.append_assoc, ← h2]
        rw [h3]
        simpa [hnil] using this
      | some xr =>
        obtain ⟨x, r⟩ := xr
        have hl := popLast_some _ _ _ hpop
        have := ih { a.pass true with wt := r } [] (by simp [h1]) (by simp) hA'
        simp only [List.nil_append] at this
        refine ⟨?_, this.2⟩
        have h3 : a.wt.map ident ++ (P ++ arrived rest).map Sent.ident =
            (r.map ident ++ [ident x]) ++ (arrived rest).map Sent.ident := by
          rw [List.map_append, ← List.append_assoc, ← h2, hl]
          simp
        rw [h3]
        simp only [List.map_cons, List.cons_append, List.append_assoc]
        refine List.Perm.trans (List.Perm.cons _ this.1) ?_
        exact List.perm_middle.symm

/-- **Buffered streams keep their identity.**  The peer opens any number of WebTransport uni
    streams — any QUIC stream ids, any session ids (the session's own or not) in ANY encoding the
    RFC 9000 reader reads as type 0x54 + that id (`Sent.hdr`: the minimal one h3 writes or longer
    forms of either varint), any payloads, each delivered in any cutting with `Pending` anywhere —
    and the application calls
    `accept_uni` any number of times, arrivals and calls interleaved in ANY order (`acts`).  Then
    the entries surfaced by the calls, together with the entries still buffered in
    `wt_uni_streams` once `poll_accept_recv` has run again, are — as triples (QUIC stream, session
    id reported, bytes a reader of the handed-over `BufRecvStream` obtains: buffered ++ still to
    come) — a PERMUTATION of the triples (stream, session id the peer wrote in ITS header, ITS
    payload) of the streams that arrived: every stream is surfaced at most once, nothing is
    surfaced that did not arrive, no stream is surfaced with another stream's session id or
    another stream's bytes, none is lost; and no stream with a complete header is left unresolved.
    The ORDER in which buffered streams are surfaced (the code pops the one pushed last) is not
    part of the claim. -/
theorem C19_buffered_streams_keep_identity (acts : List Act) (hok : ∀ x ∈ arrived acts, x.OK) :
    List.Perm ((runAccepts true {} (acts.map Act.op)).1.map ident ++
               ((runAccepts true {} (acts.map Act.op)).2.pass true).wt.map ident)
              ((arrived acts).map Sent.ident) ∧
    ((runAccepts true {} (acts.map Act.op)).2.pass true).pending = [] := by
  have := keep_identity_aux acts {} [] rfl (by simp) hok
  simpa using this

/-- **`accept_uni` waits only when there is nothing to surface.**  In a state whose pending streams
    all carry a complete WebTransport header (`P`), with the extension enabled, `accept_uni`
    answers `Pending` iff `wt_uni_streams` is empty and no stream is pending; otherwise it
    surfaces one of them, with its own identity (previous theorem). -/
theorem C19_accept_uni_waits_only_when_nothing_is_buffered (a : Accepted) (P : List Sent)
    (hp : a.pending = P.map Sent.toIn) (hP : ∀ x ∈ P, x.OK) :
    ((a.acceptUni true).1 = none ↔ a.wt = [] ∧ P = []) := by
  obtain ⟨_, h2⟩ := pass_ok a P hp hP
  unfold Accepted.acceptUni
  cases hpop : popLast (a.pass true).wt with
  | none =>
    have hnil := popLast_none _ hpop
    rw [hnil] at h2
    simp only [List.map_nil] at h2
    have h3 := congrArg List.length h2
    simp only [List.length_nil, List.length_append, List.length_map] at h3
    simp only [true_iff]
    exact ⟨List.length_eq_zero_iff.mp (by omega), List.length_eq_zero_iff.mp (by omega)⟩
  | some xr =>
    obtain ⟨x, r⟩ := xr
    have hl := popLast_some _ _ _ hpop
    simp only [reduceCtorEq, false_iff]
    intro ⟨hw, hPn⟩
    rw [hl, hw, hPn] at h2
    simp at h2

/-! non-vacuity: three streams (QUIC ids 6, 10, 14) for the sessions 4, 8 and 12 with the payloads
    `aa`, `bb`, `cc` (the first with the non-minimal header `40 54 40 04` cut inside the id, the
    second header cut inside, the third with FIN behind it); two arrive, one
    accept, the third arrives, two more accepts: surfaced 10, 14, 6 — each with its own session id
    and its own bytes -/
def s6 : Sent := ⟨6, 4, [0x40, 0x54, 0x40, 0x04], [0xaa], [.chunk [0x40, 0x54, 0x40], .chunk [0x04, 0xaa]]⟩
def s10 : Sent := ⟨10, 8, uniHeader 8, [0xbb], [.chunk [0x40], .pend, .chunk [0x54, 0x08], .chunk [0xbb]]⟩
def s14 : Sent := ⟨14, 12, uniHeader 12, [0xcc], [.chunk [0x40, 0x54, 0x0c, 0xcc], .fin]⟩
def three : List Act := [.arrive s6, .arrive s10, .accept, .arrive s14, .accept, .accept]

example : (runAccepts true {} (three.map Act.op)).1.map ident =
    [(10, 8, [0xbb]), (14, 12, [0xcc]), (6, 4, [0xaa])] := by decide +kernel
example : (arrived three).map Sent.ident = [(6, 4, [0xaa]), (10, 8, [0xbb]), (14, 12, [0xcc])] := by decide
example : List.Perm ((runAccepts true {} (three.map Act.op)).1.map ident ++
      ((runAccepts true {} (three.map Act.op)).2.pass true).wt.map ident)
    [(6, 4, [0xaa]), (10, 8, [0xbb]), (14, 12, [0xcc])] :=
  (C19_buffered_streams_keep_identity three (by
    intro x hx
    simp [three, arrived] at hx
    rcases hx with rfl | rfl | rfl
    · exact ⟨long_uni_header_reads, by intro b hb; simp [s6] at hb; rcases hb with rfl | rfl <;> simp [WF], by decide⟩
    · exact Sent.ok_canonical s10 (by decide) rfl
        (by intro b hb; simp [s10] at hb; rcases hb with rfl | rfl | rfl <;> simp [WF]) (by decide)
    · exact Sent.ok_canonical s14 (by decide) rfl (by intro b hb; simp [s14] at hb; rw [hb]; simp [WF]) (by decide))).1
-- a fourth accept waits: nothing is buffered any more; a stream that ends inside its header is never surfaced
example : ((runAccepts true {} (three.map Act.op)).2.acceptUni true).1 = none := by decide +kernel
example : (runAccepts true {} [.arrive ⟨6, [.chunk [0x40, 0x54], .fin]⟩, .accept]).1 = [] ∧
    (runAccepts true {} [.arrive ⟨6, [.chunk [0x40, 0x54], .fin]⟩, .accept]).2 = {} := by decide +kernel
-- with the extension off nothing is surfaced
example : (runAccepts false {} (three.map Act.op)).1 = [] := by decide +kernel

end buffered

/-! ## What an opened stream puts on the wire -/

section wire
open H3.Spec.ControlRules (header)

/-- **Streams the server opens, bidirectional.**  For every session id below 2^62, every acceptance
    pattern `hs` of the transport while `open_bi` writes the header (any number of bytes at a
    time, `Pending` anywhere) and every sequence of write calls of the application — byte slices
    through `poll_send` / `AsyncWrite::poll_write` (futures or tokio), DATA frames through
    `send_data` + `poll_ready`, `poll_finish` / `poll_close` / `poll_shutdown`, `reset` — each
    under its own acceptance pattern: nothing panics; the bytes the transport has accepted are
    always a prefix of `bidiHeader sid ++` the bytes handed to the write calls in order; once no
    call is left waiting they are exactly that, FIN is set iff a finishing call was made, and the
    receiving frame decoder reads the wire as the WebTransport frame of session `sid`, consuming
    exactly the header, with exactly the handed bytes behind it; and no call is left waiting when
    every acceptance pattern offers enough room. -/
theorem C19_opened_bidi_wire (sid : Nat) (hsid : sid < 2^62) (hs : List Nat) (ops : List WOp)
    (hf : FramesOK ops) :
    (openBidi sid hs ops).panic = false ∧
    (∃ rest, (openBidi sid hs ops).wire ++ rest = bidiHeader sid ++ handed ops) ∧
    ((openBidi sid hs ops).stuck = false →
      (openBidi sid hs ops).wire = bidiHeader sid ++ handed ops ∧
      ((openBidi sid hs ops).fin = true ↔ WOp.finish ∈ ops) ∧
      H3.Frame.decode (openBidi sid hs ops).wire = .frame (.webTransport sid) (bidiHeader sid).length ∧
      (openBidi sid hs ops).wire.drop (bidiHeader sid).length = handed ops) ∧
    (Accepts hs (bidiHeader sid).length → Enough ops → (openBidi sid hs ops).stuck = false) := by
  obtain ⟨w, hw, hwf, hv⟩ := fromBidiHeader_some sid hsid
  have h := opened_ok w hwf hs ops hf
  simp only [hv] at h
  unfold openBidi
  rw [hw]
  obtain ⟨h1, h2, h3, h4⟩ := h
  refine ⟨h1, h2, fun hst => ?_, h4⟩
  obtain ⟨e, hfin⟩ := h3 hst
  refine ⟨e, hfin, ?_, ?_⟩
  · rw [e]; exact C19_bidi_header_decodes sid hsid _
  · rw [e]; simp

/-- **Streams the server opens, unidirectional.**  The same for `open_uni`: the wire is
    `uniHeader sid ++` the handed bytes, and the stream-header reader of the specification (RFC 9000
    varints: stream type, then the session id) reads it as type 0x54, id `sid`, with exactly the
    handed bytes behind the header. -/
theorem C19_opened_uni_wire (sid : Nat) (hsid : sid < 2^62) (hs : List Nat) (ops : List WOp)
    (hf : FramesOK ops) :
    (openUni sid hs ops).panic = false ∧
    (∃ rest, (openUni sid hs ops).wire ++ rest = uniHeader sid ++ handed ops) ∧
    ((openUni sid hs ops).stuck = false →
      (openUni sid hs ops).wire = uniHeader sid ++ handed ops ∧
      ((openUni sid hs ops).fin = true ↔ WOp.finish ∈ ops) ∧
      header (openUni sid hs ops).wire = .complete 0x54 (some sid) (handed ops)) ∧
    (Accepts hs (uniHeader sid).length → Enough ops → (openUni sid hs ops).stuck = false) := by
  obtain ⟨w, hw, hwf, hv⟩ := fromUniHeader_some sid hsid
  have h := opened_ok w hwf hs ops hf
  simp only [hv] at h
  unfold openUni
  rw [hw]
  obtain ⟨h1, h2, h3, h4⟩ := h
  refine ⟨h1, h2, fun hst => ?_, h4⟩
  obtain ⟨e, hfin⟩ := h3 hst
  refine ⟨e, hfin, ?_⟩
  rw [e]
  unfold header uniHeader
  rw [List.append_assoc, rfcDecode_encode _ (by decide)]
  simp only [STREAM_WEBTRANSPORT_UNI]
  simp only [show Spec.ControlRules.hasId 84 = true by decide, if_true, rfcDecode_encode sid hsid]

/-! non-vacuity: session 256; the transport takes the 4 header bytes as 1 + (Pending) + 2 + 1; then a
    3-byte slice taken as 2 + (Pending) + 1, a DATA frame `00 01 09` taken as header, then payload (the `WriteBuf` yields them as two chunks), `poll_finish`;
    and the same with too little room for the slice: the call is left waiting, the wire is a prefix -/
example : openBidi 256 [1, 0, 2, 5] [.slice [1, 2, 3] [2, 0, 1], .frame [9] [10, 10], .finish] =
    { wire := [0x40, 0x41, 0x41, 0x00, 1, 2, 3, 0x00, 0x01, 9], fin := true } := by decide +kernel
example : openBidi 256 [1, 0, 2, 5] [.slice [1, 2, 3] [2, 0], .frame [9] [10, 10], .finish] =
    { wire := [0x40, 0x41, 0x41, 0x00, 1, 2], stuck := true } := by decide +kernel
example : openUni 65536 [3, 3] [.slice [7, 8] [1, 1], .reset 5] =
    { wire := [0x40, 0x54, 0x80, 0x01, 0x00, 0x00, 7, 8], rst := some 5 } := by decide +kernel
example : handed [.slice [1, 2, 3] [2, 0, 1], .frame [9] [10, 10], .finish] = [1, 2, 3, 0x00, 0x01, 9] := by decide
example : H3.Frame.decode (openBidi 256 [1, 0, 2, 5] [.slice [1, 2, 3] [2, 0, 1], .frame [9] [10, 10], .finish]).wire =
    .frame (.webTransport 256) (bidiHeader 256).length :=
  ((C19_opened_bidi_wire 256 (by decide) [1, 0, 2, 5] [.slice [1, 2, 3] [2, 0, 1], .frame [9] [10, 10], .finish]
    (by intro p sc hm; simp at hm; rw [hm.1]; decide)).2.2.1 (by decide +kernel)).2.2.1

end wire

/-! ## Written by one endpoint, read by the other -/

section readback
open H3.FS

/-- **An opened bidirectional stream, read back.**  Composition of `C19_opened_bidi_wire` and
    `C19_bidi_limited_reader_obtains_payload`: whatever the acceptance patterns on the sending side
    (all calls completed), however the wire bytes are cut on the way (nothing behind FIN / RESET),
    and whatever positive buffer sizes the receiving application reads with (more buffers than
    bytes): the receiver's frame carries the sender's session id and the bytes it reads are exactly
    the bytes handed to the sender's write calls, in order, `Ok(0)` only behind the last one. -/
theorem C19_opened_bidi_read_back (sid : Nat) (hsid : sid < 2^62) (hs : List Nat) (ops : List WOp)
    (hf : FramesOK ops) (hst : (openBidi sid hs ops).stuck = false)
    (hlen : (handed ops).length < 2^64) (sc0 : List Ev) (hsc : ScriptOK sc0)
    (hbytes : evBytes sc0 = (openBidi sid hs ops).wire) (hend : EndLast sc0)
    {x : Nat} {s : FS.St} {script : List Ev}
    (h : Reach frameDec sc0 [FS.Tok.frame (.webTransport x)] s script)
    (sizes : List Nat) (hpos : ∀ n ∈ sizes, 0 < n) (hn : (handed ops).length < sizes.length) :
    x = sid ∧ (readLim sizes (Rd.ofFS s) script).pieces.flatten = handed ops ∧
    (readLim sizes (Rd.ofFS s) script).fin = endOf script := by
  have hw := ((C19_opened_bidi_wire sid hsid hs ops hf).2.2.1 hst).1
  rw [hw] at hbytes
  refine ⟨(C19_payload_after_header sid hsid _ hlen sc0 hsc hbytes h).1, ?_⟩
  exact (C19_bidi_limited_reader_obtains_payload sid hsid _ hlen sc0 hsc hbytes hend h sizes hpos).2.2.2 hn

/-- **... without assuming that the receiver ever gets the frame.**  `C19_opened_bidi_read_back`
    composed with the liveness theorem `C19_bidi_header_is_answered`: the receiver polls `poll_next`
    from the initial state, again after every `Pending`; the polls end with the WebTransport frame
    of the sender's session id, and reading from there with any positive buffer sizes (more buffers
    than bytes) yields exactly the bytes handed to the sender's write calls. -/
theorem C19_opened_bidi_answered_and_read_back (sid : Nat) (hsid : sid < 2^62) (hs : List Nat)
    (ops : List WOp) (hf : FramesOK ops) (hst : (openBidi sid hs ops).stuck = false)
    (hlen : (handed ops).length < 2^64) (sc0 : List Ev) (hsc : ScriptOK sc0)
    (hbytes : evBytes sc0 = (openBidi sid hs ops).wire) (hend : EndLast sc0)
    (sizes : List Nat) (hpos : ∀ n ∈ sizes, 0 < n) (hn : (handed ops).length < sizes.length) :
    ∃ s script, pollUntil frameDec (sc0.length + 1) {} sc0 = (.frame (.webTransport sid), s, script) ∧
      (readLim sizes (Rd.ofFS s) script).pieces.flatten = handed ops ∧
      (readLim sizes (Rd.ofFS s) script).fin = endOf script := by
  have hw := ((C19_opened_bidi_wire sid hsid hs ops hf).2.2.1 hst).1
  have hbytes' : evBytes sc0 = bidiHeader sid ++ handed ops := by rw [hbytes, hw]
  obtain ⟨s, script, hp, hR⟩ := C19_bidi_header_is_answered sid hsid (handed ops) sc0 hsc hbytes' hend
  exact ⟨s, script, hp,
    (C19_opened_bidi_read_back sid hsid hs ops hf hst hlen sc0 hsc hbytes hend hR sizes hpos hn).2⟩

-- the seven bytes of `cut₂` are what `open_bi(256)` + a 3-byte slice put on the wire
example : (openBidi 256 [4] [.slice [0xaa, 0xbb, 0xcc] [3]]).wire = evBytes cut₂ := by decide +kernel
example : 256 = 256 ∧
    (readLim [2, 2, 2, 2] (Rd.ofFS { buf := [[0xaa]], remaining := USIZE_MAX }) [.chunk [0xbb, 0xcc], .fin]).pieces.flatten =
      handed [.slice [0xaa, 0xbb, 0xcc] [3]] ∧
    (readLim [2, 2, 2, 2] (Rd.ofFS { buf := [[0xaa]], remaining := USIZE_MAX }) [.chunk [0xbb, 0xcc], .fin]).fin =
      endOf [.chunk [0xbb, 0xcc], .fin] :=
  C19_opened_bidi_read_back 256 (by decide) [4] [.slice [0xaa, 0xbb, 0xcc] [3]]
    (by intro p sc hm; simp at hm) (by decide +kernel) (by decide) cut₂
    (by intro b hb; simp [cut₂] at hb; rcases hb with rfl | rfl | rfl | rfl <;> simp) (by decide +kernel)
    (by simp [cut₂, EndLast, evBytes]) reach_cut₂ [2, 2, 2, 2] (by decide) (by decide)

example : ∃ s script, pollUntil frameDec (cut₂.length + 1) {} cut₂ = (.frame (.webTransport 256), s, script) ∧
    (readLim [2, 2, 2, 2] (Rd.ofFS s) script).pieces.flatten = handed [.slice [0xaa, 0xbb, 0xcc] [3]] ∧
    (readLim [2, 2, 2, 2] (Rd.ofFS s) script).fin = endOf script :=
  C19_opened_bidi_answered_and_read_back 256 (by decide) [4] [.slice [0xaa, 0xbb, 0xcc] [3]]
    (by intro p sc hm; simp at hm) (by decide +kernel) (by decide) cut₂
    (by intro b hb; simp [cut₂] at hb; rcases hb with rfl | rfl | rfl | rfl <;> simp) (by decide +kernel)
    (by simp [cut₂, EndLast, evBytes]) [2, 2, 2, 2] (by decide) (by decide)

end readback

end H3.Props.C19
