import H3.Model.Goaway
/-! RFC 9114 §5.2 / §7.2.6 as an oracle over what can be *observed* of a connection: the GOAWAY
identifiers written so far, the requests shown to the application, the requests refused.
Nothing here refers to the implementation's variables (`sent_closing`, `largest_accepted_stream`,
…); only the alphabet of observations `H3.Goaway.Obs` is shared with the model. -/
namespace H3.Spec.Goaway
open H3.Goaway (Obs)

/-- the observable history of a server connection. -/
structure Hist where
  /-- GOAWAY identifiers written, latest first. -/
  sent : List Nat := []
  /-- requests handed to the application. -/
  surfaced : List Nat := []
  /-- requests refused with H3_REQUEST_REJECTED. -/
  rejected : List Nat := []
  /-- request streams the peer has opened. -/
  opened : List Nat := []
  /-- requests the application is done with (its last handle is gone). -/
  done : List Nat := []
  /-- the count of the `shutdown(n)` call being answered. -/
  call : Option Nat := none
deriving Repr, DecidableEq

def Hist.push (h : Hist) : Obs → Hist
  | .goaway g => { h with sent := g :: h.sent }
  | .surfaced i => { h with surfaced := i :: h.surfaced }
  | .rejected i => { h with rejected := i :: h.rejected }
  | .arrived i => { h with opened := i :: h.opened }
  | .completed i => { h with done := i :: h.done }
  | .shutdownCalled n => { h with call := some n }
  | _ => h

/-- RFC 9000 §2.1: a client-initiated bidirectional stream ID (62 bit). -/
def clientBidi (id : Nat) : Bool := id % 4 == 0 && decide (id < 2^62)

def lastSent (h : Hist) : Option Nat := h.sent.head?

/-- §7.2.6: server→client GOAWAY carries a client-initiated bidirectional stream ID;
    §5.2: "the identifier in each frame MUST NOT be greater than the identifier in any
    previous frame". -/
def okGoaway (h : Hist) (g : Nat) : Bool := clientBidi g && h.sent.all (fun p => decide (g ≤ p))

/-- §5.2: requests with an identifier ≥ the one in the GOAWAY "were not and will not be
    processed" — so no request already shown to the application may be at or above it. -/
def noRetract (h : Hist) (g : Nat) : Bool := h.surfaced.all (fun i => decide (i < g))

/-- §5.2: once a GOAWAY was sent, a request at or above the last identifier sent is
    rejected; every other request is served. -/
def mustReject (h : Hist) (i : Nat) : Bool :=
  match lastSent h with
  | some g => decide (g ≤ i)
  | none => false

/-- one more observation against the history so far.  `strict = false` leaves out `noRetract`
    (the only clause that does not survive saturation of the identifier space). -/
def okObs (strict : Bool) (h : Hist) : Obs → Bool
  | .goaway g => okGoaway h g && (!strict || noRetract h g)
  | .surfaced i => !mustReject h i
  | .rejected i => mustReject h i
  -- "every request below it is still served": a request shown to the application (by the clause
  -- above it is below the line) whose peer sent a complete well-formed request is never refused
  -- service afterwards, whatever GOAWAY was sent or received in between
  | .notServed _ => false
  | _ => true

def valid (strict : Bool) : Hist → List Obs → Bool
  | _, [] => true
  | h, o :: r => okObs strict h o && valid strict (h.push o) r

/-! ### the queue rules (second audit: D-08b)

What the per-observation clauses above cannot see: a stream that never gets an outcome, an outcome
given twice, a `shutdown` that answers `Ok` without a GOAWAY in force.  Still over the observable
history only (plus the peer's `arrived`, the application's `completed` / `shutdownCalled`). -/

/-- stream `i` has had its outcome: shown to the application or refused. -/
def disposed (h : Hist) (i : Nat) : Bool := h.surfaced.contains i || h.rejected.contains i

/-- the largest request shown to the application so far. -/
def largestSurfaced (h : Hist) : Option Nat := h.surfaced.foldl (fun m i => some (match m with | some a => max a i | none => i)) none

/-- `shutdown(n)`: "accepting `n` potentially still in-flight" requests — at most `n` more than the
    largest one shown so far (the first `n` when none was shown); the identifier space ends at 2^62 − 4. -/
def shutdownBound (h : Hist) (n : Nat) : Nat :=
  min (match largestSurfaced h with
       | some L => L + 4 * (n + 1)
       | none => 4 * n) (2^62 - 4)

def okQueue (h : Hist) : Obs → Bool
  -- at most one outcome per stream
  | .surfaced i => !disposed h i
  | .rejected i => !disposed h i
  -- under the documented pattern *call `accept` until `None`* (R-08) `None` ends the server's look at
  -- incoming streams.  The text gives every request one of two fates — at or above the last identifier
  -- sent: refused with H3_REQUEST_REJECTED; below it: served — so a stream the peer has opened that has
  -- been neither shown nor refused when `None` is answered is a violation whichever side of the line
  -- it is on (the last GOAWAY of `accept` may move the line, it cannot excuse the stream).  And `None`
  -- is the end of the connection's work: no request shown earlier is still in progress
  | .acceptNone => h.opened.all (disposed h) && h.surfaced.all (fun i => h.done.contains i)
  -- "once a server has begun graceful shutdown": a `shutdown(n)` that answers `Ok` leaves a GOAWAY in
  -- force whose identifier admits at most `n` more requests (a lower identifier than the one in force
  -- has to be written)
  | .shutdownOk =>
    match lastSent h with
    | none => false
    | some g =>
      match h.call with
      | some n => decide (g ≤ shutdownBound h n)
      | none => true
  | _ => true

def validQ : Hist → List Obs → Bool
  | _, [] => true
  | h, o :: r => okQueue h o && validQ (h.push o) r

/-- the identifiers of the arrivals an observation sequence disposes of, in order. -/
def outcomes : List Obs → List Nat
  | [] => []
  | .surfaced i :: r => i :: outcomes r
  | .rejected i :: r => i :: outcomes r
  | _ :: r => outcomes r

/-! ### requests in progress (for "`accept` says `None` only when drained")

Over the history only: a request is *in progress* from the step that shows it to the application
(`surfaced id`) until the step `complete id` (the connection has learnt that every handle of the
request is gone — how it learns that, and that it never learns it early, is `H3.Drain` / C09). -/

def surfacedIn : List Obs → List Nat
  | [] => []
  | .surfaced i :: r => i :: surfacedIn r
  | _ :: r => surfacedIn r

def progressStep (live : List Nat) (st : H3.Goaway.Ev × List Obs) : List Nat :=
  let live1 :=
    match st.1 with
    | .complete id => live.filter (· != id)
    | _ => live
  surfacedIn st.2 ++ live1

/-- the requests in progress after a history (a list of steps: event, what it showed). -/
def inProgress (tr : List (H3.Goaway.Ev × List Obs)) : List Nat := tr.foldl progressStep []

/-! ### client side -/

/-- §7.2.6 "A client MUST treat receipt of a GOAWAY frame containing a stream ID of any other
    type as a connection error of type H3_ID_ERROR"; §5.2 "Receiving a GOAWAY containing a
    larger identifier than previously received MUST be treated as a connection error of type
    H3_ID_ERROR". -/
def clientBad (prev : Option Nat) (id : Nat) : Bool :=
  !clientBidi id ||
  (match prev with
   | some p => decide (p < id)
   | none => false)

/-- what a client knows after processing GOAWAY frames in order. -/
structure Client where
  /-- identifier of the last GOAWAY accepted -/
  prev : Option Nat := none
  /-- a GOAWAY was the connection error H3_ID_ERROR (nothing is processed after it) -/
  err : Bool := false
  /-- a GOAWAY has been accepted: no new request may be started -/
  stopped : Bool := false
deriving Repr, DecidableEq

def clientStep (c : Client) (id : Nat) : Client :=
  if c.err then c
  else if clientBad c.prev id then { c with err := true }
  else { c with prev := some id, stopped := true }

def clientAfter (ids : List Nat) : Client := ids.foldl clientStep {}

/-- the GOAWAY identifiers a history has handed to the client's driver, in order: those
    received on the control stream before a poll of the driver (`fed.1`), and those still
    waiting (`fed.2`). -/
def feed (st : List Nat × List Nat) : H3.Goaway.Ev → List Nat × List Nat
  | .recvGoaway id => (st.1, st.2 ++ [id])
  | .pollClose => (st.1 ++ st.2, [])
  | _ => st

/-- "A client that has processed a GOAWAY starts no new request", for calls that wait for stream
    credit: what a client history may show is decided when the call gets its stream — `true` = the
    request may be written, `false` = the call must answer `RemoteClosing` and nothing may be written.
    No opinion (`none`) after the connection error. -/
def mayStart (processedIds : List Nat) : Option Bool :=
  let c := clientAfter processedIds
  if c.stopped then some false else if c.err then none else some true

def processed (evs : List H3.Goaway.Ev) : List Nat := (evs.foldl feed ([], [])).1

end H3.Spec.Goaway
