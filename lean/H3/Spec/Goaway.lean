import H3.Model.Goaway
/-! RFC 9114 §5.2 / §7.2.6 as an oracle over what can be *observed* of a connection: the GOAWAY
identifiers written so far, the requests shown to the application, the requests refused.
Nothing here refers to the implementation's variables (`sent_closing`, `largest_accepted_stream`,
…); only the alphabet of observations `H3.Goaway.Obs` is shared with the model. -/
namespace H3.Spec.Goaway
open H3.Goaway (Obs)

/-- the observable history of a server connection. -/
structure Hist where
  /-- GOAWAY identifiers written, latest first. -/
  sent : List Nat := []
  /-- requests handed to the application. -/
  surfaced : List Nat := []
  /-- requests refused with H3_REQUEST_REJECTED. -/
  rejected : List Nat := []
deriving Repr, DecidableEq

def Hist.push (h : Hist) : Obs → Hist
  | .goaway g => { h with sent := g :: h.sent }
  | .surfaced i => { h with surfaced := i :: h.surfaced }
  | .rejected i => { h with rejected := i :: h.rejected }
  | _ => h

/-- RFC 9000 §2.1: a client-initiated bidirectional stream ID (62 bit). -/
def clientBidi (id : Nat) : Bool := id % 4 == 0 && decide (id < 2^62)

def lastSent (h : Hist) : Option Nat := h.sent.head?

/-- §7.2.6: server→client GOAWAY carries a client-initiated bidirectional stream ID;
    §5.2: "the identifier in each frame MUST NOT be greater than the identifier in any
    previous frame". -/
def okGoaway (h : Hist) (g : Nat) : Bool := clientBidi g && h.sent.all (fun p => decide (g ≤ p))

/-- §5.2: requests with an identifier ≥ the one in the GOAWAY "were not and will not be
    processed" — so no request already shown to the application may be at or above it. -/
def noRetract (h : Hist) (g : Nat) : Bool := h.surfaced.all (fun i => decide (i < g))

/-- §5.2: once a GOAWAY was sent, a request at or above the last identifier sent is
    rejected; every other request is served. -/
def mustReject (h : Hist) (i : Nat) : Bool :=
  match lastSent h with
  | some g => decide (g ≤ i)
  | none => false

/-- one more observation against the history so far.  `strict = false` leaves out `noRetract`
    (the only clause that does not survive saturation of the identifier space). -/
def okObs (strict : Bool) (h : Hist) : Obs → Bool
  | .goaway g => okGoaway h g && (!strict || noRetract h g)
  | .surfaced i => !mustReject h i
  | .rejected i => mustReject h i
  -- "every request below it is still served": a request shown to the application (by the clause
  -- above it is below the line) whose peer sent a complete well-formed request is never refused
  -- service afterwards, whatever GOAWAY was sent or received in between
  | .notServed _ => false
  | _ => true

def valid (strict : Bool) : Hist → List Obs → Bool
  | _, [] => true
  | h, o :: r => okObs strict h o && valid strict (h.push o) r

/-- the identifiers of the arrivals an observation sequence disposes of, in order. -/
def outcomes : List Obs → List Nat
  | [] => []
  | .surfaced i :: r => i :: outcomes r
  | .rejected i :: r => i :: outcomes r
  | _ :: r => outcomes r

/-! ### requests in progress (for "`accept` says `None` only when drained")

Over the history only: a request is *in progress* from the step that shows it to the application
(`surfaced id`) until the step `complete id` (the connection has learnt that every handle of the
request is gone — how it learns that, and that it never learns it early, is `H3.Drain` / C09). -/

def surfacedIn : List Obs → List Nat
  | [] => []
  | .surfaced i :: r => i :: surfacedIn r
  | _ :: r => surfacedIn r

def progressStep (live : List Nat) (st : H3.Goaway.Ev × List Obs) : List Nat :=
  let live1 :=
    match st.1 with
    | .complete id => live.filter (· != id)
    | _ => live
  surfacedIn st.2 ++ live1

/-- the requests in progress after a history (a list of steps: event, what it showed). -/
def inProgress (tr : List (H3.Goaway.Ev × List Obs)) : List Nat := tr.foldl progressStep []

/-! ### client side -/

/-- §7.2.6 "A client MUST treat receipt of a GOAWAY frame containing a stream ID of any other
    type as a connection error of type H3_ID_ERROR"; §5.2 "Receiving a GOAWAY containing a
    larger identifier than previously received MUST be treated as a connection error of type
    H3_ID_ERROR". -/
def clientBad (prev : Option Nat) (id : Nat) : Bool :=
  !clientBidi id ||
  (match prev with
   | some p => decide (p < id)
   | none => false)

/-- what a client knows after processing GOAWAY frames in order. -/
structure Client where
  /-- identifier of the last GOAWAY accepted -/
  prev : Option Nat := none
  /-- a GOAWAY was the connection error H3_ID_ERROR (nothing is processed after it) -/
  err : Bool := false
  /-- a GOAWAY has been accepted: no new request may be started -/
  stopped : Bool := false
deriving Repr, DecidableEq

def clientStep (c : Client) (id : Nat) : Client :=
  if c.err then c
  else if clientBad c.prev id then { c with err := true }
  else { c with prev := some id, stopped := true }

def clientAfter (ids : List Nat) : Client := ids.foldl clientStep {}

/-- the GOAWAY identifiers a history has handed to the client's driver, in order: those
    received on the control stream before a poll of the driver (`fed.1`), and those still
    waiting (`fed.2`). -/
def feed (st : List Nat × List Nat) : H3.Goaway.Ev → List Nat × List Nat
  | .recvGoaway id => (st.1, st.2 ++ [id])
  | .pollClose => (st.1 ++ st.2, [])
  | _ => st

def processed (evs : List H3.Goaway.Ev) : List Nat := (evs.foldl feed ([], [])).1

end H3.Spec.Goaway
