import H3.Model.Varint
import H3.Model.Frame
/-! RFC 9114 §7.1 / §7.2 as a specification, independent of how `frame.rs` is organised:
    a stream is a sequence of `type (varint) length (varint) payload (length bytes)`;
    per-type payload grammar; HTTP/2-reserved types are errors; unknown types are skipped.

    `observe w ending` is what a reader of the stream must see: the frames in order, the
    DATA payload bytes, and how it ends.  It is a function of the byte string and the kind of
    ending only — no chunking appears in it. -/
namespace H3.Spec.Framing
open H3.Varint H3.Frame H3.Gen.Consts

inductive Ending where
  /-- the peer finished the stream after these bytes -/
  | fin
  /-- the stream is still open; no more bytes have arrived yet -/
  | open_
deriving Repr, DecidableEq

inductive Tok where
  | frame (f : Frame)
  /-- payload bytes of the preceding DATA frame (all that are present) -/
  | data (bs : Bytes)
  /-- the bytes present of a DATA payload that the stream end cut short: a reader sees some
      prefix of them (possibly none) before the truncation error (QUIC delivers data and
      FIN together, so how much was handed out before the end was noticed is not fixed) -/
  | partialData (bs : Bytes)
  /-- clean end of stream -/
  | none_
  /-- the reader has to wait -/
  | pending
  /-- the stream ended inside a frame: H3_FRAME_ERROR -/
  | truncated
  /-- payload longer or shorter than its fields: H3_FRAME_ERROR -/
  | malformed
  /-- HTTP/2-reserved frame type: H3_FRAME_UNEXPECTED -/
  | h2 (ty : Nat)
  /-- a SETTINGS payload that is not acceptable (details belong to C13) -/
  | badSettings
  /-- a SETTINGS frame that is acceptable (details belong to C13) -/
  | okSettings
  /-- the WebTransport bidi header: outside this specification (C19) -/
  | outside
deriving Repr, DecidableEq

/-- RFC 9114 §7.2.3/§7.2.6/§7.2.7: the payload is exactly one variable-length integer. -/
def exactlyOneVarint (p : Bytes) : Option Nat :=
  match rfcDecode p with
  | some (v, []) => some v
  | _ => none

/-- a sequence of (identifier, value) pairs, RFC 9114 §7.2.4 -/
def pairs : Nat → Bytes → Option (List (Nat × Nat))
  | 0, _ => none
  | fuel+1, p =>
    if p = [] then some [] else
    match rfcDecode p with
    | none => none
    | some (id, r1) => match rfcDecode r1 with
      | none => none
      | some (v, r2) => (pairs fuel r2).map ((id, v) :: ·)

def h2Types : List Nat := [0x2, 0x6, 0x8, 0x9]
def h2Settings : List Nat := [0x0, 0x2, 0x3, 0x4, 0x5]
/-- identifiers with a defined meaning for this endpoint (RFC 9114 §7.2.4.1, RFC 9204 §5,
    RFC 9220, RFC 9297, draft-ietf-webtrans-http3): a repeated one is an error (R-13) -/
def definedSettings : List Nat := [0x1, 0x6, 0x7, 0x8, 0x33, 0x2b603742, 0x2b603743]

def hasRepeatedDefined : List (Nat × Nat) → Bool
  | [] => false
  | (id, _) :: r => (definedSettings.contains id && r.any (·.1 == id)) || hasRepeatedDefined r

/-- settings whose value MUST be 0 or 1 and for which any other value is an error of the SETTINGS payload: RFC 9297
    §2.1.1 (SETTINGS_H3_DATAGRAM: H3_SETTINGS_ERROR by name), RFC 8441 §3 / RFC 9220 (SETTINGS_ENABLE_CONNECT_PROTOCOL);
    C13's reading R-13b, finding D-13b -/
def boolSettings : List Nat := [0x8, 0x33]

def hasBadBool (ps : List (Nat × Nat)) : Bool := ps.any (fun e => boolSettings.contains e.1 && decide (1 < e.2))

/-- what one complete frame of type `ty` with payload `p` is, RFC 9114 §7.2 -/
def classify (ty : Nat) (p : Bytes) : Tok :=
  if ty = 0x1 then .frame (.headers p)
  else if ty = 0x3 then (match exactlyOneVarint p with | some v => .frame (.cancelPush v) | none => .malformed)
  else if ty = 0x4 then
    (match pairs (p.length + 1) p with
     | none => .badSettings
     | some ps =>
       if ps.any (fun e => h2Settings.contains e.1) || hasRepeatedDefined ps || hasBadBool ps then .badSettings
       else .okSettings)
  else if ty = 0x5 then (match rfcDecode p with | some (id, rest) => .frame (.pushPromise id rest) | none => .malformed)
  else if ty = 0x7 then (match exactlyOneVarint p with | some v => .frame (.goaway v) | none => .malformed)
  else if ty = 0xd then (match exactlyOneVarint p with | some v => .frame (.maxPushId v) | none => .malformed)
  else if h2Types.contains ty then .h2 ty
  else .pending -- placeholder, never produced for unknown types (they are skipped by `observe`)

def isKnown (ty : Nat) : Bool := [0x1, 0x3, 0x4, 0x5, 0x7, 0xd].contains ty || h2Types.contains ty

def endTok (e : Ending) (clean : Bool) : Tok :=
  match e with
  | .fin => if clean then .none_ else .truncated
  | .open_ => .pending

/-- fuel: every frame consumes at least two bytes; `w.length + 1` suffices. -/
def observe : Nat → Bytes → Ending → List Tok
  | 0, _, _ => []
  | fuel+1, w, e =>
    if w = [] then [endTok e true] else
    match rfcDecode w with
    | none => [endTok e false]
    | some (ty, r1) =>
      if ty = 0x41 then [.outside] else
      match rfcDecode r1 with
      | none => [endTok e false]
      | some (len, r2) =>
        if ty = 0x0 then
          if len = 0 then .frame (.data 0) :: observe fuel r2 e
          else if len ≤ r2.length then .frame (.data len) :: .data (r2.take len) :: observe fuel (r2.drop len) e
          else match e with
            | .fin => .frame (.data len) :: ((if r2 = [] then [] else [.partialData r2]) ++ [.truncated])
            | .open_ => .frame (.data len) :: ((if r2 = [] then [] else [.data r2]) ++ [.pending])
        else if r2.length < len then [endTok e false]
        else if isKnown ty then
          match classify ty (r2.take len) with
          | .frame f => .frame f :: observe fuel (r2.drop len) e
          | .okSettings => .okSettings :: observe fuel (r2.drop len) e
          | t => [t]
        else observe fuel (r2.drop len) e

end H3.Spec.Framing
