import H3.Spec.Framing
/-! The RFC 9114 §7.1 oracle of `H3.Spec.Framing`, strict about WHICH error a SETTINGS payload that
    ends inside an (identifier, value) entry is (reading R-02s, DESIGN.md section 9):

    * §7.1 ¶5: "A frame payload that contains additional bytes after the identified fields or a
      frame payload that terminates before the end of the identified fields MUST be treated as a
      connection error of type H3_FRAME_ERROR."  The fields of a SETTINGS frame are its entries
      (§7.2.4, Figure 7: `Setting { Identifier (i), Value (i) }`); a payload that ends inside an
      identifier or between an identifier and the end of its value terminates before the end of the
      identified fields: `malformed` (H3_FRAME_ERROR), NOT `badSettings` (H3_SETTINGS_ERROR).
    * §7.2.4 / §7.2.4.1 name H3_SETTINGS_ERROR for an identifier that occurs twice and for the
      identifiers reserved from HTTP/2: `badSettings`.
    * a payload to which both rules apply (a reserved or repeated identifier received in full — in a
      complete entry or as the identifier of the entry whose value is cut — AND a cut inside an
      entry) may be answered with either code (as in reading R-04).

    `Spec.Framing.classify` / `observe` (used by C03, C04, C07, C14, C01 as well) file all three
    cases under `badSettings`; `observeS` is the same segmentation with the strict classification.
    Also here: what `Frame::decode` has to answer on a buffer (`firstFrame`), i.e. the segmentation
    of the first frame alone. -/
namespace H3.Spec.Framing
open H3.Varint H3.Frame

/-- where a SETTINGS payload stops -/
inductive Cut where
  /-- after a complete entry (or empty) -/
  | clean
  /-- inside an identifier -/
  | inId
  /-- after the complete identifier `id`, before the end of its value -/
  | inValue (id : Nat)
deriving Repr, DecidableEq

/-- the complete (identifier, value) entries at the front of a SETTINGS payload, and where the
    payload stops (fuel: every entry takes at least two bytes) -/
def entries : Nat → Bytes → List (Nat × Nat) × Cut
  | 0, _ => ([], .inId)
  | fuel+1, p =>
    if p = [] then ([], .clean) else
    match rfcDecode p with
    | none => ([], .inId)
    | some (id, r1) => match rfcDecode r1 with
      | none => ([], .inValue id)
      | some (v, r2) => ((id, v) :: (entries fuel r2).1, (entries fuel r2).2)

/-- §7.2.4.1 reserved identifier, a defined identifier twice (R-13), or a 0/1 setting of RFC 9297 / RFC 8441 with
    another value (R-13b; only complete entries carry a value) -/
def badIds (ps : List (Nat × Nat)) : Bool :=
  ps.any (fun e => h2Settings.contains e.1) || hasRepeatedDefined ps || hasBadBool ps

/-- the identifiers received in full: those of the complete entries and the one of an entry whose
    value is cut (value 0 stands in: `badIds` looks at identifiers only) -/
def receivedIds (r : List (Nat × Nat) × Cut) : List (Nat × Nat) :=
  match r.2 with
  | .inValue id => r.1 ++ [(id, 0)]
  | _ => r.1

inductive SettingsVerdict where
  /-- a sequence of complete entries, acceptable -/
  | ok
  /-- complete entries, a reserved or repeated defined identifier: H3_SETTINGS_ERROR -/
  | ids
  /-- ends inside an entry, the identifiers received are acceptable: H3_FRAME_ERROR -/
  | short
  /-- ends inside an entry, and a reserved / repeated defined identifier was received in full
      (in a complete entry or as the identifier of the cut entry): either code -/
  | shortAndIds
deriving Repr, DecidableEq

def settingsVerdict (p : Bytes) : SettingsVerdict :=
  let r := entries (p.length + 1) p
  match r.2 == .clean, badIds (receivedIds r) with
  | true, false => .ok
  | true, true => .ids
  | false, false => .short
  | false, true => .shortAndIds

/-- `classify`, strict about SETTINGS; `preferIds` chooses between the two applicable rules in the
    overlapping case (the oracle accepts both choices) -/
def classifyS (preferIds : Bool) (ty : Nat) (p : Bytes) : Tok :=
  if ty = 0x4 then
    match settingsVerdict p with
    | .ok => .okSettings
    | .ids => .badSettings
    | .short => .malformed
    | .shortAndIds => if preferIds then .badSettings else .malformed
  else classify ty p

/-- `observe` over an arbitrary classification of complete frames (the same §7.1 segmentation) -/
def observeWith (cl : Nat → Bytes → Tok) : Nat → Bytes → Ending → List Tok
  | 0, _, _ => []
  | fuel+1, w, e =>
    if w = [] then [endTok e true] else
    match rfcDecode w with
    | none => [endTok e false]
    | some (ty, r1) =>
      if ty = 0x41 then [.outside] else
      match rfcDecode r1 with
      | none => [endTok e false]
      | some (len, r2) =>
        if ty = 0x0 then
          if len = 0 then .frame (.data 0) :: observeWith cl fuel r2 e
          else if len ≤ r2.length then
            .frame (.data len) :: .data (r2.take len) :: observeWith cl fuel (r2.drop len) e
          else match e with
            | .fin => .frame (.data len) :: ((if r2 = [] then [] else [.partialData r2]) ++ [.truncated])
            | .open_ => .frame (.data len) :: ((if r2 = [] then [] else [.data r2]) ++ [.pending])
        else if r2.length < len then [endTok e false]
        else if isKnown ty then
          match cl ty (r2.take len) with
          | .frame f => .frame f :: observeWith cl fuel (r2.drop len) e
          | .okSettings => .okSettings :: observeWith cl fuel (r2.drop len) e
          | t => [t]
        else observeWith cl fuel (r2.drop len) e

/-- the strict oracle -/
def observeS (preferIds : Bool) : Nat → Bytes → Ending → List Tok := observeWith (classifyS preferIds)

/-- The token lists a reader may see.  Strict (`lenient = false`): the strict oracle under both
    choices for the overlapping case.  Lenient: in addition the answer of `observe`, which files a
    SETTINGS payload that ends inside an entry under `badSettings` — what the unchanged code does;
    kept so that the committed run stays green until the code is repaired (DESIGN.md section 9,
    R-02s). -/
def observeAlts (lenient : Bool) (w : Bytes) (e : Ending) : List (List Tok) :=
  let a := observeS false (w.length + 1) w e
  let b := observeS true (w.length + 1) w e
  let c := observe (w.length + 1) w e
  let l := if b = a then [a] else [a, b]
  if lenient && !l.contains c then l ++ [c] else l

/-! ### the first frame of a buffer: what `Frame::decode` has to answer -/

inductive First where
  /-- the buffer does not hold a complete frame (DATA: a complete header) yet -/
  | incomplete
  /-- DATA header: the frame, `hdr` bytes consumed -/
  | data (len hdr : Nat)
  /-- a complete frame of a type with a meaning: its classification, `n` bytes in all -/
  | known (t : Tok) (n : Nat)
  /-- a complete frame of an unknown type: skipped, `n` bytes in all -/
  | skipped (n : Nat)
  /-- the WebTransport header 0x41 (C19) -/
  | outside
deriving Repr, DecidableEq

/-- RFC 9114 §7.1 on the front of a buffer: type (varint), length (varint), `length` bytes -/
def firstFrame (cl : Nat → Bytes → Tok) (w : Bytes) : First :=
  match rfcDecode w with
  | none => .incomplete
  | some (ty, r1) =>
    if ty = 0x41 then .outside else
    match rfcDecode r1 with
    | none => .incomplete
    | some (len, r2) =>
      if ty = 0x0 then .data len (w.length - r2.length)
      else if r2.length < len then .incomplete
      else if isKnown ty then .known (cl ty (r2.take len)) (w.length - r2.length + len)
      else .skipped (w.length - r2.length + len)

end H3.Spec.Framing
