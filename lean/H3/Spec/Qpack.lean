import H3.Model.Bits
import H3.Model.PrefixInt
import H3.Spec.Huffman
/-! RFC 9204 §4.5 (encoded field sections) for a decoder whose dynamic table has capacity 0,
    written from the RFC, in two stages that do not follow the dispatch of `block.rs`:

    * `parse : Bytes → Except Reject (List Repr)` — syntax only: the Encoded Field Section Prefix
      (§4.5.1: Required Insert Count reconstructed with the algorithm of §4.5.1.1 for
      `MaxEntries = 0`, Base per §4.5.1.2), then field line representations recognised by the
      bit patterns of the figures in §4.5.2–§4.5.6 on the *bit string* of the first byte;
      integers per RFC 7541 §5.1 (`PrefixInt.rfcDecode`, written from that text, unbounded);
      string literals per §4.1.2 / RFC 7541 §5.2 with the strict Huffman decoder
      `H3.Spec.Huffman.specDecode`;
    * `interp : Repr → Except Reject (Bytes × Bytes)` — meaning: static references through the
      table of Appendix A (typed in by hand below), literals as they are; every reference to the
      dynamic table (relative or post-base) is invalid because the table is empty (§2.2.3, §3.2.4
      … with capacity 0 no entry exists, and the Required Insert Count is 0).

    `size` is the field-section size of RFC 9114 §4.2.2.

    Every way of being invalid carries a `Reject` reason; the reasons are the categories named in
    property C11. -/
namespace H3.Spec.Qpack
open H3.Bits

abbrev Bytes := List Nat

/-! ### Appendix A — static table (hand-typed; 99 entries, index = position) -/

def appendixA : List (String × String) := [
  (":authority", ""),
  (":path", "/"),
  ("age", "0"),
  ("content-disposition", ""),
  ("content-length", "0"),
  ("cookie", ""),
  ("date", ""),
  ("etag", ""),
  ("if-modified-since", ""),
  ("if-none-match", ""),
  ("last-modified", ""),
  ("link", ""),
  ("location", ""),
  ("referer", ""),
  ("set-cookie", ""),
  (":method", "CONNECT"),
  (":method", "DELETE"),
  (":method", "GET"),
  (":method", "HEAD"),
  (":method", "OPTIONS"),
  (":method", "POST"),
  (":method", "PUT"),
  (":scheme", "http"),
  (":scheme", "https"),
  (":status", "103"),
  (":status", "200"),
  (":status", "304"),
  (":status", "404"),
  (":status", "503"),
  ("accept", "*/*"),
  ("accept", "application/dns-message"),
  ("accept-encoding", "gzip, deflate, br"),
  ("accept-ranges", "bytes"),
  ("access-control-allow-headers", "cache-control"),
  ("access-control-allow-headers", "content-type"),
  ("access-control-allow-origin", "*"),
  ("cache-control", "max-age=0"),
  ("cache-control", "max-age=2592000"),
  ("cache-control", "max-age=604800"),
  ("cache-control", "no-cache"),
  ("cache-control", "no-store"),
  ("cache-control", "public, max-age=31536000"),
  ("content-encoding", "br"),
  ("content-encoding", "gzip"),
  ("content-type", "application/dns-message"),
  ("content-type", "application/javascript"),
  ("content-type", "application/json"),
  ("content-type", "application/x-www-form-urlencoded"),
  ("content-type", "image/gif"),
  ("content-type", "image/jpeg"),
  ("content-type", "image/png"),
  ("content-type", "text/css"),
  ("content-type", "text/html; charset=utf-8"),
  ("content-type", "text/plain"),
  ("content-type", "text/plain;charset=utf-8"),
  ("range", "bytes=0-"),
  ("strict-transport-security", "max-age=31536000"),
  ("strict-transport-security", "max-age=31536000; includesubdomains"),
  ("strict-transport-security", "max-age=31536000; includesubdomains; preload"),
  ("vary", "accept-encoding"),
  ("vary", "origin"),
  ("x-content-type-options", "nosniff"),
  ("x-xss-protection", "1; mode=block"),
  (":status", "100"),
  (":status", "204"),
  (":status", "206"),
  (":status", "302"),
  (":status", "400"),
  (":status", "403"),
  (":status", "421"),
  (":status", "425"),
  (":status", "500"),
  ("accept-language", ""),
  ("access-control-allow-credentials", "FALSE"),
  ("access-control-allow-credentials", "TRUE"),
  ("access-control-allow-headers", "*"),
  ("access-control-allow-methods", "get"),
  ("access-control-allow-methods", "get, post, options"),
  ("access-control-allow-methods", "options"),
  ("access-control-expose-headers", "content-length"),
  ("access-control-request-headers", "content-type"),
  ("access-control-request-method", "get"),
  ("access-control-request-method", "post"),
  ("alt-svc", "clear"),
  ("authorization", ""),
  ("content-security-policy", "script-src 'none'; object-src 'none'; base-uri 'none'"),
  ("early-data", "1"),
  ("expect-ct", ""),
  ("forwarded", ""),
  ("if-range", ""),
  ("origin", ""),
  ("purpose", "prefetch"),
  ("server", ""),
  ("timing-allow-origin", "*"),
  ("upgrade-insecure-requests", "1"),
  ("user-agent", ""),
  ("x-forwarded-for", ""),
  ("x-frame-options", "deny"),
  ("x-frame-options", "sameorigin")]

/-- the octets of an ASCII string -/
def octets (s : String) : Bytes := s.toList.map Char.toNat

/-- Appendix A as octet strings -/
def staticTable : List (Bytes × Bytes) := appendixA.map fun (n, v) => (octets n, octets v)

/-! ### reasons for being invalid -/

inductive Reject where
  /-- an integer (RFC 7541 §5.1) is cut off by the end of the section -/
  | truncatedInteger
  /-- a string literal announces more octets than the section has left -/
  | truncatedString
  /-- a Huffman-coded string literal violates RFC 7541 §5.2 (EOS inside, padding longer than 7
      bits or not a prefix of EOS) -/
  | invalidHuffman
  /-- §4.5.1.1: the Encoded Required Insert Count cannot have been produced by a conformant
      encoder for this decoder (`MaxEntries = 0`: every non-zero value) -/
  | requiredInsertCount
  /-- §4.5.1.2: Sign bit 1 with Required Insert Count ≤ Delta Base (negative Base) -/
  | negativeBase
  /-- a relative (pre-base) reference to the dynamic table, which is empty -/
  | dynamicReference
  /-- a post-base reference (§4.5.3, §4.5.5), dynamic by definition -/
  | postBaseReference
  /-- §3.1: static index outside Appendix A -/
  | staticIndex (i : Nat)
deriving Repr, DecidableEq

/-! ### §4.5.1 Encoded Field Section Prefix -/

/-- §4.5.1.1, the decoder's reconstruction algorithm, transcribed line by line. -/
def requiredInsertCount (maxEntries totalNumberOfInserts encodedInsertCount : Nat) : Option Nat :=
  let fullRange := 2 * maxEntries
  if encodedInsertCount = 0 then some 0
  else if encodedInsertCount > fullRange then none
  else
    let maxValue := totalNumberOfInserts + maxEntries
    let maxWrapped := maxValue / fullRange * fullRange
    let reqInsertCount := maxWrapped + encodedInsertCount - 1
    if reqInsertCount > maxValue then
      if reqInsertCount ≤ fullRange then none
      else if reqInsertCount - fullRange = 0 then none else some (reqInsertCount - fullRange)
    else if reqInsertCount = 0 then none else some reqInsertCount

/-- §4.5.1.2: `Base = ReqInsertCount + DeltaBase` (S = 0), `ReqInsertCount − DeltaBase − 1`
    (S = 1); "an endpoint MUST treat a field block with a Sign bit of 1 as invalid if the value
    of Required Insert Count is less than or equal to the value of Delta Base". -/
def base (reqInsertCount : Nat) (sign : Bool) (deltaBase : Nat) : Option Nat :=
  if sign then
    if reqInsertCount ≤ deltaBase then none else some (reqInsertCount - deltaBase - 1)
  else some (reqInsertCount + deltaBase)

/-- The prefix for a decoder with `MaxEntries = 0` that has seen no insertion: returns the
    octets after it.  (A section with Required Insert Count 0 may use any Base, §4.5.1.2 last
    paragraph, so a non-zero Delta Base with S = 0 is valid.) -/
def parsePrefix (bs : Bytes) : Except Reject Bytes :=
  match PrefixInt.rfcDecode 8 bs with
  | none => .error .truncatedInteger
  | some (encodedInsertCount, r1) =>
    match r1 with
    | [] => .error .truncatedInteger
    | s :: _ =>
      match PrefixInt.rfcDecode 7 r1 with
      | none => .error .truncatedInteger
      | some (deltaBase, r2) =>
        match requiredInsertCount 0 0 encodedInsertCount with
        | none => .error .requiredInsertCount
        | some ric =>
          match base ric ((bitsN 8 s).head? == some true) deltaBase with
          | none => .error .negativeBase
          | some _ => .ok r2

/-! ### §4.1.2 string literals (RFC 7541 §5.2) -/

/-- A string literal whose length has an `n`-bit prefix; the `H` flag is the bit above it. -/
def stringLiteral (n : Nat) (bs : Bytes) : Except Reject (Bytes × Bytes) :=
  match bs with
  | [] => .error .truncatedInteger
  | first :: _ =>
    match PrefixInt.rfcDecode n bs with
    | none => .error .truncatedInteger
    | some (len, rest) =>
      if rest.length < len then .error .truncatedString
      else if first / 2 ^ n % 2 = 1 then
        match H3.Spec.Huffman.specDecode (rest.take len) with
        | none => .error .invalidHuffman
        | some v => .ok (v, rest.drop len)
      else .ok (rest.take len, rest.drop len)

/-! ### §4.5.2 – §4.5.6 field line representations -/

inductive Repr where
  /-- §4.5.2 `1 T Index(6+)` -/
  | indexed (static : Bool) (index : Nat)
  /-- §4.5.3 `0 0 0 1 Index(4+)` -/
  | indexedPostBase (index : Nat)
  /-- §4.5.4 `0 1 N T NameIndex(4+)`, value -/
  | literalNameRef (never static : Bool) (index : Nat) (value : Bytes)
  /-- §4.5.5 `0 0 0 0 N NameIndex(3+)`, value -/
  | literalPostBaseNameRef (never : Bool) (index : Nat) (value : Bytes)
  /-- §4.5.6 `0 0 1 N H NameLength(3+)`, name, value -/
  | literal (never : Bool) (name value : Bytes)
deriving DecidableEq

/-- an integer followed by a value string literal (`H` + 7-bit length) -/
def indexThenValue (n : Nat) (bs : Bytes) : Except Reject (Nat × Bytes × Bytes) :=
  match PrefixInt.rfcDecode n bs with
  | none => .error .truncatedInteger
  | some (i, r1) =>
    match stringLiteral 7 r1 with
    | .error e => .error e
    | .ok (v, r2) => .ok (i, v, r2)

/-- One field line at the head of `first :: r`, recognised on the bits of its first octet. -/
def parseLine (first : Nat) (r : Bytes) : Except Reject (Repr × Bytes) :=
  let bs := first :: r
  match bitsN 8 first with
  | true :: t :: _ =>
    match PrefixInt.rfcDecode 6 bs with
    | none => .error .truncatedInteger
    | some (i, rest) => .ok (.indexed t i, rest)
  | false :: true :: n :: t :: _ =>
    match indexThenValue 4 bs with
    | .error e => .error e
    | .ok (i, v, rest) => .ok (.literalNameRef n t i v, rest)
  | false :: false :: true :: n :: _ =>
    match stringLiteral 3 bs with
    | .error e => .error e
    | .ok (name, r1) =>
      match stringLiteral 7 r1 with
      | .error e => .error e
      | .ok (v, r2) => .ok (.literal n name v, r2)
  | false :: false :: false :: true :: _ =>
    match PrefixInt.rfcDecode 4 bs with
    | none => .error .truncatedInteger
    | some (i, rest) => .ok (.indexedPostBase i, rest)
  | false :: false :: false :: false :: n :: _ =>
    match indexThenValue 3 bs with
    | .error e => .error e
    | .ok (i, v, rest) => .ok (.literalPostBaseNameRef n i v, rest)
  | _ => .error .truncatedInteger      -- not reached: `bitsN 8` has eight bits

/-- Field lines up to the end of the section (fuel: every line has at least one octet). -/
def parseLines : Nat → Bytes → Except Reject (List Repr)
  | _, [] => .ok []
  | 0, _ :: _ => .error .truncatedInteger     -- not reached with fuel = number of octets
  | fuel+1, first :: r =>
    match parseLine first r with
    | .error e => .error e
    | .ok (l, rest) =>
      match parseLines fuel rest with
      | .error e => .error e
      | .ok ls => .ok (l :: ls)

/-- Stage 1: the representations of an encoded field section. -/
def parse (bs : Bytes) : Except Reject (List Repr) :=
  match parsePrefix bs with
  | .error e => .error e
  | .ok rest => parseLines rest.length rest

/-- Stage 2: the field line a representation stands for, dynamic table empty. -/
def interp : Repr → Except Reject (Bytes × Bytes)
  | .indexed true i =>
    match staticTable[i]? with
    | some f => .ok f
    | none => .error (.staticIndex i)
  | .indexed false _ => .error .dynamicReference
  | .indexedPostBase _ => .error .postBaseReference
  | .literalNameRef _ true i v =>
    match staticTable[i]? with
    | some f => .ok (f.1, v)
    | none => .error (.staticIndex i)
  | .literalNameRef _ false _ _ => .error .dynamicReference
  | .literalPostBaseNameRef _ _ _ => .error .postBaseReference
  | .literal _ name v => .ok (name, v)

def interpAll : List Repr → Except Reject (List (Bytes × Bytes))
  | [] => .ok []
  | l :: ls =>
    match interp l with
    | .error e => .error e
    | .ok f =>
      match interpAll ls with
      | .error e => .error e
      | .ok fs => .ok (f :: fs)

/-- The field list an encoded field section stands for (name, value), or why it is invalid. -/
def specDecode (bs : Bytes) : Except Reject (List (Bytes × Bytes)) :=
  match parse bs with
  | .error e => .error e
  | .ok ls => interpAll ls

/-- `true` for the representations a stateless peer may use: static index, static name
    reference, literal. -/
def Repr.isStateless : Repr → Bool
  | .indexed true _ => true
  | .literalNameRef _ true _ _ => true
  | .literal _ _ _ => true
  | _ => false

/-- RFC 9114 §4.2.2: "The size of a field list is calculated based on the uncompressed size of
    fields, including the length of the name and value in bytes plus an overhead of 32 bytes
    for each field." -/
def size : List (Bytes × Bytes) → Nat
  | [] => 0
  | (n, v) :: r => n.length + v.length + 32 + size r

end H3.Spec.Qpack
