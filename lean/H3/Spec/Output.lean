import H3.Model.Varint
import H3.Spec.Framing
/-! What a valid HTTP/3 sender may put on a stream (RFC 9114 §6.2, §7.1, §7.2, §7.2.8, §11.2),
    as predicates over the *specification's* segmenter (`Varint.rfcDecode`; nothing of h3's
    encoder is used).  A stream is judged from the complete byte log the transport received
    plus whether it was finished:

    * still open: the log must be a prefix of a valid stream — every complete frame is judged,
      an incomplete last frame is judged as far as it is there (its type as soon as the type
      is complete);
    * finished: a whole number of frames (`truncated` otherwise).

    `none` = valid, `some v` = the first violation. -/
namespace H3.Spec.Output
open H3.Varint H3.Spec.Framing

/-- RFC 9114 §6.2.3 / §7.2.4.1 / §7.2.8: identifiers of the form `0x1f * N + 0x21`. -/
def isReserved (x : Nat) : Bool := x ≥ 0x21 && (x - 0x21) % 0x1f == 0

inductive Violation where
  /-- the stream was finished inside a stream header or a frame -/
  | truncated
  /-- HTTP/2-reserved frame type 0x2/0x6/0x8/0x9 (§7.2.8) -/
  | h2Frame (ty : Nat)
  /-- HTTP/2-reserved setting 0x0/0x2/0x3/0x4/0x5 (§7.2.4.1) -/
  | h2Setting (id : Nat)
  /-- a frame type that may not be sent on this stream (or that is neither defined nor of
      the reserved form) -/
  | frameNotAllowed (ty : Nat)
  /-- a unidirectional stream type that may not be opened here / is not of the reserved form -/
  | badStreamType (ty : Nat)
  /-- the first frame of the control stream is not SETTINGS (§6.2.1) -/
  | missingSettings (ty : Nat)
  /-- the SETTINGS payload is not a sequence of pairs, or repeats an identifier (§7.2.4) -/
  | badSettings
  /-- a setting identifier that is neither defined nor of the reserved form -/
  | unknownSetting (id : Nat)
  /-- GOAWAY / CANCEL_PUSH / MAX_PUSH_ID payload that is not exactly one integer (§7.1) -/
  | badPayload (ty : Nat)
  /-- a control or QPACK stream was closed by its sender (§6.2.1) -/
  | criticalClosed
  /-- bytes on a stream this endpoint cannot send on (the peer's unidirectional stream, a
      server-initiated bidirectional stream without an extension) -/
  | notOurStream
  /-- h3 reset (RESET_STREAM) its own control or QPACK stream (§6.2.1: closure of a critical
      stream, by either side, is a connection error) -/
  | criticalReset
  /-- a second control / QPACK encoder / QPACK decoder stream (§6.2.1, RFC 9204 §4.2: exactly
      one each per endpoint) -/
  | duplicateCritical (ty : Nat)
  /-- bytes handed to the transport after FIN or RESET_STREAM of that stream (RFC 9000 §3.1) -/
  | writeAfterEnd
  /-- `send_data` while the previous `WriteBuf` was still being written (frames would interleave) -/
  | overlappingWrite
deriving Repr, DecidableEq

/-- who wrote the log, and whether WebTransport was enabled by that endpoint -/
structure Ctx where
  server : Bool
  wt : Bool
deriving Repr, DecidableEq

def endOr (fin : Bool) : Option Violation := if fin then some .truncated else none

/-- One frame at the front of `w` (`w ≠ []`), RFC 9114 §7.1: type, length, `length` bytes.
    `tyOk` judges the type as soon as it is complete, `payOk` the complete payload, `k` the
    rest of the stream. -/
def frameStep (tyOk : Nat → Option Violation) (payOk : Nat → Bytes → Option Violation)
    (k : Bytes → Option Violation) (w : Bytes) (fin : Bool) : Option Violation :=
  match rfcDecode w with
  | none => endOr fin
  | some (ty, r1) =>
    match tyOk ty with
    | some v => some v
    | none =>
      match rfcDecode r1 with
      | none => endOr fin
      | some (len, r2) =>
        if r2.length < len then endOr fin
        else match payOk ty (r2.take len) with
          | some v => some v
          | none => k (r2.drop len)

/-- a sequence of frames; fuel: every frame has at least two bytes, `w.length + 1` suffices -/
def walk (tyOk : Nat → Option Violation) (payOk : Nat → Bytes → Option Violation) :
    Nat → Bytes → Bool → Option Violation
  | 0, _, _ => none
  | fuel+1, w, fin =>
    if w = [] then none
    else frameStep tyOk payOk (fun r => walk tyOk payOk fuel r fin) w fin

/-- request and push streams (§4.1, §7.2.8): HEADERS, DATA and reserved types only (this
    endpoint never promises pushes, so PUSH_PROMISE is not expected either) -/
def reqTyOk (ty : Nat) : Option Violation :=
  if h2Types.contains ty then some (.h2Frame ty)
  else if ty = 0x0 || ty = 0x1 || isReserved ty then none
  else some (.frameNotAllowed ty)

def noPayCheck (_ : Nat) (_ : Bytes) : Option Violation := none

def checkRequest (w : Bytes) (fin : Bool) : Option Violation :=
  walk reqTyOk noPayCheck (w.length + 1) w fin

/-- SETTINGS payload (§7.2.4, §7.2.4.1, §11.2.2) -/
def settingsOk (p : Bytes) : Option Violation :=
  match pairs (p.length + 1) p with
  | none => some .badSettings
  | some ps =>
    match ps.find? (fun e => h2Settings.contains e.1) with
    | some e => some (.h2Setting e.1)
    | none =>
      match ps.find? (fun e => !(definedSettings.contains e.1 || isReserved e.1)) with
      | some e => some (.unknownSetting e.1)
      | none => if (ps.map (·.1)).Nodup then none else some .badSettings

/-- the first control frame must be SETTINGS -/
def firstTyOk (ty : Nat) : Option Violation :=
  if h2Types.contains ty then some (.h2Frame ty)
  else if ty = 0x4 then none
  else some (.missingSettings ty)

def firstPayOk (_ : Nat) (p : Bytes) : Option Violation := settingsOk p

/-- later control frames (§7.2): GOAWAY, CANCEL_PUSH, MAX_PUSH_ID (client only), reserved;
    never DATA, HEADERS, PUSH_PROMISE, a second SETTINGS -/
def ctlTyOk (server : Bool) (ty : Nat) : Option Violation :=
  if h2Types.contains ty then some (.h2Frame ty)
  else if ty = 0x7 || ty = 0x3 || (ty = 0xd && !server) || isReserved ty then none
  else some (.frameNotAllowed ty)

def ctlPayOk (ty : Nat) (p : Bytes) : Option Violation :=
  if ty = 0x7 || ty = 0x3 || ty = 0xd then
    (match exactlyOneVarint p with
     | some _ => none
     | none => some (.badPayload ty))
  else none

/-- the control stream after its type byte -/
def checkControlBody (server : Bool) (w : Bytes) : Option Violation :=
  if w = [] then none
  else frameStep firstTyOk firstPayOk
    (fun r => walk (ctlTyOk server) ctlPayOk (r.length + 1) r false) w false

/-- a unidirectional stream opened by this endpoint (§6.2) -/
def checkUni (cx : Ctx) (w : Bytes) (fin : Bool) : Option Violation :=
  match rfcDecode w with
  | none => endOr fin
  | some (ty, r) =>
    if ty = 0x00 then (if fin then some .criticalClosed else checkControlBody cx.server r)
    else if ty = 0x02 || ty = 0x03 then (if fin then some .criticalClosed else none)
    else if ty = 0x01 then
      (if cx.server then
        (match rfcDecode r with
         | none => endOr fin
         | some (_, r2) => checkRequest r2 fin)
       else some (.badStreamType ty))
    else if ty = 0x54 then
      (if cx.wt then (match rfcDecode r with | none => endOr fin | some _ => none)
       else some (.badStreamType ty))
    else if isReserved ty then none
    else some (.badStreamType ty)

/-- a WebTransport bidirectional stream header (`0x41`, session id): its content is outside
    this specification (C19) -/
def wtBidi (cx : Ctx) (w : Bytes) : Bool :=
  cx.wt && (match rfcDecode w with | some (ty, _) => ty == 0x41 | none => false)

/-- The judgement for stream `sid` (RFC 9000 §2.1 numbering) written by endpoint `cx`. -/
def checkStream (cx : Ctx) (sid : Nat) (w : Bytes) (fin : Bool) : Option Violation :=
  if sid % 4 = 0 then (if wtBidi cx w then none else checkRequest w fin)
  else if sid % 4 = 1 then
    (if w = [] ∨ wtBidi cx w then none else some .notOurStream)
  else if sid % 4 = 2 then
    (if cx.server then (if w = [] then none else some .notOurStream) else checkUni cx w fin)
  else
    (if cx.server then checkUni cx w fin else (if w = [] then none else some .notOurStream))

/-! ### the judgement with a demand for whole frames, and over a whole endpoint

`checkStream` judges an OPEN stream as a prefix.  That is all that can be asked while a write is in
progress.  Once the stream is quiescent — nothing is being written on it, no call on it is pending,
h3 has not reset it, the peer has not stopped it, the connection has not ended and no call was
abandoned — everything h3 wrote there consists of whole calls, each of which writes whole frames:
`whole = true` demands a whole number of frames although the stream is open (a DATA frame that
declares 5 bytes and carries 1 on a stream nobody writes on any more is `truncated`).  With
`whole = false` the judgement is `checkStream` (`checkStreamW_false`). -/

/-- the control stream after its type byte; `whole`: no frame may be incomplete -/
def checkControlBodyW (server : Bool) (w : Bytes) (whole : Bool) : Option Violation :=
  if w = [] then none
  else frameStep firstTyOk firstPayOk
    (fun r => walk (ctlTyOk server) ctlPayOk (r.length + 1) r whole) w whole

def checkUniW (cx : Ctx) (w : Bytes) (fin whole : Bool) : Option Violation :=
  match rfcDecode w with
  | none => if w = [] then endOr fin else endOr (fin || whole)
  | some (ty, r) =>
    if ty = 0x00 then (if fin then some .criticalClosed else checkControlBodyW cx.server r whole)
    else if ty = 0x02 || ty = 0x03 then (if fin then some .criticalClosed else none)
    else if ty = 0x01 then
      (if cx.server then
        (match rfcDecode r with
         | none => endOr (fin || whole)
         | some (_, r2) => checkRequest r2 (fin || whole))
       else some (.badStreamType ty))
    else if ty = 0x54 then
      (if cx.wt then (match rfcDecode r with | none => endOr (fin || whole) | some _ => none)
       else some (.badStreamType ty))
    else if isReserved ty then none
    else some (.badStreamType ty)

def checkStreamW (cx : Ctx) (sid : Nat) (w : Bytes) (fin whole : Bool) : Option Violation :=
  if sid % 4 = 0 then (if wtBidi cx w then none else checkRequest w (fin || whole))
  else if sid % 4 = 1 then
    (if w = [] ∨ wtBidi cx w then none else some .notOurStream)
  else if sid % 4 = 2 then
    (if cx.server then (if w = [] then none else some .notOurStream) else checkUniW cx w fin whole)
  else
    (if cx.server then checkUniW cx w fin whole else (if w = [] then none else some .notOurStream))

/-- what the transport saw of one stream of the endpoint -/
structure Obs where
  sid : Nat
  tx : Bytes
  fin : Bool
  /-- a write is in progress, or a call on this stream has not returned -/
  busy : Bool
  /-- the stream may end anywhere: h3 reset it, the peer sent STOP_SENDING for it, the connection
      has ended, or the application abandoned a call on it (R-14) -/
  cut : Bool
  /-- h3 reset the stream -/
  rst : Bool
  /-- bytes were handed over after FIN / RESET_STREAM -/
  misuse : Bool
  /-- `send_data` while a write was in progress -/
  overlap : Bool
deriving Repr, DecidableEq

/-- a unidirectional stream of this endpoint -/
def ownUni (cx : Ctx) (sid : Nat) : Bool := sid % 4 == (if cx.server then 3 else 2)

/-- the stream type of an own unidirectional stream, once it is complete -/
def uniTypeOf (cx : Ctx) (o : Obs) : Option Nat :=
  if ownUni cx o.sid then (rfcDecode o.tx).map (·.1) else none

def isCriticalTy (ty : Nat) : Bool := ty == 0x00 || ty == 0x02 || ty == 0x03

def checkObs (cx : Ctx) (o : Obs) : Option Violation :=
  if o.misuse then some .writeAfterEnd
  else if o.overlap then some .overlappingWrite
  else if o.rst && (match uniTypeOf cx o with | some ty => isCriticalTy ty | none => false) then
    some .criticalReset
  else
    -- a FIN the transport took AFTER the send side had ended (h3's RESET_STREAM, the peer's
    -- STOP_SENDING - to which a QUIC transport answers RESET_STREAM itself, RFC 9000 §3.5 -, the
    -- end of the connection) finishes nothing: the stream is judged as the prefix it is.  Not so on
    -- a control / QPACK stream, where FIN is a violation whenever it is there.
    let ended := o.cut || o.rst
    let critical := match uniTypeOf cx o with | some ty => isCriticalTy ty | none => false
    checkStreamW cx o.sid o.tx (o.fin && (critical || !ended)) (!o.busy && !ended)

/-- the second stream of a type of which an endpoint opens exactly one -/
def firstDuplicate (cx : Ctx) (ty : Nat) (os : List Obs) : Option Nat :=
  match os.filter (fun o => uniTypeOf cx o == some ty) with
  | _ :: o2 :: _ => some o2.sid
  | _ => none

/-- Everything one endpoint wrote: every stream by itself, then at most one control, one QPACK
    encoder and one QPACK decoder stream.  `none` = valid. -/
def checkEndpoint (cx : Ctx) (os : List Obs) : Option (Nat × Violation) :=
  match os.findSome? (fun o => (checkObs cx o).map (fun v => (o.sid, v))) with
  | some r => some r
  | none =>
    [0x00, 0x02, 0x03].findSome? (fun ty =>
      (firstDuplicate cx ty os).map (fun sid => (sid, Violation.duplicateCritical ty)))

theorem checkControlBodyW_false (server : Bool) (w : Bytes) :
    checkControlBodyW server w false = checkControlBody server w := rfl

theorem checkUniW_false (cx : Ctx) (w : Bytes) (fin : Bool) :
    checkUniW cx w fin false = checkUni cx w fin := by
  unfold checkUniW checkUni
  simp only [Bool.or_false, checkControlBodyW_false]
  cases rfcDecode w with
  | none => simp
  | some p => rfl

/-- without the demand the judgement is the prefix judgement -/
theorem checkStreamW_false (cx : Ctx) (sid : Nat) (w : Bytes) (fin : Bool) :
    checkStreamW cx sid w fin false = checkStream cx sid w fin := by
  unfold checkStreamW checkStream
  simp only [Bool.or_false, checkUniW_false]

end H3.Spec.Output
