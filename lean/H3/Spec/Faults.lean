import H3.Drv.FaultOp
/-! Oracle for histories of a connection whose transport fails (engine `flt`, judge `fltj`).

    Written from the property texts, not from the code:
    * C05 — the first connection-level error is the connection's single outcome: every call that
      reports a connection error reports the same one, and once one has been reported every later
      driver call reports it (`accept`, `wait_idle`; `shutdown` too when the history is judged for C05
      itself, `strict`); `close` is called exactly when the error was detected locally (by h3
      itself, or inside the QUIC trait implementation: `InternalError`), once, with exactly that
      error's code, before the error is first reported; otherwise never.
      Reading R-05: the sentence is about the connection's *outcome*, i.e. about the call that closes the
      QUIC connection — the first one.  That one is judged strictly (above).  A `close` the
      APPLICATION triggers afterwards by dropping the driver object (`<task>.D=ok`; `Drop for
      server::Connection` calls `close(H3_NO_ERROR)`) reaches a connection that is closed already and
      cannot change what the peer sees (RFC 9000 §10.2: the closing state is final; Quinn:
      `close_inner` returns at once when `was_closed`): it is accepted — once, only behind the drop, no
      opinion on its code — and is not counted among the error path's calls; every other later `close`
      stays a violation (`close-after-the-error-was-reported`, `second-close`).
    * C04 / RFC 9114 §6.2.1 — the endpoint's control stream stopped by the peer (or broken) is
      H3_CLOSED_CRITICAL_STREAM, raised by the call that meets it (the next call to complete answers
      an error); §6.1 — a server-initiated bidirectional stream received by a client is
      H3_STREAM_CREATION_ERROR; §6.2.3 — the grease stream has no semantics: an error on it is not
      a connection error; streams that end before their type is known are tolerated.
    * C06 — once the transport has reported a connection error (or the peer closed / the connection
      timed out) nothing stays pending; an error is only ever reported when something happened
      that explains it.
    Where the texts do not determine the outcome the oracle has no opinion: the class under which
    a transport `InternalError` is reported (`Remote` or `Local`, the close code is determined),
    errors on the endpoint's own QPACK streams, a failure to open the control stream at all (some
    local error, any code), an error on a peer stream whose type may or may not have been seen.

    A history is the list of tokens `@<op>` (an op of the script is applied), `!<label>` (an armed
    fault fires), `close:<code>`, `<task>.<call>=<result>`, ending with `pending=[…]`. -/
namespace H3.Spec.Faults
open H3.Drv.FaultOp
open H3.ErrCell (QErr)

/-- what may explain a reported connection error: its class, exactly or any local code -/
inductive Pat where
  | exact (cls : String)
  | anyLocal
deriving Repr, DecidableEq

def Pat.matches (p : Pat) (cls : String) : Bool :=
  match p with
  | .exact c => c == cls
  | .anyLocal => cls.startsWith "local:"

structure J where
  server : Bool
  grease : Bool
  /-- C05's reading: `shutdown()` is a driver call like the others and reports the connection's
      error once there is one (engine `flt5`); without it only `accept` / `wait_idle` must -/
  strict : Bool := false
  causes : List Pat := []
  /-- the transport has reported a connection error / the peer has closed / timeout -/
  failed : Bool := false
  /-- a client has been sent a server-initiated bidirectional stream -/
  bidi : Bool := false
  firstErr : Option String := none
  closes : List Nat := []
  /-- ops applied after `failed` whose call must report the failure: the task.call names -/
  lateCalls : List String := []
  /-- the transport has just answered a call on the endpoint's control stream (or its opening) with a
      stream error: the call h3 is in must end with a connection error -/
  mustErr : Option String := none
  /-- the application has dropped the driver object (`<task>.D=ok`): its calls are over; the close calls
      made from here on are the application's (`Drop`), at most one (R-05) -/
  dropped : Bool := false
  appCloses : Nat := 0
  bad : Option String := none
  unknown : Bool := false
  /-- the first token the oracle has no rule for -/
  unknownTok : Option String := none
deriving Repr

def classOf : QErr → List Pat
  | .timeout => [.exact "timeout"]
  | .appClose c => [.exact s!"remote:app:{c}"]
  | .internal _ => [.exact "remote:internal", .exact "local:258"]
  | .undefined _ => [.exact "remote:undefined"]

def ctlSid (server : Bool) : Nat := if server then 3 else 2
def peerCtlSid (server : Bool) : Nat := if server then 2 else 3
def greaseSid (server : Bool) : Nat := ctlSid server + 12

def J.fail (j : J) (why : String) : J := if j.bad.isSome then j else { j with bad := some why }

/-- the close calls the property allows for a reported error of class `cls` -/
def closesFor (cls : String) : List Nat :=
  match cls.splitOn ":" with
  | ["local", c] => (c.toNat?).toList
  | ["remote", "internal"] => [258]
  | _ => []

def natOf (s : String) : Option Nat := s.toNat?

/-- an op of the script is applied -/
def onOp (j : J) (op : String) : J :=
  match op.toList with
  | '!' :: _ => j
  | 'C' :: r =>
    match natOf (String.ofList r) with
    | some c => { j with causes := j.causes ++ [.exact s!"remote:app:{c}"], failed := true }
    | none => { j with unknown := true }
  | ['T'] => { j with causes := j.causes ++ [.exact "timeout"], failed := true }
  | 'o' :: r =>
    match natOf (String.ofList r) with
    | some sid =>
      if sid % 4 == 2 || sid % 4 == 3 then j                       -- a unidirectional stream
      else if !j.server && sid % 4 == 1 then
        { j with causes := j.causes ++ [.exact "local:259"], bidi := true }   -- RFC 9114 §6.1
      else { j with unknown := true }
    | none => { j with unknown := true }
  | 's' :: r =>
    -- the only contents the oracle knows to be harmless: the peer's control stream with an empty
    -- SETTINGS frame and GOAWAY(0), whole or cut behind the stream type
    match (String.ofList r).splitOn ":" with
    | [sid, hex] =>
      if natOf sid == some (peerCtlSid j.server) &&
          (hex == "000400" || hex == "00" || hex == "0400" || hex == "070100" || hex == "000400070100" || hex == "0400070100")
      then j
      -- an (empty) DATA frame behind SETTINGS on the control stream: H3_FRAME_UNEXPECTED (RFC 9114 §7.2.1)
      else if natOf sid == some (peerCtlSid j.server) && (hex == "0004000000" || hex == "0000") then
        { j with causes := j.causes ++ [.exact "local:261"] }
      -- the first byte of a two-byte stream type on another unidirectional stream of the peer: the
      -- type is not known yet, the byte has no meaning of its own (RFC 9114 §6.2)
      else if hex == "40" && ((natOf sid).map (fun n => (n % 4 == 2 || n % 4 == 3) && n != peerCtlSid j.server)).getD false then j
      else { j with unknown := true }
    | _ => { j with unknown := true }
  | 'f' :: r =>
    if natOf (String.ofList r) == some (peerCtlSid j.server) then
      -- closed before or after its type was seen: nothing, or H3_CLOSED_CRITICAL_STREAM
      { j with causes := j.causes ++ [.exact "local:260"] }
    else j
  | 'r' :: r =>
    match (String.ofList r).splitOn ":" with
    | [sid, _] =>
      if natOf sid == some (peerCtlSid j.server) then { j with causes := j.causes ++ [.exact "local:260"] } else j
    | _ => { j with unknown := true }
  | 'x' :: r =>
    match (String.ofList r).splitOn ":" with
    | [sid, _] =>
      -- STOP_SENDING on the endpoint's control stream: H3_CLOSED_CRITICAL_STREAM once it is noticed
      if natOf sid == some (ctlSid j.server) then { j with causes := j.causes ++ [.exact "local:260"] }
      else if natOf sid == some (ctlSid j.server + 4) || natOf sid == some (ctlSid j.server + 8) then
        { j with causes := j.causes ++ [.anyLocal] }
      else j
    | _ => { j with unknown := true }
  | _ =>
    -- api ops: `<task>.<cmd>`
    match op.splitOn "." with
    | [task, cmd] =>
      let c := (cmd.splitOn ":").headD ""
      if (c == "A" || c == "W") && j.failed then { j with lateCalls := j.lateCalls ++ [s!"{task}.{c}"] } else j
    | _ => { j with unknown := true }

/-- an armed fault fires: the transport answers a call with an error -/
def onFired (j : J) (label : String) : J :=
  match parse label with
  | none => { j with unknown := true }
  | some f =>
    match f.kind with
    | .conn q => { j with causes := j.causes ++ classOf q, failed := true }
    | _ =>
      let ctl := ctlSid j.server
      match f.site, f.target with
      | .ou, some 0 => { j with causes := j.causes ++ [.anyLocal], mustErr := some label }
      | .ou, some 1 => { j with causes := j.causes ++ [.anyLocal] }
      | .ou, some 2 => { j with causes := j.causes ++ [.anyLocal] }
      | .ou, some 3 => if j.grease then j else { j with unknown := true }
      | .rd, some sid =>
        if sid == peerCtlSid j.server then { j with causes := j.causes ++ [.exact "local:260"] }
        else if sid % 4 == 2 || sid % 4 == 3 then j        -- no type seen on it in these scripts
        else { j with unknown := true }
      | .ou, _ => { j with unknown := true }
      | .ob, _ => { j with unknown := true }
      | _, some sid =>
        if sid == ctl then { j with causes := j.causes ++ [.exact "local:260"], mustErr := some label }
        else if sid == ctl + 4 || sid == ctl + 8 then { j with causes := j.causes ++ [.anyLocal] }
        else if sid == greaseSid j.server && j.grease then j
        else { j with unknown := true }
      | _, none => { j with unknown := true }

/-- a call completes -/
def onResult (j : J) (call res : String) : J :=
  -- `<task>.D`: not a call on the driver — the application lets go of it
  if call.endsWith ".D" then (if res == "ok" then { j with dropped := true } else j) else
  let j :=
    match j.mustErr with
    | some lab => if res.startsWith "err:" then { j with mustErr := none }
                  else { (j.fail s!"{call}={res}-after:{lab}") with mustErr := none }
    | none => j
  if res.startsWith "err:" then
    let cls := (res.drop 4).toString
    match j.firstErr with
    | none =>
      let j := if j.causes.any (·.matches cls) then j else j.fail s!"unexplained-error:{cls}"
      let j := if j.closes == closesFor cls then j else j.fail s!"close-calls-for:{cls}"
      { j with firstErr := some cls, lateCalls := j.lateCalls.erase call }
    | some e =>
      let j := if e == cls then j else j.fail s!"different-error:{cls}"
      { j with lateCalls := j.lateCalls.erase call }
  else if res == "no-task" then j
  else
    let must := j.strict || !(call.endsWith ".S")
    let j := if j.firstErr.isSome && must then j.fail s!"{call}={res}-after-the-connection-error" else j
    if j.lateCalls.contains call then j.fail s!"{call}={res}-after-the-transport-failed" else j

def onClose (j : J) (c : Nat) : J :=
  if j.dropped then
    -- the `Drop`'s close: the application's, not the error path's (R-05); at most one
    if j.appCloses == 0 then { j with appCloses := 1 } else j.fail "second-close-after-the-drop"
  else
  let j := if j.firstErr.isSome then j.fail "close-after-the-error-was-reported" else j
  { j with closes := j.closes ++ [c] }

def onPending (j : J) (pend : List String) : J :=
  let j := if j.failed && !pend.isEmpty then j.fail "pending-after-the-connection-failed" else j
  let j := if j.bidi && pend.contains "drv.W" then j.fail "pending-with-a-server-initiated-bidi-stream" else j
  -- no close call without a reported error, none besides the one the error demands
  match j.firstErr with
  | none => if j.closes.isEmpty then j else j.fail "close-without-error"
  | some cls => if j.closes == closesFor cls then j else j.fail "second-close"

def splitOnce (s : String) (c : Char) : Option (String × String) :=
  match s.toList.span (· != c) with
  | (a, _ :: b) => some (String.ofList a, String.ofList b)
  | _ => none

def onToken (j : J) (tok : String) : J :=
  match tok.toList with
  | '@' :: r => onOp j (String.ofList r)
  | '!' :: r => onFired j (String.ofList r)
  | _ =>
    if tok.startsWith "close:" then
      match natOf (tok.drop 6).toString with
      | some c => onClose j c
      | none => { j with unknown := true }
    else if tok.startsWith "pending=[" then
      let inner := ((tok.drop 9).toString.dropEnd 1).toString
      onPending j ((inner.splitOn ",").filter (· != ""))
    else if tok == "panic" then j.fail "panic"
    else
      match splitOnce tok '=' with
      | some (call, res) => onResult j call res
      | none => { j with unknown := true }

/-- the verdict: `ok`, `bad:<first rule broken>`.  A history with a token the oracle has no rule for:
    judged for C05 (`strict`, engines `flt5` / `fltj5`) it is refused — `bad:unknown-token(<token>)`,
    never a silent `ok`: the generator must stay inside the oracle's alphabet; for C04 / C06 (`flt`),
    whose own oracles judge the line, `ok` = no opinion of this one. -/
def verdict (server grease strict : Bool) (toks : List String) : String :=
  let j := toks.foldl (fun j tok =>
      let j' := onToken j tok
      if j'.unknown && j'.unknownTok.isNone then { j' with unknownTok := some tok } else j')
    { server := server, grease := grease, strict := strict }
  if j.unknown then (if strict then s!"bad:unknown-token({j.unknownTok.getD "?"})" else "ok")
  else match j.bad with
    | some w => "bad:" ++ w
    | none => "ok"

end H3.Spec.Faults
