/-! RFC 9114 §4.1 as a specification of the receive side of a request stream, written from the RFC
    text and the wording of property C03, not from the code:

      a message is  U* H (U|D)* (H U*)?      U = frame of unknown type (§9: ignored)
                                             H = HEADERS, D = DATA of any length including 0

    Everything else — a known frame other than HEADERS first, DATA or HEADERS after the trailers,
    CANCEL_PUSH / SETTINGS / GOAWAY / MAX_PUSH_ID (§7.2.3/4/6/7: control stream only), PUSH_PROMISE
    sent to a server (§7.2.5), an HTTP/2-reserved type (§7.2.8) — is a connection error
    H3_FRAME_UNEXPECTED.  A request whose stream the client finishes before any HEADERS is
    incomplete (§4.1): the server refuses that stream with H3_REQUEST_INCOMPLETE and the
    connection lives on.  A frame cut short by the end of the stream, or whose payload does not
    fit its layout, is H3_FRAME_ERROR (§7.1).

    The recogniser reads the frame sequence once, left to right, and says what the application
    and the peer must observe under the documented call pattern (head; body until its end is
    reported; trailers). No chunking, no polling, no buffer appears here. -/
namespace H3.Spec.ReqSeq

abbrev Bytes := List Nat

def H3_FRAME_UNEXPECTED : Nat := 0x0105
def H3_FRAME_ERROR : Nat := 0x0106
def H3_SETTINGS_ERROR : Nat := 0x0109
def H3_REQUEST_INCOMPLETE : Nat := 0x010d
def H3_GENERAL_PROTOCOL_ERROR : Nat := 0x0101
def H3_ID_ERROR : Nat := 0x0108
def H3_MESSAGE_ERROR : Nat := 0x010e

/-- the frame alphabet of the property, by meaning -/
inductive K where
  /-- HEADERS carrying this (well-formed) field section -/
  | H (block : Bytes)
  /-- DATA, complete, any length including zero -/
  | D (payload : Bytes)
  /-- DATA whose payload has only arrived in part when the stream stops (never followed by
      another frame, never before a clean FIN) -/
  | Dpart (got : Bytes)
  /-- unknown type, any length -/
  | U
  /-- CANCEL_PUSH, SETTINGS, GOAWAY, MAX_PUSH_ID -/
  | X
  /-- PUSH_PROMISE -/
  | P
  /-- HTTP/2-reserved type (0x2, 0x6, 0x8, 0x9) -/
  | R
  /-- a frame of a known type whose payload does not fit the type's layout (§7.1); when the type
      is also out of place two rules apply and either code is right -/
  | M
  /-- SETTINGS with unacceptable content (§7.2.4.1) on a request stream: out of place and
      invalid, either code is right -/
  | S
  /-- frame type 0x41, the WEBTRANSPORT_STREAM signal of draft-ietf-webtrans-http3, with its session
      id (R-03b: a type that is DEFINED and allocated — not one of the unknown / reserved types
      that §9 says to ignore — and whose only place is the very start of a stream that is handed to
      the WebTransport layer instead of the request API, C19) -/
  | W
  /-- frame type 0x41 read, the session id not (yet) complete when the stream stops -/
  | Wpart
deriving Repr, DecidableEq

inductive Side where
  | server | client
deriving Repr, DecidableEq

/-- how the byte stream stops after the frames -/
inductive Stop where
  /-- FIN on a frame boundary -/
  | fin
  /-- FIN inside a frame -/
  | truncated
  /-- RESET_STREAM with this code, noticed after the frames listed -/
  | reset (c : Nat)
  /-- still open, nothing more has arrived -/
  | open_
deriving Repr, DecidableEq

/-- one observable step of the documented call pattern -/
inductive Obs where
  /-- the message head was delivered -/
  | head (block : Bytes)
  /-- all body bytes handed to the application by the `recv_data` calls, in order -/
  | body (bs : Bytes)
  /-- `recv_data` reported the end of the body -/
  | bodyEnd
  | trailers (block : Bytes)
  | noTrailers
  /-- the call failed with a connection error of this code -/
  | connError (code : Nat)
  /-- the call failed with an error confined to the stream -/
  | streamError (code : Nat)
  /-- the call failed because the peer reset the stream -/
  | resetBy (c : Nat)
  /-- the call is waiting for the peer -/
  | pending
deriving Repr, DecidableEq

structure Outcome where
  calls : List Obs
  /-- the connection error, if any (what the connection is closed with) -/
  connError : Option Nat := none
  /-- RESET_STREAM sent by this endpoint on the stream, if any -/
  streamReset : Option Nat := none
deriving Repr, DecidableEq

/-- The verdict is ALWAYS a finite list of explicit outcomes: where the property text leaves the
    answer open (R-03: the client-side counterparts of the two server rules) the list names every
    alternative the RFC allows — a panic, a hang, or going on to process the stream is never among
    them.  (Until the audit there was a constructor `any` = "no opinion" for these cases.) -/
inductive Expect where
  /-- exactly one of these -/
  | oneOf (os : List Outcome)
deriving Repr, DecidableEq

def Expect.accepts : Expect → Outcome → Prop
  | .oneOf os, o => o ∈ os

instance (e : Expect) (o : Outcome) : Decidable (e.accepts o) := by
  cases e <;> simp only [Expect.accepts] <;> exact inferInstance

/-- where the recogniser is in  U* H (U|D)* (H U*)? -/
inductive Phase where
  | start
  | body (head : Bytes) (acc : Bytes)
  | trailers (head : Bytes) (acc : Bytes) (block : Bytes)
deriving Repr, DecidableEq

/-- what has been observed by the time the recogniser is in this phase and the next thing
    happens to the call in progress -/
def Phase.seen : Phase → List Obs
  | .start => []
  | .body h acc => [.head h, .body acc]
  | .trailers h acc _ => [.head h, .body acc, .bodyEnd]

/-- the call in progress fails with a connection error; any of `codes` is right -/
def violation (p : Phase) (codes : List Nat) : Expect :=
  .oneOf (codes.map fun c => { calls := p.seen ++ [.connError c], connError := some c })

/-- R-03, client side of "the stream ends before any HEADERS".  The property fixes the server's
    answer only; for a client RFC 9114 §4.1 makes a response without a header section incomplete,
    hence the call that waits for the response must FAIL: with the connection error
    H3_FRAME_UNEXPECTED (the end of the stream where HEADERS is the only frame allowed — what h3
    does) or with an error confined to the stream (§4.1.2 malformed: H3_MESSAGE_ERROR; incomplete:
    H3_REQUEST_INCOMPLETE; H3_GENERAL_PROTOCOL_ERROR), the stream reset with that code or not.
    Delivering a response, reporting a clean end, waiting for ever or panicking are not in the list. -/
def clientNoResponse : Expect :=
  -- since the repair 132f8d8 (D-07a, property C07: a stream abandoned before its headers never closes the
  -- connection) the connection error H3_FRAME_UNEXPECTED is no longer among the alternatives
  .oneOf ([H3_MESSAGE_ERROR, H3_REQUEST_INCOMPLETE, H3_GENERAL_PROTOCOL_ERROR].flatMap fun c =>
      [{ calls := [.streamError c] }, { calls := [.streamError c], streamReset := some c }])

/-- the stream stops while the recogniser is in phase `p` -/
def atStop (side : Side) (p : Phase) : Stop → Expect
  | .truncated => violation p [H3_FRAME_ERROR]
  | .reset c => .oneOf [{ calls := p.seen ++ [.resetBy c] }]
  | .open_ =>
    match p with
    -- the trailers are complete but the stream is not: waiting for its end (to see that nothing
    -- forbidden follows) and handing the trailers out at once are both in order
    | .trailers _ _ t => .oneOf [{ calls := p.seen ++ [.pending] }, { calls := p.seen ++ [.trailers t] }]
    | _ => .oneOf [{ calls := p.seen ++ [.pending] }]
  | .fin =>
    match p with
    | .start =>
      match side with
      | .server => .oneOf [{ calls := [.streamError H3_REQUEST_INCOMPLETE],
                             streamReset := some H3_REQUEST_INCOMPLETE }]
      | .client => clientNoResponse
    | .body h acc => .oneOf [{ calls := [.head h, .body acc, .bodyEnd, .noTrailers] }]
    | .trailers h acc t => .oneOf [{ calls := [.head h, .body acc, .bodyEnd, .trailers t] }]

/-- the alternatives of both -/
def Expect.union : Expect → Expect → Expect
  | .oneOf a, .oneOf b => .oneOf (a ++ b)

/-- R-03b: the stream stops inside a 0x41 header (type read, session id incomplete).  The type is
    already known to be out of place, so refusing it at once is in order; so is waiting for the
    rest of the header (stream open: the call is pending; RESET: the call sees the reset; FIN: the
    header is cut short, H3_FRAME_ERROR). -/
def atWpart (p : Phase) : Stop → Expect
  | .open_ => (Expect.oneOf [{ calls := p.seen ++ [.pending] }]).union (violation p [H3_FRAME_UNEXPECTED])
  | .reset c => (Expect.oneOf [{ calls := p.seen ++ [.resetBy c] }]).union (violation p [H3_FRAME_UNEXPECTED])
  | _ => violation p [H3_FRAME_ERROR, H3_FRAME_UNEXPECTED]

/-- read the frames left to right -/
def expected (side : Side) : Phase → List K → Stop → Expect
  | p, [], stop => atStop side p stop
  | p, .U :: r, stop => expected side p r stop
  -- R-03b: on a stream read through the request API (whether or not WebTransport was negotiated on
  -- the connection) 0x41 is a known frame out of place: connection error H3_FRAME_UNEXPECTED
  -- (RFC 9114 §4.1, what h3 does) or H3_FRAME_ERROR (it is not a well-formed HTTP/3 frame: it has
  -- no length).  It is never skipped, acted on, or a reason to hang or panic.
  | p, .W :: _, _ => violation p [H3_FRAME_UNEXPECTED, H3_FRAME_ERROR]
  | p, .Wpart :: _, stop => atWpart p stop
  | p, .R :: _, _ => violation p [H3_FRAME_UNEXPECTED]
  | p, .X :: _, _ => violation p [H3_FRAME_UNEXPECTED]
  | p, .M :: _, _ => violation p [H3_FRAME_ERROR, H3_FRAME_UNEXPECTED]
  | p, .S :: _, _ => violation p [H3_SETTINGS_ERROR, H3_FRAME_UNEXPECTED]
  | p, .P :: _, _ =>
    match side with
    | .server => violation p [H3_FRAME_UNEXPECTED]
    -- R-03, client side: h3 has no push support and never sends MAX_PUSH_ID, so every PUSH_PROMISE
    -- carries a push ID above the (absent) limit: §7.2.5 H3_ID_ERROR; refusing the frame as
    -- unexpected is the other acceptable answer.  Either way the call in progress fails with a
    -- connection error; the frame is never skipped or acted on.
    | .client => violation p [H3_FRAME_UNEXPECTED, H3_ID_ERROR]
  | .start, .H b :: r, stop => expected side (.body b []) r stop
  | .start, .D _ :: _, _ => violation .start [H3_FRAME_UNEXPECTED]
  | .start, .Dpart _ :: _, _ => violation .start [H3_FRAME_UNEXPECTED]
  | .body h acc, .D p :: r, stop => expected side (.body h (acc ++ p)) r stop
  | .body h acc, .Dpart g :: _, stop =>
    -- the part that arrived is body; the frame itself is cut short if the stream ends here
    atStop side (.body h (acc ++ g)) (if stop = .fin then .truncated else stop)
  | .body h acc, .H t :: r, stop => expected side (.trailers h acc t) r stop
  | .trailers h acc t, .D _ :: _, _ => violation (.trailers h acc t) [H3_FRAME_UNEXPECTED]
  | .trailers h acc t, .Dpart _ :: _, _ => violation (.trailers h acc t) [H3_FRAME_UNEXPECTED]
  | .trailers h acc t, .H _ :: _, _ => violation (.trailers h acc t) [H3_FRAME_UNEXPECTED]

/-- the specification: what a frame sequence followed by `stop` must make observable -/
def spec (side : Side) (ks : List K) (stop : Stop) : Expect := expected side .start ks stop

/-- membership in  U* H (U|D)* (H U*)?  (for statements about "the language") -/
def inLanguage : Phase → List K → Bool
  | .start, [] => false
  | _, [] => true
  | p, .U :: r => inLanguage p r
  | .start, .H b :: r => inLanguage (.body b []) r
  | .body h acc, .D p :: r => inLanguage (.body h (acc ++ p)) r
  | .body h acc, .H t :: r => inLanguage (.trailers h acc t) r
  | _, _ => false

end H3.Spec.ReqSeq
