import H3.Model.Dyn
/-! # Oracle for stateful QPACK (RFC 9204 §3.2, §4.3, §4.5), independent of the code's structure

The abstract dynamic table is the list of *all* insertions ever made (absolute index = position,
0-based as in the RFC) together with the number of entries evicted so far (always a prefix) and
the capacity.  Encoder-stream instructions are functions on it; a field section denotes, entry
by entry, what its representations name in that table.  Nothing here looks at maps, reference
counts or relative positions in a deque.

The static table and the instruction / representation syntax are shared with the model
(`H3.Dyn.staticGet`, `EncInstr`, `Rep`): the static table's contents are C11's subject. -/
namespace H3.Spec.Dyn
open H3.Dyn

structure STable where
  all : List Field := []
  dropped : Nat := 0
  cap : Nat := 0
deriving DecidableEq, Repr

def size (l : List Field) : Nat := (l.map Field.memSize).sum

def STable.live (t : STable) : List Field := t.all.drop t.dropped

/-- RFC 9204 §3.2.2: entries are evicted from the end (oldest first) until the size is at most
    `bound` (or the table is empty); returns how many go. -/
def evictCount (bound : Nat) : List Field → Nat
  | [] => 0
  | f :: r => if size (f :: r) ≤ bound then 0 else evictCount bound r + 1

/-- §3.2.2 insertion; it is an error if the entry is larger than the capacity. -/
def STable.insert (t : STable) (f : Field) : Option STable :=
  if f.memSize > t.cap then none
  else some { t with all := t.all ++ [f], dropped := t.dropped + evictCount (t.cap - f.memSize) t.live }

/-- §3.2.3 / §4.3.1 Set Dynamic Table Capacity -/
def STable.setCap (t : STable) (c : Nat) : STable :=
  { t with cap := c, dropped := t.dropped + evictCount c t.live }

/-- the entry with absolute index `a` (0-based), if it has been inserted and not evicted -/
def STable.entry (t : STable) (a : Nat) : Option Field :=
  if a < t.dropped then none else t.all[a]?

/-- §3.2.5 relative index on the encoder stream: 0 = most recently inserted -/
def STable.relEntry (t : STable) (rel : Nat) : Option Field :=
  if rel < t.all.length then t.entry (t.all.length - 1 - rel) else none

/-- §4.3 one encoder instruction -/
def STable.apply (t : STable) : EncInstr → Option STable
  | .sizeUpdate c => if c > 1073741823 then none else some (t.setCap c)   -- §3.2.3: at most 2^30 - 1
  | .insertLit n v => t.insert ⟨n, v⟩
  | .insertStatic i v => (staticGet i).bind fun f => t.insert ⟨f.name, v⟩
  | .insertDyn rel v => (t.relEntry rel).bind fun f => t.insert ⟨f.name, v⟩
  | .dup rel => (t.relEntry rel).bind fun f => t.insert f

def STable.run : STable → List EncInstr → Option STable
  | t, [] => some t
  | t, i :: r => (t.apply i).bind fun t1 => t1.run r

/-- absolute index (0-based) a representation refers to; `base` is the RFC's Base -/
def absIndex (base : Nat) : Rep → Option (Option Nat)
  | .indexedDyn rel | .litDyn rel _ => some (if rel < base then some (base - 1 - rel) else none)
  | .indexedPost i | .litPost i _ => some (some (base + i))
  | _ => none

/-- §4.5.2–4.5.6 what one representation denotes -/
def denoteRep (t : STable) (base : Nat) : Rep → Option Field
  | .indexedStatic i => staticGet i
  | .indexedDyn rel => if rel < base then t.entry (base - 1 - rel) else none
  | .indexedPost i => t.entry (base + i)
  | .litStatic i v => (staticGet i).map fun f => ⟨f.name, v⟩
  | .litDyn rel v => if rel < base then (t.entry (base - 1 - rel)).map fun f => ⟨f.name, v⟩ else none
  | .litPost i v => (t.entry (base + i)).map fun f => ⟨f.name, v⟩
  | .lit n v => some ⟨n, v⟩

def denote (t : STable) (base : Nat) : List Rep → Option (List Field)
  | [] => some []
  | r :: rs => (denoteRep t base r).bind fun f => (denote t base rs).map (f :: ·)

/-- the insert count one representation requires: its absolute index + 1 -/
def insertCountOf (base : Nat) (r : Rep) : Option Nat :=
  match absIndex base r with
  | some (some a) => some (a + 1)
  | _ => none

/-- §4.5.1.1: the Required Insert Count of a section: one more than the largest absolute index
    referenced, 0 when nothing dynamic is referenced -/
def requiredInsertCount (base : Nat) (reps : List Rep) : Nat :=
  (reps.filterMap (insertCountOf base)).foldl max 0

/-- §4.5.1.1 encoding of the Required Insert Count -/
def encodeRIC (ric maxEntries : Nat) : Nat := if ric = 0 then 0 else ric % (2 * maxEntries) + 1

/-- §4.5.1.1 decoding, transcribed from the RFC's pseudo-code (`none` = the RFC's "Error") -/
def decodeRIC (encoded maxEntries totalInserts : Nat) : Option Nat :=
  let fullRange := 2 * maxEntries
  if encoded = 0 then some 0
  else if encoded > fullRange then none
  else
    let maxValue := totalInserts + maxEntries
    let maxWrapped := maxValue / fullRange * fullRange
    let ric := maxWrapped + encoded - 1
    if ric > maxValue then
      if ric ≤ fullRange then none
      else if ric - fullRange = 0 then none else some (ric - fullRange)
    else if ric = 0 then none else some ric

/-- §4.5.1.2 Base from the sign bit and Delta Base -/
def decodeBase (ric : Nat) (sign : Bool) (delta : Nat) : Option Nat :=
  if !sign then some (ric + delta) else if ric ≥ delta + 1 then some (ric - delta - 1) else none

end H3.Spec.Dyn
