import H3.Model.Drain
/-! The oracle of C09 over a history of steps (`H3.Drain.Step` = event + what it showed):
a request is *alive* while some handle of it — resolver, stream, either half — has not been
dropped; `accept` may say "no more requests" exactly when the peer's GOAWAY has arrived and no
request handed out earlier is alive.  Defined over the history only, not over the
connection's `ongoing_streams` or its channel. -/
namespace H3.Spec.Drain
open H3.Drain

def handedOutIn : List Obs → List Nat
  | [] => []
  | .handedOut id :: r => id :: handedOutIn r
  | _ :: r => handedOutIn r

/-- the live handles (one entry per handle, named by its request) after one more step. -/
def ownersStep (own : List Nat) (st : Step) : List Nat :=
  let own1 :=
    match st.ev with
    | .clone id => if own.contains id then id :: own else own
    | .dropHandle id => own.erase id
    | _ => own
  -- a request handed out in this step starts with one handle (the resolver)
  handedOutIn st.obs ++ own1

def owners (tr : List Step) : List Nat := tr.foldl ownersStep []

def alive (tr : List Step) (id : Nat) : Bool := (owners tr).contains id
def noneAlive (tr : List Step) : Bool := (owners tr).isEmpty
def goawaySeen (tr : List Step) : Bool := tr.any (fun st => st.ev == .goaway)
def errorSeen (tr : List Step) : Bool := tr.any (fun st => st.ev == .connError)
def returnsNone (st : Step) : Bool := st.obs.contains .acceptNone

/-- every request that arrived has been handed out. -/
def arrivals : List Step → List Nat
  | [] => []
  | ⟨.arrive id, _⟩ :: r => id :: arrivals r
  | _ :: r => arrivals r
def handedOut : List Step → List Nat
  | [] => []
  | st :: r => handedOutIn st.obs ++ handedOut r

end H3.Spec.Drain
