import H3.Model.Bits
/-! RFC 7541 §5.2 and Appendix B, written from the RFC, not from the code.

    Appendix B is represented by its column of code lengths for the symbols 0..255 and EOS
    (= 256); the code words themselves are *computed* here: the HPACK code is the canonical
    Huffman code of those lengths (code words of equal length are consecutive binary numbers in
    symbol order; the first code word of a length is the successor of the last one of the
    previous length, shifted).  That this reproduces the table is cross-checked in
    `H3.Props.C15` against the RFC 7541 Appendix C examples, Kraft's equality, and the two
    tables of the code. -/
namespace H3.Spec.Huffman
open H3.Bits

/-- RFC 7541 Appendix B, "len in bits", symbols 0..255 then EOS. -/
def codeLengths : List Nat := [
  -- 0..31 (control characters)
  13, 23, 28, 28, 28, 28, 28, 28, 28, 24, 30, 28, 28, 30, 28, 28,
  28, 28, 28, 28, 28, 28, 30, 28, 28, 28, 28, 28, 28, 28, 28, 28,
  -- ' ' ! " # $ % & ' ( ) * + , - . /
  6, 10, 10, 12, 13, 6, 8, 11, 10, 10, 8, 11, 8, 6, 6, 6,
  -- 0..9 : ; < = > ?
  5, 5, 5, 6, 6, 6, 6, 6, 6, 6, 7, 8, 15, 6, 12, 10,
  -- @ A..O
  13, 6, 7, 7, 7, 7, 7, 7, 7, 7, 7, 7, 7, 7, 7, 7,
  -- P..Z [ \ ] ^ _
  7, 7, 7, 7, 7, 7, 7, 7, 8, 7, 8, 13, 19, 13, 14, 6,
  -- ` a..o
  15, 5, 6, 5, 6, 5, 6, 6, 6, 5, 7, 7, 6, 6, 6, 5,
  -- p..z { | } ~ DEL
  6, 7, 6, 5, 5, 6, 7, 7, 7, 7, 7, 15, 11, 14, 13, 28,
  -- 128..143
  20, 22, 20, 20, 22, 22, 22, 23, 22, 23, 23, 23, 23, 23, 24, 23,
  -- 144..159
  24, 24, 22, 23, 24, 23, 23, 23, 23, 21, 22, 23, 22, 23, 23, 24,
  -- 160..175
  22, 21, 20, 22, 22, 23, 23, 21, 23, 22, 22, 24, 21, 22, 23, 23,
  -- 176..191
  21, 21, 22, 21, 23, 22, 23, 23, 20, 22, 22, 22, 23, 22, 22, 23,
  -- 192..207
  26, 26, 20, 19, 22, 23, 22, 25, 26, 26, 26, 27, 27, 26, 24, 25,
  -- 208..223
  19, 21, 26, 27, 27, 26, 27, 24, 21, 21, 26, 26, 28, 27, 27, 27,
  -- 224..239
  20, 24, 20, 21, 22, 21, 21, 23, 22, 22, 25, 25, 24, 24, 26, 23,
  -- 240..255
  26, 27, 26, 26, 27, 27, 27, 27, 27, 28, 27, 27, 27, 27, 27, 26,
  -- EOS
  30]

def EOS : Nat := 256

/-- symbols ordered by (code length, symbol value): the order in which a canonical code hands
    out code words -/
def canonicalOrder (lens : List Nat) : List Nat :=
  (List.range 31).flatMap fun l => (lens.zipIdx.filter fun p => p.1 == l).map (·.2)

/-- (symbol, length, code word as a number) in canonical order -/
def assign (lens : List Nat) : List Nat → Nat → Nat → List (Nat × Nat × Nat)
  | [], _, _ => []
  | s :: r, next, prevLen =>
    let l := lens.getD s 0
    let c := next * 2 ^ (l - prevLen)
    (s, l, c) :: assign lens r (c + 1) l

/-- the canonical code of `codeLengths`: (code word, symbol), canonical order -/
def codes : List (List Bool × Nat) :=
  (assign codeLengths (canonicalOrder codeLengths) 0 0).map fun (s, l, c) => (bitsN l c, s)

/-- code word of a symbol (`[]` for a number that is not a symbol) -/
def codeOf (s : Nat) : List Bool :=
  match codes.find? (·.2 == s) with
  | some (w, _) => w
  | none => []

/-- the symbol whose code word is exactly `w` -/
def symOf (w : List Bool) : Option Nat := (codes.find? (·.1 == w)).map (·.2)

/-- RFC 7541 §5.2 encoding: the code words of the bytes, in order -/
def enc : List Nat → List Bool
  | [] => []
  | s :: r => codeOf s ++ enc r

/-- RFC 7541 §5.2 on padding: "the most-significant bits of the code corresponding to the EOS
    symbol" — EOS is all ones — and "padding strictly longer than 7 bits MUST be treated as a
    decoding error". -/
def validPad (pad : List Bool) : Bool := decide (pad.length ≤ 7) && pad.all (· == true)

/-- Reference decoder, one bit at a time: `acc` holds the bits read since the last complete
    symbol.  A completed EOS is an error ("A Huffman-encoded string literal containing the EOS
    symbol MUST be treated as a decoding error"); at the end `acc` must be a valid padding. -/
def specGo : List Bool → List Bool → Option (List Nat)
  | [], acc => if validPad acc then some [] else none
  | b :: bs, acc =>
    match symOf (acc ++ [b]) with
    | some s =>
      if s = EOS then none
      else match specGo bs [] with
        | some r => some (s :: r)
        | none => none
    | none => specGo bs (acc ++ [b])

/-- The strings RFC 7541 §5.2 allows, and what they decode to. -/
def specDecode (input : List Nat) : Option (List Nat) := specGo (bitsOf input) []

/-- RFC 7541 §5.2 encoder: code words, then the EOS prefix up to the next byte boundary. -/
def specEncode (s : List Nat) : List Nat := pack (enc s)

end H3.Spec.Huffman
