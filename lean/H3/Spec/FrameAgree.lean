import H3.Spec.FrameRef
import H3.Spec.Framing
/-! When the result of the byte-wise reference automaton (for `frameDec`) and the token list of
    the RFC oracle `observe` say the same thing.  The relation spells out the rendering used
    by the differential run (`H3.Drv.C02`): DATA payload as bytes vs. as one piece, SETTINGS
    abstracted to `okSettings`/`badSettings`, a truncated DATA payload (`partialData`), and
    the final token determined by the automaton's final state and the kind of ending. -/
namespace H3.Spec.Framing
open H3.Frame H3.FS

abbrev RTok := H3.FS.Tok H3.Frame.Frame H3.Frame.FrameErr

/-- a frame without payload bytes of its own that is not SETTINGS -/
def plainFrame : Frame → Bool
  | .data _ => false
  | .settings _ => false
  | .webTransport _ => false
  | _ => true

/-- the bytes present of a DATA payload that is cut off by the end of the input -/
def cutTok (e : Ending) (bs : Varint.Bytes) : Tok :=
  match e with
  | .fin => .partialData bs
  | .open_ => .data bs

inductive Agree (e : Ending) : PSt → List RTok → List Tok → Prop
  /-- the input ends at a frame boundary -/
  | clean : Agree e (.hdr []) [] [endTok e true]
  /-- the input ends inside a frame header or a non-DATA payload -/
  | inFrame (acc : Bytes) : acc ≠ [] → Agree e (.hdr acc) [] [endTok e false]
  | frame (f : Frame) (p : PSt) (ts : List RTok) (ss : List Tok) : plainFrame f = true →
      Agree e p ts ss → Agree e p (.frame f :: ts) (.frame f :: ss)
  | settings (es : List (Nat × Nat)) (p : PSt) (ts : List RTok) (ss : List Tok) :
      Agree e p ts ss → Agree e p (.frame (.settings es) :: ts) (.okSettings :: ss)
  | data0 (p : PSt) (ts : List RTok) (ss : List Tok) :
      Agree e p ts ss → Agree e p (.frame (.data 0) :: ts) (.frame (.data 0) :: ss)
  /-- a DATA frame whose payload is all there -/
  | data (len : Nat) (bs : Bytes) (p : PSt) (ts : List RTok) (ss : List Tok) : len ≠ 0 →
      len < 2^62 → bs.length = len → Agree e p ts ss →
      Agree e p (.frame (.data len) :: (bs.map .byte ++ ts)) (.frame (.data len) :: .data bs :: ss)
  /-- the input ends inside a DATA payload -/
  | dataCut (len : Nat) (bs : Bytes) : len < 2^62 → bs.length < len →
      Agree e (.data (len - bs.length)) (.frame (.data len) :: bs.map .byte)
        (.frame (.data len) :: ((if bs = [] then [] else [cutTok e bs]) ++ [endTok e false]))
  | malformed : Agree e .dead [.errProto .malformed] [.malformed]
  | h2 (ty : Nat) : Agree e .dead [.errProto (.unsupported ty)] [.h2 ty]
  | badSettings (err : SettingsErr) : Agree e .dead [.errProto (.settings err)] [.badSettings]

end H3.Spec.Framing
