import H3.Spec.FramingStrict
/-! A judge for observed call histories of a frame reader (`poll_next` / `poll_data` answers), for
    the cases in which C02 does not fix ONE answer sequence but a set of them:

    * an arbitrary sequence of calls (how far the reader gets with `k` calls depends on the chunking);
    * a stream that is reset ("Streams that terminate abruptly may be reset at any point in a frame",
      RFC 9114 §7.1; QUIC may discard data received before the reset): the reader sees some prefix of
      what the bytes before the reset say, then the reset's error — nothing beyond those bytes;
    * a DATA payload cut short by FIN: some prefix of the bytes present, then the truncation error.

    The judge sees the bytes of the stream (`w`), how the stream ends (`Stop`), how often the
    transport itself answered `Pending` before that end, the calls, and the answers; it never sees
    where the chunk boundaries were.  It checks, answer by answer, against the reference token list
    of the §7.1 oracle (`observeS`):

    * a frame answer is the next frame of the segmentation; data answers are non-empty and continue
      the current DATA payload byte for byte (never beyond the bytes present, never beyond the length);
    * a protocol error is answered only where the segmentation has that error, `UnexpectedEnd` only
      where FIN cuts a frame, a clean end only at a frame boundary after FIN, the reset's error only
      on a reset stream;
    * `Pending` is answered only when the transport said so (or, on a stream that is still open, when
      the script is exhausted): on a stream that ends, no more `Pending` answers than transport
      `Pending`s — "never waited on for ever";
    * for the documented reader loop additionally: it ends with a terminal answer, and it ends
      `Pending` only on an open stream after everything present has been handed out.

    `poll_next` while DATA payload is outstanding is outside the documented use (the code asserts);
    from such a call on the judge has no opinion. -/
namespace H3.Spec.Framing
open H3.Varint H3.Frame

inductive Stop where
  | fin | open_ | reset (c : Nat)
deriving Repr, DecidableEq

/-- one answer of the reader; `α` is how frames and protocol errors are shown to the judge -/
inductive Ans (α : Type) where
  /-- a frame (`poll_next`) or a protocol error -/
  | tok (a : α)
  | data (bs : Bytes)
  | none_
  | pending
  /-- `UnexpectedEnd` -/
  | errEnd
  /-- the reset's error with its code -/
  | errQuic (c : Nat)
  /-- a panic, or anything else -/
  | other
deriving Repr

inductive JCall where
  | next | data
deriving Repr, DecidableEq

structure JSt where
  /-- reference tokens not yet answered -/
  ref : List Tok
  /-- bytes of the current DATA payload that are present in `w` and not yet handed out -/
  cur : Bytes := []
  /-- declared length of the current DATA frame minus the bytes handed out -/
  remaining : Nat := 0
  /-- FIN cuts the current DATA payload short -/
  cutData : Bool := false
  /-- `Pending` answers the transport still explains (`none`: any number, the stream is open) -/
  pends : Option Nat := none
deriving Repr

inductive Step where
  /-- not acceptable -/
  | reject
  /-- acceptable and final: the reader has been told how the stream ended or failed -/
  | final
  /-- documented precondition violated: no opinion from here on -/
  | misuse
  | go (st : JSt)

def isErrTok : Tok → Bool
  | .malformed | .h2 _ | .badSettings => true
  | _ => false

def isFrameTok : Tok → Bool
  | .frame _ | .okSettings => true
  | _ => false

/-- after the frame token `t` has been answered: a DATA frame brings its payload -/
def afterFrame (t : Tok) (r : List Tok) (st : JSt) : JSt :=
  match t with
  | .frame (.data len) =>
    if len = 0 then { st with ref := r } else
    match r with
    | .data bs :: r' => { st with ref := r', cur := bs, remaining := len, cutData := false }
    | .partialData bs :: r' => { st with ref := r', cur := bs, remaining := len, cutData := true }
    | .truncated :: _ => { st with ref := r, cur := [], remaining := len, cutData := true }
    | _ => { st with ref := r, cur := [], remaining := len, cutData := false }
  | _ => { st with ref := r }

def pendStep (st : JSt) : Step :=
  match st.pends with
  | none => .go st
  | some 0 => .reject
  | some (k+1) => .go { st with pends := some k }

def isPrefix : Bytes → Bytes → Bool
  | [], _ => true
  | _ :: _, [] => false
  | a :: as, b :: bs => a == b && isPrefix as bs

variable {α : Type}

def step (m : Tok → α → Bool) (stop : Stop) (st : JSt) (call : JCall) (a : Ans α) : Step :=
  match call with
  | .next =>
    if st.remaining ≠ 0 then .misuse else
    match a with
    | .tok x =>
      match st.ref with
      | t :: r =>
        if isErrTok t then (if m t x then .final else .reject)
        else if isFrameTok t then (if m t x then .go (afterFrame t r st) else .reject)
        else .reject
      | [] => .reject
    | .none_ => if st.ref.head? = some .none_ then .final else .reject
    | .errEnd => if st.ref.head? = some .truncated then .final else .reject
    | .pending => pendStep st
    | .errQuic c => if stop = .reset c then .final else .reject
    | .data _ => .reject
    | .other => .reject
  | .data =>
    if st.remaining = 0 then
      match a with
      | .none_ => .go st
      | .errQuic c => if stop = .reset c then .final else .reject
      | _ => .reject
    else
      match a with
      | .data bs =>
        if bs ≠ [] ∧ isPrefix bs st.cur ∧ bs.length ≤ st.remaining then
          .go { st with cur := st.cur.drop bs.length, remaining := st.remaining - bs.length }
        else .reject
      | .pending => pendStep st
      | .errEnd => if st.cutData then .final else .reject
      | .errQuic c => if stop = .reset c then .final else .reject
      | _ => .reject

/-- an arbitrary call sequence: `none` = acceptable, `some i` = answer number `i` is not -/
def judgeCalls (m : Tok → α → Bool) (stop : Stop) : JSt → List JCall → List (Ans α) → Nat → Option Nat
  | _, _, [], _ => none
  | _, [], _ :: _, i => some i
  | st, c :: cs, a :: as, i =>
    match step m stop st c a with
    | .reject => some i
    | .misuse => none
    | .final => if as.isEmpty then none else some (i + 1)
    | .go st' => judgeCalls m stop st' cs as (i + 1)

/-- the documented reader loop (`poll_data` while payload is outstanding, else `poll_next`), its
    answers with adjacent data pieces merged and non-final `Pending`s left out -/
def judgeLoop (m : Tok → α → Bool) (stop : Stop) : JSt → List (Ans α) → Nat → Option Nat
  | _, [], i => some i   -- the loop has to end with a final answer
  | st, a :: as, i =>
    match step m stop st (if st.remaining ≠ 0 then .data else .next) a with
    | .reject => some i
    | .misuse => some i
    | .final => if as.isEmpty then none else some (i + 1)
    | .go st' =>
      match a, as with
      | .pending, [] =>
        -- waiting is right only on an open stream, when everything present has been handed out
        if stop = .open_ ∧ st'.ref = [.pending] ∧ st'.cur = [] then none else some i
      | _, _ => judgeLoop m stop st' as (i + 1)

/-- the ending the oracle is asked about: a reset stream is read as "open after the bytes before the reset" -/
def Stop.ending : Stop → Ending
  | .fin => .fin
  | _ => .open_

end H3.Spec.Framing
