import H3.Model.Headers
/-! Oracle of property C12, written from the property text, RFC 9114 §4.2–4.3 (field names,
    field values, pseudo-header fields, trailers), RFC 9110 §5.1/§5.5/§5.6.2/§9.1/§15 (token,
    field-value bytes, method, status-code) and RFC 9220/8441 (`:protocol`) — not from the control
    flow of `headers.rs`.  It shares with the model only the vocabulary: byte strings, the
    spelling of the seven names and the abstract `http` parsers (`Http`), which say what
    "parseable" means for `:scheme`, `:authority` and `:path` as far as h3 delegates it (reading
    R-12c); what every grammar of these three components demands is written out below, without the
    crate (`SyntaxOk`), and the `:protocol` tokens are written out too (`protocolTokens`).

    What the text does not state is not demanded: no ordering of received pseudo-header fields,
    nothing about duplicated pseudo-header fields, no `:scheme`/`:path` presence (reading R-12 in
    DESIGN.md §12, C12).
    Several `Host` fields *are* spoken of — "identical when both are present", "a non-empty
    authority" — see `AuthorityOk` (D-12e, reading R-12b).
    "Only defined pseudo-header fields" is read as the RFC uses the word (§4.3: "Pseudo-header
    fields are only valid in the context in which they are defined.  Pseudo-header fields defined
    for requests MUST NOT appear in responses; pseudo-header fields defined for responses MUST NOT
    appear in requests.  Pseudo-header fields MUST NOT appear in trailer sections.  Endpoints MUST
    treat a request or response that contains undefined or invalid pseudo-header fields as
    malformed."): defined *for this kind of message* — `DefinedFor` (D-12f).  For requests these are
    `:method`, `:scheme`, `:authority`, `:path` (§4.3.1) and `:protocol` (RFC 9220 §3 / RFC 8441 §4),
    for responses `:status` alone (§4.3.2: "For responses, a single ":status" pseudo-header field is
    defined"), for trailers none, so every trailer name must be a token. -/
namespace H3.Spec.Headers
open H3.Headers (Bytes FieldLine Http HeaderMap UriParts nMethod nScheme nAuthority nPath nStatus nProtocol nHost)

/-! ### RFC 9110 character classes -/

/-- `"!" / "#" / "$" / "%" / "&" / "'" / "*" / "+" / "-" / "." / "^" / "_" / "`" / "|" / "~"` -/
def tcharSpecials : List Nat := [0x21, 0x23, 0x24, 0x25, 0x26, 0x27, 0x2a, 0x2b, 0x2d, 0x2e, 0x5e, 0x5f, 0x60, 0x7c, 0x7e]
def DIGIT (b : Nat) : Prop := 0x30 ≤ b ∧ b ≤ 0x39
def UPPER (b : Nat) : Prop := 0x41 ≤ b ∧ b ≤ 0x5a
def LOWER (b : Nat) : Prop := 0x61 ≤ b ∧ b ≤ 0x7a
/-- RFC 9110 §5.6.2 `tchar` -/
def tchar (b : Nat) : Prop := b ∈ tcharSpecials ∨ DIGIT b ∨ UPPER b ∨ LOWER b
instance (b : Nat) : Decidable (tchar b) := by unfold tchar DIGIT UPPER LOWER; infer_instance

/-- RFC 9110 §5.1 + RFC 9114 §4.2: a field name is a non-empty token without upper-case letters
    (so: no control bytes, no separators such as `"(),/:;<=>?@[\]{}`, no space, no byte ≥ 0x7f). -/
def LowerToken (n : Bytes) : Prop := n ≠ [] ∧ ∀ b ∈ n, tchar b ∧ ¬ UPPER b
instance (n : Bytes) : Decidable (LowerToken n) := by unfold LowerToken UPPER; infer_instance

/-- RFC 9110 §5.5: `field-vchar = VCHAR / obs-text`, plus SP and HTAB inside; this excludes NUL,
    CR, LF, every other control byte and DEL (RFC 9114 §4.2, §10.3). -/
def FieldValueByte (b : Nat) : Prop := (0x21 ≤ b ∧ b ≤ 0x7e) ∨ 0x80 ≤ b ∨ b = 0x20 ∨ b = 0x09
def LegalValue (v : Bytes) : Prop := ∀ b ∈ v, FieldValueByte b
instance (v : Bytes) : Decidable (LegalValue v) := by unfold LegalValue FieldValueByte; infer_instance

/-- RFC 9110 §9.1: `method = token`. -/
def MethodToken (m : Bytes) : Prop := m ≠ [] ∧ ∀ b ∈ m, tchar b
instance (v : Bytes) : Decidable (MethodToken v) := by unfold MethodToken; infer_instance

/-- RFC 9110 §15: `status-code = 3DIGIT`, first digit not zero (100…999). -/
def StatusCode (v : Bytes) : Prop := v.length = 3 ∧ (∀ b ∈ v, DIGIT b) ∧ v.head? ≠ some 0x30
instance (v : Bytes) : Decidable (StatusCode v) := by unfold StatusCode DIGIT; infer_instance

/-! ### received field sections -/

/-- the name starts with `:` -/
def IsPseudo (n : Bytes) : Prop := n.head? = some 0x3a
instance (n : Bytes) : Decidable (IsPseudo n) := by unfold IsPseudo; infer_instance

/-- The `:protocol` values h3 knows, written out: the tokens of the IANA "HTTP Upgrade Tokens"
    registry that `h3::ext::Protocol` has a constant for — `webtransport`
    (draft-ietf-webtrans-http3), `connect-udp` (RFC 9298), `connect-ip` (RFC 9484), `websocket`
    (RFC 9220 / RFC 8441).  The list the translator reads from `ext.rs` is proved equal to this one
    (`H3.Props.C12.protocols_gen_eq_spec`), so the oracle does not take its word from the code. -/
def protocolTokens : List Bytes :=
  [[0x77, 0x65, 0x62, 0x74, 0x72, 0x61, 0x6e, 0x73, 0x70, 0x6f, 0x72, 0x74],   -- webtransport
   [0x63, 0x6f, 0x6e, 0x6e, 0x65, 0x63, 0x74, 0x2d, 0x75, 0x64, 0x70],         -- connect-udp
   [0x63, 0x6f, 0x6e, 0x6e, 0x65, 0x63, 0x74, 0x2d, 0x69, 0x70],               -- connect-ip
   [0x77, 0x65, 0x62, 0x73, 0x6f, 0x63, 0x6b, 0x65, 0x74]]                     -- websocket

/-- the six defined pseudo-header fields (RFC 9114 §4.3.1, §4.3.2; RFC 9220 §3), each with a
    value its parser accepts (reading R-12c: "parseable" = the parser h3 delegates to accepts it;
    the crate-independent necessary conditions are `SyntaxOk` below).  (Which of them is defined
    for which kind of message: `DefinedFor`.) -/
def PseudoOk (H : Http) (n v : Bytes) : Prop :=
  (n = nMethod ∧ MethodToken v) ∨
  (n = nScheme ∧ (H.parseScheme v).isSome) ∨
  (n = nAuthority ∧ (H.parseAuthority v).isSome) ∨
  (n = nPath ∧ (H.parsePath v).isSome) ∨
  (n = nStatus ∧ StatusCode v) ∨
  (n = nProtocol ∧ v ∈ protocolTokens)
instance (H : Http) (n v : Bytes) : Decidable (PseudoOk H n v) := by unfold PseudoOk; infer_instance

/-- one field line of a header section -/
def FieldOk (H : Http) (f : FieldLine) : Prop :=
  f.1 ≠ [] ∧ (if IsPseudo f.1 then PseudoOk H f.1 f.2 else LowerToken f.1 ∧ LegalValue f.2)
instance (H : Http) (f : FieldLine) : Decidable (FieldOk H f) := by unfold FieldOk; infer_instance

/-- the values of the fields called `n`, in order -/
def valuesOf (n : Bytes) (fs : List FieldLine) : List Bytes := (fs.filter (fun f => f.1 = n)).map (·.2)

/-- "a non-empty authority (from :authority or Host, identical when both are present)":

    * there is a non-empty value among the `:authority` and `Host` values;
    * *identical when both are present* (RFC 9114 §4.3.1 "If both fields are present, they MUST
      contain the same value"): when there is an `:authority` field, **every** `Host` value — not
      only the first — is the `:authority` value.  (Which of several different `:authority`
      values counts is not fixed by the text — R-12, duplicated pseudo-header fields — so the
      clause asks for *an* `:authority` value that all `Host` values equal; with one `:authority`
      field, or several equal ones, that is "all `Host` values equal it".)
    * reading R-12b, *a* (one) authority *from Host*: when the authority comes from `Host`, the
      `Host` values are one value (RFC 9110 §7.2: a request with several differing `Host` field
      lines has no authority one could name): every `Host` value is the first one.  Several
      identical `Host` lines are not refused. -/
def AuthorityOk (fs : List FieldLine) : Prop :=
  (∃ a ∈ valuesOf nAuthority fs ++ valuesOf nHost fs, a ≠ []) ∧
  (valuesOf nAuthority fs ≠ [] → ∃ a ∈ valuesOf nAuthority fs, ∀ h ∈ valuesOf nHost fs, a = h) ∧
  (∀ h ∈ valuesOf nHost fs, (valuesOf nHost fs).head? = some h)
instance (fs : List FieldLine) : Decidable (AuthorityOk fs) := by unfold AuthorityOk; infer_instance

/-- the pseudo-header fields defined for requests: RFC 9114 §4.3.1 ("The following pseudo-header
    fields are defined for requests": `:method`, `:scheme`, `:authority`, `:path`) and the
    `:protocol` field of the extended CONNECT request (RFC 9220 §3, RFC 8441 §4) -/
def requestPseudoNames : List Bytes := [nMethod, nScheme, nAuthority, nPath, nProtocol]

/-- the pseudo-header fields defined for responses: RFC 9114 §4.3.2 ("For responses, a single
    ":status" pseudo-header field is defined") -/
def responsePseudoNames : List Bytes := [nStatus]

/-- "only defined pseudo-header fields": every pseudo-header field of the section is one of those
    defined for this kind of message (RFC 9114 §4.3: "only valid in the context in which they are
    defined"; request fields MUST NOT appear in responses, response fields MUST NOT appear in
    requests; a message with an undefined pseudo-header field is malformed).  D-12f. -/
def DefinedFor (defined : List Bytes) (fs : List FieldLine) : Prop :=
  ∀ f ∈ fs, IsPseudo f.1 → f.1 ∈ defined
instance (d : List Bytes) (fs : List FieldLine) : Decidable (DefinedFor d fs) := by
  unfold DefinedFor; infer_instance

/-! ### "parseable values": what does not depend on the `http` crate (reading R-12c)

    `PseudoOk` asks the `http` crate (h3 delegates to it).  RFC 9114 §4.3.1 names what each field
    carries — `:scheme` "the scheme portion of the URI" (RFC 3986 §3.1), `:authority` "the authority
    portion of the target URI" (§3.2), `:path` "the path and query parts of the target URI" (§3.3,
    §3.4) — so a value outside that grammar is not parseable whatever a library says.  The clauses
    below are *necessary* conditions taken from those grammars (complete for the scheme, partial for
    the other two), each one line of the RFC; DESIGN.md section 9, R-12c lists per class what is
    demanded, what is not, and why. -/

def ALPHA (b : Nat) : Prop := UPPER b ∨ LOWER b
instance (b : Nat) : Decidable (ALPHA b) := by unfold ALPHA UPPER LOWER; infer_instance

/-- the first byte is a letter (so the value is not empty) -/
def StartsAlpha : Bytes → Prop
  | [] => False
  | b :: _ => ALPHA b
instance (v : Bytes) : Decidable (StartsAlpha v) := by
  cases v <;> unfold StartsAlpha <;> infer_instance

/-- RFC 3986 §3.1: `scheme = ALPHA *( ALPHA / DIGIT / "+" / "-" / "." )` (the whole grammar). -/
def SchemeSyntax (v : Bytes) : Prop :=
  StartsAlpha v ∧ ∀ b ∈ v, ALPHA b ∨ DIGIT b ∨ b = 0x2b ∨ b = 0x2d ∨ b = 0x2e
instance (v : Bytes) : Decidable (SchemeSyntax v) := by unfold SchemeSyntax DIGIT; infer_instance

/-- what follows the last `@` (the whole value when there is none): `host [ ":" port ]` -/
def hostPort (v : Bytes) : Bytes := (v.reverse.takeWhile (· ≠ 0x40)).reverse

/-- RFC 3986 §3.2 `authority = [ userinfo "@" ] host [ ":" port ]`, two necessary conditions:
    neither `userinfo` nor `host` contains `@`, so there is at most one; and unless the host is an
    IP literal (`[`…`]`) it contains no `:` (`reg-name`, `IPv4address`), so what follows the first
    `:` of `host [ ":" port ]` is `port = *DIGIT`.
    (NOT asked: a non-empty host, a port below 65536, the absence of userinfo — R-12c.) -/
def AuthoritySyntax (v : Bytes) : Prop :=
  (v.filter (· = 0x40)).length ≤ 1 ∧
  ((hostPort v).head? = some 0x5b ∨ ∀ b ∈ ((hostPort v).dropWhile (· ≠ 0x3a)).drop 1, DIGIT b)
instance (v : Bytes) : Decidable (AuthoritySyntax v) := by unfold AuthoritySyntax DIGIT; infer_instance

/-- RFC 3986 §3.3 / §3.4: `#` is neither a `pchar` nor a query character — it ends the query and
    starts the fragment, which is not part of a request target (RFC 9110 §7.1).  One necessary
    condition of "the path and query parts": no `#`. -/
def PathSyntax (v : Bytes) : Prop := 0x23 ∉ v
instance (v : Bytes) : Decidable (PathSyntax v) := by unfold PathSyntax; infer_instance

def schemeHttp : Bytes := [0x68, 0x74, 0x74, 0x70]
def schemeHttps : Bytes := [0x68, 0x74, 0x74, 0x70, 0x73]

/-- the necessary condition of one field line -/
def PseudoSyntax (n v : Bytes) : Prop :=
  (n = nScheme → SchemeSyntax v) ∧ (n = nAuthority → AuthoritySyntax v) ∧ (n = nPath → PathSyntax v)
instance (n v : Bytes) : Decidable (PseudoSyntax n v) := by unfold PseudoSyntax; infer_instance

/-- RFC 9114 §4.3.1: "This pseudo-header field MUST NOT be empty for "http" or "https" URIs": when
    the section's `:scheme` is `http` or `https` (every `:scheme` value, and there is one), no
    `:path` value is empty. -/
def PathNonEmptyHttp (fs : List FieldLine) : Prop :=
  valuesOf nScheme fs ≠ [] → (∀ s ∈ valuesOf nScheme fs, s = schemeHttp ∨ s = schemeHttps) →
  ∀ p ∈ valuesOf nPath fs, p ≠ []
instance (fs : List FieldLine) : Decidable (PathNonEmptyHttp fs) := by unfold PathNonEmptyHttp; infer_instance

/-- the crate-independent part of "parseable values" for a request section (R-12c) -/
def SyntaxOk (fs : List FieldLine) : Prop := (∀ f ∈ fs, PseudoSyntax f.1 f.2) ∧ PathNonEmptyHttp fs
instance (fs : List FieldLine) : Decidable (SyntaxOk fs) := by unfold SyntaxOk; infer_instance

def WellFormedRequest (H : Http) (fs : List FieldLine) : Prop :=
  (∀ f ∈ fs, FieldOk H f) ∧ DefinedFor requestPseudoNames fs ∧ (∃ f ∈ fs, f.1 = nMethod) ∧ AuthorityOk fs

/-- a well-formed request whose `:scheme` / `:authority` / `:path` values also satisfy the
    crate-independent necessary conditions (R-12c): what the driver's oracle demands. -/
def WellFormedRequestStrict (H : Http) (fs : List FieldLine) : Prop := WellFormedRequest H fs ∧ SyntaxOk fs

def WellFormedResponse (H : Http) (fs : List FieldLine) : Prop :=
  (∀ f ∈ fs, FieldOk H f) ∧ DefinedFor responsePseudoNames fs ∧ (∃ f ∈ fs, f.1 = nStatus)

def WellFormedTrailers (fs : List FieldLine) : Prop :=
  ∀ f ∈ fs, f.1 ≠ [] ∧ ¬ IsPseudo f.1 ∧ LowerToken f.1 ∧ LegalValue f.2

/-- the regular (non-pseudo) fields, in order -/
def regular (fs : List FieldLine) : List FieldLine := fs.filter (fun f => ¬ IsPseudo f.1)

/-- "carries exactly the regular fields, per-name order kept": for every name the entries of that
    name are the received ones in the received order (in particular nothing is added or lost). -/
def CarriesRegular (entries fs : List FieldLine) : Prop :=
  ∀ n, entries.filter (fun f => f.1 = n) = (regular fs).filter (fun f => f.1 = n)

instance (H : Http) (fs : List FieldLine) : Decidable (WellFormedRequest H fs) := by
  unfold WellFormedRequest; infer_instance
instance (H : Http) (fs : List FieldLine) : Decidable (WellFormedRequestStrict H fs) := by
  unfold WellFormedRequestStrict; infer_instance
instance (H : Http) (fs : List FieldLine) : Decidable (WellFormedResponse H fs) := by
  unfold WellFormedResponse; infer_instance
instance (fs : List FieldLine) : Decidable (WellFormedTrailers fs) := by
  unfold WellFormedTrailers; infer_instance

/-! ### sent field sections -/

/-- RFC 9114 §4.3: "All pseudo-header fields MUST appear in the header section before regular
    header fields." -/
def PseudoFirst (out : List FieldLine) : Prop :=
  ∃ ps rs, out = ps ++ rs ∧ (∀ f ∈ ps, IsPseudo f.1) ∧ (∀ f ∈ rs, ¬ IsPseudo f.1)

/-- each pseudo-header field at most once -/
def PseudoOnce (out : List FieldLine) : Prop := ((out.filter (fun f => IsPseudo f.1)).map (·.1)).Nodup

def optField (n : Bytes) : Option Bytes → List FieldLine
  | some v => [(n, v)]
  | none => []

def mCONNECT : Bytes := [0x43, 0x4f, 0x4e, 0x4e, 0x45, 0x43, 0x54]
def https : Bytes := [0x68, 0x74, 0x74, 0x70, 0x73]

/-- "with the values the caller supplied": the pseudo-header fields of a request made of
    `method`, a URI and an optional `Protocol` extension (RFC 9114 §4.3.1, §4.4; RFC 9220):
    `:method`; `:scheme` (the URI's, else the `https` default) and `:path` (the URI's path and
    query, `/` when it has none) unless this is a plain CONNECT; `:authority` when the URI has
    one; `:protocol` when the method is CONNECT and the extension is there.  Listed in the order
    method, scheme, authority, path, protocol (the property fixes no order among them). -/
def sentRequestPseudo (method : Bytes) (uri : UriParts) (ext : Option Bytes) : List FieldLine :=
  let proto := if method = mCONNECT then ext else none
  let plain := method = mCONNECT ∧ proto = none
  let path : Bytes := match uri.pathAndQuery with
    | none => [0x2f]
    | some d => if d = [] then [0x2f] else d
  [(nMethod, method)] ++
  (if plain then [] else [(nScheme, uri.scheme.getD https)]) ++
  optField nAuthority uri.authority ++
  (if plain then [] else [(nPath, path)]) ++
  optField nProtocol proto

/-- three ASCII digits of a status code -/
def statusText (n : Nat) : Bytes := [0x30 + n / 100, 0x30 + n / 10 % 10, 0x30 + n % 10]

def sentResponsePseudo (status : Nat) : List FieldLine := [(nStatus, statusText status)]

end H3.Spec.Headers
