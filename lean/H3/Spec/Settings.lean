import H3.Model.Varint
/-! Specification of SETTINGS, written from RFC 9114 §7.2.4, §7.2.4.1, §7.2.4.2, §11.2.2 (text in
    `/repo/.duvet/specifications`), RFC 9204 §5, RFC 9220 §3, RFC 9297 §2.1.1 and
    draft-ietf-webtrans-http3 §8.2 — not from the code.  Varints are the RFC 9000 §16 reading
    `H3.Varint.rfcDecode`.  Nothing here refers to `H3.Gen` or `H3.Settings`. -/
namespace H3.Spec.Settings
open H3.Varint (Bytes rfcDecode)

/-- §7.2.4: "The payload of a SETTINGS frame consists of zero or more parameters.  Each
    parameter consists of a setting identifier and a value, both encoded as QUIC
    variable-length integers."  `none`: the payload ends inside a parameter (§7.1: a payload
    that terminates before the end of the identified fields).
    The first argument bounds the number of parameters (each takes at least two bytes). -/
def parseFuel : Nat → Bytes → Option (List (Nat × Nat))
  | _, [] => some []
  | 0, _ :: _ => none
  | f+1, b :: bs =>
    match rfcDecode (b :: bs) with
    | none => none
    | some (id, r1) =>
      match rfcDecode r1 with
      | none => none
      | some (v, r2) =>
        match parseFuel f r2 with
        | none => none
        | some ps => some ((id, v) :: ps)

def parse (payload : Bytes) : Option (List (Nat × Nat)) := parseFuel payload.length payload

/-- §11.2.2, Table 3: the identifiers reserved because HTTP/2 defined them. -/
def reserved : List Nat := [0x00, 0x02, 0x03, 0x04, 0x05]

/-- §7.2.4.1: identifiers of the format `0x1f * N + 0x21` have no meaning. -/
def isGrease (id : Nat) : Prop := ∃ n, id = 0x1f * n + 0x21

def MAX_FIELD_SECTION_SIZE : Nat := 0x06       -- RFC 9114 §7.2.4.1
def QPACK_MAX_TABLE_CAPACITY : Nat := 0x01     -- RFC 9204 §5
def QPACK_BLOCKED_STREAMS : Nat := 0x07        -- RFC 9204 §5
def ENABLE_CONNECT_PROTOCOL : Nat := 0x08      -- RFC 9220 §3 (RFC 8441 §3)
def H3_DATAGRAM : Nat := 0x33                  -- RFC 9297 §2.1.1
def ENABLE_WEBTRANSPORT : Nat := 0x2b603742    -- draft-ietf-webtrans-http3 §8.2
def WEBTRANSPORT_MAX_SESSIONS : Nat := 0x2b603743

/-- The identifiers an h3 endpoint understands (all others "MUST be ignored", §7.2.4). -/
def known : List Nat :=
  [MAX_FIELD_SECTION_SIZE, QPACK_MAX_TABLE_CAPACITY, QPACK_BLOCKED_STREAMS, ENABLE_CONNECT_PROTOCOL,
   H3_DATAGRAM, ENABLE_WEBTRANSPORT, WEBTRANSPORT_MAX_SESSIONS]

/-- number of parameters carrying `id` -/
def occurrences (ps : List (Nat × Nat)) (id : Nat) : Nat := (ps.filter (fun p => p.1 == id)).length

/-- §7.2.4.1: "their receipt MUST be treated as a connection error of type H3_SETTINGS_ERROR". -/
def hasReserved (ps : List (Nat × Nat)) : Bool := ps.any (fun p => reserved.contains p.1)

/-- §7.2.4: "The same setting identifier MUST NOT occur more than once"; the property (reading
    R-13) demands the error for identifiers that are understood … -/
def repeatsKnown (ps : List (Nat × Nat)) : Bool := known.any (fun id => occurrences ps id ≥ 2)

/-- … and leaves it open (the RFC's MAY) for identifiers that are ignored. -/
def repeatsUnknown (ps : List (Nat × Nat)) : Bool :=
  ps.any (fun p => !known.contains p.1 && occurrences ps p.1 ≥ 2)

/-- the value a payload carries for `id` (meaningful when `id` does not repeat) -/
def carried (ps : List (Nat × Nat)) (id : Nat) : Option Nat := ps.lookup id

/-- §7.2.4.1 "The default value is unlimited": the largest value a peer can announce. -/
def unlimited : Nat := 2^62 - 1

/-- A numeric setting takes the carried value, else its default. -/
def numeric (ps : List (Nat × Nat)) (id dflt : Nat) : Nat := (carried ps id).getD dflt

/-- The settings whose defining RFC allows the values 0 and 1 only and makes every other value an error:
    RFC 9297 §2.1.1 "The value of the SETTINGS_H3_DATAGRAM setting MUST be either 0 or 1. … If the
    SETTINGS_H3_DATAGRAM setting is received with a value that is neither 0 nor 1, the receiver MUST terminate
    the connection with error H3_SETTINGS_ERROR."; RFC 8441 §3 (carried over to HTTP/3 by RFC 9220 §3) "The value
    of the parameter MUST be 0 or 1." — in HTTP/3 an error in the payload of a SETTINGS frame is
    H3_SETTINGS_ERROR (RFC 9114 §8.1).  Reading R-13b: "applied exactly — known identifiers take effect" is not
    met by storing "enabled" for a value the defining document does not allow. -/
def boolean01 : List Nat := [ENABLE_CONNECT_PROTOCOL, H3_DATAGRAM]

/-- a 0/1 setting of `boolean01` carrying a value other than 0 and 1 (in any position, repeated or not) -/
def hasBadFlag (ps : List (Nat × Nat)) : Bool := ps.any (fun p => boolean01.contains p.1 && decide (1 < p.2))

/-- A 0/1 setting, exactly: on iff the value 1 is carried (absent = the default 0 = off).  Demanded of the
    settings of `boolean01` (where 0 and 1 are the only values that can be applied at all). -/
def FlagExact (ps : List (Nat × Nat)) (id : Nat) (b : Bool) : Prop := b = (carried ps id == some 1)

instance (ps : List (Nat × Nat)) (id : Nat) (b : Bool) : Decidable (FlagExact ps id b) := by
  unfold FlagExact; infer_instance

/-- ENABLE_WEBTRANSPORT (draft-ietf-webtrans-http3-02 §3.1 / §8.2; default 0): 0 is off, 1 is on.  The draft
    defines no other value and no error for one (unlike the two RFCs above); no demand there. -/
def FlagOk (ps : List (Nat × Nat)) (id : Nat) (b : Bool) : Prop :=
  match carried ps id with
  | none => b = false
  | some 0 => b = false
  | some 1 => b = true
  | some _ => True

instance (ps : List (Nat × Nat)) (id : Nat) (b : Bool) : Decidable (FlagOk ps id b) := by
  unfold FlagOk; split <;> infer_instance

/-- what the spec says about flag `id`: `some b` = must be `b`, `none` = no demand -/
def flag (ps : List (Nat × Nat)) (id : Nat) : Option Bool :=
  match carried ps id with
  | none => some false
  | some 0 => some false
  | some 1 => some true
  | some _ => none

/-- The demand on a receiver of `payload` (RFC 9114 §7.2.4/§7.2.4.1 + readings R-13, R-13b). -/
inductive Demand where
  /-- truncated parameter: a connection error (the property fixes no code) -/
  | anyError
  /-- reserved or repeated understood identifier, or a 0/1 setting of `boolean01` with another value:
      H3_SETTINGS_ERROR -/
  | settingsError
  /-- only ignored identifiers repeat: apply, or H3_SETTINGS_ERROR -/
  | applyOrError (ps : List (Nat × Nat))
  /-- apply exactly -/
  | apply (ps : List (Nat × Nat))
deriving Repr, DecidableEq

def demand (payload : Bytes) : Demand :=
  match parse payload with
  | none => .anyError
  | some ps =>
    if hasReserved ps || repeatsKnown ps || hasBadFlag ps then .settingsError
    else if repeatsUnknown ps then .applyOrError ps
    else .apply ps

/-- 0/1 encoding of an option that is switched on or off -/
def onOff (b : Bool) : Nat := if b then 1 else 0

/-- What a sender configured with these values is expected to list (the property: "carries
    exactly the configured values"; §7.2.4.1: "Endpoints SHOULD include at least one [grease]
    setting"; the grease value is the sender's choice, h3 sends 0).  The RFC fixes no order; the
    order here is the one h3 uses. -/
def expectedSent (grease : Bool) (n mfs : Nat) (ec wt dg : Bool) (wts : Nat) : List (Nat × Nat) :=
  (if grease then [(0x1f * n + 0x21, 0)] else []) ++
  [(MAX_FIELD_SECTION_SIZE, mfs), (ENABLE_CONNECT_PROTOCOL, onOff ec), (ENABLE_WEBTRANSPORT, onOff wt),
   (H3_DATAGRAM, onOff dg), (WEBTRANSPORT_MAX_SESSIONS, wts)]

/-- H3_SETTINGS_ERROR (RFC 9114 §8.1). -/
def H3_SETTINGS_ERROR : Nat := 0x0109

end H3.Spec.Settings
