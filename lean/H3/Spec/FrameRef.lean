import H3.Model.FrameStream
/-! The byte-at-a-time *reference automaton* for a frame decoder `D` (DESIGN App. B.1) and
    the three laws of a decoder under which the chunked machine of
    `H3.Model.FrameStream` simulates it.

    `run D p w` feeds the bytes of `w` one by one; being a fold over the byte string it cannot
    depend on how the bytes arrived.  In `hdr acc` the bytes of the current frame read so far
    are `acc`; after each byte the decoder is asked about `acc ++ [b]`.  In `data rem` the
    next `rem` bytes are payload and are handed out as they are. -/
namespace H3.FS
variable {F E : Type}

/-- what a reader observes, at byte granularity -/
inductive Tok (F E : Type) where
  | frame (f : F)
  | byte (b : Nat)
  | errProto (e : E)
deriving Repr, DecidableEq

inductive PSt where
  /-- inside a frame header / non-DATA frame; `acc` = its bytes so far (`[]` = at a boundary) -/
  | hdr (acc : Bytes)
  /-- inside a DATA payload with `rem > 0` bytes to go -/
  | data (rem : Nat)
  /-- after a protocol error -/
  | dead
deriving Repr, DecidableEq

/-- `remaining_data` after a frame of this kind (cf. `St.applyKind`) -/
def Kind.rem : Kind → Nat
  | .plain => 0
  | .data n => n
  | .raw => USIZE_MAX

def PSt.ofRem (n : Nat) : PSt := if n = 0 then .hdr [] else .data n

def feed (D : Dec F E) : PSt → Nat → PSt × List (Tok F E)
  | .hdr acc, b =>
    match D.dec (acc ++ [b]) with
    | .frame f _ => (PSt.ofRem (D.kind f).rem, [.frame f])
    | .unknown _ => (.hdr [], [])
    | .incomplete _ => (.hdr (acc ++ [b]), [])
    | .error e => (.dead, [.errProto e])
  | .data rem, b => (PSt.ofRem (rem - 1), [.byte b])
  | .dead, _ => (.dead, [])

def run (D : Dec F E) : PSt → Bytes → PSt × List (Tok F E)
  | p, [] => (p, [])
  | p, b :: bs =>
    let (p', t) := feed D p b
    let (p'', ts) := run D p' bs
    (p'', t ++ ts)

def DecRes.isIncomplete : DecRes F E → Bool
  | .incomplete _ => true
  | _ => false

/-- position reported with a definite non-error answer -/
def DecRes.pos? : DecRes F E → Option Nat
  | .frame _ n => some n
  | .unknown n => some n
  | _ => none

/-- the laws of a frame decoder (DESIGN App. B.1).  `error` carries no position in the model;
    its position is determined by L1 (the shortest prefix with a definite answer). -/
structure Laws (D : Dec F E) : Prop where
  /-- the decoder needs at least one byte -/
  nil : (D.dec []).isIncomplete = true
  /-- L1 stability: a definite answer does not change when more bytes follow -/
  stable : ∀ b c, (D.dec b).isIncomplete = false → D.dec (b ++ c) = D.dec b
  /-- L1, position part -/
  pos_le : ∀ b n, (D.dec b).pos? = some n → 1 ≤ n ∧ n ≤ b.length
  /-- L2 minimality: the reported position is the shortest prefix with a definite answer -/
  minimal : ∀ b n, (D.dec b).pos? = some n →
    (∀ k, k < n → (D.dec (b.take k)).isIncomplete = true) ∧ D.dec (b.take n) = D.dec b
  /-- L3 lower bound (`incomplete_is_sound`): the licence for `FrameDecoder.expected` -/
  lower : ∀ b c m, D.dec b = .incomplete m → (D.dec (b ++ c)).isIncomplete = false →
    m ≤ (b ++ c).length

/-! ### The invariant of App. B.1 and the reachable configurations -/

/-- the `expected` memo is sound: it is the answer the decoder gave on a prefix of the buffer -/
def ExpSound (D : Dec F E) (flat : Bytes) (exp : Option Nat) : Prop :=
  ∀ m, exp = some m → ∃ flat₀ c, flat = flat₀ ++ c ∧ D.dec flat₀ = .incomplete m

/-- bytes carried by the chunk events of a script -/
def evBytes : List Ev → Bytes
  | [] => []
  | .chunk b :: r => b ++ evBytes r
  | _ :: r => evBytes r

/-- transport chunks are non-empty (assumption R-T) -/
def ScriptOK (sc : List Ev) : Prop := ∀ b, Ev.chunk b ∈ sc → b ≠ []

/-- what an API answer contributes to the observations, at byte granularity -/
def Out.toks : Out F E → List (Tok F E)
  | .frame f => [.frame f]
  | .data b => b.map .byte
  | _ => []

/-- `Inv D seen toks s`: after the chunks `seen` have been taken from the transport and the
    tokens `toks` have been handed out, the state `s` is consistent with the reference
    automaton: the consumed bytes are a prefix of `seen`, the rest is exactly the buffer, the
    automaton run over the consumed bytes emits exactly `toks` and stands at a frame boundary
    (`remaining = 0`) or `remaining` bytes before the end of a DATA payload; the memo is sound. -/
structure Inv (D : Dec F E) (seen : Bytes) (toks : List (Tok F E)) (s : St) : Prop where
  ne : ∀ c ∈ s.buf, c ≠ []
  split : ∃ consumed, seen = consumed ++ s.flat ∧
    run D (.hdr []) consumed = (PSt.ofRem s.remaining, toks)
  exp : ExpSound D s.flat s.expected
  expData : s.remaining ≠ 0 → s.expected = none

/-- `Boundary D w rem`: the byte string `w` is a concatenation of whole frames (each one a
    buffer on which the decoder answers with exactly its length) and DATA payload bytes, and
    ends `rem` bytes before the end of a DATA payload (`rem = 0`: at a frame boundary).
    This is the §7.1 segmentation, stated without the automaton. -/
inductive Boundary (D : Dec F E) : Bytes → Nat → Prop where
  | nil : Boundary D [] 0
  | frame {w b : Bytes} {f : F} : Boundary D w 0 → D.dec b = .frame f b.length →
      Boundary D (w ++ b) (D.kind f).rem
  | skip {w b : Bytes} : Boundary D w 0 → D.dec b = .unknown b.length → Boundary D (w ++ b) 0
  | data {w d : Bytes} {rem : Nat} : Boundary D w rem → d.length ≤ rem →
      Boundary D (w ++ d) (rem - d.length)

/-- an answer that ends the use of the stream -/
def Out.isErr : Out F E → Bool
  | .errProto _ => true
  | .errEnd => true
  | .errQuic _ => true
  | .panic => true
  | _ => false

/-- configurations (tokens handed out so far, state, rest of the script) reachable from the
    initial state by *any* sequence of `poll_next`/`poll_data` calls in which no call is made
    after an error answer; `poll_next` with `remaining ≠ 0` answers `panic` (an error answer),
    so the documented precondition is respected along every path. -/
inductive Reach (D : Dec F E) (sc0 : List Ev) : List (Tok F E) → St → List Ev → Prop where
  | init : Reach D sc0 [] {} sc0
  | next {toks s script o s' script'} : Reach D sc0 toks s script →
      pollNext D s script = (o, s', script') → o.isErr = false →
      Reach D sc0 (toks ++ o.toks) s' script'
  | data {toks s script o s' script'} : Reach D sc0 toks s script →
      pollData s script = (o, s', script') → o.isErr = false →
      Reach D sc0 (toks ++ o.toks) s' script'

end H3.FS
