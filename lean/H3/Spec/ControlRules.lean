import H3.Model.Varint
/-! Oracle for property C04, written from RFC 9114 §6.2 (unidirectional streams), §6.2.1 (control
    streams), §6.2.2/§6.2.3 (push and reserved stream types), §7.2.1–§7.2.8 (which frames are
    permitted where), RFC 9204 §4.2 (QPACK streams) and draft-ietf-webtrans-http3 §4.2 (WebTransport
    unidirectional streams).  It does not share the code's structure: it is a table from
    *what the peer did* (in RFC terms) to a verdict, plus the RFC 9000 §16 reading of the stream
    header.

    A verdict is `ok` (no connection error may be raised), `must cs` (a connection error with one
    of the codes `cs` must be raised: where two rules of the RFC apply to the same situation either
    code is accepted, R-04) or `may cs` (the property does not constrain the situation, so no error
    or one of `cs` are both accepted).  `may` is used for exactly these (reading R-04b, DESIGN.md
    section 9): the rules of *server push*, which the property's text does not name and h3 does not
    implement — a push stream (§6.2.2, §4.6), CANCEL_PUSH (§7.2.3), a MAX_PUSH_ID that goes down
    (§7.2.7) —, the WebTransport signal value used as a frame type on a control stream, the
    closing of the peer's QPACK encoder / decoder stream (`qpackClosed`; RFC 9204 §4.2 demands
    H3_CLOSED_CRITICAL_STREAM, the property's text names only the control stream: reading R-04e) and the
    endpoint's own streams before it has to write on them (`ownStopped`).  `verdictRfc` below is the
    table with the RFC's demands in those places too; `C04_rfc_table_differs_only_on_push` says that
    the two differ nowhere else (server push and `qpackClosed`).  The identifier rules of GOAWAY (§5.2, §7.2.6; C08 names them) are
    demanded (`must`). -/
namespace H3.Spec.ControlRules
open H3.Varint

/-! RFC 9114 §8.1 -/
def H3_STREAM_CREATION_ERROR : Nat := 0x0103
def H3_CLOSED_CRITICAL_STREAM : Nat := 0x0104
def H3_FRAME_UNEXPECTED : Nat := 0x0105
def H3_FRAME_ERROR : Nat := 0x0106
def H3_ID_ERROR : Nat := 0x0108
def H3_SETTINGS_ERROR : Nat := 0x0109
def H3_MISSING_SETTINGS : Nat := 0x010a

/-! ### The header of a unidirectional stream (§6.2): a stream type, sent as a variable-length
    integer; push streams (§4.6) and WebTransport streams carry one more integer. -/

def TY_CONTROL : Nat := 0x00
def TY_PUSH : Nat := 0x01
def TY_QPACK_ENCODER : Nat := 0x02
def TY_QPACK_DECODER : Nat := 0x03
def TY_WEBTRANSPORT_UNI : Nat := 0x54

inductive Hdr where
  /-- type, push/session id if the type has one, and the bytes that follow the header -/
  | complete (ty : Nat) (id : Option Nat) (rest : Bytes)
  | incomplete
deriving Repr, DecidableEq

def hasId (ty : Nat) : Bool := ty == TY_PUSH || ty == TY_WEBTRANSPORT_UNI

def header (w : Bytes) : Hdr :=
  match rfcDecode w with
  | none => .incomplete
  | some (ty, r1) =>
    if hasId ty then
      match rfcDecode r1 with
      | none => .incomplete
      | some (id, r2) => .complete ty (some id) r2
    else .complete ty none r1

inductive StreamTy where
  | control | push | encoder | decoder
  /-- WebTransport unidirectional stream, the extension being enabled -/
  | wtUni
  /-- reserved (`0x1f * N + 0x21`) or any other type this endpoint does not know -/
  | unknown
deriving Repr, DecidableEq

def streamTy (wtEnabled : Bool) (ty : Nat) : StreamTy :=
  if ty = TY_CONTROL then .control
  else if ty = TY_PUSH then .push
  else if ty = TY_QPACK_ENCODER then .encoder
  else if ty = TY_QPACK_DECODER then .decoder
  else if ty = TY_WEBTRANSPORT_UNI then (if wtEnabled then .wtUni else .unknown)
  else .unknown

/-! ### What the peer can do -/

/-- what arrives on the peer's control stream (frames of unknown type are not listed: §7.2.8/§9
    they "MUST be ignored", i.e. they are no event at all) -/
inductive CtlEv where
  /-- a SETTINGS frame with an acceptable payload -/
  | settings
  /-- a SETTINGS frame whose payload is itself an error (§7.2.4.1; details are C13's) -/
  | badSettings
  | data | headers | pushPromise
  | goaway (id : Nat) | cancelPush (id : Nat) | maxPushId (id : Nat)
  /-- a frame type reserved because of HTTP/2 (§7.2.8) -/
  | h2 (ty : Nat)
  /-- a frame of a known type whose payload is longer or shorter than its fields (§7.1) -/
  | malformed
  /-- the stream is closed in the middle of a frame -/
  | truncatedFin
  /-- the stream is closed at a frame boundary -/
  | fin
  | reset
  /-- the WebTransport signal value 0x41 used as a frame type -/
  | wtSignal
deriving Repr, DecidableEq

inductive Ev where
  /-- a unidirectional stream whose header announces this type -/
  | stream (t : StreamTy)
  /-- a unidirectional stream closed or reset before its header was complete -/
  | closedEarly
  | ctl (e : CtlEv)
  /-- the peer's QPACK encoder or decoder stream — a stream whose header announced type 0x02 / 0x03
      and that was accepted as such — is closed (FIN) or reset (RFC 9204 §4.2: "Closure of either
      unidirectional stream type MUST be treated as a connection error of type
      H3_CLOSED_CRITICAL_STREAM") -/
  | qpackClosed
deriving Repr, DecidableEq

structure St where
  control : Bool := false
  encoder : Bool := false
  decoder : Bool := false
  settings : Bool := false
  lastGoaway : Option Nat := none
  maxPush : Option Nat := none
deriving Repr, DecidableEq

inductive Verdict where
  | ok
  | must (codes : List Nat)
  | may (codes : List Nat)
deriving Repr, DecidableEq

/-- §5.2: identifiers of successive GOAWAY frames must not increase; §7.2.6: towards a client the
    identifier is that of a client-initiated bidirectional stream. -/
def goawayOk (server : Bool) (s : St) (id : Nat) : Bool :=
  (server || id % 4 == 0) &&
  (match s.lastGoaway with
   | some prev => decide (id ≤ prev)
   | none => true)

def maxPushOk (s : St) (id : Nat) : Bool :=
  match s.maxPush with
  | some prev => decide (prev ≤ id)
  | none => true

/-- first frame of the control stream (§6.2.1: "If the first frame of the control stream is any
    other frame type, this MUST be treated as a connection error of type H3_MISSING_SETTINGS") -/
def firstFrame (s : St) : CtlEv → Verdict × St
  | .settings => (.ok, { s with settings := true })
  | .badSettings => (.must [H3_SETTINGS_ERROR], s)
  | .fin => (.must [H3_CLOSED_CRITICAL_STREAM], s)
  | .reset => (.must [H3_CLOSED_CRITICAL_STREAM], s)
  | .truncatedFin => (.must [H3_CLOSED_CRITICAL_STREAM, H3_FRAME_ERROR, H3_MISSING_SETTINGS], s)
  | .h2 _ => (.must [H3_MISSING_SETTINGS, H3_FRAME_UNEXPECTED], s)
  | .malformed => (.must [H3_FRAME_ERROR, H3_MISSING_SETTINGS], s)
  | .wtSignal => (.may [H3_MISSING_SETTINGS, H3_FRAME_UNEXPECTED], s)
  | _ => (.must [H3_MISSING_SETTINGS], s)

/-- any later frame -/
def laterFrame (server : Bool) (s : St) : CtlEv → Verdict × St
  | .settings => (.must [H3_FRAME_UNEXPECTED], s)                              -- §7.2.4
  | .badSettings => (.must [H3_FRAME_UNEXPECTED, H3_SETTINGS_ERROR], s)
  | .data => (.must [H3_FRAME_UNEXPECTED], s)                                  -- §7.2.1
  | .headers => (.must [H3_FRAME_UNEXPECTED], s)                               -- §7.2.2
  | .pushPromise => (.must [H3_FRAME_UNEXPECTED], s)                           -- §7.2.5
  | .h2 _ => (.must [H3_FRAME_UNEXPECTED], s)                                  -- §7.2.8
  | .maxPushId id =>
    if server then
      (if maxPushOk s id then .ok else .may [H3_ID_ERROR], { s with maxPush := some id })
    else (.must [H3_FRAME_UNEXPECTED], s)                                       -- §7.2.7
  | .cancelPush _ =>
    -- server push: not named by the property (R-04b); §7.2.3 has H3_ID_ERROR for ids never
    -- promised / never allowed (`verdictRfc`)
    (if server then .may [H3_ID_ERROR] else .may [H3_ID_ERROR, H3_FRAME_UNEXPECTED], s)
  | .goaway id =>
    -- §5.2 "Receiving a GOAWAY containing a larger identifier than previously received MUST be
    -- treated as a connection error of type H3_ID_ERROR"; §7.2.6 the same for an identifier that is
    -- not a client-initiated bidirectional stream id, sent to a client
    (if goawayOk server s id then .ok else .must [H3_ID_ERROR], { s with lastGoaway := some id })
  | .malformed => (.must [H3_FRAME_ERROR], s)                                  -- §7.1
  | .truncatedFin => (.must [H3_CLOSED_CRITICAL_STREAM, H3_FRAME_ERROR], s)    -- §6.2.1 / §7.1
  | .fin => (.must [H3_CLOSED_CRITICAL_STREAM], s)                             -- §6.2.1
  | .reset => (.must [H3_CLOSED_CRITICAL_STREAM], s)
  | .wtSignal => (.may [H3_FRAME_UNEXPECTED], s)

def verdict (server : Bool) (s : St) : Ev → Verdict × St
  | .stream .control =>
    if s.control then (.must [H3_STREAM_CREATION_ERROR], s) else (.ok, { s with control := true })
  | .stream .encoder =>
    if s.encoder then (.must [H3_STREAM_CREATION_ERROR], s) else (.ok, { s with encoder := true })
  | .stream .decoder =>
    if s.decoder then (.must [H3_STREAM_CREATION_ERROR], s) else (.ok, { s with decoder := true })
  -- server push: not named by the property (R-04b); §6.2.2: a server receiving a push stream,
  -- §4.6: a push id the client never allowed (`verdictRfc`)
  | .stream .push => (.may [H3_STREAM_CREATION_ERROR, H3_ID_ERROR], s)
  | .stream .wtUni => (.ok, s)
  | .stream .unknown => (.ok, s)        -- §6.2: "MUST NOT consider unknown stream types to be a connection error of any kind"
  | .closedEarly => (.ok, s)            -- §6.2: "MUST tolerate unidirectional streams being closed or reset prior to the reception of the unidirectional stream header"
  | .ctl e =>
    -- a frame can only be seen on a control stream that exists
    if s.control then (if s.settings then laterFrame server s e else firstFrame s e)
    else (.ok, s)
  -- RFC 9204 §4.2 demands H3_CLOSED_CRITICAL_STREAM; the property's text names the closing or
  -- resetting of the *control* stream only (reading R-04e): no error or that error (`verdictRfc`
  -- has the RFC's demand)
  | .qpackClosed => (.may [H3_CLOSED_CRITICAL_STREAM], s)

/-! ### RFC 9114 / RFC 9204 by the letter where the property is silent: server push, QPACK streams closed

    For an endpoint that never sends MAX_PUSH_ID and never PUSH_PROMISE (h3 has no API for either):
    §6.2.2 "Only servers can push; if a server receives a client-initiated push stream, this MUST be
    treated as a connection error of type H3_STREAM_CREATION_ERROR"; §4.6 "A client MUST treat receipt
    of a push stream as a connection error of type H3_ID_ERROR when no MAX_PUSH_ID frame has been
    sent"; §7.2.3 "If a CANCEL_PUSH frame is received that references a push ID greater than
    currently allowed on the connection, this MUST be treated as a connection error of type
    H3_ID_ERROR" (a client that allowed none) and "If a server receives a CANCEL_PUSH frame for a push
    ID that has not yet been mentioned by a PUSH_PROMISE frame, this MUST be treated as a connection
    error of type H3_ID_ERROR"; §7.2.7 "receipt of a MAX_PUSH_ID frame that contains a smaller value
    than previously received MUST be treated as a connection error of type H3_ID_ERROR".
    RFC 9204 §4.2 (the peer's QPACK encoder / decoder stream): "Closure of either unidirectional
    stream type MUST be treated as a connection error of type H3_CLOSED_CRITICAL_STREAM".
    Engine `ctlrfc` judges with this table; the check reports where the code departs from it as a
    NOTE (not a violation of C04). -/

def laterFrameRfc (server : Bool) (s : St) : CtlEv → Verdict × St
  | .cancelPush _ => (.must [H3_ID_ERROR], s)
  | .maxPushId id =>
    if server then
      (if maxPushOk s id then .ok else .must [H3_ID_ERROR], { s with maxPush := some id })
    else laterFrame server s (.maxPushId id)
  | e => laterFrame server s e

def verdictRfc (server : Bool) (s : St) : Ev → Verdict × St
  | .stream .push => (if server then .must [H3_STREAM_CREATION_ERROR] else .must [H3_ID_ERROR], s)
  | .qpackClosed => (.must [H3_CLOSED_CRITICAL_STREAM], s)
  | .ctl e =>
    if s.control && s.settings then laterFrameRfc server s e else verdict server s (.ctl e)
  | e => verdict server s e

/-! ### The endpoint's own critical streams

    §6.2.1: "If either control stream is closed at any point, this MUST be treated as a connection
    error of type H3_CLOSED_CRITICAL_STREAM" (RFC 9204 §4.2 says the same of the QPACK streams) and
    "the receiver MUST NOT request that the sender close the control stream".  A peer that sends
    STOP_SENDING for the endpoint's control stream requests just that.  QUIC tells the sender about it
    when it next uses the stream, so the error is demanded (`must`) where the endpoint has to write on
    the stopped control stream — its SETTINGS at the end of the setup, the GOAWAY a server sends before
    `accept` reports "no more requests" — and allowed (`may`) from the moment the request is in.  The
    QPACK streams are not named by the property: `may`. -/

inductive OwnStream where
  | control | qpack
deriving Repr, DecidableEq

/-- the peer has asked the endpoint to stop sending on one of its own critical streams; `due` = the
    endpoint has to write on that stream now -/
def ownStopped (s : OwnStream) (due : Bool) : Verdict :=
  match s, due with
  | .control, true => .must [H3_CLOSED_CRITICAL_STREAM]
  | _, _ => .may [H3_CLOSED_CRITICAL_STREAM]

end H3.Spec.ControlRules
