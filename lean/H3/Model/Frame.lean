import H3.Model.Varint
import H3.Gen.Consts
import H3.Gen.Settings
/-! Model of `Frame::<PayloadLen>::decode` (`h3/src/proto/frame.rs`) on a contiguous view of the
    buffered bytes (the `Cursor` over the chunk list reads through chunk boundaries; that it
    does is part of the correspondence run, which cuts inputs at every offset).

    Frame-type numbers come from the generated `H3.Gen.Consts`. -/
namespace H3.Frame
open H3.Varint H3.Gen.Consts

inductive SettingsErr where
  | malformed | invalidId (id : Nat) | repeated (id : Nat) | exceeded | invalidValue (id v : Nat)
deriving Repr, DecidableEq

/-- `SettingId::is_forbidden` -/
def settingForbidden (id : Nat) : Bool := id == 0 || id == 2 || id == 3 || id == 4 || id == 5

/-- `SettingId::is_supported` -/
def settingSupported (id : Nat) : Bool :=
  id == SETTING_MAX_HEADER_LIST_SIZE || id == SETTING_QPACK_MAX_TABLE_CAPACITY ||
  id == SETTING_QPACK_MAX_BLOCKED_STREAMS || id == SETTING_ENABLE_CONNECT_PROTOCOL ||
  id == SETTING_ENABLE_WEBTRANSPORT || id == SETTING_WEBTRANSPORT_MAX_SESSIONS ||
  id == SETTING_H3_DATAGRAM

/-- `SettingId::is_boolean`: the list is read from the source by the translator (`[]` = the source has no such test,
    the shape before the repair of D-13b) -/
def settingBoolean (id : Nat) : Bool := H3.Gen.Settings.booleanIds.contains id

/-- `Settings::insert` on the entry list (capacity `SETTINGS_LEN = 8`). -/
def settingsInsert (es : List (Nat × Nat)) (id v : Nat) : Except SettingsErr (List (Nat × Nat)) :=
  if es.length ≥ 8 then .error .exceeded
  else if es.any (fun e => e.1 == id) then .error (.repeated id)
  else .ok (es ++ [(id, v)])

/-- `Settings::decode` over the payload (fuel = payload length: every round consumes ≥ 2 bytes). -/
def settingsDecodeAux : Nat → Bytes → List (Nat × Nat) → Except SettingsErr (List (Nat × Nat))
  | 0, _, es => .ok es
  | fuel+1, bs, es =>
    if bs = [] then .ok es
    else if bs.length < 2 then .error .malformed
    else match Varint.decode bs with
      | .endOf _ => .error .malformed
      | .ok id r1 => match Varint.decode r1 with
        | .endOf _ => .error .malformed
        | .ok v r2 =>
          if settingForbidden id then .error (.invalidId id)
          else if settingSupported id then
            if settingBoolean id && decide (1 < v) then .error (.invalidValue id v) else
            match settingsInsert es id v with
            | .error e => .error e
            | .ok es' => settingsDecodeAux fuel r2 es'
          else settingsDecodeAux fuel r2 es

def settingsDecode (payload : Bytes) : Except SettingsErr (List (Nat × Nat)) :=
  settingsDecodeAux (payload.length + 1) payload []

inductive Frame where
  | data (len : Nat)
  | headers (payload : Bytes)
  | cancelPush (id : Nat)
  | settings (entries : List (Nat × Nat))
  | pushPromise (id : Nat) (encoded : Bytes)
  | goaway (id : Nat)
  | maxPushId (id : Nat)
  | webTransport (session : Nat)
deriving Repr, DecidableEq

/-- the `FrameError`s that are not `Incomplete`/`UnknownFrame` -/
inductive FrameErr where
  | malformed
  | unsupported (ty : Nat)
  | settings (e : SettingsErr)
deriving Repr, DecidableEq

inductive DecRes where
  /-- `Ok(frame)`, cursor advanced by `n` -/
  | frame (f : Frame) (n : Nat)
  /-- `Err(UnknownFrame)`, cursor advanced by `n` (header and payload skipped) -/
  | unknown (n : Nat)
  /-- `Err(Incomplete(m))` -/
  | incomplete (m : Nat)
  | error (e : FrameErr)
deriving Repr, DecidableEq

def isH2 (ty : Nat) : Bool :=
  ty == FRAME_H2_PRIORITY || ty == FRAME_H2_PING || ty == FRAME_H2_WINDOW_UPDATE ||
  ty == FRAME_H2_CONTINUATION

/-- a payload that must be exactly one varint (CANCEL_PUSH, GOAWAY, MAX_PUSH_ID) -/
def oneVarint (payload : Bytes) : Option Nat :=
  match Varint.decode payload with
  | .endOf _ => none
  | .ok v rest => if rest = [] then some v else none

/-- the typed arms of `Frame::decode` once `len` payload bytes are known to be buffered;
    `n` = header size + `len`. -/
def typed (ty : Nat) (payload : Bytes) (n : Nat) : DecRes :=
  if ty = FRAME_HEADERS then .frame (.headers payload) n
  else if ty = FRAME_SETTINGS then
    match settingsDecode payload with
    | .error e => .error (.settings e)
    | .ok es => .frame (.settings es) n
  else if ty = FRAME_CANCEL_PUSH then
    match oneVarint payload with
    | none => .error .malformed
    | some v => .frame (.cancelPush v) n
  else if ty = FRAME_PUSH_PROMISE then
    match Varint.decode payload with
    | .endOf _ => .error .malformed
    | .ok id rest => .frame (.pushPromise id rest) n
  else if ty = FRAME_GOAWAY then
    match oneVarint payload with
    | none => .error .malformed
    | some v => .frame (.goaway v) n
  else if ty = FRAME_MAX_PUSH_ID then
    match oneVarint payload with
    | none => .error .malformed
    | some v => .frame (.maxPushId v) n
  else if isH2 ty then .error (.unsupported ty)
  else .unknown n

/-- after the type: everything except the WebTransport special case -/
def afterType (total : Nat) (ty : Nat) (r1 : Bytes) : DecRes :=
  match Varint.decode r1 with
  | .endOf _ => .incomplete (total + 1)
  | .ok len r2 =>
    if ty = FRAME_DATA then .frame (.data len) (total - r2.length)
    else if r2.length < len then .incomplete (2 + len)
    else typed ty (r2.take len) (total - r2.length + len)

/-- `Frame::decode` on the bytes visible through the cursor. -/
def decode (bs : Bytes) : DecRes :=
  match Varint.decode bs with
  | .endOf _ => .incomplete (bs.length + 1)
  | .ok ty r1 =>
    if ty = FRAME_WEBTRANSPORT_BI_STREAM then
      match Varint.decode r1 with
      | .endOf k => .incomplete k
      | .ok sid r2 => .frame (.webTransport sid) (bs.length - r2.length)
    else afterType bs.length ty r1

end H3.Frame
