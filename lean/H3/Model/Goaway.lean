import H3.Model.StreamId
/-! Model of graceful shutdown (GOAWAY), both roles.

Server: `h3/src/server/connection.rs` `shutdown`, `accept`, `poll_accept_request_stream_internal`
(the accept/reject filter, `last_accepted_stream`, `sent_closing`, `recv_closing`,
`ongoing_streams`), `h3/src/connection.rs` `ConnectionInner::{shutdown, process_goaway}`,
`set_closing`.  Client: `h3/src/client/connection.rs` `poll_close` (GOAWAY rules) and the
`send_request` gates `check_peer_connection_closing` (on entry, and again behind `poll_open_bidi`).

The model describes the code after the D-08 repair: the identifier announced is *exclusive*
(`largest accepted + (n+1)` in `StreamId` arithmetic, `FIRST_REQUEST + n` when nothing was
accepted) and the filter rejects `>=`.

One `Ev.accept` is one call of `accept()` polled until it returns or parks: it first drains the
control stream (`poll_control`), then takes streams from the transport's queue of opened
bidirectional streams until one is surfaced or the queue is empty; `None` is decided only with
an empty queue (after the D-08b repair a refusal is remembered — `refused` — and the loop goes on
with the streams queued behind the refused one).

Client `send_request` is two events (after the D-08c repair the code has two gates): `sendCall`
— the call is made, first gate, then it waits in `poll_open_bidi` (`parked`) — and `sendOpened`
— the transport hands the call its stream (at once when there is stream credit, otherwise when
the peer grants it), second gate, then the request is written.  Whatever happens between the two
(GOAWAYs received, driver polls) is seen by the second gate.
Request completion is taken as already seen by the connection (`poll_requests_completion` is
run before every look at `ongoing_streams`; the channel itself is modelled in `H3.Drain`). -/
namespace H3.Goaway
open H3.StreamId

structure State where
  /-- `sent_closing`: identifier of the last GOAWAY written. -/
  sentClosing : Option Nat := none
  /-- `last_accepted_stream`: after the repair the largest accepted stream ID. -/
  largest : Option Nat := none
  /-- `recv_closing`: identifier of the last GOAWAY processed. -/
  recvClosing : Option Nat := none
  /-- `ongoing_streams` (a set; kept as a list, insertion = cons, removal = filter). -/
  ongoing : List Nat := []
  /-- transport: bidirectional streams opened by the peer and not yet taken by `accept`. -/
  incoming : List Nat := []
  /-- transport: GOAWAY identifiers received on the control stream, not yet processed. -/
  ctl : List Nat := []
  /-- `SharedState.closing`. -/
  closing : Bool := false
  /-- a connection error (H3_ID_ERROR) has been recorded. -/
  failed : Bool := false
  /-- client: number of request streams opened so far. -/
  opened : Nat := 0
  /-- client: calls of `send_request` that passed the first gate and wait in `poll_open_bidi`. -/
  parked : Nat := 0
deriving Repr, DecidableEq

inductive Ev where
  /-- the peer opens request stream `id` (it enters the transport's queue). -/
  | arrive (id : Nat)
  /-- the application calls `accept()` / the parked call is polled again. -/
  | accept
  /-- the application calls `shutdown(n)`. -/
  | shutdown (n : Nat)
  /-- every handle of request `id` is gone and the connection has been told. -/
  | complete (id : Nat)
  /-- a GOAWAY frame with identifier `id` arrives on the peer's control stream. -/
  | recvGoaway (id : Nat)
  /-- client: the driver (`poll_close`) is polled. -/
  | pollClose
  /-- client: `send_request` is called: the first gate; then the call waits for its stream. -/
  | sendCall
  /-- client: `poll_open_bidi` of the longest-waiting `send_request` call resolves (there was stream
      credit, or the peer has granted it): the second gate; then the request is written. -/
  | sendOpened
  /-- the application calls `resolve_request` on request `id` (shown to it earlier, handle not yet
      dropped); the peer has sent a complete, well-formed HEADERS frame on the stream. -/
  | resolve (id : Nat)
deriving Repr, DecidableEq

inductive Obs where
  /-- GOAWAY frame written on h3's control stream. -/
  | goaway (id : Nat)
  /-- `accept` returned the request on stream `id`. -/
  | surfaced (id : Nat)
  /-- stream `id`: `stop_sending` + `reset`, both with H3_REQUEST_REJECTED. -/
  | rejected (id : Nat)
  | acceptNone
  | acceptPending
  /-- `accept` returned the connection error (H3_ID_ERROR). -/
  | acceptErr
  | shutdownOk
  /-- `shutdown` returned the connection error recorded before (H3_ID_ERROR): nothing was written. -/
  | shutdownErr
  /-- client driver returned the connection error H3_ID_ERROR. -/
  | idError
  | drvPending
  /-- `send_request` opened request stream `id`. -/
  | opened (id : Nat)
  /-- `send_request` returned `RemoteClosing`; nothing was written on any request stream. -/
  | remoteClosing
  /-- `send_request` had opened stream `id` when its second gate refused the request: the stream is
      dropped without a byte (shown in front of that call's `remoteClosing`). -/
  | unused (id : Nat)
  /-- `resolve_request` returned the request on stream `id`: it is being served. -/
  | served (id : Nat)
  /-- `resolve_request` on stream `id` failed or never returned although the peer sent a complete,
      well-formed request.  The model never shows this; it exists for the oracle
      (`H3.Spec.Goaway.okObs`) and the judge of observed histories. -/
  | notServed (id : Nat)
  /-- the peer has opened request stream `id` (transport).  Like the next two never shown by `step`:
      the scenario interpreter and the projection put them into a history for the oracle's queue
      rules (`H3.Spec.Goaway.okQueue`). -/
  | arrived (id : Nat)
  /-- the application has dropped its last handle of request `id`. -/
  | completed (id : Nat)
  /-- the application calls `shutdown(n)` (in front of that call's answer). -/
  | shutdownCalled (n : Nat)
deriving Repr, DecidableEq

/-! ### `shutdown` -/

/-- `max_requests.saturating_add(1)` (`usize`, 64 bit). -/
def succSat (n : Nat) : Nat := min (n + 1) U64MAX

/-- `StreamId::FIRST_REQUEST`. -/
def FIRST_REQUEST : Nat := 0

/-- server `Connection::shutdown`: the identifier to announce, `n` more requests may still be
    accepted. -/
def shutdownId (largest : Option Nat) (n : Nat) : Nat :=
  match largest with
  | some id => add id (succSat n)
  | none => add FIRST_REQUEST n

/-- `ConnectionInner::shutdown`: nothing is sent when the previous identifier is not larger. -/
def keepsPrevious (sent : Option Nat) (maxId : Nat) : Bool :=
  match sent with
  | some g => decide (g ≤ maxId)
  | none => false

def shutdown (s : State) (n : Nat) : State × List Obs :=
  let maxId := shutdownId s.largest n
  if keepsPrevious s.sentClosing maxId then (s, [])
  else ({ s with sentClosing := some maxId, closing := true }, [.goaway maxId])

/-! ### receiving GOAWAY -/

def largerThanBefore (prev : Option Nat) (id : Nat) : Bool :=
  match prev with
  | some p => decide (p < id)
  | none => false

/-- `ConnectionInner::process_goaway`. -/
def processGoaway (s : State) (id : Nat) : State :=
  if largerThanBefore s.recvClosing id then { s with failed := true }
  else { s with recvClosing := some id, closing := true }

/-- server `poll_control`: every GOAWAY waiting on the control stream, until an error. -/
def procCtlServer : State → List Nat → State
  | s, [] => { s with ctl := [] }
  | s, id :: rest =>
    let s' := processGoaway s id
    if s'.failed then { s' with ctl := rest } else procCtlServer s' rest

/-- client `poll_close`: the identifier must be a client-initiated bidirectional stream ID. -/
def procCtlClient : State → List Nat → State
  | s, [] => { s with ctl := [] }
  | s, id :: rest =>
    if isRequest id then
      let s' := processGoaway s id
      if s'.failed then { s' with ctl := rest } else procCtlClient s' rest
    else { s with failed := true, ctl := rest }

/-! ### `accept` -/

/-- the filter of `poll_accept_request_stream_internal` (`>=` after the repair). -/
def rejects (sent : Option Nat) (id : Nat) : Bool :=
  match sent with
  | some g => decide (g ≤ id)
  | none => false

def maxOpt (l : Option Nat) (id : Nat) : Nat :=
  match l with
  | some a => max a id
  | none => id

def surface (s : State) (id : Nat) (rest : List Nat) : State :=
  { s with incoming := rest, largest := some (maxOpt s.largest id), ongoing := id :: s.ongoing }

/-- `accept` got `None` from the poll function: a last GOAWAY (`shutdown(0)`), then `Ok(None)`. -/
def acceptNone (s : State) : State × List Obs :=
  let r := shutdown s 0
  (r.1, r.2 ++ [.acceptNone])

/-- no stream is waiting: `(rejected || recv_closing.is_some()) && poll_requests_completion().is_ready()`. -/
def drained (refused : Bool) (s : State) : Bool := (refused || s.recvClosing.isSome) && s.ongoing.isEmpty

/-- the loop of `poll_accept_request_stream_internal` over the transport's queue; `refused` = a stream
    has been refused earlier in this poll (the local `rejected`). -/
def acceptLoop (refused : Bool) (s : State) : List Nat → State × List Obs
  | [] =>
    let s0 := { s with incoming := [] }
    if drained refused s0 then acceptNone s0 else (s0, [.acceptPending])
  | id :: rest =>
    if rejects s.sentClosing id then
      let r := acceptLoop true s rest
      (r.1, .rejected id :: r.2)
    else (surface s id rest, [.surfaced id])

def accept (s : State) : State × List Obs :=
  if s.failed then (s, [.acceptErr]) else
  let s1 := procCtlServer s s.ctl
  if s1.failed then (s1, [.acceptErr]) else acceptLoop false s1 s1.incoming

/-! ### client -/

def pollClose (s : State) : State × List Obs :=
  if s.failed then (s, [.idError]) else
  let s1 := procCtlClient s s.ctl
  if s1.failed then (s1, [.idError]) else (s1, [.drvPending])

/-- `send_request` up to `poll_open_bidi`: the first gate is the `closing` flag; a call that passes
    waits for its stream. -/
def sendCall (s : State) : State × List Obs :=
  if s.closing then (s, [.remoteClosing])
  else ({ s with parked := s.parked + 1 }, [])

/-- `send_request` from `poll_open_bidi` on: the transport has opened the next bidirectional stream
    for the call; the second gate reads the `closing` flag again — a refused call leaves its stream
    without a byte —, otherwise the request is written.  Without a waiting call nothing happens. -/
def sendOpened (s : State) : State × List Obs :=
  if s.parked = 0 then (s, [])
  else
    let s1 := { s with parked := s.parked - 1, opened := s.opened + 1 }
    if s.closing then (s1, [.unused (4 * s.opened), .remoteClosing])
    else (s1, [.opened (4 * s.opened)])

/-! ### the step function -/

def step (s : State) : Ev → State × List Obs
  | .arrive id => ({ s with incoming := s.incoming ++ [id] }, [])
  | .accept => accept s
  | .shutdown n =>
    -- `ConnectionInner::shutdown` starts with `check_connection_error()?`: a failed connection
    -- reports its error, writes nothing and leaves `sent_closing` alone
    if s.failed then (s, [.shutdownErr]) else
    let r := shutdown s n
    (r.1, r.2 ++ [.shutdownOk])
  | .complete id => ({ s with ongoing := s.ongoing.filter (· != id) }, [])
  | .recvGoaway id => ({ s with ctl := s.ctl ++ [id] }, [])
  | .pollClose => pollClose s
  | .sendCall => sendCall s
  | .sendOpened => sendOpened s
  -- `RequestResolver::resolve_request` does not look at `sent_closing` / `recv_closing` / `closing`:
  -- a request that was shown to the application is served whatever the state of the shutdown
  | .resolve id => if s.ongoing.contains id then (s, [.served id]) else (s, [])

/-- a history: the observations of every step, in order. -/
def run : State → List Ev → State × List Obs
  | s, [] => (s, [])
  | s, e :: es =>
    let r := step s e
    let r' := run r.1 es
    (r'.1, r.2 ++ r'.2)

/-- the same history step by step: every event with what it showed. -/
def trace : State → List Ev → List (Ev × List Obs)
  | _, [] => []
  | s, e :: es =>
    let r := step s e
    (e, r.2) :: trace r.1 es

end H3.Goaway
