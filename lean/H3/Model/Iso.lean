import H3.Model.ReqRecv
import H3.Model.ErrCell
import H3.Model.WriteBuf
/-! Model of ONE CONNECTION CARRYING ANY NUMBER OF REQUESTS (C07): the product of the per-request
    machines with the one thing they share, the connection error cell.

    * receive half of a request = the `H3.ReqRecv` machine over the `FrameStream` model
      (`pollResolve`/`pollRecvResponse`, `pollRecvData`, `pollRecvTrailers`, `drain`), unchanged.
      Its `Env.cell` field is where the product plugs in the SHARED cell: a step on stream `i`
      loads the connection's cell into the request's environment, runs the `ReqRecv` poll, and
      stores the cell it leaves back into the connection (`SharedState` is one `Arc` handed to every
      `RequestResolver`/`RequestStream`: `h3/src/shared_state.rs`).
    * the header oracle gets the outcome `tooBig` (`qpack::DecoderError::HeaderTooLong`; `ReqRecv`
      leaves the limit out): the decision is taken at the place where `ReqRecv` goes on with `ok`
      — after the HEADERS frame has been read — so the `ReqRecv` poll runs with `tooBig ↦ ok` and
      its answer is post-processed (`server/request.rs` `resolve`: `send_response(431).await?` then
      `HeaderTooBig`; `client/stream.rs` `recv_response`/`poll_recv_trailers`:
      `stop_sending(H3_REQUEST_CANCELLED)` then `HeaderTooBig`; `connection.rs`
      `poll_recv_trailers`: `HeaderTooBig`).
    * send half of a request: the bytes written on that stream, the STOP_SENDING the peer sent for
      it, finished.  A write after STOP_SENDING fails with the transport's
      `StreamTerminated{code}`, which `handle_quic_stream_error` turns into the stream-level
      `RemoteTerminate{code}` without touching the cell (`connection_error_creators.rs`).  Write
      back-pressure: `stream::write` = `send_data(frame)` + `poll_ready` until everything is written; the
      transport takes what the stream's credit allows (`Cfg.wc` initial credit of every stream, `none` =
      unlimited; the peer grants more, `Peer.grant`), a call that could not write everything answers
      `Pending` and goes on where it stopped when it is polled again; STOP_SENDING ends it with
      `RemoteTerminate` and the buffer is dropped.  (C14 covers the acceptance patterns in detail.)  The
      once-per-connection grease frame of `finish` is off.
    * the driver (`poll_connection_error`): when it finds the cell filled it calls
      `quic::Connection::close` with the code, once (C05).

    A history is a list of `(stream id, event)` pairs and driver polls in ANY order: "all
    interleavings of tasks and deliveries" = "all histories". Events of a stream are peer events
    (chunk / FIN / RESET c / STOP_SENDING c) and application calls on that stream's handle, one
    poll each (plus `body`: one executor poll of a task in the documented loop `recv_data` until
    it answers something else than data, then `recv_trailers` after a clean end). -/
namespace H3.Iso
open H3.Gen.Consts
open H3.ReqRecv (Role Res St FSt Env fsSrc fsFuel first)

abbrev Bytes := List Nat

/-- what `qpack::decode_stateless(.., max_field_section_size)` + `Header::try_from` +
    `into_{request,response}_parts` / `into_trailers` make of a HEADERS payload -/
inductive HClass where
  | ok
  /-- decodes within the limit, the message is malformed (C12) -/
  | malformed
  /-- `DecoderError::HeaderTooLong` (C10) -/
  | tooBig
  /-- any other QPACK error (C11): connection-level, NOT a stream-scoped fault -/
  | qpack
deriving Repr, DecidableEq

structure Hdr where
  head : Bytes → HClass
  trailer : Bytes → HClass

/-- what `ReqRecv` sees of the outcome: the limit is checked where `ReqRecv` goes on with `ok` -/
def HClass.base : HClass → H3.ReqRecv.HClass
  | .ok => .ok
  | .malformed => .malformed
  | .tooBig => .ok
  | .qpack => .qpack

def Hdr.base (H : Hdr) : H3.ReqRecv.Hdr :=
  { head := fun b => (H.head b).base, trailer := fun b => (H.trailer b).base }

structure Cfg where
  role : Role
  hdr : Hdr
  /-- server: field section of the 431 answer `resolve` sends for an oversized request, `none` when
      `send_response` refuses it because it exceeds the CLIENT's limit (`Qpack.serverResolve`,
      `C10_outcomes`: header-too-big is returned either way) -/
  resp431 : Option Bytes := some [0x00, 0x00, 0x5f, 0x09, 0x83, 0x69, 0x90, 0xff]
  /-- transport: does `poll_finish` report an earlier STOP_SENDING (Quinn: yes; SimQuic: no).
      h3 maps whatever it reports through `handle_quic_stream_error`. -/
  finSeesStop : Bool := false
  /-- transport: initial write credit of every stream in bytes (`wc=<n>`); `none` = unlimited -/
  wc : Option Nat := none

/-! ### events -/

inductive Peer where
  /-- a (non-empty) piece of the request/response stream arrives -/
  | chunk (b : Bytes)
  | fin
  /-- RESET_STREAM with any code -/
  | reset (c : Nat)
  /-- STOP_SENDING with any code -/
  | stop (c : Nat)
  /-- the peer grants `n` more bytes of write credit on this stream (flow control) -/
  | grant (n : Nat)
deriving Repr, DecidableEq

inductive Call where
  /-- server `resolve_request`, client `recv_response` (one poll) -/
  | head
  /-- `recv_data` (one poll) -/
  | data
  /-- `recv_trailers` (one poll) -/
  | trailers
  /-- one executor poll of a task running the documented loop, making at most `fuel` `recv_data`
      calls: `recv_data` until it answers something else than data, `recv_trailers` iff that was
      `None`; a poll that ends `Pending` keeps its progress -/
  | body (fuel : Nat)
  /-- server `send_response`; client: the HEADERS write of `send_request` -/
  | sendHead (fs : Bytes)
  | sendData (b : Bytes)
  | sendTrailers (fs : Bytes)
  | finish
deriving Repr, DecidableEq

inductive StreamEv where
  | peer (p : Peer)
  | call (c : Call)
deriving Repr, DecidableEq

/-- answer of one receive poll or of a send call that failed -/
inductive Ans where
  | res (r : Res)
  /-- `StreamError::HeaderTooBig` -/
  | tooBig
deriving Repr, DecidableEq

/-- what the application sees of one event -/
inductive Obs where
  /-- a peer event: nothing is reported until a call looks -/
  | quiet
  | ans (a : Ans)
  /-- the answers of the `recv_data` calls of a `body` poll, then the one of `recv_trailers` -/
  | body (rs : List Res) (t : Option Ans)
  /-- a send call returned `Ok(())` -/
  | ok
  /-- not a step of any program: the handle the call needs does not exist (resolver consumed or
      failed, stream not resolved yet, send half finished) -/
  | noHandle
deriving Repr, DecidableEq

/-! ### one request -/

structure Send where
  /-- every byte h3 wrote on this stream, in order -/
  tx : Bytes := []
  /-- code of the STOP_SENDING the peer sent for this stream (first one) -/
  stopped : Option Nat := none
  fin : Bool := false
  /-- write credit the peer has granted on top of the initial credit `Cfg.wc` -/
  granted : Nat := 0
  /-- the transport's write buffer: what is left of the frame handed to `send_data` that `poll_ready` has
      not been able to write yet (the call in flight is `Pending`) -/
  writing : Option Bytes := none
deriving Repr, DecidableEq

deriving instance DecidableEq for H3.ReqRecv.St

structure Req where
  /-- `ReqRecv` state: frame stream + undelivered transport events, remembered trailers, and
      (`env.rst`, `env.stop`) what h3 sent against this stream; `env.cell` is not used here (kept
      `none`): the cell is the connection's -/
  rx : St FSt := { src := ({}, []) }
  snd : Send := {}
  /-- the `RequestStream` handle exists (server: `resolve_request` returned it) -/
  resolved : Bool := false
  /-- server: the resolver failed, nothing of this request is left to call -/
  gone : Bool := false
  /-- the `body` task is inside `recv_trailers` -/
  atTrailers : Bool := false
deriving DecidableEq

def load (cell : Option Nat) (st : St FSt) : St FSt := { st with env := { st.env with cell := cell } }
def unload (st : St FSt) : St FSt := { st with env := { st.env with cell := none } }

def Req.deliver (r : Req) : Peer → Req
  | .chunk b => { r with rx := { r.rx with src := (r.rx.src.1, r.rx.src.2 ++ [.chunk b]) } }
  | .fin => { r with rx := { r.rx with src := (r.rx.src.1, r.rx.src.2 ++ [.fin]) } }
  | .reset c => { r with rx := { r.rx with src := (r.rx.src.1, r.rx.src.2 ++ [.reset c]) } }
  | .stop c => { r with snd := { r.snd with stopped := first r.snd.stopped c } }
  | .grant n => { r with snd := { r.snd with granted := r.snd.granted + n } }

/-- is the call one the application can make now? (server: only the resolver before it has
    answered, then everything but the resolver; client: the handle is there from `send_request`) -/
def accepts (role : Role) (r : Req) (c : Call) : Bool :=
  match role, r.resolved, c with
  | .server, false, .head => true
  | .server, false, _ => false
  | .server, true, .head => false
  | .server, true, _ => true
  | .client, _, _ => true

/-- bytes the transport still accepts on the stream: initial credit + grants − what it has taken -/
def Send.avail (wc : Option Nat) (s : Send) : Option Nat := wc.map (fun w => w + s.granted - s.tx.length)

/-- `poll_ready` with `w` left to write: the transport takes what the credit allows; `Pending` (the rest
    stays in its buffer) unless that was everything -/
def Send.flush (wc : Option Nat) (s : Send) (w : Bytes) : Send × Obs :=
  match s.avail wc with
  | none => ({ s with tx := s.tx ++ w, writing := none }, .ok)
  | some k =>
    if w.length ≤ k then ({ s with tx := s.tx ++ w, writing := none }, .ok)
    else ({ s with tx := s.tx ++ w.take k, writing := some (w.drop k) }, .ans (.res .pending))

/-- `stream::write(&mut self.stream, frame)` = `send_data(frame)?` then `poll_ready` until it answers, one
    poll: after STOP_SENDING the transport answers `StreamTerminated{c}` ⇒ `RemoteTerminate{c}` (nothing
    more is written, the buffer is dropped); a call polled while a write is in flight is that write's
    future polled again. -/
def Send.write (wc : Option Nat) (s : Send) (f : H3.WriteBuf.SFrame) : Send × Obs :=
  if s.fin then (s, .noHandle) else
  match s.stopped with
  | some c => ({ s with writing := none }, .ans (.res (.errReset c)))
  | none =>
    match s.writing with
    | some rest => s.flush wc rest
    | none =>
      match H3.WriteBuf.fromFrame f with
      | none => (s, .ans (.res .panic))
      | some w => s.flush wc w.view

/-- `finish()` (grease off): `poll_finish` -/
def Send.finish (finSeesStop : Bool) (s : Send) : Send × Obs :=
  if s.fin then (s, .noHandle) else
  match s.stopped with
  | some c => if finSeesStop then (s, .ans (.res (.errReset c))) else ({ s with fin := true }, .ok)
  | none => ({ s with fin := true }, .ok)

/-- `REQUEST_HEADER_FIELDS_TOO_LARGE` on the server: the resolver is consumed; the 431 is written
    on THIS stream unless refused / the peer stopped it (`?` returns the send error instead).  The 431
    write is modelled without back-pressure (ten bytes, the first write of its stream; a
    `resolve_request` pending inside its own `send_response` is not modelled: the scenarios give every
    stream at least 32 bytes of initial credit, so the 431 never waits). -/
def tooBigServer (cfg : Cfg) (r : Req) : Req × Obs :=
  match cfg.resp431 with
  | none => ({ r with gone := true }, .ans .tooBig)
  | some fs =>
    let (s', o) := r.snd.write none (.headers fs)
    ({ r with snd := s', gone := true }, if o = .ok then .ans .tooBig else o)

/-- client: `stop_sending(H3_REQUEST_CANCELLED)` then `HeaderTooBig` -/
def tooBigClient (r : Req) : Req :=
  { r with rx := { r.rx with env := { r.rx.env with stop := first r.rx.env.stop CODE_H3_REQUEST_CANCELLED } } }

/-- server `resolve_request` / client `recv_response`, one poll, the cell as the call finds it -/
def stepHead (cfg : Cfg) (cell : Option Nat) (r : Req) : Req × Option Nat × Obs :=
  let (res, st') := H3.ReqRecv.pollHead cfg.role fsSrc cfg.hdr.base (load cell r.rx)
  let r1 := { r with rx := unload st' }
  match res with
  | .head enc =>
    match cfg.hdr.head enc, cfg.role with
    | .tooBig, .server => ((tooBigServer cfg r1).1, st'.env.cell, (tooBigServer cfg r1).2)
    | .tooBig, .client => (tooBigClient r1, st'.env.cell, .ans .tooBig)
    | _, _ => ({ r1 with resolved := true }, st'.env.cell, .ans (.res res))
  | .pending => (r1, st'.env.cell, .ans (.res .pending))
  | _ =>
    -- `resolve_request(self)` consumes the resolver: after an error nothing is left on a server
    ({ r1 with gone := cfg.role == .server }, st'.env.cell, .ans (.res res))

def stepData (cell : Option Nat) (r : Req) : Req × Option Nat × Obs :=
  let (res, st') := H3.ReqRecv.pollRecvData fsSrc (fsFuel r.rx.src) (load cell r.rx)
  ({ r with rx := unload st' }, st'.env.cell, .ans (.res res))

/-- `poll_recv_trailers` with the size limit put back: a trailer section over the limit is
    `HeaderTooBig` (client: plus `stop_sending(H3_REQUEST_CANCELLED)`) -/
def trailersPoll (cfg : Cfg) (st : St FSt) : Ans × St FSt :=
  let (res, st') := H3.ReqRecv.pollRecvTrailers fsSrc cfg.hdr.base st
  match res with
  | .trailers enc =>
    match cfg.hdr.trailer enc, cfg.role with
    | .tooBig, .server => (.tooBig, st')
    | .tooBig, .client =>
      (.tooBig, { st' with env := { st'.env with stop := first st'.env.stop CODE_H3_REQUEST_CANCELLED } })
    | _, _ => (.res res, st')
  | _ => (.res res, st')

def stepTrailers (cfg : Cfg) (cell : Option Nat) (r : Req) : Req × Option Nat × Obs :=
  let (a, st') := trailersPoll cfg (load cell r.rx)
  ({ r with rx := unload st' }, st'.env.cell, .ans a)

def stepBody (cfg : Cfg) (fuel : Nat) (cell : Option Nat) (r : Req) : Req × Option Nat × Obs :=
  if r.atTrailers then
    let (a, st') := trailersPoll cfg (load cell r.rx)
    ({ r with rx := unload st' }, st'.env.cell, .body [] (some a))
  else
    let (rs, st2) := H3.ReqRecv.drain fsSrc fuel (load cell r.rx)
    if rs.getLast? = some .end_ then
      let (a, st3) := trailersPoll cfg st2
      ({ r with rx := unload st3, atTrailers := true }, st3.env.cell, .body rs (some a))
    else ({ r with rx := unload st2 }, st2.env.cell, .body rs none)

def stepSend (cfg : Cfg) (r : Req) (f : H3.WriteBuf.SFrame) : Req × Obs :=
  let (s', o) := r.snd.write cfg.wc f
  ({ r with snd := s' }, o)

/-- One event of one request: the request's new state, the cell as the step leaves it, and what the
    application sees.  The arguments are everything a step can read: its OWN request state and the
    shared cell — no other request's state is in reach. -/
def Req.step (cfg : Cfg) (cell : Option Nat) (r : Req) : StreamEv → Req × Option Nat × Obs
  | .peer p => (r.deliver p, cell, .quiet)
  | .call c =>
    if r.gone || !accepts cfg.role r c then (r, cell, .noHandle) else
    match c with
    | .head => stepHead cfg cell r
    | .data => stepData cell r
    | .trailers => stepTrailers cfg cell r
    | .body fuel => stepBody cfg fuel cell r
    | .sendHead fs => ((stepSend cfg r (.headers fs)).1, cell, (stepSend cfg r (.headers fs)).2)
    | .sendData b => ((stepSend cfg r (.data b)).1, cell, (stepSend cfg r (.data b)).2)
    | .sendTrailers fs => ((stepSend cfg r (.headers fs)).1, cell, (stepSend cfg r (.headers fs)).2)
    | .finish =>
      ({ r with snd := (r.snd.finish cfg.finSeesStop).1 }, cell, (r.snd.finish cfg.finSeesStop).2)

/-- a request on its own: its events in order, the cell threaded through -/
def Req.run (cfg : Cfg) (cell : Option Nat) (r : Req) : List StreamEv → Req × Option Nat × List Obs
  | [] => (r, cell, [])
  | ev :: rest =>
    let (r', cell', o) := Req.step cfg cell r ev
    let (r'', cell'', os) := Req.run cfg cell' r' rest
    (r'', cell'', o :: os)

/-- the request's own run never writes the cell (started with the cell empty): none of its steps
    is a connection-level error -/
def Req.quiet (cfg : Cfg) (r : Req) : List StreamEv → Prop
  | [] => True
  | ev :: rest => (Req.step cfg none r ev).2.1 = none ∧ Req.quiet cfg (Req.step cfg none r ev).1 rest

def Req.decQuiet (cfg : Cfg) : ∀ (r : Req) (evs : List StreamEv), Decidable (Req.quiet cfg r evs)
  | _, [] => isTrue trivial
  | r, ev :: rest =>
    have := Req.decQuiet cfg (Req.step cfg none r ev).1 rest
    inferInstanceAs (Decidable (_ ∧ _))

instance (cfg : Cfg) (r : Req) (evs : List StreamEv) : Decidable (Req.quiet cfg r evs) :=
  Req.decQuiet cfg r evs

/-! ### the connection -/

structure Conn where
  /-- `SharedState.connection_error`: code of the first internal error stored -/
  cell : Option Nat := none
  /-- codes of the `quic::Connection::close` calls so far, oldest first -/
  closed : List Nat := []
  /-- finite map stream id ↦ request; an absent id is a request nothing has happened to yet;
      the newest binding of an id is the valid one -/
  streams : List (Nat × Req) := []

def lookup (i : Nat) : List (Nat × Req) → Req
  | [] => {}
  | (k, r) :: rest => if k = i then r else lookup i rest

def Conn.get (c : Conn) (i : Nat) : Req := lookup i c.streams
def Conn.set (c : Conn) (i : Nat) (r : Req) : Conn := { c with streams := (i, r) :: c.streams }

/-- One event on stream `x.1`. It reads the shared cell and the state of THAT stream, and writes
    the cell (only `connErr` does) and the state of THAT stream. -/
def step (cfg : Cfg) (c : Conn) (x : Nat × StreamEv) : Conn × Obs :=
  let (r', cell', o) := Req.step cfg c.cell (c.get x.1) x.2
  ({ c with cell := cell' }.set x.1 r', o)

/-- One poll of the connection driver as far as errors go (`poll_connection_error`,
    `close_if_needed`): the first time it finds the cell filled it closes the connection with that
    code (`ErrCell.closeOf` of an internal error; afterwards `handled_connection_error` is set). -/
def drive (c : Conn) : Conn :=
  match c.cell, c.closed with
  | some code, [] => { c with closed := ((H3.ErrCell.closeOf (.internal code 0)).toList.map (·.1)) }
  | _, _ => c

inductive HEv where
  /-- an event of request stream `sid` -/
  | on (sid : Nat) (ev : StreamEv)
  /-- a poll of the connection driver -/
  | drive
deriving Repr, DecidableEq

def hstep (cfg : Cfg) (c : Conn) : HEv → Conn × List (Nat × Obs)
  | .on sid ev => ((step cfg c (sid, ev)).1, [(sid, (step cfg c (sid, ev)).2)])
  | .drive => (drive c, [])

/-- a history from a connection state: the final state and all observations `(stream, what its
    application saw)` in order -/
def run (cfg : Cfg) (c : Conn) : List HEv → Conn × List (Nat × Obs)
  | [] => (c, [])
  | e :: rest =>
    let (c', os) := hstep cfg c e
    let (c'', os') := run cfg c' rest
    (c'', os ++ os')

/-- the events of stream `j` in a history, in their own order -/
def proj (j : Nat) : List HEv → List StreamEv
  | [] => []
  | .on sid ev :: rest => if sid = j then ev :: proj j rest else proj j rest
  | .drive :: rest => proj j rest

/-- what stream `j`'s application saw, in order -/
def obsOf (j : Nat) : List (Nat × Obs) → List Obs
  | [] => []
  | (sid, o) :: rest => if sid = j then o :: obsOf j rest else obsOf j rest

/-- what a run looks like from stream `j`: its final state and its observations -/
def view (j : Nat) (x : Conn × List (Nat × Obs)) : Req × List Obs := (x.1.get j, obsOf j x.2)

end H3.Iso
