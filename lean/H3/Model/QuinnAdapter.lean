/-! Model of the Quinn adapter `h3-quinn/src/lib.rs` (the adapter's own logic only; Quinn, UDP and
    tokio are *outside* this model — what they do is observed by the correspondence run, not proved):

    (a) `WriteBuf` (`h3/src/stream.rs`, its `Buf` impl) and the write loop
        `SendStream::{send_data, poll_ready, poll_finish}` against an *acceptance script*
        (one entry per `quinn::SendStream::poll_write` call);
    (b) the receive-side ownership machine `RecvStream::{poll_data, stop_sending, recv_id}`
        (`stream: Option<quinn::RecvStream>` is `None` while the boxed read future owns the stream);
    (b') `StopSpec`: what `stop_sending` owes the peer, written from the caller's side (a
        specification, not code: reading R-17 of DESIGN.md section 9);
    (c) `convert_connection_error`, `convert_read_error_to_stream_error`,
        `convert_write_error_to_stream_error` as finite tables over Quinn's error enums;
    (d) the unframed write path `SendStreamUnframed::poll_send` against one `poll_write` answer, and
        the `while buf.has_remaining() { ready!(poll_send) }` loop its callers run;
    (e) the unsplit `BidiStream` (every method delegates to one of its halves) and `split`;
    (f) the `OpenStreams` objects (`Connection`, `Connection::opener()`, `OpenStreams::clone()`):
        `poll_open_bidi` / `poll_open_send` against what Quinn's `open_bi()` / `open_uni()` future
        does, `poll_accept_bidi` / `poll_accept_recv` likewise, `close(code, reason)`;
    (g) `h3-quinn/src/datagram.rs`: the two conversion functions and the handlers.

    Panics are explicit (`none` / `.panic`). `u64` codes are `Nat`; Quinn's `VarInt` codes are
    `< 2^62` and are widened to `u64` (`into_inner`, `.into()`), which cannot wrap. -/
namespace H3.QuinnAdapter

abbrev Bytes := List Nat

/-! ## (c) error tables -/

/-- `quinn::ConnectionError` (payloads other than the application close code are irrelevant to the
    adapter and dropped). -/
inductive ConnectionError where
  | versionMismatch
  | transportError
  | connectionClosed
  | applicationClosed (code : Nat)
  | reset
  | timedOut
  | locallyClosed
  | cidsExhausted
deriving Repr, DecidableEq

/-- `quinn::ReadError`. -/
inductive ReadError where
  | reset (code : Nat)
  | connectionLost (e : ConnectionError)
  | closedStream
  | illegalOrderedRead
  | zeroRttRejected
deriving Repr, DecidableEq

/-- `quinn::WriteError`. -/
inductive WriteError where
  | stopped (code : Nat)
  | connectionLost (e : ConnectionError)
  | closedStream
  | zeroRttRejected
deriving Repr, DecidableEq

/-- `h3::quic::ConnectionErrorIncoming`. `undefined` keeps the Quinn error it wraps (`Arc<dyn Error>`). -/
inductive ConnErr where
  | applicationClose (code : Nat)
  | timeout
  | internalError
  | undefined (e : ConnectionError)
deriving Repr, DecidableEq

/-- What `StreamErrorIncoming::Unknown` boxes. -/
inductive Unknown where
  | closedStream
  | zeroRttRejected
deriving Repr, DecidableEq

/-- `h3::quic::StreamErrorIncoming`. -/
inductive StreamErr where
  | connection (e : ConnErr)
  | terminated (code : Nat)
  | unknown (u : Unknown)
deriving Repr, DecidableEq

/-- `convert_connection_error`. -/
def convertConn : ConnectionError → ConnErr
  | .applicationClosed code => .applicationClose code
  | .timedOut => .timeout
  | .versionMismatch => .undefined .versionMismatch
  | .reset => .undefined .reset
  | .locallyClosed => .undefined .locallyClosed
  | .cidsExhausted => .undefined .cidsExhausted
  | .transportError => .undefined .transportError
  | .connectionClosed => .undefined .connectionClosed

/-- `convert_read_error_to_stream_error`; `none` = `panic!("h3-quinn only performs ordered reads")`. -/
def convertRead : ReadError → Option StreamErr
  | .reset code => some (.terminated code)
  | .connectionLost e => some (.connection (convertConn e))
  | .closedStream => some (.unknown .closedStream)
  | .illegalOrderedRead => none
  | .zeroRttRejected => some (.unknown .zeroRttRejected)

/-- `convert_write_error_to_stream_error`. -/
def convertWrite : WriteError → StreamErr
  | .stopped code => .terminated code
  | .connectionLost e => .connection (convertConn e)
  | .closedStream => .unknown .closedStream
  | .zeroRttRejected => .unknown .zeroRttRejected

/-! Names, for the comparison with the arms extracted from the Rust source (`H3.Gen.QuinnTables`)
    and for the line protocol. -/

def ConnectionError.name : ConnectionError → String
  | .versionMismatch => "VersionMismatch"
  | .transportError => "TransportError"
  | .connectionClosed => "ConnectionClosed"
  | .applicationClosed _ => "ApplicationClosed"
  | .reset => "Reset"
  | .timedOut => "TimedOut"
  | .locallyClosed => "LocallyClosed"
  | .cidsExhausted => "CidsExhausted"

def ReadError.name : ReadError → String
  | .reset _ => "Reset"
  | .connectionLost _ => "ConnectionLost"
  | .closedStream => "ClosedStream"
  | .illegalOrderedRead => "IllegalOrderedRead"
  | .zeroRttRejected => "ZeroRttRejected"

def WriteError.name : WriteError → String
  | .stopped _ => "Stopped"
  | .connectionLost _ => "ConnectionLost"
  | .closedStream => "ClosedStream"
  | .zeroRttRejected => "ZeroRttRejected"

def ConnErr.className : ConnErr → String
  | .applicationClose _ => "ApplicationClose"
  | .timeout => "Timeout"
  | .internalError => "InternalError"
  | .undefined _ => "Undefined"

def StreamErr.className : StreamErr → String
  | .connection _ => "ConnectionErrorIncoming"
  | .terminated _ => "StreamTerminated"
  | .unknown _ => "Unknown"

/-- One representative per constructor (code 7 where a code is carried). -/
def allConnectionErrors : List ConnectionError :=
  [.versionMismatch, .transportError, .connectionClosed, .applicationClosed 7, .reset, .timedOut,
   .locallyClosed, .cidsExhausted]
def allReadErrors : List ReadError :=
  [.reset 7, .connectionLost .timedOut, .closedStream, .illegalOrderedRead, .zeroRttRejected]
def allWriteErrors : List WriteError :=
  [.stopped 7, .connectionLost .timedOut, .closedStream, .zeroRttRejected]

/-- What an arm does with the value its pattern binds, judged on the representative: `same` = the
    peer's code is stored unchanged, `conn` = the connection error goes through `convertConn`. -/
def connCarried (e : ConnectionError) : String :=
  match e, convertConn e with
  | .applicationClosed c, .applicationClose c' => if c = c' then "same" else "-"
  | _, _ => "-"
def readCarried (e : ReadError) : String :=
  match e, convertRead e with
  | .reset c, some (.terminated c') => if c = c' then "same" else "-"
  | .connectionLost x, some (.connection y) => if y = convertConn x then "conn" else "-"
  | _, _ => "-"
def writeCarried (e : WriteError) : String :=
  match e, convertWrite e with
  | .stopped c, .terminated c' => if c = c' then "same" else "-"
  | .connectionLost x, .connection y => if y = convertConn x then "conn" else "-"
  | _, _ => "-"

/-- The model's tables as (Quinn variant, h3 class, carried value) triples; class `panic` for the
    panicking arm. Compared with the arms extracted from the source in `C17_tables_match_source`. -/
def connTable : List (String × String × String) :=
  allConnectionErrors.map fun e => (e.name, (convertConn e).className, connCarried e)
def readTable : List (String × String × String) :=
  allReadErrors.map fun e =>
    (e.name, (match convertRead e with | some x => x.className | none => "panic"), readCarried e)
def writeTable : List (String × String × String) :=
  allWriteErrors.map fun e => (e.name, (convertWrite e).className, writeCarried e)

/-! ## (a) `WriteBuf` and the write loop -/

/-- `WriteBuf<B>`: `hdr` = `buf[..len]` (the encoded stream type / frame header; bytes of the array
    beyond `len` are never read), cursor `pos`, and the frame's payload `Buf` (empty when the frame
    has none), modelled as one contiguous byte string. -/
structure WriteBuf where
  hdr : Bytes
  pos : Nat
  payload : Bytes
deriving Repr, DecidableEq

/-- `From<Frame<B>>` etc.: header encoded at construction, cursor at 0. -/
def WriteBuf.new (hdr payload : Bytes) : WriteBuf := { hdr := hdr, pos := 0, payload := payload }

/-- `Buf::remaining`. -/
def WriteBuf.remaining (w : WriteBuf) : Nat := w.hdr.length - w.pos + w.payload.length

/-- `Buf::chunk`: the rest of the header first, then the payload. -/
def WriteBuf.chunk (w : WriteBuf) : Bytes :=
  if w.hdr.length - w.pos > 0 then w.hdr.drop w.pos else w.payload

/-- `Buf::advance`. -/
def WriteBuf.advance (w : WriteBuf) (cnt : Nat) : WriteBuf :=
  let rh := w.hdr.length - w.pos
  if rh > 0 then
    let a := min cnt rh
    { w with pos := w.pos + a, payload := w.payload.drop (cnt - a) }
  else { w with payload := w.payload.drop cnt }

/-- What is still to be yielded. -/
def WriteBuf.view (w : WriteBuf) : Bytes := w.hdr.drop w.pos ++ w.payload

/-- Cursor inside the header (kept by every `advance`). -/
def WriteBuf.WF (w : WriteBuf) : Prop := w.pos ≤ w.hdr.length

/-- One answer of `quinn::SendStream::poll_write(cx, chunk)`. `ok k`: Quinn took
    `min k chunk.len()` bytes (Quinn never takes more than it is offered; `1 ≤ k ≤ chunk.len()` is
    the case that occurs, every other `k` is covered as well). -/
inductive Accept where
  | pending
  | ok (k : Nat)
  | err (e : WriteError)
deriving Repr, DecidableEq

/-- `Poll<Result<(), StreamErrorIncoming>>`. -/
inductive Ready where
  | pending
  | ok
  | err (e : StreamErr)
deriving Repr, DecidableEq

/-- Result of one run of the `while data.has_remaining()` loop. -/
structure LoopOut where
  buf : WriteBuf          -- the buffer afterwards
  res : Ready
  acc : Bytes             -- bytes Quinn accepted during this run, in order
  rest : List Accept      -- answers not consumed
deriving Repr, DecidableEq

/-- The loop inside `poll_ready`: one script entry per `poll_write` call; an exhausted script means
    the transport does not answer (`Pending`). -/
def writeLoop (d : WriteBuf) : List Accept → LoopOut
  | [] => if d.remaining = 0 then ⟨d, .ok, [], []⟩ else ⟨d, .pending, [], []⟩
  | a :: r =>
    if d.remaining = 0 then ⟨d, .ok, [], a :: r⟩ else
    match a with
    | .pending => ⟨d, .pending, [], r⟩
    | .err e => ⟨d, .err (convertWrite e), [], r⟩
    | .ok k =>
      let t := min k d.chunk.length
      let o := writeLoop (d.advance t) r
      { o with acc := d.chunk.take t ++ o.acc }

/-- `SendStream<B>`: `writing: Option<WriteBuf<B>>` (the Quinn stream itself is outside the model). -/
structure Send where
  writing : Option WriteBuf
deriving Repr, DecidableEq

structure PollOut where
  state : Send
  res : Ready
  acc : Bytes
  rest : List Accept
deriving Repr, DecidableEq

/-- `SendStream::poll_ready`. On `Pending` `writing` keeps the (advanced) buffer; a completed loop
    clears it, and so does a failed one (the write will not be resumed: repair of D-17c). -/
def pollReady (s : Send) (script : List Accept) : PollOut :=
  match s.writing with
  | none => ⟨⟨none⟩, .ok, [], script⟩
  | some d =>
    let o := writeLoop d script
    match o.res with
    | .ok => ⟨⟨none⟩, .ok, o.acc, o.rest⟩
    | .err e => ⟨⟨none⟩, .err e, o.acc, o.rest⟩
    | .pending => ⟨⟨some o.buf⟩, .pending, o.acc, o.rest⟩

/-- `poll_ready` before the repair (D-17c): `poll_write(..).map_err(..)?` returned with `writing`
    still `Some`, so that every later `send_data` on the stream was refused with the internal error. -/
def pollReadyUnrepaired (s : Send) (script : List Accept) : PollOut :=
  match s.writing with
  | none => ⟨⟨none⟩, .ok, [], script⟩
  | some d =>
    let o := writeLoop d script
    match o.res with
    | .ok => ⟨⟨none⟩, .ok, o.acc, o.rest⟩
    | r => ⟨⟨some o.buf⟩, r, o.acc, o.rest⟩

inductive SendRes where
  | ok
  /-- `ConnectionErrorIncoming::InternalError("internal error in the http stack")` -/
  | refused
deriving Repr, DecidableEq

/-- `SendStream::send_data`. -/
def sendData (s : Send) (d : WriteBuf) : Send × SendRes :=
  match s.writing with
  | some _ => (s, .refused)
  | none => (⟨some d⟩, .ok)

/-- h3's `stream::write()` after `send_data`: `poll_ready` is polled again after every `Pending`
    until it is `Ready`, or until the script is exhausted (the transport never answers again).
    `n` bounds the number of further polls; `drive` supplies the script length, which is enough
    because every `Pending` poll that is followed by another consumes at least one answer. -/
def driveN : Nat → Send → List Accept → PollOut
  | 0, s, script => pollReady s script
  | n + 1, s, script =>
    let o := pollReady s script
    match o.res with
    | .pending =>
      if o.rest.length < script.length then
        let o' := driveN n o.state o.rest
        { o' with acc := o.acc ++ o'.acc }
      else o
    | _ => o

def drive (s : Send) (script : List Accept) : PollOut := driveN script.length s script

/-- `SendStream::reset`: `VarInt::from_u64(reset_code).unwrap_or(VarInt::MAX)` is what Quinn is given. -/
def resetArg (code : Nat) : Nat := if code < 2^62 then code else 2^62 - 1

/-- `OpenStreams::close`: `VarInt::from_u64(code.value()).expect("error code VarInt")`; `none` = panic. -/
def closeArg (code : Nat) : Option Nat := if code < 2^62 then some code else none

/-- The bytes the adapter still holds. -/
def Send.held (s : Send) : Bytes :=
  match s.writing with
  | none => []
  | some d => d.view

/-! ## (b) the receive-side ownership machine -/

/-- What the read future (`stream.read_chunk(usize::MAX, true)`) does when polled. -/
inductive ReadEv where
  | pending
  | data
  | fin
  | err (e : ReadError)
deriving Repr, DecidableEq

/-- `RecvStream`. `here` ⇔ `self.stream.is_some()`; otherwise the boxed read future owns the Quinn
    stream. `stops` is a ghost: the `quinn::RecvStream::stop(code)` calls the adapter has issued, in
    order (Quinn honours the first one). `alive = false` after the adapter stream was dropped. -/
structure Recv where
  id : Nat
  here : Bool
  pendingStop : Option Nat
  stops : List Nat
  alive : Bool
deriving Repr, DecidableEq

/-- `RecvStream::new`. -/
def Recv.new (id : Nat) : Recv := { id := id, here := true, pendingStop := none, stops := [], alive := true }

inductive RecvOp where
  | pollData (ev : ReadEv)
  | stopSending (code : Nat)
  | recvId
  | drop
deriving Repr, DecidableEq

inductive RecvOut where
  | pending
  | data
  | fin
  | err (e : StreamErr)
  | id (n : Nat)
  | unit
  | panic
deriving Repr, DecidableEq

/-- The stream comes back from the read future: a remembered stop is issued now
    (`if let Some(code) = self.pending_stop.take() { stream.stop(code) }; self.stream = Some(stream)`). -/
def Recv.comeBack (r : Recv) : Recv :=
  { r with here := true, pendingStop := none, stops := r.stops ++ r.pendingStop.toList }

/-- The read error goes through `convert_read_error_to_stream_error` (which may panic). -/
def readErrOut (e : ReadError) : RecvOut :=
  match convertRead e with
  | some x => .err x
  | none => .panic

/-- `RecvStream::poll_data`: the stream (if here) moves into the read future, which is polled;
    `Pending` leaves it there, completion brings it back before the result is converted. -/
def pollData (r : Recv) : ReadEv → Recv × RecvOut
  | .pending => ({ r with here := false }, .pending)
  | .data => (r.comeBack, .data)
  | .fin => (r.comeBack, .fin)
  | .err e => (r.comeBack, readErrOut e)

/-- `RecvStream::stop_sending`: `VarInt::from_u64(code).expect("invalid error_code")` first. -/
def stopSending (r : Recv) (code : Nat) : Recv × RecvOut :=
  if code ≥ 2^62 then (r, .panic)
  else if r.here then ({ r with stops := r.stops ++ [code] }, .unit)
  else ({ r with pendingStop := some code }, .unit)

/-- `RecvStream::recv_id` (the id is remembered at construction). -/
def recvId (r : Recv) : RecvOut := .id r.id

/-- `recv_id` before the repair (D-17): `self.stream.as_ref().unwrap().id()`. -/
def recvIdUnrepaired (r : Recv) : RecvOut := if r.here then .id r.id else .panic

/-- One operation; nothing can be called on a dropped stream. Dropping the adapter stream drops the
    Quinn stream (inside the read future or not) without issuing a remembered stop. -/
def Recv.step (r : Recv) (op : RecvOp) : Recv × RecvOut :=
  if !r.alive then (r, .unit) else
  match op with
  | .pollData ev => pollData r ev
  | .stopSending c => stopSending r c
  | .recvId => (r, recvId r)
  | .drop => ({ r with alive := false }, .unit)

def Recv.run : Recv → List RecvOp → Recv × List RecvOut
  | r, [] => (r, [])
  | r, op :: ops =>
    let (r', o) := r.step op
    let (r'', os) := Recv.run r' ops
    (r'', o :: os)

/-! ## (b') what the adapter's `stop_sending` owes the peer (specification, reading R-17)

    Not part of the property's sentence about errors (that one speaks about conditions the PEER raises
    surfacing in h3), but the documented purpose of `pending_stop`: the code handed to
    `stop_sending` is given to Quinn — which tells the peer's writer — as soon as the adapter has the
    Quinn stream in its hands: at the call when no read is in flight, otherwise when the read in
    flight completes. Written from the caller's side (calls and whether a read completed), without
    the ownership machine: `here`, `pendingStop` and `stops` do not occur. -/

/-- `inFlight`: a `poll_data` answered `Pending` and no later one has completed. `asked`: the valid
    codes of the `stop_sending` calls made while that read was in flight. `due`: once non-empty, the
    stop is owed to the peer NOW, with one of these codes (Quinn honours the first `stop` it is
    given, so later calls add nothing). `alive = false` after the receive half was dropped. -/
structure StopSpec where
  inFlight : Bool := false
  asked : List Nat := []
  due : List Nat := []
  alive : Bool := true
deriving Repr, DecidableEq

/-- `stop_sending(c)`. A code that is no QUIC varint is refused by the documented `expect`. -/
def StopSpec.onStop (s : StopSpec) (c : Nat) : StopSpec :=
  if c ≥ 2^62 then s
  else if !s.due.isEmpty then s
  else if s.inFlight then { s with asked := s.asked ++ [c] }
  else { s with due := [c] }

/-- A `poll_data` that answered `Pending` (`completed = false`) or anything else. -/
def StopSpec.onRead (s : StopSpec) (completed : Bool) : StopSpec :=
  if !completed then { s with inFlight := true }
  else if s.due.isEmpty then { s with inFlight := false, due := s.asked, asked := [] }
  else { s with inFlight := false }

def ReadEv.completed : ReadEv → Bool
  | .pending => false
  | _ => true

def StopSpec.step (s : StopSpec) (op : RecvOp) : StopSpec :=
  if !s.alive then s else
  match op with
  | .pollData ev => s.onRead ev.completed
  | .stopSending c => s.onStop c
  | .recvId => s
  | .drop => { s with alive := false }

def StopSpec.run : StopSpec → List RecvOp → StopSpec
  | s, [] => s
  | s, op :: ops => StopSpec.run (s.step op) ops

/-! ## (d) the unframed write path -/

/-- The caller's `D: Buf` as the list of its chunks (`&[u8]` = one, `Chain<Bytes, Bytes>` = two,
    `WriteBuf` = header and payload): `chunk()` is the first chunk that is not empty, `advance`
    walks over chunk boundaries. -/
def ubView (b : List Bytes) : Bytes := b.flatten

def ubChunk : List Bytes → Bytes
  | [] => []
  | p :: r => if p.length = 0 then ubChunk r else p

def ubAdvance : List Bytes → Nat → List Bytes
  | [], _ => []
  | p :: r, k => if k < p.length then p.drop k :: r else ubAdvance r (k - p.length)

/-- `Poll<Result<usize, StreamErrorIncoming>>` of `poll_send`, plus its two guards. -/
inductive SendOut where
  | pending
  | ok (k : Nat)
  | err (e : StreamErr)
  /-- `ConnectionErrorIncoming::InternalError`, as `send_data` answers in the same situation -/
  | refused
  | panic
deriving Repr, DecidableEq

structure USendOut where
  buf : List Bytes        -- the caller's buffer afterwards
  res : SendOut
  acc : Bytes             -- bytes Quinn accepted in this call
deriving Repr, DecidableEq

/-- `SendStream::poll_send(cx, buf)` against the answer `a` of the one `poll_write(cx, buf.chunk())`
    it makes. While a framed write is unfinished (`writing` is `Some`) the call is refused like a
    second `send_data` (repair of D-17b; the stream's own state never changes). -/
def pollSend (s : Send) (buf : List Bytes) (a : Accept) : USendOut :=
  match s.writing with
  | some _ => ⟨buf, .refused, []⟩
  | none =>
    match a with
    | .pending => ⟨buf, .pending, []⟩
    | .err e => ⟨buf, .err (convertWrite e), []⟩
    | .ok k =>
      let c := ubChunk buf
      let t := min k c.length
      ⟨ubAdvance buf t, .ok t, c.take t⟩

/-- `poll_send` before the repair (D-17b): `panic!("poll_send called while send stream is not ready")`. -/
def pollSendUnrepaired (s : Send) (buf : List Bytes) (a : Accept) : USendOut :=
  match s.writing with
  | some _ => ⟨buf, .panic, []⟩
  | none => pollSend s buf a

inductive SendAllRes where
  | done
  | pending
  | err (e : StreamErr)
  | refused
deriving Repr, DecidableEq

structure SendAllOut where
  buf : List Bytes
  res : SendAllRes
  acc : Bytes
  rest : List Accept
deriving Repr, DecidableEq

/-- What every caller of `poll_send` runs (`h3_webtransport`'s `OpenBi`/`OpenUni`, `write_all`):
    `while buf.has_remaining() { ready!(poll_send(cx, buf))? }`, polled again after each `Pending`.
    One script entry per `poll_write`; an exhausted script = the transport never answers again. -/
def sendAll (s : Send) (buf : List Bytes) : List Accept → SendAllOut
  | [] => if (ubView buf).length = 0 then ⟨buf, .done, [], []⟩ else ⟨buf, .pending, [], []⟩
  | a :: r =>
    if (ubView buf).length = 0 then ⟨buf, .done, [], a :: r⟩ else
    let o := pollSend s buf a
    match o.res with
    | .ok _ =>
      let o' := sendAll s o.buf r
      { o' with acc := o.acc ++ o'.acc }
    | .pending => sendAll s buf r
    | .err e => ⟨buf, .err e, [], r⟩
    | .refused => ⟨buf, .refused, [], r⟩
    | .panic => ⟨buf, .refused, [], r⟩

/-! ## (e) the unsplit `BidiStream` -/

/-- `BidiStream<B> { send, recv }`. `sendId` is what `quinn::SendStream::id()` of the send half
    returns — Quinn's value, a constant of the handle. -/
structure Bidi where
  sendId : Nat
  send : Send
  recv : Recv
deriving Repr, DecidableEq

/-- `poll_open_bidi` / `poll_accept_bidi`: both halves are the two ends of ONE Quinn stream. -/
def Bidi.new (id : Nat) : Bidi := { sendId := id, send := ⟨none⟩, recv := Recv.new id }

inductive BidiOp where
  | recv (op : RecvOp)                 -- poll_data / stop_sending / recv_id ⇒ `self.recv.…`
  | sendData (d : WriteBuf)            -- ⇒ `self.send.send_data`
  | pollReady (script : List Accept)   -- ⇒ `self.send.poll_ready`
  | sendId                             -- ⇒ `self.send.send_id`
deriving Repr, DecidableEq

inductive BidiOut where
  | recv (o : RecvOut)
  | send (r : SendRes)
  | ready (r : Ready)
  | id (n : Nat)
deriving Repr, DecidableEq

def Bidi.step (b : Bidi) : BidiOp → Bidi × BidiOut
  | .recv op => let (r, o) := b.recv.step op; ({ b with recv := r }, .recv o)
  | .sendData d => let (s, r) := sendData b.send d; ({ b with send := s }, .send r)
  | .pollReady sc => let o := pollReady b.send sc; ({ b with send := o.state }, .ready o.res)
  | .sendId => (b, .id b.sendId)

def Bidi.run : Bidi → List BidiOp → Bidi × List BidiOut
  | b, [] => (b, [])
  | b, op :: ops =>
    let (b', o) := b.step op
    let (b'', os) := Bidi.run b' ops
    (b'', o :: os)

/-- `BidiStream::split`: the two fields, nothing else. -/
def Bidi.split (b : Bidi) : (Nat × Send) × Recv := ((b.sendId, b.send), b.recv)

/-- The same operations applied to the halves separately. -/
def sendHalfRun : Send → List BidiOp → Send
  | s, [] => s
  | s, .sendData d :: ops => sendHalfRun (sendData s d).1 ops
  | s, .pollReady sc :: ops => sendHalfRun (pollReady s sc).state ops
  | s, _ :: ops => sendHalfRun s ops

def recvHalfOps : List BidiOp → List RecvOp
  | [] => []
  | .recv op :: ops => op :: recvHalfOps ops
  | _ :: ops => recvHalfOps ops

/-! ## (f) opening and accepting streams, closing -/

/-- What Quinn's `open_bi()` / `open_uni()` / `accept_bi()` / `accept_uni()` future does when the
    adapter polls it: not yet (no stream credit / nothing arrived), a stream with this id, or the
    connection's error. -/
inductive OpenEv where
  | pending
  | ok (id : Nat)
  | err (e : ConnectionError)
deriving Repr, DecidableEq

/-- `OpenStreams` / the opening half of `Connection`: whether the boxed `unfold` streams exist yet
    (`get_or_insert_with`). They buffer nothing: a stream exists only once Quinn's future completed,
    and then it is returned by that very poll. -/
structure Opener where
  openingBi : Bool
  openingUni : Bool
deriving Repr, DecidableEq

/-- `Connection::new`, `Connection::opener()` and `OpenStreams::clone()` all start without a future. -/
def Opener.new : Opener := ⟨false, false⟩
def Opener.clone (_ : Opener) : Opener := Opener.new

inductive OpenOut where
  | pending
  | bidi (b : Bidi)
  | send (id : Nat)
  | err (e : StreamErr)
deriving Repr, DecidableEq

/-- `poll_open_bidi`: an error of the connection arrives as `StreamErrorIncoming::ConnectionErrorIncoming`. -/
def pollOpenBidi (o : Opener) (ev : OpenEv) : Opener × OpenOut :=
  ({ o with openingBi := true },
   match ev with
   | .pending => .pending
   | .ok id => .bidi (Bidi.new id)
   | .err e => .err (.connection (convertConn e)))

/-- `poll_open_send`. -/
def pollOpenSend (o : Opener) (ev : OpenEv) : Opener × OpenOut :=
  ({ o with openingUni := true },
   match ev with
   | .pending => .pending
   | .ok id => .send id
   | .err e => .err (.connection (convertConn e)))

inductive AcceptOut where
  | pending
  | bidi (b : Bidi)
  | recv (r : Recv)
  | err (e : ConnErr)
deriving Repr, DecidableEq

/-- `poll_accept_bidi` / `poll_accept_recv`: here the error stays a `ConnectionErrorIncoming`. -/
def pollAcceptBidi : OpenEv → AcceptOut
  | .pending => .pending
  | .ok id => .bidi (Bidi.new id)
  | .err e => .err (convertConn e)
def pollAcceptRecv : OpenEv → AcceptOut
  | .pending => .pending
  | .ok id => .recv (Recv.new id)
  | .err e => .err (convertConn e)

/-- One step of a caller that opens streams through one opener: which kind, and what Quinn does. -/
structure OpenStep where
  bidi : Bool
  ev : OpenEv
deriving Repr, DecidableEq

def Opener.step (o : Opener) (st : OpenStep) : Opener × OpenOut :=
  if st.bidi then pollOpenBidi o st.ev else pollOpenSend o st.ev

def Opener.run : Opener → List OpenStep → Opener × List OpenOut
  | o, [] => (o, [])
  | o, st :: r =>
    let (o', x) := o.step st
    let (o'', xs) := Opener.run o' r
    (o'', x :: xs)

/-- The ids of the streams a list of answers hands to the caller (a bidirectional stream counts
    only if both halves carry the same id). -/
def handedOut : List OpenOut → List Nat
  | [] => []
  | .bidi b :: r => (if b.sendId = b.recv.id then [b.sendId] else []) ++ handedOut r
  | .send id :: r => id :: handedOut r
  | _ :: r => handedOut r

/-- …and the ids of the streams Quinn created. -/
def created : List OpenStep → List Nat
  | [] => []
  | st :: r => (match st.ev with | .ok id => [id] | _ => []) ++ created r

/-- `OpenStreams::close(code, reason)`: what `quinn::Connection::close` is called with; `none` = the
    `expect("error code VarInt")` panic. The reason is passed through untouched. -/
def closeArgs (code : Nat) (reason : Bytes) : Option (Nat × Bytes) :=
  match closeArg code with
  | some c => some (c, reason)
  | none => none

/-! ## (g) datagrams (`h3-quinn/src/datagram.rs`) -/

/-- `quinn::SendDatagramError`. -/
inductive SendDatagramError where
  | unsupportedByPeer
  | disabled
  | tooLarge
  | connectionLost (e : ConnectionError)
deriving Repr, DecidableEq

/-- `h3_datagram::quic_traits::SendDatagramErrorIncoming`. -/
inductive DgErr where
  | notAvailable
  | tooLarge
  | connection (e : ConnErr)
deriving Repr, DecidableEq

/-- `convert_h3_error_to_datagram_error` (`h3_datagram::ConnectionErrorIncoming` is a re-export of
    h3's type: the four arms rebuild the value they matched). -/
def convertH3ToDatagram : ConnErr → ConnErr
  | .applicationClose c => .applicationClose c
  | .timeout => .timeout
  | .internalError => .internalError
  | .undefined e => .undefined e

/-- `convert_send_datagram_error`. -/
def convertSendDatagram : SendDatagramError → DgErr
  | .unsupportedByPeer => .notAvailable
  | .disabled => .notAvailable
  | .tooLarge => .tooLarge
  | .connectionLost e => .connection (convertH3ToDatagram (convertConn e))

/-- `SendDatagramHandler::send_datagram`: the `EncodedDatagram` (quarter stream id varint, then the
    payload) is copied into ONE `Bytes` (`copy_to_bytes(remaining)`) and handed to Quinn whole. -/
def datagramWire (qid payload : Bytes) : Bytes := qid ++ payload

def SendDatagramError.name : SendDatagramError → String
  | .unsupportedByPeer => "UnsupportedByPeer"
  | .disabled => "Disabled"
  | .tooLarge => "TooLarge"
  | .connectionLost _ => "ConnectionLost"

def DgErr.className : DgErr → String
  | .notAvailable => "NotAvailable"
  | .tooLarge => "TooLarge"
  | .connection _ => "ConnectionError"

def allSendDatagramErrors : List SendDatagramError :=
  [.unsupportedByPeer, .disabled, .tooLarge, .connectionLost .timedOut]
def allConnErrs : List ConnErr :=
  [.applicationClose 7, .timeout, .internalError, .undefined .reset]

def dgSendCarried (e : SendDatagramError) : String :=
  match e, convertSendDatagram e with
  | .connectionLost x, .connection y => if y = convertH3ToDatagram (convertConn x) then "conn" else "-"
  | _, _ => "-"
def dgConnCarried (e : ConnErr) : String :=
  match e, convertH3ToDatagram e with
  | .applicationClose c, .applicationClose c' => if c = c' then "same" else "-"
  | .undefined x, .undefined y => if x = y then "same" else "-"
  | .internalError, .internalError => "same"   -- the message (not modelled) is passed on
  | _, _ => "-"

def dgSendTable : List (String × String × String) :=
  allSendDatagramErrors.map fun e => (e.name, (convertSendDatagram e).className, dgSendCarried e)
def dgConnTable : List (String × String × String) :=
  allConnErrs.map fun e => (e.className, (convertH3ToDatagram e).className, dgConnCarried e)

/-! The arms that wrap the very error they matched (`error @ … => Undefined(Arc::new(error))`,
    `Unknown(Box::new(error))`), as (function, variant) pairs; compared with the source. -/
def connWraps (e : ConnectionError) : Bool :=
  match convertConn e with
  | .undefined x => x = e
  | _ => false
def readWraps (e : ReadError) : Bool :=
  match e, convertRead e with
  | .closedStream, some (.unknown .closedStream) => true
  | .zeroRttRejected, some (.unknown .zeroRttRejected) => true
  | _, _ => false
def writeWraps (e : WriteError) : Bool :=
  match e, convertWrite e with
  | .closedStream, .unknown .closedStream => true
  | .zeroRttRejected, .unknown .zeroRttRejected => true
  | _, _ => false
def wrapTable : List (String × String) :=
  ((allConnectionErrors.filter connWraps).map fun e => ("convert_connection_error", e.name)) ++
  ((allReadErrors.filter readWraps).map fun e => ("convert_read_error_to_stream_error", e.name)) ++
  ((allWriteErrors.filter writeWraps).map fun e => ("convert_write_error_to_stream_error", e.name))

/-- Which conversion, which guard and which delegation each method of the adapter uses, as
    (impl, method, features in source order). This is the hand-written half; the other half is
    re-extracted from `h3-quinn/src/{lib,datagram}.rs` (`H3.Gen.QuinnTables.siteTable`). Features:
    `conn`/`read`/`write`/`dgram` = the conversion function called, `stream-conn` = wrapped into
    `StreamErrorIncoming::ConnectionErrorIncoming`, `unknown` = boxed into `Unknown`, `internal` =
    `InternalError` built, `expect`/`unwrap`/`panic`/`unreachable` = a panic site,
    `send.f`/`recv.f` = delegation to a half. -/
def siteTable : List (String × String × String) := [
  ("Connection", "new", ""),
  ("quic::Connection<B> for Connection", "poll_accept_bidi", "expect conn"),
  ("quic::Connection<B> for Connection", "poll_accept_recv", "expect conn"),
  ("quic::Connection<B> for Connection", "opener", ""),
  ("quic::OpenStreams<B> for Connection", "poll_open_bidi", "expect stream-conn conn"),
  ("quic::OpenStreams<B> for Connection", "poll_open_send", "expect stream-conn conn"),
  ("quic::OpenStreams<B> for Connection", "close", "expect"),
  ("quic::OpenStreams<B> for OpenStreams", "poll_open_bidi", "expect stream-conn conn"),
  ("quic::OpenStreams<B> for OpenStreams", "poll_open_send", "expect stream-conn conn"),
  ("quic::OpenStreams<B> for OpenStreams", "close", "expect"),
  ("Clone for OpenStreams", "clone", ""),
  ("quic::BidiStream<B> for BidiStream<B>", "split", ""),
  ("quic::RecvStream for BidiStream<B>", "poll_data", "recv.poll_data"),
  ("quic::RecvStream for BidiStream<B>", "stop_sending", "recv.stop_sending"),
  ("quic::RecvStream for BidiStream<B>", "recv_id", "recv.recv_id"),
  ("quic::SendStream<B> for BidiStream<B>", "poll_ready", "send.poll_ready"),
  ("quic::SendStream<B> for BidiStream<B>", "poll_finish", "send.poll_finish"),
  ("quic::SendStream<B> for BidiStream<B>", "reset", "send.reset"),
  ("quic::SendStream<B> for BidiStream<B>", "send_data", "send.send_data"),
  ("quic::SendStream<B> for BidiStream<B>", "send_id", "send.send_id"),
  ("quic::SendStreamUnframed<B> for BidiStream<B>", "poll_send", "send.poll_send"),
  ("quic::Is0rtt for BidiStream<B>", "is_0rtt", "recv.is_0rtt"),
  ("RecvStream", "new", "unreachable"),
  ("quic::RecvStream for RecvStream", "poll_data", "read"),
  ("quic::RecvStream for RecvStream", "stop_sending", "expect"),
  ("quic::RecvStream for RecvStream", "recv_id", "expect"),
  ("quic::Is0rtt for RecvStream", "is_0rtt", ""),
  ("SendStream<B>", "new", ""),
  ("quic::SendStream<B> for SendStream<B>", "poll_ready", "write"),
  ("quic::SendStream<B> for SendStream<B>", "poll_finish", "unknown"),
  ("quic::SendStream<B> for SendStream<B>", "reset", ""),
  ("quic::SendStream<B> for SendStream<B>", "send_data", "stream-conn internal"),
  ("quic::SendStream<B> for SendStream<B>", "send_id", "expect"),
  ("quic::SendStreamUnframed<B> for SendStream<B>", "poll_send", "stream-conn internal write"),
  ("SendDatagram<B> for SendDatagramHandler", "send_datagram", "dgram"),
  ("RecvDatagram for RecvDatagramHandler", "poll_incoming_datagram", "expect conn"),
  ("DatagramConnectionExt<B> for Connection", "send_datagram_handler", ""),
  ("DatagramConnectionExt<B> for Connection", "recv_datagram_handler", "")]

end H3.QuinnAdapter
