/-! Model of the Quinn adapter `h3-quinn/src/lib.rs` (the adapter's own logic only; Quinn, UDP and
    tokio are *outside* this model — what they do is observed by the correspondence run, not proved):

    (a) `WriteBuf` (`h3/src/stream.rs`, its `Buf` impl) and the write loop
        `SendStream::{send_data, poll_ready, poll_finish}` against an *acceptance script*
        (one entry per `quinn::SendStream::poll_write` call);
    (b) the receive-side ownership machine `RecvStream::{poll_data, stop_sending, recv_id}`
        (`stream: Option<quinn::RecvStream>` is `None` while the boxed read future owns the stream);
    (c) `convert_connection_error`, `convert_read_error_to_stream_error`,
        `convert_write_error_to_stream_error` as finite tables over Quinn's error enums.

    Panics are explicit (`none` / `.panic`). `u64` codes are `Nat`; Quinn's `VarInt` codes are
    `< 2^62` and are widened to `u64` (`into_inner`, `.into()`), which cannot wrap. -/
namespace H3.QuinnAdapter

abbrev Bytes := List Nat

/-! ## (c) error tables -/

/-- `quinn::ConnectionError` (payloads other than the application close code are irrelevant to the
    adapter and dropped). -/
inductive ConnectionError where
  | versionMismatch
  | transportError
  | connectionClosed
  | applicationClosed (code : Nat)
  | reset
  | timedOut
  | locallyClosed
  | cidsExhausted
deriving Repr, DecidableEq

/-- `quinn::ReadError`. -/
inductive ReadError where
  | reset (code : Nat)
  | connectionLost (e : ConnectionError)
  | closedStream
  | illegalOrderedRead
  | zeroRttRejected
deriving Repr, DecidableEq

/-- `quinn::WriteError`. -/
inductive WriteError where
  | stopped (code : Nat)
  | connectionLost (e : ConnectionError)
  | closedStream
  | zeroRttRejected
deriving Repr, DecidableEq

/-- `h3::quic::ConnectionErrorIncoming`. `undefined` keeps the Quinn error it wraps (`Arc<dyn Error>`). -/
inductive ConnErr where
  | applicationClose (code : Nat)
  | timeout
  | internalError
  | undefined (e : ConnectionError)
deriving Repr, DecidableEq

/-- What `StreamErrorIncoming::Unknown` boxes. -/
inductive Unknown where
  | closedStream
  | zeroRttRejected
deriving Repr, DecidableEq

/-- `h3::quic::StreamErrorIncoming`. -/
inductive StreamErr where
  | connection (e : ConnErr)
  | terminated (code : Nat)
  | unknown (u : Unknown)
deriving Repr, DecidableEq

/-- `convert_connection_error`. -/
def convertConn : ConnectionError → ConnErr
  | .applicationClosed code => .applicationClose code
  | .timedOut => .timeout
  | .versionMismatch => .undefined .versionMismatch
  | .reset => .undefined .reset
  | .locallyClosed => .undefined .locallyClosed
  | .cidsExhausted => .undefined .cidsExhausted
  | .transportError => .undefined .transportError
  | .connectionClosed => .undefined .connectionClosed

/-- `convert_read_error_to_stream_error`; `none` = `panic!("h3-quinn only performs ordered reads")`. -/
def convertRead : ReadError → Option StreamErr
  | .reset code => some (.terminated code)
  | .connectionLost e => some (.connection (convertConn e))
  | .closedStream => some (.unknown .closedStream)
  | .illegalOrderedRead => none
  | .zeroRttRejected => some (.unknown .zeroRttRejected)

/-- `convert_write_error_to_stream_error`. -/
def convertWrite : WriteError → StreamErr
  | .stopped code => .terminated code
  | .connectionLost e => .connection (convertConn e)
  | .closedStream => .unknown .closedStream
  | .zeroRttRejected => .unknown .zeroRttRejected

/-! Names, for the comparison with the arms extracted from the Rust source (`H3.Gen.QuinnTables`)
    and for the line protocol. -/

def ConnectionError.name : ConnectionError → String
  | .versionMismatch => "VersionMismatch"
  | .transportError => "TransportError"
  | .connectionClosed => "ConnectionClosed"
  | .applicationClosed _ => "ApplicationClosed"
  | .reset => "Reset"
  | .timedOut => "TimedOut"
  | .locallyClosed => "LocallyClosed"
  | .cidsExhausted => "CidsExhausted"

def ReadError.name : ReadError → String
  | .reset _ => "Reset"
  | .connectionLost _ => "ConnectionLost"
  | .closedStream => "ClosedStream"
  | .illegalOrderedRead => "IllegalOrderedRead"
  | .zeroRttRejected => "ZeroRttRejected"

def WriteError.name : WriteError → String
  | .stopped _ => "Stopped"
  | .connectionLost _ => "ConnectionLost"
  | .closedStream => "ClosedStream"
  | .zeroRttRejected => "ZeroRttRejected"

def ConnErr.className : ConnErr → String
  | .applicationClose _ => "ApplicationClose"
  | .timeout => "Timeout"
  | .internalError => "InternalError"
  | .undefined _ => "Undefined"

def StreamErr.className : StreamErr → String
  | .connection _ => "ConnectionErrorIncoming"
  | .terminated _ => "StreamTerminated"
  | .unknown _ => "Unknown"

/-- One representative per constructor (code 7 where a code is carried). -/
def allConnectionErrors : List ConnectionError :=
  [.versionMismatch, .transportError, .connectionClosed, .applicationClosed 7, .reset, .timedOut,
   .locallyClosed, .cidsExhausted]
def allReadErrors : List ReadError :=
  [.reset 7, .connectionLost .timedOut, .closedStream, .illegalOrderedRead, .zeroRttRejected]
def allWriteErrors : List WriteError :=
  [.stopped 7, .connectionLost .timedOut, .closedStream, .zeroRttRejected]

/-- What an arm does with the value its pattern binds, judged on the representative: `same` = the
    peer's code is stored unchanged, `conn` = the connection error goes through `convertConn`. -/
def connCarried (e : ConnectionError) : String :=
  match e, convertConn e with
  | .applicationClosed c, .applicationClose c' => if c = c' then "same" else "-"
  | _, _ => "-"
def readCarried (e : ReadError) : String :=
  match e, convertRead e with
  | .reset c, some (.terminated c') => if c = c' then "same" else "-"
  | .connectionLost x, some (.connection y) => if y = convertConn x then "conn" else "-"
  | _, _ => "-"
def writeCarried (e : WriteError) : String :=
  match e, convertWrite e with
  | .stopped c, .terminated c' => if c = c' then "same" else "-"
  | .connectionLost x, .connection y => if y = convertConn x then "conn" else "-"
  | _, _ => "-"

/-- The model's tables as (Quinn variant, h3 class, carried value) triples; class `panic` for the
    panicking arm. Compared with the arms extracted from the source in `C17_tables_match_source`. -/
def connTable : List (String × String × String) :=
  allConnectionErrors.map fun e => (e.name, (convertConn e).className, connCarried e)
def readTable : List (String × String × String) :=
  allReadErrors.map fun e =>
    (e.name, (match convertRead e with | some x => x.className | none => "panic"), readCarried e)
def writeTable : List (String × String × String) :=
  allWriteErrors.map fun e => (e.name, (convertWrite e).className, writeCarried e)

/-! ## (a) `WriteBuf` and the write loop -/

/-- `WriteBuf<B>`: `hdr` = `buf[..len]` (the encoded stream type / frame header; bytes of the array
    beyond `len` are never read), cursor `pos`, and the frame's payload `Buf` (empty when the frame
    has none), modelled as one contiguous byte string. -/
structure WriteBuf where
  hdr : Bytes
  pos : Nat
  payload : Bytes
deriving Repr, DecidableEq

/-- `From<Frame<B>>` etc.: header encoded at construction, cursor at 0. -/
def WriteBuf.new (hdr payload : Bytes) : WriteBuf := { hdr := hdr, pos := 0, payload := payload }

/-- `Buf::remaining`. -/
def WriteBuf.remaining (w : WriteBuf) : Nat := w.hdr.length - w.pos + w.payload.length

/-- `Buf::chunk`: the rest of the header first, then the payload. -/
def WriteBuf.chunk (w : WriteBuf) : Bytes :=
  if w.hdr.length - w.pos > 0 then w.hdr.drop w.pos else w.payload

/-- `Buf::advance`. -/
def WriteBuf.advance (w : WriteBuf) (cnt : Nat) : WriteBuf :=
  let rh := w.hdr.length - w.pos
  if rh > 0 then
    let a := min cnt rh
    { w with pos := w.pos + a, payload := w.payload.drop (cnt - a) }
  else { w with payload := w.payload.drop cnt }

/-- What is still to be yielded. -/
def WriteBuf.view (w : WriteBuf) : Bytes := w.hdr.drop w.pos ++ w.payload

/-- Cursor inside the header (kept by every `advance`). -/
def WriteBuf.WF (w : WriteBuf) : Prop := w.pos ≤ w.hdr.length

/-- One answer of `quinn::SendStream::poll_write(cx, chunk)`. `ok k`: Quinn took
    `min k chunk.len()` bytes (Quinn never takes more than it is offered; `1 ≤ k ≤ chunk.len()` is
    the case that occurs, every other `k` is covered as well). -/
inductive Accept where
  | pending
  | ok (k : Nat)
  | err (e : WriteError)
deriving Repr, DecidableEq

/-- `Poll<Result<(), StreamErrorIncoming>>`. -/
inductive Ready where
  | pending
  | ok
  | err (e : StreamErr)
deriving Repr, DecidableEq

/-- Result of one run of the `while data.has_remaining()` loop. -/
structure LoopOut where
  buf : WriteBuf          -- the buffer afterwards
  res : Ready
  acc : Bytes             -- bytes Quinn accepted during this run, in order
  rest : List Accept      -- answers not consumed
deriving Repr, DecidableEq

/-- The loop inside `poll_ready`: one script entry per `poll_write` call; an exhausted script means
    the transport does not answer (`Pending`). -/
def writeLoop (d : WriteBuf) : List Accept → LoopOut
  | [] => if d.remaining = 0 then ⟨d, .ok, [], []⟩ else ⟨d, .pending, [], []⟩
  | a :: r =>
    if d.remaining = 0 then ⟨d, .ok, [], a :: r⟩ else
    match a with
    | .pending => ⟨d, .pending, [], r⟩
    | .err e => ⟨d, .err (convertWrite e), [], r⟩
    | .ok k =>
      let t := min k d.chunk.length
      let o := writeLoop (d.advance t) r
      { o with acc := d.chunk.take t ++ o.acc }

/-- `SendStream<B>`: `writing: Option<WriteBuf<B>>` (the Quinn stream itself is outside the model). -/
structure Send where
  writing : Option WriteBuf
deriving Repr, DecidableEq

structure PollOut where
  state : Send
  res : Ready
  acc : Bytes
  rest : List Accept
deriving Repr, DecidableEq

/-- `SendStream::poll_ready`. On `Pending` and on an error `writing` keeps the (advanced) buffer;
    only a completed loop clears it. -/
def pollReady (s : Send) (script : List Accept) : PollOut :=
  match s.writing with
  | none => ⟨⟨none⟩, .ok, [], script⟩
  | some d =>
    let o := writeLoop d script
    match o.res with
    | .ok => ⟨⟨none⟩, .ok, o.acc, o.rest⟩
    | r => ⟨⟨some o.buf⟩, r, o.acc, o.rest⟩

inductive SendRes where
  | ok
  /-- `ConnectionErrorIncoming::InternalError("internal error in the http stack")` -/
  | refused
deriving Repr, DecidableEq

/-- `SendStream::send_data`. -/
def sendData (s : Send) (d : WriteBuf) : Send × SendRes :=
  match s.writing with
  | some _ => (s, .refused)
  | none => (⟨some d⟩, .ok)

/-- h3's `stream::write()` after `send_data`: `poll_ready` is polled again after every `Pending`
    until it is `Ready`, or until the script is exhausted (the transport never answers again).
    `n` bounds the number of further polls; `drive` supplies the script length, which is enough
    because every `Pending` poll that is followed by another consumes at least one answer. -/
def driveN : Nat → Send → List Accept → PollOut
  | 0, s, script => pollReady s script
  | n + 1, s, script =>
    let o := pollReady s script
    match o.res with
    | .pending =>
      if o.rest.length < script.length then
        let o' := driveN n o.state o.rest
        { o' with acc := o.acc ++ o'.acc }
      else o
    | _ => o

def drive (s : Send) (script : List Accept) : PollOut := driveN script.length s script

/-- `SendStream::reset`: `VarInt::from_u64(reset_code).unwrap_or(VarInt::MAX)` is what Quinn is given. -/
def resetArg (code : Nat) : Nat := if code < 2^62 then code else 2^62 - 1

/-- `OpenStreams::close`: `VarInt::from_u64(code.value()).expect("error code VarInt")`; `none` = panic. -/
def closeArg (code : Nat) : Option Nat := if code < 2^62 then some code else none

/-- The bytes the adapter still holds. -/
def Send.held (s : Send) : Bytes :=
  match s.writing with
  | none => []
  | some d => d.view

/-! ## (b) the receive-side ownership machine -/

/-- What the read future (`stream.read_chunk(usize::MAX, true)`) does when polled. -/
inductive ReadEv where
  | pending
  | data
  | fin
  | err (e : ReadError)
deriving Repr, DecidableEq

/-- `RecvStream`. `here` ⇔ `self.stream.is_some()`; otherwise the boxed read future owns the Quinn
    stream. `stops` is a ghost: the `quinn::RecvStream::stop(code)` calls the adapter has issued, in
    order (Quinn honours the first one). `alive = false` after the adapter stream was dropped. -/
structure Recv where
  id : Nat
  here : Bool
  pendingStop : Option Nat
  stops : List Nat
  alive : Bool
deriving Repr, DecidableEq

/-- `RecvStream::new`. -/
def Recv.new (id : Nat) : Recv := { id := id, here := true, pendingStop := none, stops := [], alive := true }

inductive RecvOp where
  | pollData (ev : ReadEv)
  | stopSending (code : Nat)
  | recvId
  | drop
deriving Repr, DecidableEq

inductive RecvOut where
  | pending
  | data
  | fin
  | err (e : StreamErr)
  | id (n : Nat)
  | unit
  | panic
deriving Repr, DecidableEq

/-- The stream comes back from the read future: a remembered stop is issued now
    (`if let Some(code) = self.pending_stop.take() { stream.stop(code) }; self.stream = Some(stream)`). -/
def Recv.comeBack (r : Recv) : Recv :=
  { r with here := true, pendingStop := none, stops := r.stops ++ r.pendingStop.toList }

/-- The read error goes through `convert_read_error_to_stream_error` (which may panic). -/
def readErrOut (e : ReadError) : RecvOut :=
  match convertRead e with
  | some x => .err x
  | none => .panic

/-- `RecvStream::poll_data`: the stream (if here) moves into the read future, which is polled;
    `Pending` leaves it there, completion brings it back before the result is converted. -/
def pollData (r : Recv) : ReadEv → Recv × RecvOut
  | .pending => ({ r with here := false }, .pending)
  | .data => (r.comeBack, .data)
  | .fin => (r.comeBack, .fin)
  | .err e => (r.comeBack, readErrOut e)

/-- `RecvStream::stop_sending`: `VarInt::from_u64(code).expect("invalid error_code")` first. -/
def stopSending (r : Recv) (code : Nat) : Recv × RecvOut :=
  if code ≥ 2^62 then (r, .panic)
  else if r.here then ({ r with stops := r.stops ++ [code] }, .unit)
  else ({ r with pendingStop := some code }, .unit)

/-- `RecvStream::recv_id` (the id is remembered at construction). -/
def recvId (r : Recv) : RecvOut := .id r.id

/-- `recv_id` before the repair (D-17): `self.stream.as_ref().unwrap().id()`. -/
def recvIdUnrepaired (r : Recv) : RecvOut := if r.here then .id r.id else .panic

/-- One operation; nothing can be called on a dropped stream. Dropping the adapter stream drops the
    Quinn stream (inside the read future or not) without issuing a remembered stop. -/
def Recv.step (r : Recv) (op : RecvOp) : Recv × RecvOut :=
  if !r.alive then (r, .unit) else
  match op with
  | .pollData ev => pollData r ev
  | .stopSending c => stopSending r c
  | .recvId => (r, recvId r)
  | .drop => ({ r with alive := false }, .unit)

def Recv.run : Recv → List RecvOp → Recv × List RecvOut
  | r, [] => (r, [])
  | r, op :: ops =>
    let (r', o) := r.step op
    let (r'', os) := Recv.run r' ops
    (r'', o :: os)

end H3.QuinnAdapter
