import H3.Gen.QStatic
/-! # Model of the stateful (dynamic-table) QPACK code

`h3/src/qpack/{vas,dynamic,encoder,decoder}.rs` and `HeaderPrefix::{new,get}` of `block.rs`.

* Instructions and field-line representations are modelled at the *instruction level*
  (inductive types below). The byte codecs of `stream.rs` / `block.rs` (prefixed integers,
  Huffman strings) are NOT modelled here; the correspondence run parses the real bytes back
  into these instructions with the repository's own prefix codecs and feeds the real bytes to
  the real `Decoder`, so the byte layer is exercised, not proved, in C20 (it is C15/C11's topic).
* `usize` is `Nat`; every subtraction that could underflow and every `unwrap`/`assert!`/
  division is an explicit `Res.panic site`.
* `HashMap`/`BTreeMap` are association lists with unique keys (`aget`/`aset`/`aerase`); nothing in
  the code depends on iteration order except the partial effect of a *failing* `track_cancel`
  (order = list order here; the theorems show that branch is unreachable).
-/
namespace H3.Dyn

abbrev Bytes := List Nat

structure Field where
  name : Bytes
  value : Bytes
deriving DecidableEq, Repr, Inhabited

/-- `HeaderField::mem_size` (`ESTIMATED_OVERHEAD_BYTES = 32`). -/
def Field.memSize (f : Field) : Nat := f.name.length + f.value.length + 32

/-- `HeaderField::with_value`. -/
def Field.withValue (f : Field) (v : Bytes) : Field := { name := f.name, value := v }

/-! ## Outcomes -/

/-- The panic-capable sites (integer underflow with overflow checks on, `unwrap`, `assert!`, `%0`). -/
inductive Site where
  | vasDropDelta            -- vas.rs `self.delta -= 1`
  | vasLargestRef           -- vas.rs `self.inserted - self.dropped`
  | encoderIndexUnwrap      -- dynamic.rs `encoder()`: `self.vas.index(idx).unwrap()`
  | canFreeIndexUnwrap      -- dynamic.rs `can_free`: `self.vas.index(idx).unwrap()`
  | canFreeMaxMinusCurr     -- `self.max_size - self.curr_size`
  | canFreeHypothetic       -- `hypothetic_mem_size -= to_evict.mem_size()`
  | canFreeMaxMinusHyp      -- `self.max_size - hypothetic_mem_size`
  | evictCurrSize           -- `self.curr_size -= field.mem_size()`
  | insertRelative          -- `index - ref_index - 1`
  | insertPostbase          -- `index - self.base - 1`
  | blockedCountSub         -- `self.blocked_count -= total_acked`
  | prefixAssert            -- block.rs `assert!(required <= total_inserted)`
  | prefixNewDivZero        -- `required % (2 * max_entries)` with `max_entries = 0`
  | prefixGetDivZero        -- `total_inserted % (2 * max_entries)` with `max_entries = 0`
  | prefixGetUnderflow      -- `insert_count + total_inserted - wrapped`
  | incrementSub            -- decoder.rs `self.table.total_inserted() - inserted_on_start`
deriving DecidableEq, Repr

/-- `dynamic::Error` plus the few `DecoderError`/`EncoderError` kinds the modelled paths produce. -/
inductive Err where
  | badRelativeIndex | badPostbaseIndex | badIndex
  | maxTableSizeReached | maximumTableSizeTooLarge | maxBlockedStreamsTooLarge
  | unknownStreamId | invalidTrackingCount
  | invalidStaticIndex
  | missingRefs (r : Nat)
  | badBaseIndex
  | prefixOverflow           -- `ParseError::Integer(Overflow)`: non-zero encoded Required Insert Count, capacity 0
deriving DecidableEq, Repr

inductive Res (α : Type) where
  | ok (a : α)
  | err (e : Err)
  | panic (s : Site)
deriving Repr, DecidableEq

@[inline] def Res.bind : Res α → (α → Res β) → Res β
  | .ok a, f => f a
  | .err e, _ => .err e
  | .panic s, _ => .panic s

def Res.toOption : Res α → Option α
  | .ok a => some a
  | _ => none

/-- checked subtraction -/
def csub (a b : Nat) (s : Site) : Res Nat := if b ≤ a then .ok (a - b) else .panic s

/-! ## Association lists (maps with unique keys) -/

def aget [DecidableEq κ] : List (κ × ν) → κ → Option ν
  | [], _ => none
  | (k, v) :: r, x => if k = x then some v else aget r x

/-- remove the binding of `x` (keys are unique in every map the code builds) -/
def aerase [DecidableEq κ] (m : List (κ × ν)) (x : κ) : List (κ × ν) := m.filter (fun p => p.1 ≠ x)

/-- insert or replace -/
def aset [DecidableEq κ] : List (κ × ν) → κ → ν → List (κ × ν)
  | [], x, w => [(x, w)]
  | (k, v) :: r, x, w => if k = x then (k, w) :: r else (k, v) :: aset r x w

/-- `entry(k).and_modify(|x| *x = v)` -/
def aModify [DecidableEq κ] (m : List (κ × ν)) (k : κ) (v : ν) : List (κ × ν) :=
  match aget m k with
  | some _ => aset m k v
  | none => m

/-- reference count stored for `a` (0 when absent) -/
def cnt (m : List (Nat × Nat)) (a : Nat) : Nat := (aget m a).getD 0

/-! ## `VirtualAddressSpace` (vas.rs) -/

structure Vas where
  inserted : Nat := 0
  dropped : Nat := 0
  delta : Nat := 0
deriving DecidableEq, Repr

def Vas.add (v : Vas) : Vas × Nat :=
  ({ v with inserted := v.inserted + 1, delta := v.delta + 1 }, v.inserted + 1)

def Vas.drop (v : Vas) : Res Vas :=
  if v.delta = 0 then .panic .vasDropDelta
  else .ok { v with dropped := v.dropped + 1, delta := v.delta - 1 }

/-- `relative`: encoder-stream relative index -> position in `fields`. -/
def Vas.relative (v : Vas) (index : Nat) : Option Nat :=
  if v.inserted < index ∨ v.delta = 0 ∨ v.inserted - index ≤ v.dropped then none
  else some (v.inserted - v.dropped - index - 1)

def Vas.evicted (v : Vas) (index : Nat) : Bool := index ≠ 0 ∧ index ≤ v.dropped

def Vas.relativeBase (v : Vas) (base index : Nat) : Option Nat :=
  if v.delta = 0 ∨ index > base ∨ base - index ≤ v.dropped then none
  else some (base - v.dropped - index - 1)

def Vas.postBase (v : Vas) (base index : Nat) : Option Nat :=
  if v.delta = 0 ∨ base + index ≥ v.inserted ∨ base + index < v.dropped then none
  else some (base + index - v.dropped)

/-- `index`: position in `fields` -> absolute index (1-based). -/
def Vas.index (v : Vas) (i : Nat) : Option Nat :=
  if i ≥ v.delta then none else some (i + v.dropped + 1)

def Vas.largestRef (v : Vas) : Res Nat := csub v.inserted v.dropped .vasLargestRef

/-! ## Static table (tables regenerated from `static_.rs`) -/

def staticGet (i : Nat) : Option Field :=
  match H3.Gen.QStatic.table[i]? with
  | some (n, v) => some ⟨n, v⟩
  | none => none

def staticFind (f : Field) : Option Nat := aget H3.Gen.QStatic.findTbl (f.name, f.value)
def staticFindName (n : Bytes) : Option Nat := aget H3.Gen.QStatic.findNameTbl n

/-! ## `DynamicTable` (dynamic.rs) -/

abbrev RefMap := List (Nat × Nat)

structure Table where
  fields : List Field := []                 -- VecDeque, head = oldest
  currSize : Nat := 0
  maxSize : Nat := 0
  vas : Vas := {}
  fieldMap : List (Field × Nat) := []
  nameMap : List (Bytes × Nat) := []
  trackMap : RefMap := []                   -- absolute index -> reference count
  trackBlocks : List (Nat × List RefMap) := []   -- stream id -> queue of per-block reference maps
  lkr : Nat := 0                            -- largest_known_received
  blockedMax : Nat := 0
  blockedCount : Nat := 0
  blockedStreams : RefMap := []             -- required insert count -> number of blocks
deriving DecidableEq, Repr

def SETTINGS_MAX_TABLE_CAPACITY_MAX : Nat := 1073741823
def SETTINGS_MAX_BLOCKED_STREAMS_MAX : Nat := 65535

def Table.totalInserted (t : Table) : Nat := t.vas.inserted

def Table.isTracked (t : Table) (a : Nat) : Bool := cnt t.trackMap a > 0

/-- `track_ref` -/
def Table.trackRef (t : Table) (a : Nat) : Table :=
  { t with trackMap := aset t.trackMap a (cnt t.trackMap a + 1) }

/-- the `for` loop of `can_free`: returns (hypothetic_mem_size, evictable). -/
def canFreeLoop (t : Table) (lb : Nat) : List Field → Nat → Nat → Nat → Res (Nat × Nat)
  | [], _, hyp, ev => .ok (hyp, ev)
  | f :: fs, idx, hyp, ev =>
    if hyp ≤ lb then .ok (hyp, ev)
    else match t.vas.index idx with
      | none => .panic .canFreeIndexUnwrap
      | some a =>
        if t.isTracked a then .ok (hyp, ev)
        else if hyp < f.memSize then .panic .canFreeHypothetic
        else canFreeLoop t lb fs (idx + 1) (hyp - f.memSize) (ev + 1)

/-- `can_free`: `ok (some n)` = evict n entries; `ok none` = cannot make room. -/
def Table.canFree (t : Table) (required : Nat) : Res (Option Nat) :=
  if required > t.maxSize then .err .maxTableSizeReached
  else if t.maxSize < t.currSize then .panic .canFreeMaxMinusCurr
  else if t.maxSize - t.currSize ≥ required then .ok (some 0)
  else
    match canFreeLoop t (t.maxSize - required) t.fields 0 t.currSize 0 with
    | .ok (hyp, ev) =>
      if t.maxSize < hyp then .panic .canFreeMaxMinusHyp
      else if required ≤ t.maxSize - hyp then .ok (some ev) else .ok none
    | .err e => .err e
    | .panic s => .panic s

/-- map maintenance of one eviction: drop the entry for `k` when it points at an evicted index -/
def eraseIfEvicted [DecidableEq κ] (m : List (κ × Nat)) (v : Vas) (k : κ) : List (κ × Nat) :=
  match aget m k with
  | some a => if v.evicted a then aerase m k else m
  | none => m

/-- one iteration of `evict` -/
def Table.evict1 (t : Table) : Res Table :=
  match t.fields with
  | [] => .err .maxTableSizeReached
  | f :: rest =>
    if t.currSize < f.memSize then .panic .evictCurrSize
    else match t.vas.drop with
      | .ok v =>
        .ok { t with fields := rest, currSize := t.currSize - f.memSize, vas := v,
                     nameMap := eraseIfEvicted t.nameMap v f.name,
                     fieldMap := eraseIfEvicted t.fieldMap v f }
      | .err e => .err e
      | .panic s => .panic s

def Table.evict : Nat → Table → Res Table
  | 0, t => .ok t
  | n + 1, t => t.evict1.bind (Table.evict n)

/-- `DynamicTable::insert`: `ok (none, _)` = not inserted. -/
def Table.insert (t : Table) (f : Field) : Res (Option Nat × Table) :=
  if t.maxSize = 0 then .ok (none, t)
  else match t.canFree f.memSize with
    | .ok none => .ok (none, t)
    | .ok (some n) =>
      (t.evict n).bind fun t1 =>
        let (v, a) := t1.vas.add
        .ok (some a, { t1 with currSize := t1.currSize + f.memSize, fields := t1.fields ++ [f], vas := v })
    | .err e => .err e
    | .panic s => .panic s

/-- `DynamicTable::put` (decoder side of an insertion) -/
def Table.put (t : Table) (f : Field) : Res Table :=
  (t.insert f).bind fun (r, t1) =>
    match r with
    | none => .ok t1
    | some a =>
      let t2 := { t1 with fieldMap := aset t1.fieldMap f a }
      if (staticFindName f.name).isSome then .ok t2
      else .ok { t2 with nameMap := aset t2.nameMap f.name a }

/-- `DynamicTable::get_relative` -/
def Table.getRelative (t : Table) (index : Nat) : Res Field :=
  match t.vas.relative index with
  | none => .err .badRelativeIndex
  | some i => match t.fields[i]? with
    | some f => .ok f
    | none => .err .badIndex

def Table.setMaxBlocked (t : Table) (m : Nat) : Res Table :=
  if m ≥ SETTINGS_MAX_BLOCKED_STREAMS_MAX then .err .maxBlockedStreamsTooLarge
  else .ok { t with blockedMax := m }

/-- `DynamicTable::set_max_size` (after `fix: refuse a QPACK dynamic table capacity reduction that
    cannot be satisfied`, D-20b: `can_free` answering `None` is an error, the table stays as it was). -/
def Table.setMaxSize (t : Table) (size : Nat) : Res Table :=
  if size > SETTINGS_MAX_TABLE_CAPACITY_MAX then .err .maximumTableSizeTooLarge
  else if size ≥ t.maxSize then .ok { t with maxSize := size }
  else match t.canFree (t.maxSize - size) with
    | .ok (some n) => (t.evict n).bind fun t1 => .ok { t1 with maxSize := size }
    | .ok none => .err .maxTableSizeReached
    | .err e => .err e
    | .panic s => .panic s

/-- the loop of `track_cancel` over the (key, count) pairs of one block, on `track_map` -/
def cancelRefs : RefMap → RefMap → Res RefMap
  | tm, [] => .ok tm
  | tm, (a, c) :: r =>
    match aget tm a with
    | none => .err .invalidTrackingCount
    | some have_ =>
      if have_ < c then .err .invalidTrackingCount
      else if have_ = c then cancelRefs (aerase tm a) r
      else cancelRefs (aset tm a (have_ - c)) r

/-- `track_cancel` -/
def Table.trackCancel (t : Table) (m : RefMap) : Res Table :=
  (cancelRefs t.trackMap m).bind fun tm => .ok { t with trackMap := tm }

/-- `untrack_block` -/
def Table.untrackBlock (t : Table) (sid : Nat) : Res Table :=
  match aget t.trackBlocks sid with
  | none => .err .unknownStreamId
  | some [] => .ok { t with trackBlocks := aerase t.trackBlocks sid }   -- not constructible
  | some [b] => Table.trackCancel { t with trackBlocks := aerase t.trackBlocks sid } b
  | some (b :: rest) => Table.trackCancel { t with trackBlocks := aset t.trackBlocks sid rest } b

/-- `track_block` -/
def Table.trackBlock (t : Table) (sid : Nat) (refs : RefMap) : Table :=
  match aget t.trackBlocks sid with
  | some q => { t with trackBlocks := aset t.trackBlocks sid (q ++ [refs]) }
  | none => { t with trackBlocks := aset t.trackBlocks sid [refs] }

/-- `register_blocked` -/
def Table.registerBlocked (t : Table) (largest : Nat) : Table :=
  if largest ≤ t.lkr then t
  else { t with blockedCount := t.blockedCount + 1,
                blockedStreams := aset t.blockedStreams largest (cnt t.blockedStreams largest + 1) }

/-- `update_largest_received` -/
def Table.updateLargestReceived (t : Table) (increment : Nat) : Res Table :=
  let lkr := t.lkr + increment
  let t1 := { t with lkr := lkr }
  if t.blockedCount = 0 then .ok t1
  else
    let acked := t.blockedStreams.filter (fun p => p.1 ≤ lkr)
    let blocked := t.blockedStreams.filter (fun p => ¬ p.1 ≤ lkr)
    let total := (acked.map (·.2)).foldl (· + ·) 0
    if acked.isEmpty then .ok { t1 with blockedStreams := blocked }
    else (csub t.blockedCount total .blockedCountSub).bind fun c =>
      .ok { t1 with blockedStreams := blocked, blockedCount := c }

/-! ## `DynamicTableEncoder` -/

inductive Lookup where
  | static (i : Nat)
  | relative (index absolute : Nat)
  | postBase (index absolute : Nat)
  | notFound
deriving DecidableEq, Repr

inductive Insertion where
  | inserted (postbase absolute : Nat)
  | duplicated (relative postbase absolute : Nat)
  | insertedWithNameRef (postbase relative absolute : Nat)
  | insertedWithStaticNameRef (postbase index absolute : Nat)
  | notInserted (l : Lookup)
deriving DecidableEq, Repr

/-- `DynamicTableEncoder` (the `commited` flag is not needed: the model stops at the first error). -/
structure TEnc where
  table : Table
  base : Nat
  streamId : Nat
  blockRefs : RefMap := []
deriving DecidableEq, Repr

/-- the map refresh at the top of `DynamicTable::encoder()` -/
def refreshMaps (v : Vas) : List Field → Nat → List (Field × Nat) → List (Bytes × Nat) →
    Res (List (Field × Nat) × List (Bytes × Nat))
  | [], _, fm, nm => .ok (fm, nm)
  | f :: fs, idx, fm, nm =>
    match v.index idx with
    | none => .panic .encoderIndexUnwrap
    | some a => refreshMaps v fs (idx + 1) (aset fm f a) (aset nm f.name a)

/-- `DynamicTable::encoder(stream_id)` -/
def Table.encoder (t : Table) (sid : Nat) : Res TEnc :=
  (refreshMaps t.vas t.fields 0 t.fieldMap t.nameMap).bind fun (fm, nm) =>
    t.vas.largestRef.bind fun base =>
      .ok { table := { t with fieldMap := fm, nameMap := nm }, base := base, streamId := sid }

/-- `DynamicTableEncoder::track_ref` -/
def TEnc.trackRef (e : TEnc) (a : Nat) : TEnc :=
  { e with blockRefs := aset e.blockRefs a (cnt e.blockRefs a + 1), table := e.table.trackRef a }

/-- `lookup_result` -/
def TEnc.lookupResult (e : TEnc) : Option Nat → TEnc × Lookup
  | none => (e, .notFound)
  | some a =>
    if a ≤ e.base then (e.trackRef a, .relative (e.base - a) a)
    else (e.trackRef a, .postBase (a - e.base - 1) a)

def TEnc.find (e : TEnc) (f : Field) : TEnc × Lookup := e.lookupResult (aget e.table.fieldMap f)

def TEnc.findName (e : TEnc) (n : Bytes) : TEnc × Lookup :=
  match staticFindName n with
  | some i => (e, .static i)
  | none => e.lookupResult (aget e.table.nameMap n)

/-- the part of `DynamicTableEncoder::insert` after `self.table.insert` returned `Ok(Some(index))` and
    `self.track_ref(index)` was done (`e`); `base` is `self.base` -/
def TEnc.afterInsert (e : TEnc) (f : Field) (index : Nat) : Res (TEnc × Insertion) :=
  match aget e.table.fieldMap f with
  | some refIndex =>
    -- Entry::Occupied: field_map updated, name_map `and_modify`
    let e2 := { e with table := { e.table with fieldMap := aset e.table.fieldMap f index,
                                               nameMap := aModify e.table.nameMap f.name index } }
    (csub index (refIndex + 1) .insertRelative).bind fun rel =>
    (csub index (e.base + 1) .insertPostbase).bind fun pb =>
      .ok (e2.trackRef refIndex, .duplicated rel pb index)
  | none =>
    let e2 := { e with table := { e.table with fieldMap := aset e.table.fieldMap f index } }
    match staticFindName f.name with
    | some si =>
      (csub index (e.base + 1) .insertPostbase).bind fun pb =>
        .ok (e2, .insertedWithStaticNameRef pb si index)
    | none =>
      match aget e2.table.nameMap f.name with
      | some refIndex =>
        let e3 := { e2 with table := { e2.table with nameMap := aset e2.table.nameMap f.name index } }
        (csub index (e.base + 1) .insertPostbase).bind fun pb =>
        (csub index (refIndex + 1) .insertRelative).bind fun rel =>
          .ok (e3.trackRef refIndex, .insertedWithNameRef pb rel index)
      | none =>
        let e3 := { e2 with table := { e2.table with nameMap := aset e2.table.nameMap f.name index } }
        (csub index (e.base + 1) .insertPostbase).bind fun pb =>
          .ok (e3, .inserted pb index)

/-- the `NotInserted(self.find_name(&field.name))` exit -/
def TEnc.notInserted (e : TEnc) (f : Field) : TEnc × Insertion :=
  ((e.findName f.name).1, .notInserted (e.findName f.name).2)

/-- `DynamicTableEncoder::insert` -/
def TEnc.insert (e : TEnc) (f : Field) : Res (TEnc × Insertion) :=
  if e.table.blockedCount ≥ e.table.blockedMax then .ok (e.notInserted f)
  else
    match e.table.insert f with
    | .ok (none, _) | .err .maxTableSizeReached => .ok (e.notInserted f)
    | .err er => .err er
    | .panic s => .panic s
    | .ok (some index, t1) => (({ e with table := t1 } : TEnc).trackRef index).afterInsert f index

/-- `commit` -/
def TEnc.commit (e : TEnc) (largestRef : Nat) : Table :=
  (e.table.trackBlock e.streamId e.blockRefs).registerBlocked largestRef

/-! ## Instructions, representations, prefix -/

/-- encoder-stream instructions (stream.rs, 4.3) -/
inductive EncInstr where
  | sizeUpdate (n : Nat)
  | insertStatic (index : Nat) (value : Bytes)
  | insertDyn (relative : Nat) (value : Bytes)
  | insertLit (name value : Bytes)
  | dup (relative : Nat)
deriving DecidableEq, Repr

/-- decoder-stream instructions (4.4) -/
inductive DecInstr where
  | ack (sid : Nat)
  | cancel (sid : Nat)
  | incr (n : Nat)
deriving DecidableEq, Repr

/-- field-line representations (block.rs, 4.5) -/
inductive Rep where
  | indexedStatic (i : Nat)
  | indexedDyn (rel : Nat)
  | indexedPost (i : Nat)
  | litStatic (i : Nat) (v : Bytes)
  | litDyn (rel : Nat) (v : Bytes)
  | litPost (i : Nat) (v : Bytes)
  | lit (n v : Bytes)
deriving DecidableEq, Repr

/-- `HeaderPrefix` -/
structure Prefix where
  eic : Nat
  sign : Bool
  delta : Nat
deriving DecidableEq, Repr

structure Block where
  pfx : Prefix
  reps : List Rep
deriving DecidableEq, Repr

/-- `HeaderPrefix::new` -/
def prefixNew (required base totalInserted maxTableSize : Nat) : Res Prefix :=
  if maxTableSize = 0 then .ok ⟨0, false, 0⟩
  else if required = 0 then .ok ⟨0, false, 0⟩
  else if ¬ required ≤ totalInserted then .panic .prefixAssert
  else
    let sd : Bool × Nat := if required > base then (true, required - base - 1) else (false, base - required)
    let maxEntries := maxTableSize / 32
    if maxEntries = 0 then .panic .prefixNewDivZero
    else .ok ⟨required % (2 * maxEntries) + 1, sd.1, sd.2⟩

/-- the Required Insert Count half of `HeaderPrefix::get` -/
def prefixRequired (eic totalInserted maxTableSize : Nat) : Res Nat :=
  if eic = 0 then .ok 0
  else
    let ic := eic - 1
    let maxEntries := maxTableSize / 32
    if maxEntries = 0 then .panic .prefixGetDivZero
    else
      let wrapped := totalInserted % (2 * maxEntries)
      if wrapped ≥ ic + maxEntries then .ok (ic + 2 * maxEntries + totalInserted - wrapped)
      else if wrapped + maxEntries < ic then
        csub (ic + totalInserted) (wrapped + 2 * maxEntries) .prefixGetUnderflow
      else .ok (ic + totalInserted - wrapped)

/-- `HeaderPrefix::get`: (required, base) -/
def prefixGet (p : Prefix) (totalInserted maxTableSize : Nat) : Res (Nat × Nat) :=
  if maxTableSize = 0 then
    -- a table of capacity 0 never holds an entry: the only Required Insert Count is 0, the sign bit must be 0
    if p.eic ≠ 0 then .err .prefixOverflow
    else if p.sign then .err .badBaseIndex
    else .ok (0, 0)
  else (prefixRequired p.eic totalInserted maxTableSize).bind fun required =>
    if required = 0 then .ok (0, 0)
    else if ¬ p.sign then .ok (required, required + p.delta)
    else if p.delta + 1 > required then .err .badBaseIndex
    else .ok (required, required - p.delta - 1)

/-! ## `Encoder` -/

/-- accumulated output of one `encode` call -/
structure EncOut where
  instrs : List EncInstr := []
  reps : List Rep := []
  required : Nat := 0
deriving DecidableEq, Repr

def EncOut.ref (o : EncOut) (a : Nat) : EncOut := { o with required := max o.required a }

/-- what `encode_field` writes for a `NotInserted(lookup)` -/
def emitLookup (o : EncOut) (f : Field) : Lookup → EncOut
  | .static index => { o with reps := o.reps ++ [.litStatic index f.value] }
  | .relative index absolute => ({ o with reps := o.reps ++ [.litDyn index f.value] } : EncOut).ref absolute
  | .postBase index absolute => ({ o with reps := o.reps ++ [.litPost index f.value] } : EncOut).ref absolute
  | .notFound => { o with reps := o.reps ++ [.lit f.name f.value] }

/-- what `encode_field` writes for each `DynamicInsertionResult` -/
def emitInsertion (o : EncOut) (f : Field) : Insertion → EncOut
  | .duplicated relative postbase absolute =>
    ({ o with instrs := o.instrs ++ [.dup relative], reps := o.reps ++ [.indexedPost postbase] } : EncOut).ref absolute
  | .inserted postbase absolute =>
    ({ o with instrs := o.instrs ++ [.insertLit f.name f.value], reps := o.reps ++ [.indexedPost postbase] } : EncOut).ref absolute
  | .insertedWithStaticNameRef postbase index absolute =>
    ({ o with instrs := o.instrs ++ [.insertStatic index f.value], reps := o.reps ++ [.indexedPost postbase] } : EncOut).ref absolute
  | .insertedWithNameRef postbase relative absolute =>
    ({ o with instrs := o.instrs ++ [.insertDyn relative f.value], reps := o.reps ++ [.indexedPost postbase] } : EncOut).ref absolute
  | .notInserted l => emitLookup o f l

/-- `Encoder::encode_field` -/
def encodeField (e : TEnc) (o : EncOut) (f : Field) : Res (TEnc × EncOut) :=
  match staticFind f with
  | some i => .ok (e, { o with reps := o.reps ++ [.indexedStatic i] })
  | none =>
    match (e.find f).2 with
    | .relative index absolute =>
      .ok ((e.find f).1, ({ o with reps := o.reps ++ [.indexedDyn index] } : EncOut).ref absolute)
    | _ => ((e.find f).1.insert f).bind fun (e2, r) => .ok (e2, emitInsertion o f r)

def encodeFields : TEnc → EncOut → List Field → Res (TEnc × EncOut)
  | e, o, [] => .ok (e, o)
  | e, o, f :: fs => (encodeField e o f).bind fun (e1, o1) => encodeFields e1 o1 fs

/-- result of `Encoder::encode`: new table, encoder-stream instructions, header block, return value -/
structure Encoded where
  table : Table
  instrs : List EncInstr
  block : Block
  required : Nat
  /-- not returned by the code: the Base the representations were written against -/
  base : Nat
  /-- not returned by the code: the reference map handed to `track_block` -/
  refMap : RefMap
deriving DecidableEq, Repr

/-- `Encoder::encode` -/
def encode (t : Table) (sid : Nat) (fields : List Field) : Res Encoded :=
  (t.encoder sid).bind fun e0 =>
  (encodeFields e0 {} fields).bind fun (e, o) =>
  (prefixNew o.required e.base e.table.totalInserted e.table.maxSize).bind fun p =>
    .ok { table := e.commit o.required, instrs := o.instrs, block := ⟨p, o.reps⟩, required := o.required,
          base := e.base, refMap := e.blockRefs }

/-- one instruction on the decoder stream, as `Action::parse` + the `match` in `on_decoder_recv`
    (after `fix: accept QPACK Insert Count Increment values above 64`, D-20a, the parser accepts
    every increment that fits `usize`). -/
def decoderInstr (t : Table) : DecInstr → Res Table
  | .ack sid => t.untrackBlock sid
  | .cancel sid =>
    match t.untrackBlock sid with
    | .ok t1 => (match t1.untrackBlock sid with
      | .ok t2 => .ok t2
      | .err _ => .ok t1
      | .panic s => .panic s)
    | .err _ => .ok t
    | .panic s => .panic s
  | .incr n => t.updateLargestReceived n

/-- `Encoder::on_decoder_recv` over the delivered instructions: returns the table reached and the
    error that stopped the loop, if any (instructions before it stay applied). -/
def onDecoderRecv : Table → List DecInstr → Table × Option (Err ⊕ Site)
  | t, [] => (t, none)
  | t, i :: r =>
    match decoderInstr t i with
    | .ok t1 => onDecoderRecv t1 r
    | .err e => (t, some (.inl e))
    | .panic s => (t, some (.inr s))

/-- `set_dynamic_table_size` (encoder.rs) -/
def setDynamicTableSize (t : Table) (size : Nat) : Res (Table × List EncInstr) :=
  (t.setMaxSize size).bind fun t1 => .ok (t1, [.sizeUpdate size])

/-! ## `Decoder` -/

/-- `parse_instruction` + the `match` of `on_encoder_recv`, one instruction -/
def encoderInstr (t : Table) : EncInstr → Res Table
  | .sizeUpdate n => t.setMaxSize n
  | .insertLit n v => t.put ⟨n, v⟩
  | .dup rel => (t.getRelative rel).bind fun f => t.put f
  | .insertStatic i v =>
    match staticGet i with
    | some f => t.put (f.withValue v)
    | none => .err .invalidStaticIndex
  | .insertDyn rel v => (t.getRelative rel).bind fun f => t.put (f.withValue v)

def encoderInstrs : Table → List EncInstr → Table × Option (Err ⊕ Site)
  | t, [] => (t, none)
  | t, i :: r =>
    match encoderInstr t i with
    | .ok t1 => encoderInstrs t1 r
    | .err e => (t, some (.inl e))
    | .panic s => (t, some (.inr s))

/-- `Decoder::on_encoder_recv`: (table, decoder-stream output, result) -/
def onEncoderRecv (t : Table) (ins : List EncInstr) : Table × List DecInstr × Res Nat :=
  match encoderInstrs t ins with
  | (t1, some (.inl e)) => (t1, [], .err e)
  | (t1, some (.inr s)) => (t1, [], .panic s)
  | (t1, none) =>
    if t1.totalInserted ≠ t.totalInserted then
      if t1.totalInserted < t.totalInserted then (t1, [], .panic .incrementSub)
      else (t1, [.incr (t1.totalInserted - t.totalInserted)], .ok t1.totalInserted)
    else (t1, [], .ok t1.totalInserted)

/-- `DynamicTableDecoder::get_relative` -/
def Table.getRelativeBase (t : Table) (base index : Nat) : Res Field :=
  match t.vas.relativeBase base index with
  | none => .err .badRelativeIndex
  | some i => match t.fields[i]? with
    | some f => .ok f
    | none => .err .badIndex

/-- `DynamicTableDecoder::get_postbase` -/
def Table.getPostBase (t : Table) (base index : Nat) : Res Field :=
  match t.vas.postBase base index with
  | none => .err .badPostbaseIndex
  | some i => match t.fields[i]? with
    | some f => .ok f
    | none => .err .badIndex

def staticGetR (i : Nat) : Res Field :=
  match staticGet i with
  | some f => .ok f
  | none => .err .invalidStaticIndex

/-- `parse_header_field` at the representation level -/
def decodeRep (t : Table) (base : Nat) : Rep → Res Field
  | .indexedStatic i => staticGetR i
  | .indexedDyn rel => t.getRelativeBase base rel
  | .indexedPost i => t.getPostBase base i
  | .litStatic i v => (staticGetR i).bind fun f => .ok (f.withValue v)
  | .litDyn rel v => (t.getRelativeBase base rel).bind fun f => .ok (f.withValue v)
  | .litPost i v => (t.getPostBase base i).bind fun f => .ok (f.withValue v)
  | .lit n v => .ok ⟨n, v⟩

def decodeReps (t : Table) (base : Nat) : List Rep → Res (List Field)
  | [] => .ok []
  | r :: rs => (decodeRep t base r).bind fun f => (decodeReps t base rs).bind fun fs => .ok (f :: fs)

/-- `Decoder::decode_header`: decoded fields and `dyn_ref` -/
def decodeHeader (t : Table) (b : Block) : Res (List Field × Bool) :=
  (prefixGet b.pfx t.totalInserted t.maxSize).bind fun (required, base) =>
    if required > t.totalInserted then .err (.missingRefs required)
    else (decodeReps t base b.reps).bind fun fs => .ok (fs, decide (required > 0))

/-- table as the tests (and the harness) configure it: `set_max_size`, `set_max_blocked` on a new table -/
def Table.configured (cap bl : Nat) : Res Table :=
  ((({} : Table).setMaxSize cap)).bind fun t => t.setMaxBlocked bl

end H3.Dyn
