import H3.Model.Varint
import H3.Gen.Consts
import H3.Gen.Settings
/-! Model of the SETTINGS code in `h3/src/proto/frame.rs` (`SettingId`, `Settings`,
    `SettingsError`, the `Frame::Settings` arms of `Frame::{encode,decode}`), of the error
    mapping `SettingsError → FrameError → FrameProtocolError → Code`
    (`h3/src/frame.rs`, `h3/src/error/internal_error.rs`) and of
    `WriteBuf::from(UniStreamHeader::Control(settings))` (`h3/src/stream.rs`).

    `frame::Settings` is `{ entries: [(SettingId, u64); SETTINGS_LEN], len }`.  Only `insert`
    and `Default` write it, so the slots from `len` on are always `(SettingId::NONE, 0)`; the
    model keeps the used prefix `entries` (its length is `len`) and rebuilds the unused slots
    where the code looks at them (`get` scans all `SETTINGS_LEN` slots).

    A panic (`unwrap` on `VarInt::from_u64`, writing past the end of the `WriteBuf` array) is
    the explicit outcome `none`.  The model describes the tree *with* the repair of D-13
    (`insert` refuses identifiers and values that do not fit a varint).  `Settings::decode` is
    modelled in the two shapes the translator knows (`H3.Gen.Settings.booleanIds`): `[]` = every
    understood identifier is stored with the value it carries (before the repair of D-13b),
    `[8, 51]` = `is_boolean() && value > 1` is `InvalidSettingValue`. -/
namespace H3.Settings
open H3.Varint H3.Gen.Consts H3.Gen.Settings

/-- `SettingsError`. -/
inductive SettingsError where
  | exceeded
  | malformed
  | repeated (id : Nat)
  | invalidSettingId (id : Nat)
  | invalidSettingValue (id : Nat) (value : Nat)
deriving Repr, DecidableEq

deriving instance DecidableEq for Except

/-- `frame::Settings`: the used prefix of the slot array (`len = entries.length`). -/
structure Settings where
  entries : List (Nat × Nat)
deriving Repr, DecidableEq

/-- `Settings::default()`. -/
def empty : Settings := ⟨[]⟩

/-- `SettingId::is_supported`. -/
def isSupported (id : Nat) : Bool := supportedIds.contains id

/-- `SettingId::is_forbidden`: identifiers HTTP/2 defined and HTTP/3 reserves. -/
def isForbidden (id : Nat) : Bool := forbiddenIds.contains id

/-- `SettingId::is_boolean`: the understood identifiers whose only values are 0 and 1 (the list is read
    from the source by the translator; `[]` when the source has no such test, D-13b). -/
def isBoolean (id : Nat) : Bool := booleanIds.contains id

/-- the test in front of the insert in `Settings::decode`: `identifier.is_boolean() && value > 1` -/
def badValue (id v : Nat) : Bool := isBoolean id && decide (1 < v)

/-- `SettingId::grease()` for the random draw `n` (`fastrand::u64(0..GREASE_N_BOUND)`). -/
def greaseId (n : Nat) : Nat := n * GREASE_MUL + GREASE_ADD

/-- does the used prefix hold `id`?  (`entries[..len].iter().any(|(i, _)| *i == id)`) -/
def hasId (s : Settings) (id : Nat) : Bool := s.entries.any (fun e => e.1 == id)

/-- `Settings::insert` (with the D-13 repair: the two varint range checks). -/
def insert (s : Settings) (id value : Nat) : Except SettingsError Settings :=
  if s.entries.length ≥ SETTINGS_LEN then .error .exceeded
  else if id ≥ 2^62 then .error (.invalidSettingId id)
  else if value ≥ 2^62 then .error (.invalidSettingValue id value)
  else if hasId s id then .error (.repeated id)
  else .ok ⟨s.entries ++ [(id, value)]⟩

/-- the whole slot array: used prefix, then `(SettingId::NONE, 0)`. -/
def slots (s : Settings) : List (Nat × Nat) :=
  s.entries ++ List.replicate (SETTINGS_LEN - s.entries.length) (SETTING_NONE, 0)

/-- `Settings::get`: first slot (used or not) with that identifier. -/
def get (s : Settings) (id : Nat) : Option Nat :=
  ((slots s).find? (fun e => e.1 == id)).map (·.2)

/-- `FrameHeader::len` for `Settings`; `none` = `unwrap` on an out-of-range value panics. -/
def payloadLen? : List (Nat × Nat) → Option Nat
  | [] => some 0
  | (id, v) :: r => do
    let a ← (fromU64 id).bind size?
    let b ← (fromU64 v).bind size?
    let n ← payloadLen? r
    pure (a + b + n)

/-- the loop of `Settings::encode`: `id.encode(buf); buf.write_var(*val)` per used entry. -/
def payload? : List (Nat × Nat) → Option Bytes
  | [] => some []
  | (id, v) :: r => do
    let a ← writeVar id
    let b ← writeVar v
    let n ← payload? r
    pure (a ++ b ++ n)

/-- `Settings::encode` into an unbounded buffer: type, length, entries. -/
def encode? (s : Settings) : Option Bytes := do
  let t ← writeVar FRAME_SETTINGS
  let n ← payloadLen? s.entries
  let l ← writeVar n
  let p ← payload? s.entries
  pure (t ++ l ++ p)

/-- `WriteBuf::from(UniStreamHeader::Control(settings))`: stream type, then the frame, written
    into the `WRITE_BUF_ENCODE_SIZE`-byte array (`&mut [u8]` as `BufMut` panics when full). -/
def controlHeader? (s : Settings) : Option Bytes := do
  let t ← writeVar STREAM_CONTROL
  let f ← encode? s
  if (t ++ f).length > WRITE_BUF_ENCODE_SIZE then none else pure (t ++ f)

/-- one identifier/value pair off the front (`SettingId::decode`, `get_var`), after the
    `remaining() < 2` test; `none` = `SettingsError::Malformed`. -/
def readEntry (bs : Bytes) : Option (Nat × Nat × Bytes) :=
  if bs.length < 2 then none else
  match Varint.decode bs with
  | .endOf _ => none
  | .ok id r1 =>
    match Varint.decode r1 with
    | .endOf _ => none
    | .ok v r2 => some (id, v, r2)

/-- the `while buf.has_remaining()` loop of `Settings::decode` (fuel = an upper bound of the
    number of iterations; every iteration consumes at least two bytes). -/
def decodeLoop : Nat → Settings → Bytes → Except SettingsError Settings
  | 0, s, _ => .ok s
  | f+1, s, bs =>
    if bs.isEmpty then .ok s else
    match readEntry bs with
    | none => .error .malformed
    | some (id, v, rest) =>
      if isForbidden id then .error (.invalidSettingId id)
      else if isSupported id then
        if badValue id v then .error (.invalidSettingValue id v) else
        match insert s id v with
        | .error e => .error e
        | .ok s' => decodeLoop f s' rest
      else decodeLoop f s rest

/-- `Settings::decode` of a complete frame payload. -/
def decode (bs : Bytes) : Except SettingsError Settings := decodeLoop bs.length empty bs

/-- `FrameError` as far as a SETTINGS frame can produce it. -/
inductive FrameError where
  | settings (e : SettingsError)
  | incomplete
  | other
deriving Repr, DecidableEq

/-- The code the connection is closed with when `Frame::decode` fails on the control stream:
    `FrameError::Settings(e)` ↦ `FrameProtocolError::Settings(e)` ↦ `H3_SETTINGS_ERROR`
    (`InternalConnectionError::got_frame_error`), whatever `e` is. -/
def connCode (_e : SettingsError) : Nat := CODE_H3_SETTINGS_ERROR

/-- `Frame::decode` of the bytes `04 len payload…`: the SETTINGS arm.  `some (r, rest)`:
    result and unread bytes; the frame layer itself (type/length/`Incomplete`) belongs to C02,
    only what C13 needs is modelled: a complete SETTINGS frame. -/
def frameDecode (bs : Bytes) : Option (Except SettingsError Settings × Bytes) :=
  match Varint.decode bs with
  | .endOf _ => none
  | .ok ty r1 =>
    if ty ≠ FRAME_SETTINGS then none else
    match Varint.decode r1 with
    | .endOf _ => none
    | .ok len r2 =>
      if r2.length < len then none else some (decode (r2.take len), r2.drop len)

end H3.Settings
