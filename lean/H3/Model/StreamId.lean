import H3.Model.Varint
/-! Model of `h3/src/proto/stream.rs` `StreamId`, `proto/push.rs`, `webtransport/session_id.rs`
    conversions, with `u64` arithmetic made explicit. -/
namespace H3.StreamId

def U64MAX : Nat := 2^64 - 1
def VARINT_MAX : Nat := 2^62 - 1

/-- `TryFrom<u64> for StreamId` / `SessionId`: `v > VarInt::MAX.0` is refused. -/
def tryFrom (v : Nat) : Option Nat := if v > VARINT_MAX then none else some v

/-- `TryFrom<u64> for PushId` goes through `VarInt::try_from`. -/
def pushTryFrom (v : Nat) : Option Nat := H3.Varint.fromU64 v

/-- `initiator()`: `self.0 & 1`; 0 = client, 1 = server. -/
def initiator (id : Nat) : Nat := id % 2
/-- `dir()`: `self.0 & 2`; 0 = bidirectional, 1 = unidirectional. -/
def dir (id : Nat) : Nat := (id / 2) % 2
def index (id : Nat) : Nat := id / 4
def isRequest (id : Nat) : Bool := dir id == 0 && initiator id == 0
def isPush (id : Nat) : Bool := dir id == 1 && initiator id == 1

/-- `StreamId::new(index, dir, initiator)` = `index << 2 | dir << 1 | initiator`, in `u64`
    (the shift wraps modulo 2^64 in release builds; the theorems show it never does here). -/
def new (idx d i : Nat) : Nat := (idx * 4) % 2^64 + d * 2 + i

/-- `u64::saturating_add`. -/
def satAdd (a b : Nat) : Nat := min (a + b) U64MAX

/-- `impl Add<usize> for StreamId` (`rhs as u64` is lossless on the 64-bit targets modelled). -/
def add (id rhs : Nat) : Nat :=
  new (min (satAdd (index id) rhs) (VARINT_MAX / 4)) (dir id) (initiator id)

/-- `From<SessionId> for StreamId` is the identity on the number; `From<StreamId> for SessionId`
    is modelled as what the code computes (see `Session` model for the property). -/
def sessionToStream (s : Nat) : Nat := s

/-! ### RFC 9000 §2.1 -/
inductive Kind where
  | clientBidi | serverBidi | clientUni | serverUni
deriving Repr, DecidableEq

/-- RFC 9000 Table 1: the two least significant bits. -/
def rfcKind (id : Nat) : Kind :=
  match id % 4 with
  | 0 => .clientBidi
  | 1 => .serverBidi
  | 2 => .clientUni
  | _ => .serverUni

end H3.StreamId
