import H3.Gen.Consts
import H3.Gen.Headers
/-! Model of `h3/src/proto/headers.rs` (`Field::parse`, `Header::{try_from, into_request_parts,
    into_response_parts, into_trailers/into_fields, request, response, trailer}`, `HeaderIter`,
    `Pseudo`), of `h3/src/ext.rs` (`Protocol`) and of what the three call sites
    (`server::ResolvedRequest::resolve`, `client::RequestStream::recv_response`,
    `connection::RequestStream::poll_recv_trailers`) do with a `HeaderError`.

    Bytes are `Nat`s in a `List Nat`.  The `http` crate is a *parameter*:

    * four validators are small and are what property C12 is about; they are given here as
      concrete functions describing what `http` 1.x does (`fromLowercase` = `HeaderName::
      from_lowercase`, `validValue` = `HeaderValue::from_bytes`, `validMethod` =
      `Method::from_bytes`, `validStatus` = `StatusCode::from_bytes`);
    * `Scheme`, `Authority`, `PathAndQuery` parsing and `Uri::builder().build()` stay abstract: the
      structure `Http`.  A parser maps the value bytes to `none` (refused) or to the `as_str()` of
      the parsed value.  The laws the theorems need are listed in `HttpLaws`.
    * `HeaderMap` is an insertion-ordered list of groups (name, values in arrival order).

    Six decisions of the code are read from the source on every run (`H3.Gen.Headers`):
    `nameRejectsDquote`, `mapFallible`, `trailersRefusePseudo` — `true` on a tree with the three
    `fix:` commits of C12 and `false` on the tree before them —, `mapPresizeRefuses` — `false`
    on a tree with the D-01 fix (a map that cannot be pre-sized starts empty), `true` before it —,
    `hostEveryValue` — `true` on a tree with the D-12e fix (`into_request_parts` looks at every
    `Host` value), `false` before it (only the first one) —, `otherKindRefused` — `true` on a
    tree with the D-12f fix (`into_request_parts` refuses a section with a `:status` field,
    `into_response_parts` one with a request pseudo-header field), `false` before it (they were
    ignored) — and (a seventh) `pseudoSyntaxChecked` — `true` on a tree with the D-12g fix
    (`Field::parse` checks the syntax of `:scheme` / `:authority` / `:path` values itself,
    `pseudoValueSyntax`, before delegating to the `http` parsers), `false` before it.
    The model follows the tree it is built against; the theorems need `mapPresizeRefuses = false`
    and the other six `true`. -/
namespace H3.Headers
open H3.Gen

abbrev Bytes := List Nat
/-- one decoded field line: (name, value) -/
abbrev FieldLine := Bytes × Bytes

/-! ### names and constants -/
def nMethod : Bytes := [58, 109, 101, 116, 104, 111, 100]                    -- ":method"
def nScheme : Bytes := [58, 115, 99, 104, 101, 109, 101]                     -- ":scheme"
def nAuthority : Bytes := [58, 97, 117, 116, 104, 111, 114, 105, 116, 121]   -- ":authority"
def nPath : Bytes := [58, 112, 97, 116, 104]                                 -- ":path"
def nStatus : Bytes := [58, 115, 116, 97, 116, 117, 115]                     -- ":status"
def nProtocol : Bytes := [58, 112, 114, 111, 116, 111, 99, 111, 108]         -- ":protocol"
def nHost : Bytes := [104, 111, 115, 116]                                    -- "host"
def mCONNECT : Bytes := [67, 79, 78, 78, 69, 67, 84]
def mOPTIONS : Bytes := [79, 80, 84, 73, 79, 78, 83]
def sHttps : Bytes := [104, 116, 116, 112, 115]
def slash : Bytes := [47]
/-- `b':'` -/
def colon : Nat := 58

/-- `name[0] == b':'` (only asked of non-empty names). -/
def isPseudoName (n : Bytes) : Bool := n.head? == some colon

/-! ### the four concrete validators (what `http` 1.x does) -/

/-- lower-case token bytes: `!#$%&'*+-.^_`|~`, digits, `a`–`z`. -/
def isLowerTok (b : Nat) : Bool :=
  b == 33 || (35 ≤ b && b ≤ 39) || b == 42 || b == 43 || b == 45 || b == 46 ||
  (48 ≤ b && b ≤ 57) || (94 ≤ b && b ≤ 122) || b == 124 || b == 126

/-- token bytes (RFC 9110 `tchar`), as in `http`'s `METHOD_CHARS`. -/
def isTchar (b : Nat) : Bool := isLowerTok b || (65 ≤ b && b ≤ 90)

/-- the non-zero entries of `http`'s `HEADER_CHARS_H2`: lower-case token bytes **and `"`**. -/
def isH2NameByte (b : Nat) : Bool := isLowerTok b || b == 34

/-- `HeaderName::from_lowercase(name).is_ok()` (`MAX_HEADER_NAME_LEN` = 2^16 − 1). -/
def fromLowercase (n : Bytes) : Bool := !n.isEmpty && n.length ≤ 65535 && n.all isH2NameByte

/-- `HeaderValue::from_bytes(v).is_ok()`: every byte ≥ 0x20 except 0x7f, or HTAB. -/
def validValue (v : Bytes) : Bool := v.all fun b => (32 ≤ b && b != 127) || b == 9

/-- `Method::from_bytes(v).is_ok()`: non-empty, token bytes. -/
def validMethod (m : Bytes) : Bool := !m.isEmpty && m.all isTchar

def isDigit (b : Nat) : Bool := 48 ≤ b && b ≤ 57

/-- `StatusCode::from_bytes(v).is_ok()`: exactly three digits, the first not `0`. -/
def validStatus : Bytes → Bool
  | [a, b, c] => 49 ≤ a && a ≤ 57 && isDigit b && isDigit c
  | _ => false

/-- the `u16` of an accepted status. -/
def statusVal : Bytes → Nat
  | [a, b, c] => (a - 48) * 100 + (b - 48) * 10 + (c - 48)
  | _ => 0

/-- `StatusCode::as_str` (for 100 ≤ n ≤ 999). -/
def statusDigits (n : Nat) : Bytes := [48 + n / 100, 48 + n / 10 % 10, 48 + n % 10]

/-- What `Field::parse` accepts as a regular field name: `HeaderName::from_lowercase`, and (with
    the fix) no `"`. -/
def nameAccepted (n : Bytes) : Bool :=
  (!Headers.nameRejectsDquote || !n.contains 34) && fromLowercase n

/-- `Protocol::from_str(v).ok().map(as_str)` (`h3/src/ext.rs`; table regenerated from the source). -/
def parseProtocol (v : Bytes) : Option Bytes := if Headers.protocols.contains v then some v else none

/-! ### the abstract part of `http` -/

/-- what is observable of a built `Uri`: `scheme_str()`, `authority()`, `path_and_query()`. -/
structure Uri where
  scheme : Option Bytes
  authority : Option Bytes
  path : Option Bytes
deriving Repr, DecidableEq, Inhabited

/-- `http`'s URI machinery.  `parse*`: `from_utf8` + `FromStr`, result = `as_str()` of the value.
    `uriBuild s a p`: `Uri::builder()` given `path_and_query(p)`, `scheme(s)` when present and
    `authority(a)` always, then `build()`. -/
structure Http where
  parseScheme : Bytes → Option Bytes
  parseAuthority : Bytes → Option Bytes
  parsePath : Bytes → Option Bytes
  uriBuild : Option Bytes → Bytes → Option Bytes → Option Uri

/-- The assumptions on the abstract part that the C12 theorems use.  Each is checked against the
    real crate on every verdict table of the correspondence run. -/
structure HttpLaws (H : Http) : Prop where
  /-- `Authority::from_str("")` is refused -/
  authority_nonempty : H.parseAuthority [] = none
  /-- the parsed authority prints as it was written -/
  authority_as_str : ∀ v a, H.parseAuthority v = some a → a = v
  /-- `Uri::builder().authority(b"")….build()` fails -/
  uri_authority_nonempty : ∀ s p, H.uriBuild s [] p = none
  /-- the builder parses its authority with the same parser -/
  uri_authority_parses : ∀ s a p u, H.uriBuild s a p = some u → H.parseAuthority a = some a

/-! ### `HeaderMap` -/

/-- groups in order of first insertion; inside a group the values in order of insertion. -/
abbrev HeaderMap := List (Bytes × List Bytes)

/-- `HeaderMap::append`. -/
def hmAppend : HeaderMap → Bytes → Bytes → HeaderMap
  | [], n, v => [(n, [v])]
  | (k, vs) :: r, n, v => if k = n then (k, vs ++ [v]) :: r else (k, vs) :: hmAppend r n v

/-- the group of a name -/
def hmGroup : HeaderMap → Bytes → List Bytes
  | [], _ => []
  | (k, vs) :: r, n => if k = n then vs else hmGroup r n

/-- `HeaderMap::get(name)`: the first value of the name's group. -/
def hmGet (m : HeaderMap) (n : Bytes) : Option Bytes := (hmGroup m n).head?

/-- the entries in iteration order, names spelled out. -/
def hmIter : HeaderMap → List FieldLine
  | [] => []
  | (k, vs) :: r => vs.map (fun v => (k, v)) ++ hmIter r

/-- `HeaderMap::into_iter()`: the name only on the first value of each group. -/
def hmIntoIter : HeaderMap → List (Option Bytes × Bytes)
  | [] => []
  | (_, []) :: r => hmIntoIter r
  | (k, v :: vs) :: r => (some k, v) :: (vs.map (fun w => (none, w)) ++ hmIntoIter r)

/-- number of values (`HeaderMap::len`). -/
def hmLen (m : HeaderMap) : Nat := (hmIter m).length

/-- `HeaderMap::try_with_capacity(n)` fails: `to_raw_capacity(n) = n + n/3`, rounded up to a power
    of two, exceeds `MAX_SIZE = 2^15` (⇔ `n + n/3 > 2^15`, i.e. `n ≥ 24577`). -/
def capacityOverflow (n : Nat) : Bool := decide (n + n / 3 > 32768)

/-- The largest number of entries — distinct names — an `http::HeaderMap` holds: its index table has
    at most `MAX_SIZE = 2^15` slots, of which `usable_capacity(c) = c - c/4` may be used. -/
def hmMaxEntries : Nat := 24576

/-- `HeaderMap::try_append` (http 1.x `try_append2`): `try_reserve_one()?` runs *first*, before the
    name is looked up.  With `entries.len() == capacity()` it grows the index table to twice its
    size (the table sizes are powers of two whatever the initial capacity was), and `try_grow`
    refuses a table of more than `MAX_SIZE` slots.  So the call fails — `MaxSizeReached` — exactly
    when the map already holds `hmMaxEntries` distinct names, *whatever* the name being appended
    (also a name that is in the map); otherwise it appends: a new name becomes a new entry, a
    further value of a known name goes to the extra values, of which there may be any number.
    (Not modelled: the hash-flooding defence — after a probe sequence of ≥ 512 slots the map turns
    "yellow" and may want to grow at a load of 1/5 already.) -/
def hmTryAppend (m : HeaderMap) (n v : Bytes) : Option HeaderMap :=
  if m.length < hmMaxEntries then some (hmAppend m n v) else none

/-! ### errors and results -/

inductive HeaderError where
  | invalidHeaderName | invalidHeaderValue | invalidRequest
  | missingMethod | missingStatus | missingAuthority | contradictedAuthority
deriving Repr, DecidableEq, Inhabited

def HeaderError.name : HeaderError → String
  | .invalidHeaderName => "InvalidHeaderName"
  | .invalidHeaderValue => "InvalidHeaderValue"
  | .invalidRequest => "InvalidRequest"
  | .missingMethod => "MissingMethod"
  | .missingStatus => "MissingStatus"
  | .missingAuthority => "MissingAuthority"
  | .contradictedAuthority => "ContradictedAuthority"

/-- result of the fallible functions; `panic` is an outcome of its own. -/
inductive Res (α : Type) where
  | ok (a : α)
  | err (e : HeaderError)
  | panic
deriving Repr, DecidableEq

def Res.bind {α β : Type} : Res α → (α → Res β) → Res β
  | .ok a, f => f a
  | .err e, _ => .err e
  | .panic, _ => .panic

/-! ### `Field::parse` -/

inductive Field where
  | method (m : Bytes) | scheme (s : Bytes) | authority (a : Bytes) | path (p : Bytes)
  | status (n : Nat) | protocol (p : Bytes) | header (n v : Bytes)
deriving Repr, DecidableEq

/-- `try_value`: `from_utf8` + `FromStr`, any failure is `InvalidHeaderValue`. -/
def tryValue (parse : Bytes → Option Bytes) (mk : Bytes → Field) (v : Bytes) : Res Field :=
  match parse v with
  | some x => .ok (mk x)
  | none => .err .invalidHeaderValue

/-! `pseudo_value_syntax` (the D-12g fix): what `Field::parse` checks itself before it delegates a
    `:scheme` / `:authority` / `:path` value to the `http` parsers. -/

/-- `u8::is_ascii_alphabetic` -/
def isAlpha (b : Nat) : Bool := (65 ≤ b && b ≤ 90) || (97 ≤ b && b ≤ 122)

/-- `value.first().is_some_and(|b| b.is_ascii_alphabetic())` -/
def firstIsAlpha : Bytes → Bool
  | [] => false
  | b :: _ => isAlpha b

/-- `b.is_ascii_alphanumeric() || matches!(b, b'+' | b'-' | b'.')` -/
def isSchemeByte (b : Nat) : Bool := isAlpha b || isDigit b || b == 43 || b == 45 || b == 46

/-- the `:scheme` arm: a letter first, then letters, digits, `+`, `-`, `.` -/
def schemeSyntax (v : Bytes) : Bool := firstIsAlpha v && v.all isSchemeByte

/-- `value.rsplit(|b| *b == b'@').next().unwrap_or(value)`: what follows the last `@` (the whole
    value when there is none) -/
def hostPortOf (v : Bytes) : Bytes := (v.reverse.takeWhile (· != 64)).reverse

/-- the `:authority` arm: more than one `@` is refused; else the part behind the `@` starts with
    `[`, or everything behind its first `:` is a digit -/
def authoritySyntax (v : Bytes) : Bool :=
  if (v.filter (· == 64)).length > 1 then false
  else (hostPortOf v).head? == some 91 || (((hostPortOf v).dropWhile (· != 58)).drop 1).all isDigit

/-- the `:path` arm: `!value.contains(&b'#')` -/
def pathSyntax (v : Bytes) : Bool := !v.contains 35

/-- `pseudo_value_syntax(name, value)` -/
def pseudoValueSyntax (name value : Bytes) : Bool :=
  if name = nScheme then schemeSyntax value
  else if name = nAuthority then authoritySyntax value
  else if name = nPath then pathSyntax value
  else true

def Field.parse (H : Http) (name value : Bytes) : Res Field :=
  if name.isEmpty then .err .invalidHeaderName
  else if !isPseudoName name then
    if !nameAccepted name then .err .invalidHeaderName
    else if !validValue value then .err .invalidHeaderValue
    else .ok (.header name value)
  else if Headers.pseudoSyntaxChecked && !pseudoValueSyntax name value then .err .invalidHeaderValue
  else if name = nScheme then tryValue H.parseScheme .scheme value
  else if name = nAuthority then tryValue H.parseAuthority .authority value
  else if name = nPath then tryValue H.parsePath .path value
  else if name = nMethod then
    if validMethod value then .ok (.method value) else .err .invalidHeaderValue
  else if name = nStatus then
    if validStatus value then .ok (.status (statusVal value)) else .err .invalidHeaderValue
  else if name = nProtocol then tryValue parseProtocol .protocol value
  else .err .invalidHeaderName

/-! ### `Pseudo`, `Header`, `Header::try_from` -/

structure Pseudo where
  method : Option Bytes := none
  scheme : Option Bytes := none
  authority : Option Bytes := none
  path : Option Bytes := none
  status : Option Nat := none
  protocol : Option Bytes := none
  /-- `Pseudo.len` -/
  len : Nat := 0
deriving Repr, DecidableEq, Inhabited

structure Header where
  pseudo : Pseudo := {}
  fields : HeaderMap := []
deriving Repr, DecidableEq, Inhabited

/-- one turn of the loop in `try_from`: a later pseudo-header field overwrites an earlier one. -/
def Header.add (h : Header) : Field → Header
  | .method m => { h with pseudo := { h.pseudo with method := some m, len := h.pseudo.len + 1 } }
  | .scheme s => { h with pseudo := { h.pseudo with scheme := some s, len := h.pseudo.len + 1 } }
  | .authority a => { h with pseudo := { h.pseudo with authority := some a, len := h.pseudo.len + 1 } }
  | .path p => { h with pseudo := { h.pseudo with path := some p, len := h.pseudo.len + 1 } }
  | .status s => { h with pseudo := { h.pseudo with status := some s, len := h.pseudo.len + 1 } }
  | .protocol p => { h with pseudo := { h.pseudo with protocol := some p, len := h.pseudo.len + 1 } }
  | .header n v => { h with fields := hmAppend h.fields n v }

/-- `fields.try_append(n, v)` would fail for this field: the map is full (only regular fields go
    to the map) -/
def Header.full (h : Header) : Field → Bool
  | .header _ _ => decide (hmMaxEntries ≤ h.fields.length)
  | _ => false

/-- what a full map means: `try_append(..).map_err(InvalidRequest)?`, or the panic of `append` -/
def mapFull : Res Header := if Headers.mapFallible then .err .invalidRequest else .panic

def tryFromLoop (H : Http) : Header → List FieldLine → Res Header
  | h, [] => .ok h
  | h, (n, v) :: r =>
    match Field.parse H n v with
    | .ok f => if h.full f then mapFull else tryFromLoop H (h.add f) r
    | .err e => .err e
    | .panic => .panic

/-- `Header::try_from(Vec<HeaderField>)`.  The map is created for `headers.len()` entries first.
    Before the D-01 fix a failure of that (`mapPresizeRefuses`) ended the conversion: with the
    fallible constructor as `InvalidRequest(MaxSizeReached)`, with the panicking one as a panic.
    With the fix the map then simply starts empty (`unwrap_or_default`); the number of fields is
    only an upper bound for the number of entries.  The initial capacity has no other effect: the
    index table grows by doubling, `try_append` fails exactly at `hmMaxEntries` entries
    (`hmTryAppend`). -/
def tryFrom (H : Http) (fs : List FieldLine) : Res Header :=
  if capacityOverflow fs.length && Headers.mapPresizeRefuses then mapFull
  else tryFromLoop H {} fs

/-! ### receive side: `into_request_parts`, `into_response_parts`, trailers -/

structure RequestParts where
  method : Bytes
  uri : Uri
  protocol : Option Bytes
  headers : HeaderMap
deriving Repr, DecidableEq

/-- the `match (self.pseudo.authority, self.fields.get("host"))`: which bytes go to
    `uri.authority(..)`. -/
def chooseAuthority : Option Bytes → Option Bytes → Res Bytes
  | none, none => .err .missingAuthority
  | some a, none => .ok a
  | none, some h => .ok h
  | some a, some h => if a = h then .ok h else .err .contradictedAuthority

/-- `hosts.next()` is `Some(first)` and `hosts.any(|h| h != first)` is false, or there is no
    value: every value of `get_all("host")` is the first one. -/
def allFirst : List Bytes → Bool
  | [] => true
  | first :: rest => rest.all (· == first)

/-- `self.pseudo.method.is_some() || … .scheme … || … .authority … || … .path … || … .protocol …`:
    a pseudo-header field defined for requests was parsed. -/
def Pseudo.hasRequestField (p : Pseudo) : Bool :=
  p.method.isSome || p.scheme.isSome || p.authority.isSome || p.path.isSome || p.protocol.isSome

/-- `Header::into_request_parts`: first (with the D-12f fix, `otherKindRefused`) a section in which a
    `:status` field was parsed is refused with `InvalidHeaderName`; `:path` and `:scheme` go to the
    builder when present, then (with
    the D-12e fix, `hostEveryValue`) a request whose `Host` values are not all the same is refused,
    then the authority decision, then `:method` is demanded, then `build()`. -/
def Header.intoRequestParts (H : Http) (h : Header) : Res RequestParts :=
  if Headers.otherKindRefused && h.pseudo.status.isSome then .err .invalidHeaderName else
  if Headers.hostEveryValue && !allFirst (hmGroup h.fields nHost) then .err .contradictedAuthority else
  match chooseAuthority h.pseudo.authority (hmGet h.fields nHost) with
  | .err e => .err e
  | .panic => .panic
  | .ok auth =>
    match h.pseudo.method with
    | none => .err .missingMethod
    | some m =>
      match H.uriBuild h.pseudo.scheme auth h.pseudo.path with
      | none => .err .invalidRequest
      | some u => .ok { method := m, uri := u, protocol := h.pseudo.protocol, headers := h.fields }

/-- `Header::into_response_parts`: first (with the D-12f fix, `otherKindRefused`) a section in which
    a request pseudo-header field was parsed is refused with `InvalidHeaderName`; then `:status` is
    demanded. -/
def Header.intoResponseParts (h : Header) : Res (Nat × HeaderMap) :=
  if Headers.otherKindRefused && h.pseudo.hasRequestField then .err .invalidHeaderName else
  match h.pseudo.status with
  | none => .err .missingStatus
  | some s => .ok (s, h.fields)

/-- what `poll_recv_trailers` takes out of the parsed section: `into_trailers` (refuses when any
    pseudo-header field was parsed) or, before the fix, `into_fields` (drops them). -/
def Header.intoTrailers (h : Header) : Res HeaderMap :=
  if Headers.trailersRefusePseudo && decide (h.pseudo.len > 0) then .err .invalidHeaderName
  else .ok h.fields

/-- what `server::ResolvedRequest::resolve` computes from a decoded field section -/
def recvRequest (H : Http) (fs : List FieldLine) : Res RequestParts :=
  (tryFrom H fs).bind (Header.intoRequestParts H)

/-- what `client::RequestStream::recv_response` computes -/
def recvResponse (H : Http) (fs : List FieldLine) : Res (Nat × HeaderMap) :=
  (tryFrom H fs).bind Header.intoResponseParts

/-- what `connection::RequestStream::poll_recv_trailers` computes -/
def recvTrailers (H : Http) (fs : List FieldLine) : Res HeaderMap :=
  (tryFrom H fs).bind Header.intoTrailers

/-! ### the call sites: what a refusal becomes -/

inductive Scope where
  | stream | connection
deriving Repr, DecidableEq

/-- what the caller and the peer see of a refusal -/
structure Refusal where
  /-- `StreamError::StreamError{..}` (stream) or a connection error -/
  scope : Scope
  /-- the code in the returned error -/
  code : Nat
  /-- code of the STOP_SENDING sent for the receiving side -/
  stopSending : Option Nat
  /-- code of the RESET_STREAM sent for the sending side -/
  reset : Option Nat
deriving Repr, DecidableEq

/-- `server/request.rs`, `resolve`: any `HeaderError` (of `try_from` or of `into_request_parts`). -/
def siteResolve (_ : HeaderError) : Refusal :=
  { scope := .stream, code := Headers.resolveCode,
    stopSending := Headers.resolveStopSending, reset := Headers.resolveReset }

/-- `client/stream.rs`, `recv_response`: two `map_err` arms, the first after `try_from`, the
    second (`second = true`) after `into_response_parts`; neither looks at the `HeaderError`. -/
def siteRecvResponse (second : Bool) (_ : HeaderError) : Refusal :=
  let arm := (if second then Headers.recvResponseArms[1]? else Headers.recvResponseArms[0]?).getD (0, 0)
  { scope := .stream, code := arm.2, stopSending := some arm.1, reset := none }

/-- which of the two arms of `recv_response` a refusal of `recvResponse` goes through: `try_from`
    succeeded, so it is `into_response_parts` that refused (since the D-12f fix `InvalidHeaderName`
    can come from either). -/
def recvResponseSecond (H : Http) (fs : List FieldLine) : Bool :=
  match tryFrom H fs with
  | .ok _ => true
  | _ => false

/-- `connection.rs`, `poll_recv_trailers`. -/
def siteRecvTrailers (_ : HeaderError) : Refusal :=
  { scope := .stream, code := Headers.trailersArm.2, stopSending := some Headers.trailersArm.1, reset := none }

/-! ### send side: `Pseudo::request`, `Header::{request,response,trailer}`, `HeaderIter` -/

/-- `uri::Parts::from(uri)`: scheme, authority (absent when empty), the stored path-and-query
    string (present when non-empty or when there is a scheme). -/
structure UriParts where
  scheme : Option Bytes
  authority : Option Bytes
  pathAndQuery : Option Bytes
deriving Repr, DecidableEq

/-- `PathAndQuery::path()`: up to the first `?`; `"/"` when that is empty. -/
def pqPath (d : Bytes) : Bytes :=
  let p := d.takeWhile (· != 63)
  if p.isEmpty then slash else p

/-- `PathAndQuery::as_str()`: the stored string; `"/"` when it is empty. -/
def pqAsStr (d : Bytes) : Bytes := if d.isEmpty then slash else d

/-- `Pseudo::request(method, uri, ext)`; `ext` = the `Protocol` found in the extensions. -/
def Pseudo.request (method : Bytes) (uri : UriParts) (ext : Option Bytes) : Pseudo :=
  let path : Bytes :=
    match uri.pathAndQuery with
    | none => slash
    | some d => if (pqPath d).isEmpty && method != mOPTIONS then slash else pqAsStr d
  let protocol := if method = mCONNECT then ext else none
  let plainConnect := method = mCONNECT ∧ protocol = none
  { method := some method
    scheme := if plainConnect then none else some (uri.scheme.getD sHttps)
    authority := uri.authority
    path := if plainConnect then none else some path
    status := none
    protocol := protocol
    len := 3 + (if uri.authority.isSome then 1 else 0) + (if protocol.isSome then 1 else 0) }

/-- `Header::request`. -/
def Header.request (method : Bytes) (uri : UriParts) (fields : HeaderMap) (ext : Option Bytes) : Res Header :=
  match uri.authority, hmGet fields nHost with
  | none, none => .err .missingAuthority
  | some a, some h =>
    if a ≠ h then .err .contradictedAuthority
    else .ok { pseudo := Pseudo.request method uri ext, fields := fields }
  | _, _ => .ok { pseudo := Pseudo.request method uri ext, fields := fields }

/-- `Header::response`. -/
def Header.response (status : Nat) (fields : HeaderMap) : Header :=
  { pseudo := { status := some status, len := 1 }, fields := fields }

/-- `Header::trailer`. -/
def Header.trailer (fields : HeaderMap) : Header := { pseudo := {}, fields := fields }

/-- `HeaderIter`. -/
structure Iter where
  pseudo : Option Pseudo
  last : Option Bytes
  fields : List (Option Bytes × Bytes)
deriving Repr, DecidableEq

/-- `Header::into_iter`. -/
def Header.intoIter (h : Header) : Iter := { pseudo := some h.pseudo, last := none, fields := hmIntoIter h.fields }

/-- the `for … in self.fields.by_ref()` loop of `next`: returns the first item for which a name
    is known, the remembered name and the rest. -/
def nextField : Option Bytes → List (Option Bytes × Bytes) → Option (FieldLine × Option Bytes × List (Option Bytes × Bytes))
  | _, [] => none
  | last, (nn, v) :: r =>
    let last' := match nn with
      | some n => some n
      | none => last
    match last' with
    | some n => some ((n, v), last', r)
    | none => nextField last' r

/-- the `take()` chain on the pseudo-header fields: the first one still present, and what is left. -/
def nextPseudo (p : Pseudo) : Option (FieldLine × Pseudo) :=
  match p.method with
  | some m => some ((nMethod, m), { p with method := none })
  | none =>
  match p.scheme with
  | some s => some ((nScheme, s), { p with scheme := none })
  | none =>
  match p.authority with
  | some a => some ((nAuthority, a), { p with authority := none })
  | none =>
  match p.path with
  | some x => some ((nPath, x), { p with path := none })
  | none =>
  match p.status with
  | some s => some ((nStatus, statusDigits s), { p with status := none })
  | none =>
  match p.protocol with
  | some x => some ((nProtocol, x), { p with protocol := none })
  | none => none

/-- `HeaderIter::next`. -/
def Iter.next (it : Iter) : Option (FieldLine × Iter) :=
  match it.pseudo.bind nextPseudo with
  | some (f, p') => some (f, { it with pseudo := some p' })
  | none =>
    match nextField it.last it.fields with
    | none => none
    | some (f, last', rest) => some (f, { pseudo := none, last := last', fields := rest })

/-- calling `next` until `None`, at most `fuel` times. -/
def Iter.drain : Nat → Iter → List FieldLine
  | 0, _ => []
  | fuel + 1, it =>
    match it.next with
    | none => []
    | some (f, it') => f :: Iter.drain fuel it'

/-- everything the iterator yields (six pseudo-header fields at most, then the map). -/
def Iter.collect (it : Iter) : List FieldLine := it.drain (it.fields.length + 7)

/-- what `qpack::encode_stateless(.., header)` is given for a `Header`. -/
def Header.wireFields (h : Header) : List FieldLine := h.intoIter.collect

end H3.Headers
