import H3.Model.Settings
/-! Model of `h3/src/config.rs` (`Config`, `Settings`, `TryFrom<Config> for frame::Settings`,
    `From<&frame::Settings> for Settings`), of what `ConnectionInner::new` /
    `send_control_stream_headers` (`h3/src/connection.rs`) do with the conversion's result, and
    of the write-once settings cell of `SharedState` (`h3/src/shared_state.rs`). -/
namespace H3.Config
open H3.Varint H3.Settings H3.Gen.Consts H3.Gen.Settings

/-- `config::Settings`. -/
structure Record where
  mfs : Nat
  wt : Bool
  ec : Bool
  dg : Bool
  wts : Nat
deriving Repr, DecidableEq

/-- `config::Settings::default()`. -/
def Record.default : Record :=
  { mfs := DEFAULT_MAX_FIELD_SECTION_SIZE, wt := DEFAULT_ENABLE_WEBTRANSPORT,
    ec := DEFAULT_ENABLE_EXTENDED_CONNECT, dg := DEFAULT_ENABLE_DATAGRAM,
    wts := DEFAULT_MAX_WEBTRANSPORT_SESSIONS }

/-- `config::Config` (`send_settings` exists under `cfg(test)` only). -/
structure Config where
  grease : Bool
  settings : Record
deriving Repr, DecidableEq

/-- `Config::default()`. -/
def Config.default : Config := { grease := DEFAULT_SEND_GREASE, settings := Record.default }

def boolVal (b : Bool) : Nat := if b then 1 else 0

/-- the five `settings.insert(..)?` calls of `TryFrom<Config>`, in source order. -/
def insertAll (s : Settings) (r : Record) : Except SettingsError Settings := do
  let s ← insert s SETTING_MAX_HEADER_LIST_SIZE r.mfs
  let s ← insert s SETTING_ENABLE_CONNECT_PROTOCOL (boolVal r.ec)
  let s ← insert s SETTING_ENABLE_WEBTRANSPORT (boolVal r.wt)
  let s ← insert s SETTING_H3_DATAGRAM (boolVal r.dg)
  insert s SETTING_WEBTRANSPORT_MAX_SESSIONS r.wts

/-- `TryFrom<Config> for frame::Settings`; `n` is the random draw of `SettingId::grease()`.
    A failing grease insert is only logged. -/
def toSettings (c : Config) (n : Nat) : Except SettingsError Settings :=
  let s0 :=
    if c.grease then
      match insert empty (greaseId n) 0 with
      | .ok s => s
      | .error _ => empty
    else empty
  insertAll s0 c.settings

/-- `From<&frame::Settings> for config::Settings`. -/
def fromSettings (s : Settings) : Record :=
  { mfs := (get s SETTING_MAX_HEADER_LIST_SIZE).getD Record.default.mfs
    wt := ((get s SETTING_ENABLE_WEBTRANSPORT).map (· != 0)).getD Record.default.wt
    wts := (get s SETTING_WEBTRANSPORT_MAX_SESSIONS).getD Record.default.wts
    dg := ((get s SETTING_H3_DATAGRAM).map (· != 0)).getD Record.default.dg
    ec := ((get s SETTING_ENABLE_CONNECT_PROTOCOL).map (· != 0)).getD Record.default.ec }

/-- What connection setup (`Builder::build` → `ConnectionInner::new` →
    `send_control_stream_headers`) makes visible to the peer on the control stream. -/
inductive Setup where
  /-- `build` returns the connection; the peer sees these bytes on the control stream -/
  | sent (bytes : Bytes)
  /-- `build` returns an error, the connection is closed with `code`, nothing is written -/
  | refused (code : Nat)
  /-- a panic inside `build` -/
  | panic
deriving Repr, DecidableEq

/-- `send_control_stream_headers`: a conversion error is `H3_INTERNAL_ERROR`
    ("error when creating settings frame"); otherwise the header is encoded and written. -/
def setup (c : Config) (n : Nat) : Setup :=
  match toSettings c n with
  | .error _ => .refused CODE_H3_INTERNAL_ERROR
  | .ok s =>
    match controlHeader? s with
    | none => .panic
    | some b => .sent b

/-- The settings cell of `SharedState`: `OnceLock<config::Settings>`. -/
structure Cell where
  v : Option Record
deriving Repr, DecidableEq

/-- `SharedState::default()`. -/
def Cell.new : Cell := ⟨none⟩

/-- `ConnectionState::set_settings`: `let _ = settings.set(..)` — the first write wins. -/
def Cell.set (c : Cell) (r : Record) : Cell :=
  match c.v with
  | some _ => c
  | none => ⟨some r⟩

/-- `ConnectionState::settings()`: the stored record, else the defaults. -/
def Cell.get (c : Cell) : Record := c.v.getD Record.default

/-- Receiving one SETTINGS payload on the control stream (`poll_control`, first frame):
    decoded and stored, or the connection error code. -/
def receive (c : Cell) (payload : Bytes) : Cell × Option Nat :=
  match H3.Settings.decode payload with
  | .ok s => (c.set (fromSettings s), none)
  | .error e => (c, some (connCode e))

/-- A connection as far as SETTINGS go: `ConnectionInner.config` (the LOCAL configuration `build` was given —
    what is sent to the peer and what the endpoint itself is willing to do) and the cell of `SharedState` that
    holds what the PEER announced. -/
structure Conn where
  config : Config
  cell : Cell
deriving Repr, DecidableEq

/-- `poll_control`, first frame of the peer's control stream: `self.got_peer_settings = true;
    self.set_settings((&settings).into());` — the local configuration is not consulted (nothing is clamped to
    it, nothing of it is overwritten). -/
def Conn.receive (k : Conn) (payload : Bytes) : Conn × Option Nat :=
  ({ k with cell := (Config.receive k.cell payload).1 }, (Config.receive k.cell payload).2)

/-- One entry of `ConnectionInner::pending_recv_streams` as a poll of `poll_accept_recv` finds it
    (only what matters for the peer's SETTINGS). -/
inductive Waiting where
  /-- the stream header is still incomplete: `poll_type` answers `Poll::Pending` (no byte yet, a
      partial type varint, or type PUSH / WEBTRANSPORT_UNI without its second integer) -/
  | header
  /-- the stream resolves to the peer's control stream; its first frame is a complete SETTINGS
      frame carrying `payload` -/
  | control (payload : Bytes)
  /-- the header is complete and names something else (a QPACK stream, a WebTransport stream with its
      session id, an unknown / grease type): `err` = the connection error `poll_accept_recv` raises for it
      (`H3.Control.acceptKind`, C04: a second QPACK encoder / decoder stream), `none` = the stream is kept,
      dropped or answered with STOP_SENDING and the loop goes on with the streams behind it -/
  | foreign (err : Option Nat)
deriving Repr, DecidableEq

/-- what one pass over `pending_recv_streams` finds -/
inductive Scan where
  /-- no control stream among the resolved streams -/
  | nothing
  /-- the control stream `poll_control` then reads, with the payload of its SETTINGS frame -/
  | settings (payload : Bytes)
  /-- a stream in front of the control stream made `poll_accept_recv` return a connection error -/
  | failed (code : Nat)
deriving Repr, DecidableEq

/-- The `for stream in self.pending_recv_streams.iter_mut()` loop of `poll_accept_recv`:
    `Poll::Pending => continue` — a stream whose header is incomplete is passed over, the streams
    behind it are looked at in the same poll; resolved streams are handled in arrival order, an error
    among them ends the call.  Result: the SETTINGS payload of the control stream that `poll_control`
    then reads, if one was found. -/
def scan : List Waiting → Scan
  | [] => .nothing
  | .header :: r => scan r
  | .foreign none :: r => scan r
  | .foreign (some e) :: _ => .failed e
  | .control p :: _ => .settings p

/-- One poll of the connection driver (`poll_control` → `poll_accept_recv` → first frame of the
    control stream) with these accepted unidirectional streams, in arrival order. -/
def receiveScan (c : Cell) (ws : List Waiting) : Cell × Option Nat :=
  match scan ws with
  | .nothing => (c, none)
  | .failed e => (c, some e)
  | .settings p => receive c p

end H3.Config
