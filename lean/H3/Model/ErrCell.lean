import H3.Gen.Consts
/-! Small-step model of the connection error cell of `h3/src/shared_state.rs` and
    `h3/src/error/connection_error_creators.rs`.

    Shared between tasks: `cell` (`SharedState::connection_error : OnceLock<ErrorOrigin>`,
    written with `get_or_init`, read with `get`), `waker` (`SharedState::waker : AtomicWaker`
    holds a registered waker) and `woken` (the executor holds a notification for the driver
    task; set by `Waker::wake`, consumed when the executor polls the driver).

    One *driver* task (`ConnectionInner`: `poll_connection_error`, `handle_connection_error`,
    `close_if_needed`, `convert_to_connection_error`, `handled_connection_error`) and any number
    of *stream handles* (`CloseStream::{handle_connection_error_on_stream,
    handle_quic_stream_error}` → `ConnectionState::set_conn_error_and_wake`).

    One step = one operation on the shared state (plus the task-local code around it):
    `get_or_init`, `get`, `AtomicWaker::register`, `AtomicWaker::wake`, and the executor's
    "poll the driver" / the driver's "return `Pending`".  `OnceLock` and `AtomicWaker` are taken
    with their documented, linearizable semantics (that is the *partial* part of C05).

    The order of the two shared operations inside `poll_connection_error` is the parameter
    `registerFirst`:  `true` = `register; get`,  `false` = `get; register`. -/
namespace H3.ErrCell

/-- `quic::ConnectionErrorIncoming`; `tag` stands for the reason string / the boxed error. -/
inductive QErr where
  | appClose (code : Nat)
  | timeout
  | internal (tag : Nat)
  | undefined (tag : Nat)
deriving Repr, DecidableEq

/-- `ErrorOrigin`: `Internal(InternalConnectionError { code, message })` or `Quic(..)`. -/
inductive Err where
  | internal (code tag : Nat)
  | quic (q : QErr)
deriving Repr, DecidableEq

/-- `ConnectionError`: `Local { Application { code, reason } }`, `Remote(..)`, `Timeout`. -/
inductive CErr where
  | localApp (code tag : Nat)
  | remote (q : QErr)
  | timeout
deriving Repr, DecidableEq

/-- the free function `convert_to_connection_error`. -/
def convert : Err → CErr
  | .internal c t => .localApp c t
  | .quic .timeout => .timeout
  | .quic q => .remote q

/-- `close_if_needed`: the `(code, reason)` handed to `quic::Connection::close`, if any.
    An error is *local* (detected by h3 itself or inside the QUIC trait implementation) iff
    this is `some _`. -/
def closeOf : Err → Option (Nat × Nat)
  | .internal c t => some (c, t)
  | .quic (.internal t) => some (H3.Gen.Consts.CODE_H3_INTERNAL_ERROR, t)
  | .quic _ => none

/-- Where the driver task is. `idle` = not being polled (a yield point); `started` = inside a
    poll, no `poll_connection_error` call completed yet; `mid` = between the two shared
    operations of `poll_connection_error`; `armed` = inside a poll, the last
    `poll_connection_error` call returned `Pending` (only now may the poll return `Pending`). -/
inductive DPc where
  | idle | started | mid | armed
deriving Repr, DecidableEq

/-- A stream handle (DESIGN.md's `start e | afterSet | done r`, generalised to successive calls
    so that "later calls on the same handle" are runs of the same task): the errors it will
    still raise (one call each, in order), whether it is
    between the store and the wake of a call (`mid = some r`, `r` = what `get_or_init`
    returned), and what its completed calls returned (most recent first; the caller sees
    `StreamError::ConnectionError(convert r)`). -/
structure Task where
  todo : List Err
  mid : Option Err
  rets : List Err
deriving Repr, DecidableEq

structure State where
  cell : Option Err
  waker : Bool
  woken : Bool
  pc : DPc
  /-- the driver's last poll returned `Pending` and it has not been polled since -/
  parked : Bool
  /-- `ConnectionInner::handled_connection_error` -/
  handled : Option CErr
  /-- calls of `quic::Connection::close` so far, `(code, reason tag)`, oldest first -/
  closes : List (Nat × Nat)
  /-- connection errors returned by the driver's calls so far, most recent first -/
  drets : List CErr
  tasks : List Task
deriving Repr, DecidableEq

/-- What the driver does next; chosen by the schedule (the driver's control flow outside the
    error cell is not modelled, every flow is allowed). `poll`: the executor polls the driver;
    `pce`: the next shared operation of a `poll_connection_error` call; `det e`: the driver
    detects `e` itself (`handle_connection_error e`); `park`: the poll returns `Pending`;
    `bidi r`: the end of a poll of client `poll_close`, whose `poll_accept_bi` is `Ready` — with the
    transport's error (`some q`) or with a server-initiated stream (`none`), see `clientTail`;
    `shut`: a `shutdown()` call, as far as the error state is concerned — its first statement
    `check_connection_error()?` (see `checkErr`), made while the driver is not inside a poll. -/
inductive DOp where
  | poll | pce | det (e : Err) | park | bidi (r : Option QErr) | shut
deriving Repr, DecidableEq

/-- A schedule entry: the driver (with its next call) or the next step of stream handle `i`. -/
inductive TaskId where
  | drv (op : DOp)
  | str (i : Nat)
deriving Repr, DecidableEq

/-- a call finds `handled_connection_error` set and returns it. -/
def retHandled (s : State) (h : CErr) : State :=
  { s with pc := .idle, drets := h :: s.drets }

/-- `close_if_needed e; convert_to_connection_error e` and return the error. -/
def observe (s : State) (e : Err) : State :=
  { s with closes := s.closes ++ (closeOf e).toList, handled := some (convert e),
           drets := convert e :: s.drets, pc := .idle }

/-- `get_conn_error()` and the branch on it. -/
def chk (s : State) (next : DPc) : State :=
  match s.cell with
  | some e => observe s e
  | none => { s with pc := next }

/-- `waker().register(cx.waker())`. -/
def reg (s : State) (next : DPc) : State := { s with waker := true, pc := next }

/-- first half of `poll_connection_error`. -/
def pceFirst (registerFirst : Bool) (s : State) : State :=
  match s.handled with
  | some h => retHandled s h
  | none => if registerFirst then reg s .mid else chk s .mid

/-- second half of `poll_connection_error`. -/
def pceSecond (registerFirst : Bool) (s : State) : State :=
  if registerFirst then chk s .armed else reg s .armed

/-- `handle_connection_error e`. -/
def detect (s : State) (e : Err) : State :=
  match s.handled with
  | some h => retHandled s h
  | none =>
    let w := s.cell.getD e
    observe { s with cell := some w } w

/-- what the client raises when it is handed a server-initiated bidirectional stream (RFC 9114 §6.1;
    the reason string is fixed, tag 0). -/
def clientBidiErr : Err := .internal H3.Gen.Consts.CODE_H3_STREAM_CREATION_ERROR 0

/-- The tail of client `Connection::poll_close`:
    `if self.inner.poll_accept_bi(cx).is_ready() { return Ready(handle_connection_error(H3_STREAM_CREATION_ERROR)) }`.
    `poll_accept_bi` is `Ready` either with a stream or with the transport's error, which it has
    already passed through `handle_connection_error` itself (`.map_err(|e| self.handle_connection_error(e))`);
    `is_ready()` does not tell the two apart, so the client raises H3_STREAM_CREATION_ERROR in both
    cases and returns what that second `handle_connection_error` answers. -/
def clientTail (s : State) (r : Option QErr) : State :=
  let s1 := match r with
    | some q => detect s (.quic q)
    | none => s
  detect s1 clientBidiErr

/-- `ConnectionInner::check_connection_error` — what `shutdown` starts with since the repair of
    D-05s: the check `poll_connection_error` makes, without registering a waker.  The handled error
    if there is one; otherwise the cell's error, acted on (`close_if_needed`,
    `convert_to_connection_error`) as a driver poll would; otherwise `Ok(())`: nothing changes.
    A call that reports is a driver call that has met the error: the driver is no longer `parked`
    (its last call did not answer `Pending`). -/
def checkErr (s : State) : State :=
  match s.handled with
  | some h => { retHandled s h with parked := false }
  | none =>
    match s.cell with
    | some e => { observe s e with parked := false }
    | none => s

def dstep (registerFirst : Bool) (s : State) : DOp → State
  | .poll =>
    match s.pc with
    | .idle => { s with pc := .started, woken := false, parked := false }
    | _ => s
  | .pce =>
    match s.pc with
    | .started => pceFirst registerFirst s
    | .armed => pceFirst registerFirst s
    | .mid => pceSecond registerFirst s
    | .idle => s
  | .det e =>
    match s.pc with
    | .started => detect s e
    | .armed => detect s e
    | _ => s
  | .park =>
    match s.pc with
    | .armed => { s with pc := .idle, parked := true }
    | _ => s
  | .bidi r =>
    match s.pc with
    | .started => clientTail s r
    | .armed => clientTail s r
    | _ => s
  | .shut =>
    match s.pc with
    | .idle => checkErr s
    | _ => s

/-- `set_conn_error` (`get_or_init`): first half of `set_conn_error_and_wake`. -/
def sset (s : State) (i : Nat) (t : Task) (e : Err) (rest : List Err) : State :=
  let w := s.cell.getD e
  { s with cell := some w, tasks := s.tasks.set i { todo := rest, mid := some w, rets := t.rets } }

/-- `waker().wake()` and return: second half of `set_conn_error_and_wake`. -/
def swake (s : State) (i : Nat) (t : Task) (r : Err) : State :=
  { s with waker := false, woken := s.woken || s.waker,
           tasks := s.tasks.set i { t with mid := none, rets := r :: t.rets } }

def sstep (s : State) (i : Nat) : State :=
  match s.tasks[i]? with
  | none => s
  | some t =>
    match t.mid with
    | some r => swake s i t r
    | none =>
      match t.todo with
      | [] => s
      | e :: rest => sset s i t e rest

def step (registerFirst : Bool) (s : State) : TaskId → State
  | .drv op => dstep registerFirst s op
  | .str i => sstep s i

def run (registerFirst : Bool) (s : State) (sched : List TaskId) : State :=
  sched.foldl (step registerFirst) s

/-- initial state: handle `i` will raise the errors `todo[i]`. -/
def init (todo : List (List Err)) : State :=
  { cell := none, waker := false, woken := false, pc := .idle, parked := false, handled := none,
    closes := [], drets := [], tasks := todo.map fun es => { todo := es, mid := none, rets := [] } }

/-- every task is at a yield point: the driver is not inside a poll and no handle is between
    its store and its wake. -/
def quiescent (s : State) : Bool :=
  s.pc == .idle && s.tasks.all fun t => t.mid.isNone

/-- the driver would sleep for ever although the connection has failed. -/
def lostWakeup (s : State) : Bool :=
  quiescent s && s.cell.isSome && s.parked && !s.woken

end H3.ErrCell
