import H3.Model.FrameStream
import H3.Gen.ReqArms
/-! Model of the receive side of a request stream (`h3/src/connection.rs`
    `RequestStream::{poll_recv_data,poll_recv_trailers}`, `h3/src/server/request.rs`
    `resolve_request`/`accept_with_frame`/`resolve`, `h3/src/client/stream.rs` `recv_response`) and of
    the error mapping of `h3/src/error/{connection_error_creators,internal_error}.rs`.

    The request layer is written ONCE, against the interface `Src` of the frame layer
    (`poll_next`, `poll_data`, `has_data`, `is_eos`).  Two frame layers are plugged in:

    * `fsSrc`  — the `H3.FS` model of `FrameStream` over a transport script (chunks, FIN, RESET):
                 this composition is what the correspondence run executes;
    * `tokSrc` — a stream of frame-layer answers given directly ("frames with payloads plus an
                 ending"): this is what the C03 theorems quantify over.

    QPACK decoding and header validation are not modelled here (C11/C12): whether a HEADERS block
    decodes to a well-formed message is the parameter `Hdr`. The size limit (`HeaderTooBig`, C10)
    is outside this model. -/
namespace H3.ReqRecv
open H3.Frame H3.Gen.Consts

abbrev Bytes := List Nat
abbrev FOut := H3.FS.Out Frame FrameErr

/-- The frame layer as the request layer uses it. -/
structure Src (σ : Type) where
  /-- `FrameStream::poll_next` -/
  pollNext : σ → FOut × σ
  /-- `FrameStream::poll_data` -/
  pollData : σ → FOut × σ
  /-- `FrameStream::has_data` -/
  hasData : σ → Bool
  /-- `FrameStream::is_eos` -/
  isEos : σ → Bool

inductive Role where
  | server | client
deriving Repr, DecidableEq

/-- what `qpack::decode_stateless` + `Header::try_from` + `into_{request,response}_parts` /
    `into_fields` make of a HEADERS payload -/
inductive HClass where
  /-- decodes to a well-formed message head / trailer section -/
  | ok
  /-- QPACK decodes, the message is malformed -/
  | malformed
  /-- QPACK decoding fails -/
  | qpack
deriving Repr, DecidableEq

structure Hdr where
  head : Bytes → HClass
  trailer : Bytes → HClass

/-- what the calls on this stream do outside the stream object -/
structure Env where
  /-- `SharedState.connection_error` (`OnceLock`): code of the first internal error stored -/
  cell : Option Nat := none
  /-- code of the RESET_STREAM h3 sent on the send half of this stream (first one) -/
  rst : Option Nat := none
  /-- code of the STOP_SENDING h3 sent for the receive half (first one) -/
  stop : Option Nat := none
deriving Repr, DecidableEq

structure St (σ : Type) where
  src : σ
  /-- `RequestStream.trailers` -/
  trailers : Option Bytes := none
  env : Env := {}

/-- answer of one API poll -/
inductive Res where
  /-- `Ok((Request, stream))` / `Ok(Response)`; the header block stands for the decoded head -/
  | head (block : Bytes)
  /-- `recv_data` → `Ok(Some(bytes))` -/
  | data (b : Bytes)
  /-- `recv_data` → `Ok(None)` -/
  | end_
  /-- `recv_trailers` → `Ok(Some(..))` -/
  | trailers (block : Bytes)
  /-- `recv_trailers` → `Ok(None)` -/
  | noTrailers
  /-- `StreamError::ConnectionError(Local{Application{code}})` -/
  | errConn (code : Nat)
  /-- `StreamError::StreamError{code}` -/
  | errStream (code : Nat)
  /-- `StreamError::RemoteTerminate{code}` -/
  | errReset (c : Nat)
  | pending
  /-- the `assert!` of `poll_next` -/
  | panic
  /-- artefact of the model (loop fuel exhausted, or a frame layer answering `poll_next` with a
      data piece): never produced by the code; the theorems show it does not occur -/
  | invalid
deriving Repr, DecidableEq

def Res.isErr : Res → Bool
  | .errConn _ | .errStream _ | .errReset _ => true
  | _ => false

def first (old : Option Nat) (c : Nat) : Option Nat :=
  match old with
  | some o => some o
  | none => some c

/-- `InternalConnectionError::got_frame_error` -/
def frameErrCode : FrameErr → Nat
  | .malformed => CODE_H3_FRAME_ERROR
  | .unsupported _ => CODE_H3_FRAME_UNEXPECTED
  | .settings _ => CODE_H3_SETTINGS_ERROR

variable {σ : Type}

/-- `handle_connection_error_on_stream`: the error goes into the cell unless one is there
    already; the caller gets the error that is in the cell. -/
def connErr (st : St σ) (code : Nat) : Res × St σ :=
  match st.env.cell with
  | some c => (.errConn c, st)
  | none => (.errConn code, { st with env := { st.env with cell := some code } })

/-- `handle_frame_stream_error_on_request_stream` (and the answers of the frame layer that no
    call site expects) -/
def fsErr (st : St σ) : FOut → Res × St σ
  | .errQuic c => (.errReset c, st)
  | .errProto e => connErr st (frameErrCode e)
  | .errEnd => connErr st CODE_H3_FRAME_ERROR
  | .panic => (.panic, st)
  | _ => (.invalid, st)

/-- server: `resolve_request` = `poll_next`, `accept_with_frame`, `resolve` (one poll). -/
def pollResolve (S : Src σ) (H : Hdr) (st : St σ) : Res × St σ :=
  let (o, s') := S.pollNext st.src
  let st' := { st with src := s' }
  match o with
  | .frame (.headers enc) =>
    match H.head enc with
    | .ok => (.head enc, st')
    | .qpack => connErr st' CODE_QPACK_DECOMPRESSION_FAILED
    | .malformed =>
      (.errStream CODE_H3_MESSAGE_ERROR,
       { st' with env := { st'.env with rst := first st'.env.rst CODE_H3_MESSAGE_ERROR,
                                        stop := first st'.env.stop CODE_H3_MESSAGE_ERROR } })
  | .none =>
    (.errStream CODE_H3_REQUEST_INCOMPLETE,
     { st' with env := { st'.env with rst := first st'.env.rst CODE_H3_REQUEST_INCOMPLETE } })
  | .frame _ => connErr st' CODE_H3_FRAME_UNEXPECTED
  | .pending => (.pending, st')
  | e => fsErr st' e

/-- client: `recv_response` (one poll). -/
def pollRecvResponse (S : Src σ) (H : Hdr) (st : St σ) : Res × St σ :=
  let (o, s') := S.pollNext st.src
  let st' := { st with src := s' }
  match o with
  | .frame (.headers enc) =>
    match H.head enc with
    | .ok => (.head enc, st')
    | .qpack => connErr st' CODE_QPACK_DECOMPRESSION_FAILED
    | .malformed =>
      (.errStream CODE_H3_MESSAGE_ERROR,
       { st' with env := { st'.env with stop := first st'.env.stop CODE_H3_MESSAGE_ERROR } })
  -- the response stream ended before any frame: the response is missing, an error of THIS request (nothing is
  -- sent: the receive side is over; the cell is not touched).  Before the repair 132f8d8 this was the connection
  -- error H3_FRAME_UNEXPECTED (finding D-07a, C07).
  | .none => (.errStream CODE_H3_MESSAGE_ERROR, st')
  | .frame _ => connErr st' CODE_H3_FRAME_UNEXPECTED
  | .pending => (.pending, st')
  | e => fsErr st' e

def pollHead (role : Role) (S : Src σ) (H : Hdr) (st : St σ) : Res × St σ :=
  match role with
  | .server => pollResolve S H st
  | .client => pollRecvResponse S H st

/-- the tail of `poll_recv_data`: `self.stream.poll_data(cx).map_err(..)` -/
def dataOut (st : St σ) : FOut → Res × St σ
  | .data d => (.data d, st)
  | .none => (.end_, st)
  | .pending => (.pending, st)
  | .frame _ => (.invalid, st)
  | e => fsErr st e

/-- `RequestStream::poll_recv_data` (one poll). The fuel bounds the `while !has_data` loop, every
    round of which consumes one empty DATA frame. -/
def pollRecvData (S : Src σ) : Nat → St σ → Res × St σ
  | 0, st => (.invalid, st)
  | fuel+1, st =>
    if S.hasData st.src then
      let (o, s') := S.pollData st.src
      dataOut { st with src := s' } o
    else
      let (o, s') := S.pollNext st.src
      let st' := { st with src := s' }
      match o with
      | .frame (.headers enc) => (.end_, { st' with trailers := some enc })
      | .frame (.data _) => pollRecvData S fuel st'
      | .frame _ => connErr st' CODE_H3_FRAME_UNEXPECTED
      | .none => (.end_, st')
      | .pending => (.pending, st')
      | .data _ => (.invalid, st')
      | e => fsErr st' e

/-- the end of `poll_recv_trailers`: decode and validate the trailer section -/
def decodeTrailers (H : Hdr) (st : St σ) (enc : Bytes) : Res × St σ :=
  match H.trailer enc with
  | .ok => (.trailers enc, st)
  | .qpack => connErr st CODE_QPACK_DECOMPRESSION_FAILED
  | .malformed =>
    (.errStream CODE_H3_MESSAGE_ERROR,
     { st with env := { st.env with stop := first st.env.stop CODE_H3_MESSAGE_ERROR } })

/-- the look at the frame after the trailers: only unknown frames (which the frame layer skips)
    may follow; `Pending` ⇒ save the trailers and try again -/
def trailersCheck (S : Src σ) (H : Hdr) (st : St σ) (enc : Bytes) : Res × St σ :=
  let (o, s') := S.pollNext st.src
  let st' := { st with src := s' }
  match o with
  | .frame _ => connErr st' CODE_H3_FRAME_UNEXPECTED
  | .none => decodeTrailers H st' enc
  | .pending => (.pending, { st' with trailers := some enc })
  | .data _ => (.invalid, st')
  | e => fsErr st' e

/-- `poll_recv_trailers` once the trailer block is in hand: `if !self.stream.is_eos()` look at
    the next frame. -/
def trailersTail (S : Src σ) (H : Hdr) (st : St σ) (enc : Bytes) : Res × St σ :=
  if S.isEos st.src then decodeTrailers H st enc else trailersCheck S H st enc

/-- `poll_recv_trailers` when no trailers were remembered by `poll_recv_data`: read a frame -/
def trailersFirst (S : Src σ) (H : Hdr) (st : St σ) : Res × St σ :=
  let (o, s') := S.pollNext st.src
  let st' := { st with src := s' }
  match o with
  | .frame (.headers enc) => trailersTail S H st' enc
  | .frame _ => connErr st' CODE_H3_FRAME_UNEXPECTED
  | .none => (.noTrailers, st')
  | .pending => (.pending, st')
  | .data _ => (.invalid, st')
  | e => fsErr st' e

/-- `RequestStream::poll_recv_trailers` (one poll). -/
def pollRecvTrailers (S : Src σ) (H : Hdr) (st : St σ) : Res × St σ :=
  match st.trailers with
  | some enc => trailersTail S H { st with trailers := none } enc
  | none => trailersFirst S H st

/-- `RequestStream::poll_recv_trailers` as a whole, after the repair "recv_trailers answers an error
    instead of panicking while a DATA payload is outstanding": `if self.stream.has_data()` — the body
    has not been read to its end (`recv_data` has not answered `None`, or it failed inside a DATA
    frame) — the call answers `StreamError { H3_FRAME_UNEXPECTED }` and touches nothing; otherwise
    the function above (`pollRecvTrailers` = everything behind that guard).  In every state of the
    documented pattern `has_data()` is false before `recv_trailers`, so there the two agree. -/
def pollRecvTrailersG (S : Src σ) (H : Hdr) (st : St σ) : Res × St σ :=
  if S.hasData st.src then (.errStream CODE_H3_FRAME_UNEXPECTED, st) else pollRecvTrailers S H st

/-- `poll_recv_trailers` as the source under translation has it: with the guard when the generated
    table says the source has one (`H3.Gen.ReqArms.trailersGuard`, re-read on every run), without
    it otherwise.  The scenario machine below (`Sim`, what the `req` engine executes, also outside
    the documented pattern) calls this one, so the driver follows the tree that is being checked;
    `H3.GenAgree.Req.trailersGuard_agrees` / `pollRecvTrailersT_eq` tie it to `pollRecvTrailersG`. -/
def pollRecvTrailersT (S : Src σ) (H : Hdr) (st : St σ) : Res × St σ :=
  match H3.Gen.ReqArms.trailersGuard with
  | some c => if S.hasData st.src then (.errStream c, st) else pollRecvTrailers S H st
  | none => pollRecvTrailers S H st

/-! ### The documented call pattern

`resolve_request` / `recv_response`; then `recv_data` until it answers `None`; then
`recv_trailers`.  A call that fails ends the pattern; a call that is pending stays pending
(nothing more arrives: the whole input is in the source). -/

/-- `recv_data` until it answers something else than a piece of data -/
def drain (S : Src σ) : Nat → St σ → List Res × St σ
  | 0, st => ([.invalid], st)
  | fuel+1, st =>
    let (r, st') := pollRecvData S (fuel+1) st
    match r with
    | .data d =>
      let (rs, st'') := drain S fuel st'
      (.data d :: rs, st'')
    | r => ([r], st')

structure Trace where
  head : Res
  /-- answers of the `recv_data` calls, in order -/
  body : List Res := []
  /-- answer of `recv_trailers`, when it was called -/
  trailers : Option Res := none
  env : Env
deriving Repr, DecidableEq

/-- after the head: the body until its end is reported, then the trailers -/
def bodyRun (S : Src σ) (H : Hdr) (fuel : Nat) (st : St σ) : List Res × Option Res × Env :=
  let (rs, st2) := drain S fuel st
  if rs.getLast? = some .end_ then
    let (t, st3) := pollRecvTrailers S H st2
    (rs, some t, st3.env)
  else (rs, none, st2.env)

def documented (role : Role) (S : Src σ) (H : Hdr) (fuel : Nat) (st : St σ) : Trace :=
  let (h, st1) := pollHead role S H st
  match h with
  | .head _ =>
    let (rs, t, env) := bodyRun S H fuel st1
    { head := h, body := rs, trailers := t, env := env }
  | _ => { head := h, env := st1.env }

/-! ### Frame layer 1: the `FrameStream` model over a transport script -/

abbrev FSt := H3.FS.St × List H3.FS.Ev

def fsSrc : Src FSt where
  pollNext := fun c =>
    let (o, s', r) := H3.FS.pollNext H3.FS.frameDec c.1 c.2
    (o, (s', r))
  pollData := fun c =>
    let (o, s', r) := H3.FS.pollData (F := Frame) (E := FrameErr) c.1 c.2
    (o, (s', r))
  hasData := fun c => c.1.remaining != 0
  isEos := fun c => c.1.eos && c.1.flat.isEmpty

/-- bytes still to come or buffered: bounds every loop of a run -/
def scriptBytes : List H3.FS.Ev → Nat
  | [] => 0
  | .chunk b :: r => b.length + scriptBytes r
  | _ :: r => scriptBytes r

def fsFuel (c : FSt) : Nat := c.1.flat.length + scriptBytes c.2 + c.2.length + 4

/-- both layers composed: the documented pattern against a transport script -/
def documentedChunks (role : Role) (H : Hdr) (script : List H3.FS.Ev) : Trace :=
  documented role fsSrc H (fsFuel ({}, script)) { src := ({}, script) }

/-! ### Frame layer 2: the answers of the frame layer given directly -/

inductive Item where
  /-- a frame header answered by `poll_next` -/
  | frame (f : Frame)
  /-- a non-empty piece of the current DATA payload answered by `poll_data` -/
  | piece (b : Bytes)
deriving Repr, DecidableEq

/-- what the frame layer answers once the items are used up (it keeps answering it) -/
inductive Term where
  /-- clean end of stream: `Ok(None)` -/
  | fin
  /-- the stream ended inside a frame: `UnexpectedEnd` -/
  | truncated
  /-- `FrameStreamError::Proto` -/
  | proto (e : FrameErr)
  /-- the peer reset the stream -/
  | reset (c : Nat)
  /-- nothing more has arrived: `Pending` -/
  | open_
deriving Repr, DecidableEq

structure TS where
  items : List Item
  term : Term
  /-- `FrameStream.remaining_data` -/
  rem : Nat := 0
deriving Repr, DecidableEq

def kindLen (f : Frame) : Nat :=
  match H3.FS.frameKind f with
  | .plain => 0
  | .data n => n
  | .raw => H3.FS.USIZE_MAX

def Term.next : Term → FOut
  | .fin => .none
  | .truncated => .errEnd
  | .proto e => .errProto e
  | .reset c => .errQuic c
  | .open_ => .pending

def Term.data : Term → FOut
  | .fin => .errEnd
  | .truncated => .errEnd
  | .proto e => .errProto e
  | .reset c => .errQuic c
  | .open_ => .pending

def tokSrc : Src TS where
  pollNext := fun a =>
    if a.rem ≠ 0 then (.panic, a) else
    match a.items with
    | .frame f :: r => (.frame f, { a with items := r, rem := kindLen f })
    | .piece _ :: _ => (.panic, a)
    | [] => (a.term.next, a)
  pollData := fun a =>
    if a.rem = 0 then (.none, a) else
    match a.items with
    | .piece b :: r => (.data b, { a with items := r, rem := a.rem - b.length })
    | .frame _ :: _ => (.panic, a)
    | [] => (a.term.data, a)
  hasData := fun a => a.rem != 0
  isEos := fun _ => false

/-- A frame as it arrives on a request stream, with what the frame layer makes of it. -/
inductive Tok where
  | headers (block : Bytes)
  /-- DATA with declared length `len`, payload handed out in `pieces` -/
  | data (len : Nat) (pieces : List Bytes)
  /-- a frame of a type h3 does not know (incl. reserved/grease types): skipped -/
  | unknown (ty : Nat) (payload : Bytes)
  | cancelPush (id : Nat)
  | settings (entries : List (Nat × Nat))
  | pushPromise (id : Nat) (enc : Bytes)
  | goaway (id : Nat)
  | maxPushId (id : Nat)
  /-- a frame the frame layer refuses: HTTP/2-reserved type (`unsupported`), malformed payload,
      unacceptable SETTINGS payload -/
  | bad (e : FrameErr)
deriving Repr, DecidableEq

inductive Ending where
  | fin
  /-- FIN inside a frame -/
  | truncated
  | reset (c : Nat)
  | open_
deriving Repr, DecidableEq

def Ending.term : Ending → Term
  | .fin => .fin
  | .truncated => .truncated
  | .reset c => .reset c
  | .open_ => .open_

/-- the frame layer's answers for a frame sequence and an ending -/
def compile : List Tok → Ending → List Item × Term
  | [], e => ([], e.term)
  | .headers b :: r, e => let (is, t) := compile r e; (.frame (.headers b) :: is, t)
  | .data n ps :: r, e =>
    -- a DATA payload that has not arrived in full is the last thing the frame layer hands out
    if ps.flatten.length < n then (.frame (.data n) :: ps.map .piece, e.term)
    else let (is, t) := compile r e; (.frame (.data n) :: (ps.map .piece ++ is), t)
  | .unknown _ _ :: r, e => compile r e
  | .cancelPush v :: r, e => let (is, t) := compile r e; (.frame (.cancelPush v) :: is, t)
  | .settings es :: r, e => let (is, t) := compile r e; (.frame (.settings es) :: is, t)
  | .pushPromise i p :: r, e => let (is, t) := compile r e; (.frame (.pushPromise i p) :: is, t)
  | .goaway v :: r, e => let (is, t) := compile r e; (.frame (.goaway v) :: is, t)
  | .maxPushId v :: r, e => let (is, t) := compile r e; (.frame (.maxPushId v) :: is, t)
  | .bad err :: _, _ => ([], .proto err)

def TS.ofToks (toks : List Tok) (e : Ending) : TS :=
  { items := (compile toks e).1, term := (compile toks e).2 }

/-- the documented pattern against a frame sequence -/
def documentedFrames (role : Role) (H : Hdr) (fuel : Nat) (toks : List Tok) (e : Ending) : Trace :=
  documented role tokSrc H fuel { src := TS.ofToks toks e }

/-! ### Scenarios: peer events and API calls in any order (what the harness executes)

All tasks run to quiescence after every op, so a call either completes or is pending on the
transport; a pending call is polled again when the next peer event for the stream arrives;
calls posted meanwhile wait in the task's mailbox. -/

inductive Cmd where
  /-- `resolve_request` (server) -/
  | res
  /-- `recv_response` (client) -/
  | rr
  | rd
  /-- `recv_data` until it answers `None` or an error -/
  | rda
  | rt
  /-- `RequestStream::split`: the task goes on with the receive half (the send half becomes another
      task, which this model does not follow) -/
  | sp
deriving Repr, DecidableEq

structure Call where
  cmd : Cmd
  /-- the task ends when this call fails (documented pattern: no calls after an error) -/
  halt : Bool := false
deriving Repr, DecidableEq

inductive Op where
  | ev (e : H3.FS.Ev)
  | call (c : Call)
deriving Repr, DecidableEq

inductive Ans where
  | res (r : Res)
  | noTask
  | badCmd
  /-- a command without a result of its own (`split`) has been carried out -/
  | ok
deriving Repr, DecidableEq

structure Sim where
  role : Role
  st : St FSt := { src := ({}, []) }
  alive : Bool := true
  /-- server: the resolver has produced the stream -/
  resolved : Bool := false
  inflight : Option Call := none
  mailbox : List Call := []
  /-- completed calls, newest first -/
  log : List (Cmd × Ans) := []

def Sim.fuel (m : Sim) : Nat := fsFuel m.st.src

/-- `RequestStream::split` / `FrameStream::split` / `BufRecvStream::split` as seen from the receive
    half: it takes over the buffered bytes, the decoder state and `remaining_data` (all in `src`),
    the saved trailers, and shares the connection state — nothing of what the receive calls look
    at changes. -/
def St.recvHalf {σ : Type} (st : St σ) : St σ :=
  { src := st.src, trailers := st.trailers, env := st.env }

/-- one attempt at a call: `none` = still pending -/
def attempt (H : Hdr) (m : Sim) (c : Call) : Nat → Option Sim
  | 0 => some { m with log := (c.cmd, .res .invalid) :: m.log }
  | fuel+1 =>
    let finish (cmd : Cmd) (r : Res) (st : St FSt) (resolved : Bool) : Sim :=
      { m with st := st, resolved := resolved, log := (cmd, .res r) :: m.log,
               alive := !(c.halt && r.isErr) }
    match c.cmd with
    | .sp => some { m with st := m.st.recvHalf, log := (.sp, .ok) :: m.log }
    | .res =>
      let (r, st) := pollResolve fsSrc H m.st
      if r = .pending then none
      -- a failed resolver ends the request task whether or not `halt` was asked for
      else some { finish .res r st (r.isErr == false) with alive := !r.isErr }
    | .rr =>
      let (r, st) := pollRecvResponse fsSrc H m.st
      if r = .pending then none else some (finish .rr r st m.resolved)
    | .rd =>
      let (r, st) := pollRecvData fsSrc m.fuel m.st
      if r = .pending then none else some (finish .rd r st m.resolved)
    | .rt =>
      let (r, st) := pollRecvTrailersT fsSrc H m.st
      if r = .pending then none else some (finish .rt r st m.resolved)
    | .rda =>
      let (r, st) := pollRecvData fsSrc m.fuel m.st
      match r with
      | .pending => none
      | .data d =>
        -- the piece is logged, the loop goes on (and may then be pending: keep the progress)
        let m' := { m with st := st, log := (.rd, .res (.data d)) :: m.log }
        match attempt H m' c fuel with
        | some m'' => some m''
        | none => some { m' with inflight := some c }
      | r => some (finish .rd r st m.resolved)

/-- is the command one the task understands in its current phase? -/
def accepts (m : Sim) (c : Cmd) : Bool :=
  match m.role, m.resolved, c with
  | .server, false, .res => true
  | .server, false, _ => false
  | .server, true, .res => false
  | .server, true, .rr => false
  | .server, true, _ => true
  | .client, _, .res => false
  | .client, _, _ => true

/-- run queued calls until one is pending or the task ends -/
def runQueue (H : Hdr) : List Call → Sim → Sim
  | [], m => { m with mailbox := [] }
  | c :: rest, m =>
    if !m.alive then { m with mailbox := [] }
    else if !accepts m c.cmd then
      runQueue H rest { m with log := (c.cmd, .badCmd) :: m.log }
    else
      match attempt H m c (m.fuel + 1) with
      | none => { m with inflight := some c, mailbox := rest }
      | some m' =>
        match m'.inflight with
        | some _ => { m' with mailbox := rest }   -- `rda` made progress and is pending now
        | none => runQueue H rest m'

def Sim.step (H : Hdr) (m : Sim) : Op → Sim
  | .ev e =>
    let m1 := { m with st := { m.st with src := (m.st.src.1, m.st.src.2 ++ [e]) } }
    if !m1.alive then m1 else
    match m1.inflight with
    | none => m1
    | some c => runQueue H (c :: m1.mailbox) { m1 with inflight := none }
  | .call c =>
    if !m.alive then { m with log := (c.cmd, .noTask) :: m.log }
    else match m.inflight with
      | some _ => { m with mailbox := m.mailbox ++ [c] }
      | none => runQueue H [c] m

def runOps (H : Hdr) (m : Sim) (ops : List Op) : Sim := ops.foldl (Sim.step H) m

end H3.ReqRecv
